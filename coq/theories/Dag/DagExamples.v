(** Non-vacuity examples for the C15 theorems: concrete graphs meeting the hypotheses of each implication. *)
From Coq Require Import List Bool Arith Relations.
From Leaspy Require Import Dag.DagModel Dag.DagProofs.
Import ListNotations.

(** a diamond 0 -> {1,2} -> 3 and a root (4) that sorts late, both feeding 5 *)
Definition g_diamond_late_root : graph := [[]; [0]; [0]; [1; 2]; []; [4; 3]].

Example ex_build_ok :
  build g_diamond_late_root =
  Ok (mkDag [0; 4; 1; 2; 3; 5]
            [[1; 2]; [3]; [3]; [5]; [5]; []]
            [(0, [1; 2; 3; 5]); (4, [5]); (1, [3; 5]); (2, [3; 5]); (3, [5]); (5, [])]
            [(0, []); (4, []); (1, [0]); (2, [0]); (3, [0; 1; 2]); (5, [0; 4; 1; 2; 3])]).
Proof. reflexivity. Qed.

Example ex_reach : reach g_diamond_late_root 0 5.
Proof.
  unfold reach. apply t_trans with 1; [apply t_step; unfold edge; simpl; auto|].
  apply t_trans with 3; apply t_step; unfold edge; simpl; auto.
Qed.

(** the hypotheses of [C15_accepts] hold for it *)
Example ex_accept_hyps :
  ~ cyclic g_diamond_late_root /\ ~ self_loop g_diamond_late_root /\
  ~ unknown_ref g_diamond_late_root /\ ~ isolated g_diamond_late_root.
Proof.
  assert (H : forall P : Prop, (P -> exists e, build g_diamond_late_root = Err e) -> ~ P).
  { intros P HP p. destruct (HP p) as (e & He). vm_compute in He. discriminate. }
  repeat split; apply H; intros; apply build_refuses; tauto.
Qed.

(** a cycle {0,1} that no root leads to (the only root is 2, which feeds 3) *)
Definition g_cycle_off_roots : graph := [[1]; [0]; []; [2]].
Example ex_cyclic : cyclic g_cycle_off_roots.
Proof. exists 0. unfold reach. apply t_trans with 1; apply t_step; unfold edge; simpl; auto. Qed.
Example ex_cyclic_refused : build g_cycle_off_roots = Err ENotDag.
Proof. reflexivity. Qed.

Example ex_self_loop : self_loop [[]; [1; 0]].
Proof. exists 1. unfold edge. simpl. auto. Qed.

Example ex_unknown_ref : unknown_ref [[]; [0; 5]].
Proof. exists 1, 5. unfold edge, nnodes. simpl. split; auto with arith. Qed.

Example ex_isolated : isolated [[]; [0]; []].
Proof.
  exists 2. unfold nnodes, edge. simpl. split; [repeat constructor|]. split; auto.
  intros [|[|[|c]]]; simpl; try (intuition discriminate). destruct c; simpl; tauto.
Qed.

(** same definitions, ancestors listed in another order and with repetitions *)
Example ex_graph_equiv : graph_equiv g_diamond_late_root [[]; [0; 0]; [0]; [2; 1]; []; [3; 4; 3]].
Proof.
  split; [reflexivity|]. intros [|[|[|[|[|[|i]]]]]] x; simpl; try tauto; destruct i; simpl; tauto.
Qed.
