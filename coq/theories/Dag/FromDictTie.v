(** T1 of C15 (extension 4): the tables regenerated from /repo are the model's. *)
From Coq Require Import String List.
From Leaspy Require Import Dag.FromDict Dag.FromDictSrc.
From LeaspyGen Require Import GenC15FromDict.
Import ListNotations.

Definition gen_source : fromdict_source := mkSrc
  gen_gnp_named_result gen_gnp_accepted_kinds gen_gnp_refusal gen_gnp_plain_result gen_nif_fields gen_g_o_f_kinds
  gen_then_fields gen_bound_fields gen_variable_classes gen_indep_ancestors gen_linked_post_init gen_linked_ancestors
  gen_from_dict gen_check_consistency gen_post_init_first.

Lemma fromdict_source_tie : gen_source = model_source.
Proof. reflexivity. Qed.
