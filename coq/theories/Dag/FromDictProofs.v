(** Proofs about [Dag.FromDict] (C15, extension 4).  No axioms. *)
From Coq Require Import List Bool Arith PeanoNat Lia Relations Permutation.
From Leaspy Require Import Dag.DagModel Dag.DagProofs Dag.GraphLit Dag.FromDict.
Import ListNotations.

(** * get_named_parameters *)

Lemma kind_accepted_iff k : kind_accepted k = true <-> k = KwOnly.
Proof. destruct k; unfold kind_accepted; simpl; split; intros H; congruence. Qed.

Lemma kind_rejected_iff k : negb (kind_accepted k) = false <-> k = KwOnly.
Proof. rewrite negb_false_iff. apply kind_accepted_iff. Qed.

Lemma map_nil_iff {A B} (f : A -> B) l : map f l = [] <-> l = [].
Proof. destruct l; simpl; split; intros H; congruence. Qed.

(** a plain callable is accepted exactly when every parameter is keyword-only — whether or not it has a default —
    and the result is then ALL its parameter names, in order *)
Theorem gnp_plain_ok s ps :
  get_named_parameters (CPlain s) = GnpOk ps <->
  (forall prm, In prm s -> p_kind prm = KwOnly) /\ ps = map p_name s.
Proof.
  unfold get_named_parameters.
  destruct (null _) eqn:E.
  - apply null_nil, map_nil_iff in E. rewrite filter_nil_iff in E. split.
    + intros H. injection H as <-. split; auto. intros prm Hp. apply kind_rejected_iff. auto.
    + intros (H & ->). reflexivity.
  - split; [discriminate|]. intros (H & _). exfalso.
    apply null_false_In in E as (x & Hx). apply in_map_iff in Hx as (prm & _ & Hp).
    apply filter_In in Hp as (Hp & Hk). rewrite (H _ Hp) in Hk. discriminate.
Qed.

(** it is refused exactly when some parameter is not keyword-only; the ValueError lists those parameters, in order *)
Theorem gnp_plain_refused s :
  (exists bad, get_named_parameters (CPlain s) = GnpValueError bad) <-> exists prm, In prm s /\ p_kind prm <> KwOnly.
Proof.
  unfold get_named_parameters. destruct (null _) eqn:E.
  - apply null_nil, map_nil_iff in E. rewrite filter_nil_iff in E. split.
    + intros (bad & H). discriminate.
    + intros (prm & Hp & Hk). exfalso. apply Hk, kind_rejected_iff. auto.
  - split; [|eauto]. intros _. apply null_false_In in E as (x & Hx). apply in_map_iff in Hx as (prm & _ & Hp).
    apply filter_In in Hp as (Hp & Hk). exists prm. split; auto. intros K. rewrite K in Hk. discriminate.
Qed.

Lemma gnp_refused_list s bad : get_named_parameters (CPlain s) = GnpValueError bad ->
  bad = map p_name (filter (fun p => negb (pkind_eqb (p_kind p) KwOnly)) s) /\ bad <> [].
Proof.
  unfold get_named_parameters. destruct (null _) eqn:E; [discriminate|]. intros H. injection H as <-.
  split.
  - f_equal. apply filter_ext. intros p. unfold kind_accepted. simpl. now rewrite orb_false_r.
  - intros K. rewrite K in E. discriminate.
Qed.

Theorem gnp_named n : get_named_parameters (CNamed n) = GnpOk (nif_parameters n).
Proof. reflexivity. Qed.

(** [then] keeps the parameters (and fixed keywords) of the INNER function, whatever the outer one is *)
Theorem then_keeps_parameters n g gk :
  get_named_parameters (CNamed (nif_then n g gk)) = get_named_parameters (CNamed n) /\
  nif_kws (nif_then n g gk) = nif_kws n.
Proof. split; reflexivity. Qed.

Theorem bound_to_parameters f ps kws : get_named_parameters (CNamed (bound_to f ps kws)) = GnpOk ps.
Proof. reflexivity. Qed.

(** the names returned are exactly the named parameters of the specification *)
Lemma gnp_ok_named_param c ps : get_named_parameters c = GnpOk ps -> forall p, In p ps <-> named_param c p.
Proof.
  destruct c as [s|n]; intros H p.
  - apply gnp_plain_ok in H as (_ & ->). simpl. rewrite in_map_iff. split; intros (prm & A & B); exists prm; auto.
  - simpl in H. injection H as <-. reflexivity.
Qed.

(** * Direct ancestors of the definitions *)

Lemma ancestors_names_some d ps : ancestors_names d = Some ps ->
  forall p, In p ps <-> exists f, d = DLinked f /\ named_param f p.
Proof.
  destruct d as [k|f]; simpl.
  - intros H p. injection H as <-. split; [intros []|]. intros (f & E & _). discriminate.
  - destruct (get_named_parameters f) eqn:E; [|discriminate]. intros H p. injection H as <-.
    rewrite (gnp_ok_named_param _ _ E). split.
    + intros H. exists f. auto.
    + intros (f' & E' & H). injection E' as <-. exact H.
Qed.

Lemma ancestors_names_none d : ancestors_names d = None <->
  exists s prm, d = DLinked (CPlain s) /\ In prm s /\ p_kind prm <> KwOnly.
Proof.
  destruct d as [k|[s|n]]; unfold ancestors_names.
  - split; [discriminate|]. intros (s & prm & E & _). discriminate.
  - destruct (get_named_parameters (CPlain s)) eqn:E.
    + split; [discriminate|]. intros (s' & prm & E' & Hp & Hk). injection E' as <-.
      apply gnp_plain_ok in E as (E & _). elim Hk. auto.
    + split; auto. intros _. assert (H : exists bad, get_named_parameters (CPlain s) = GnpValueError bad) by eauto.
      apply gnp_plain_refused in H as (prm & Hp & Hk). exists s, prm. auto.
  - split; [discriminate|]. intros (s & prm & E & _). discriminate.
Qed.

Lemma direct_ancestors_some : forall ds g, direct_ancestors ds = Some g ->
  length g = length ds /\
  forall v d, nth_error ds v = Some d -> exists ps, nth_error g v = Some ps /\ ancestors_names d = Some ps.
Proof.
  induction ds as [|d ds IH]; simpl; intros g H.
  - injection H as <-. split; auto. intros [|v] d' E; discriminate.
  - destruct (ancestors_names d) as [ps|] eqn:Ea; [|discriminate].
    destruct (direct_ancestors ds) as [g'|] eqn:Eg; [|discriminate].
    injection H as <-. destruct (IH g' eq_refl) as (L & N). split; [simpl; congruence|].
    intros [|v] d' E; simpl in *.
    + injection E as <-. eauto.
    + eauto.
Qed.

Lemma direct_ancestors_none : forall ds, direct_ancestors ds = None <-> bad_signature ds.
Proof.
  unfold bad_signature. induction ds as [|d ds IH]; simpl.
  - split; [discriminate|]. intros ([|v] & s & prm & E & _); discriminate.
  - destruct (ancestors_names d) as [ps|] eqn:Ea.
    + destruct (direct_ancestors ds) as [g'|] eqn:Eg.
      * split; [discriminate|]. intros ([|v] & s & prm & E & Hp & Hk); simpl in E.
        -- injection E as ->. assert (N : ancestors_names (DLinked (CPlain s)) = None) by (apply ancestors_names_none; eauto).
           congruence.
        -- destruct IH as (_ & IH'). assert (K : Some g' = None) by (apply IH'; eauto 6). discriminate.
      * split; auto. intros _. destruct IH as (IH & _). destruct (IH eq_refl) as (v & s & prm & H). exists (S v), s, prm. exact H.
    + split; auto. intros _. apply ancestors_names_none in Ea as (s & prm & -> & H). exists 0, s, prm. simpl. auto.
Qed.

(** the edges of the graph handed to [build] are exactly "is a named parameter of": none dropped, none invented *)
Lemma direct_ancestors_edges ds g : direct_ancestors ds = Some g ->
  forall p v, edge g p v <-> is_param_of ds p v.
Proof.
  intros H p v. destruct (direct_ancestors_some _ _ H) as (L & N). unfold edge, parents, is_param_of.
  destruct (nth_error ds v) as [d|] eqn:E.
  - destruct (N _ _ E) as (ps & Eg & Ea). rewrite (nth_error_nth _ _ _ Eg).
    rewrite (ancestors_names_some _ _ Ea). split.
    + intros (f & -> & Hp). eauto.
    + intros (f & E' & Hp). injection E' as ->. eauto.
  - apply nth_error_None in E. rewrite nth_overflow by lia. split; [intros []|]. intros (f & E' & _). discriminate.
Qed.

(** * from_dict *)

Lemma same_set_refl l : same_set l l = true.
Proof. unfold same_set. assert (H : forallb (fun x => memb x l) l = true) by (apply forallb_forall; intros x; apply memb_In). now rewrite H. Qed.

Lemma from_dict_unfold ds :
  from_dict ds = match direct_ancestors ds with None => FErr FSignature | Some g => lift (build g) end.
Proof.
  unfold from_dict. destruct (direct_ancestors ds) as [g|] eqn:E; auto.
  destruct (direct_ancestors_some _ _ E) as (L & _). unfold ctor, nnodes. rewrite L, same_set_refl. reflexivity.
Qed.

(** in [from_dict] the key-set check can never fire: both dictionaries are built from the same keys *)
Theorem from_dict_never_keys ds : from_dict ds <> FErr FKeys.
Proof.
  rewrite from_dict_unfold. destruct (direct_ancestors ds); [|discriminate]. destruct (build g); simpl; discriminate.
Qed.

(** the constructor refuses, before looking at any edge, exactly when the two key sets differ *)
Theorem ctor_keys vk g :
  ctor vk g = FErr FKeys <-> ~ (forall x, In x vk <-> x < nnodes g).
Proof.
  unfold ctor. destruct (same_set vk (seq 0 (nnodes g))) eqn:E; simpl.
  - split; [destruct (build g); discriminate|]. intros H. elim H. intros x.
    unfold same_set in E. apply andb_prop in E as (A & B). rewrite forallb_forall in A, B. split.
    + intros Hx. apply In_seq0, memb_In. auto.
    + intros Hx. apply memb_In, B, In_seq0. exact Hx.
  - split; auto. intros _ H. assert (K : same_set vk (seq 0 (nnodes g)) = true); [|congruence].
    unfold same_set. apply andb_true_intro. split; apply forallb_forall; intros x Hx; apply memb_In.
    + apply In_seq0, H, Hx.
    + apply H, In_seq0, Hx.
Qed.

Theorem ctor_keys_ok vk g : (forall x, In x vk <-> x < nnodes g) -> ctor vk g = lift (build g).
Proof.
  intros H. unfold ctor. destruct (same_set vk (seq 0 (nnodes g))) eqn:E; auto.
  exfalso. assert (K : ctor vk g = FErr FKeys) by (unfold ctor; now rewrite E). apply ctor_keys in K. auto.
Qed.

(** a definition whose function has a parameter that cannot be passed by name only is refused at construction *)
Theorem from_dict_refuses_signature ds : bad_signature ds <-> from_dict ds = FErr FSignature.
Proof.
  rewrite from_dict_unfold, <- direct_ancestors_none. destruct (direct_ancestors ds) as [g|]; split; auto; try discriminate.
  destruct (build g); discriminate.
Qed.

(** the accepted graph: exactly the edges "p is a named parameter of v's function" *)
Theorem from_dict_edges_exact ds r : from_dict ds = FOk r ->
  exists g, direct_ancestors ds = Some g /\ nnodes g = length ds /\ build g = Ok r /\
    (forall p v, edge g p v <-> is_param_of ds p v) /\
    length (dchildren r) = length ds /\
    (forall p, p < length ds -> NoDup (nth p (dchildren r) []) /\
        forall v, In v (nth p (dchildren r) []) <-> is_param_of ds p v).
Proof.
  rewrite from_dict_unfold. destruct (direct_ancestors ds) as [g|] eqn:E; [|discriminate].
  destruct (build g) as [r'|e] eqn:B; [|discriminate]. intros H. injection H as ->.
  destruct (direct_ancestors_some _ _ E) as (L & _). pose proof (direct_ancestors_edges _ _ E) as Ed.
  destruct (build_direct_children _ _ B) as (Lc & Hc). unfold nnodes in *.
  exists g. split; [reflexivity|]. split; [exact L|]. split; [exact B|]. split; [exact Ed|]. split; [congruence|].
  intros p Hp. assert (Hp' : p < length g) by lia. destruct (Hc p Hp') as (ND & Hin). split; [exact ND|].
  intros v. rewrite Hin. apply Ed.
Qed.

(** a parameter that is no variable: refused as an unknown node, by the FIRST check of [build] — before any ordering *)
Theorem from_dict_refuses_unknown ds : ~ bad_signature ds ->
  (exists p v, is_param_of ds p v /\ length ds <= p) -> from_dict ds = FErr (FDag EUnknownRef).
Proof.
  intros Hs (p & v & Hp & Hl). rewrite from_dict_unfold.
  destruct (direct_ancestors ds) as [g|] eqn:E; [|elim Hs; now apply direct_ancestors_none].
  destruct (direct_ancestors_some _ _ E) as (L & _).
  unfold build. destruct (null (unknown_nodes g)) eqn:N; [|reflexivity]. exfalso.
  apply null_nil in N. rewrite unknown_nodes_nil in N.
  apply (direct_ancestors_edges _ _ E) in Hp. apply N in Hp. unfold nnodes in Hp. lia.
Qed.

Theorem from_dict_unknown_iff ds : from_dict ds = FErr (FDag EUnknownRef) <->
  ~ bad_signature ds /\ exists p v, is_param_of ds p v /\ length ds <= p.
Proof.
  split; [|intros (A & B); now apply from_dict_refuses_unknown].
  intros H. split.
  - intros K. apply from_dict_refuses_signature in K. congruence.
  - rewrite from_dict_unfold in H. destruct (direct_ancestors ds) as [g|] eqn:E; [|discriminate].
    destruct (build g) as [r|e] eqn:B; [discriminate|]. injection H as ->.
    apply build_err_meaning in B as [(_ & c & p & Hp & Hl)|[(K & _)|[(K & _)|(K & _)]]]; try discriminate.
    destruct (direct_ancestors_some _ _ E) as (L & _). exists p, c. split.
    + now apply (direct_ancestors_edges _ _ E).
    + unfold nnodes in Hl. lia.
Qed.

(** * Composition with the theorems about [build] *)

Lemma clos_trans_iff {A} (R S : A -> A -> Prop) : (forall x y, R x y <-> S x y) ->
  forall x y, clos_trans A R x y <-> clos_trans A S x y.
Proof.
  intros H x y. split; induction 1; try (apply t_step, H; assumption); eapply t_trans; eauto.
Qed.

Theorem from_dict_closures ds r : from_dict ds = FOk r ->
  Permutation (order r) (seq 0 (length ds)) /\
  (forall i j, depends ds i j -> before (order r) i j) /\
  map fst (sorted_children r) = order r /\
  map fst (sorted_ancestors r) = order r /\
  (forall i l, In (i, l) (sorted_children r) ->
      (exists f, l = filter f (order r)) /\ forall j, In j l <-> depends ds i j) /\
  (forall i l, In (i, l) (sorted_ancestors r) ->
      (exists f, l = filter f (order r)) /\ forall j, In j l <-> depends ds j i).
Proof.
  intros H. destruct (from_dict_edges_exact _ _ H) as (g & E & L & B & Ed & _).
  assert (R : forall i j, reach g i j <-> depends ds i j) by (apply clos_trans_iff; exact Ed).
  destruct (build_topological _ _ B) as (P & T). destruct (build_exact _ _ B) as (K1 & K2 & C & A).
  rewrite L in P. split; [exact P|]. split; [intros i j D; apply T, R, D|]. split; [exact K1|]. split; [exact K2|]. split.
  - intros i l Hl. destruct (C i l Hl) as (F & M). split; [exact F|]. intros j. rewrite M. apply R.
  - intros i l Hl. destruct (A i l Hl) as (F & M). split; [exact F|]. intros j. rewrite M. apply R.
Qed.

(** the outcome depends only on WHICH names are parameters of which definition: not on their order in the signatures,
    not on defaults, not on whether the function is plain, named, bound or composed with [then] *)
Theorem from_dict_params_only ds1 ds2 :
  length ds1 = length ds2 -> (bad_signature ds1 <-> bad_signature ds2) ->
  (forall p v, is_param_of ds1 p v <-> is_param_of ds2 p v) -> from_dict ds1 = from_dict ds2.
Proof.
  intros L S P. rewrite !from_dict_unfold.
  destruct (direct_ancestors ds1) as [g1|] eqn:E1, (direct_ancestors ds2) as [g2|] eqn:E2; auto.
  - f_equal. apply build_set_order_irrelevant.
    destruct (direct_ancestors_some _ _ E1) as (L1 & _), (direct_ancestors_some _ _ E2) as (L2 & _).
    split; [congruence|]. intros i x.
    change (edge g1 x i <-> edge g2 x i).
    rewrite (direct_ancestors_edges _ _ E1), (direct_ancestors_edges _ _ E2). apply P.
  - exfalso. apply direct_ancestors_none, S, direct_ancestors_none in E2. congruence.
  - exfalso. apply direct_ancestors_none, S, direct_ancestors_none in E1. congruence.
Qed.

(** replacing the function of one definition by its composition with any outer function changes nothing *)
Theorem from_dict_then ds1 ds2 n g gk :
  from_dict (ds1 ++ DLinked (CNamed (nif_then n g gk)) :: ds2) = from_dict (ds1 ++ DLinked (CNamed n) :: ds2).
Proof.
  unfold from_dict. rewrite !app_length. simpl length.
  replace (direct_ancestors (ds1 ++ DLinked (CNamed (nif_then n g gk)) :: ds2))
     with (direct_ancestors (ds1 ++ DLinked (CNamed n) :: ds2)); auto.
  induction ds1 as [|d ds1 IH]; simpl; [reflexivity|]. now rewrite IH.
Qed.

(** * Exactly which definitions are accepted (completeness, lifted from [build_accepts] / [build_refuses]) *)

Lemma parents_nil_iff g i : parents g i = [] <-> forall p, ~ edge g p i.
Proof.
  unfold edge. split.
  - intros -> p. simpl. auto.
  - intros H. destruct (parents g i) as [|x l]; auto. elim (H x). simpl. auto.
Qed.

Section Lift.
  Variables (ds : list vdef) (g : graph).
  Hypothesis E : direct_ancestors ds = Some g.

  Let Ed := direct_ancestors_edges _ _ E.
  Let L : nnodes g = length ds := proj1 (direct_ancestors_some _ _ E).

  Lemma lift_unknown : unknown_ref g <-> unknown_param ds.
  Proof.
    unfold unknown_ref, unknown_param. rewrite L. split.
    - intros (c & p & H & K). exists p, c. split; auto. now apply Ed.
    - intros (p & v & H & K). exists v, p. split; auto. now apply Ed.
  Qed.

  Lemma lift_self : self_loop g <-> self_param ds.
  Proof. unfold self_loop, self_param. split; intros (i & H); exists i; now apply Ed. Qed.

  Lemma lift_isolated : isolated g <-> isolated_def ds.
  Proof.
    unfold isolated, isolated_def. rewrite L. split.
    - intros (i & Hi & P & C). exists i. split; auto. split.
      + intros p H. apply Ed in H. revert p H. now apply parents_nil_iff.
      + intros c H. apply (C c). now apply Ed.
    - intros (i & Hi & P & C). exists i. split; auto. split.
      + apply parents_nil_iff. intros p H. apply (P p). now apply Ed.
      + intros c H. apply (C c). now apply Ed.
  Qed.

  Lemma lift_cyclic : cyclic g <-> cyclic_defs ds.
  Proof.
    unfold cyclic, cyclic_defs, reach, depends. split; intros (i & H); exists i;
      apply (clos_trans_iff (edge g) (is_param_of ds) Ed); exact H.
  Qed.
End Lift.

Theorem from_dict_accepts_iff ds :
  (exists r, from_dict ds = FOk r) <->
  ~ bad_signature ds /\ ~ unknown_param ds /\ ~ self_param ds /\ ~ isolated_def ds /\ ~ cyclic_defs ds.
Proof.
  rewrite from_dict_unfold. destruct (direct_ancestors ds) as [g|] eqn:E.
  - pose proof (lift_unknown _ _ E) as U. pose proof (lift_self _ _ E) as S.
    pose proof (lift_isolated _ _ E) as I. pose proof (lift_cyclic _ _ E) as C.
    assert (NB : ~ bad_signature ds) by (intros B; apply direct_ancestors_none in B; congruence).
    split.
    + intros (r & H). destruct (build g) as [r'|e] eqn:B; [|discriminate].
      assert (R : forall P : Prop, (P -> cyclic g \/ self_loop g \/ unknown_ref g \/ isolated g) -> ~ P).
      { intros P HP p. destruct (build_refuses g (HP p)) as (e & K). congruence. }
      split; [exact NB|]. repeat split; apply R; intros K.
      * right. right. left. now apply U.
      * right. left. now apply S.
      * right. right. right. now apply I.
      * left. now apply C.
    + intros (_ & A & B & C' & D).
      destruct (build_accepts g) as (r & K).
      * intros K. apply D. now apply C.
      * intros K. apply B. now apply S.
      * intros K. apply A. now apply U.
      * intros K. apply C'. now apply I.
      * exists r. now rewrite K.
  - split.
    + intros (r & H). discriminate.
    + intros (NB & _). elim NB. now apply direct_ancestors_none.
Qed.

(** every refusal of [from_dict] names a defect of the DEFINITIONS (and never a model artefact / the key-set check) *)
Theorem from_dict_error_meaning ds e : from_dict ds = FErr e ->
  (e = FSignature /\ bad_signature ds) \/ (e = FDag EUnknownRef /\ unknown_param ds) \/ (e = FDag ESelfLoop /\ self_param ds) \/
  (e = FDag EIsolated /\ isolated_def ds) \/ (e = FDag ENotDag /\ cyclic_defs ds).
Proof.
  rewrite from_dict_unfold. destruct (direct_ancestors ds) as [g|] eqn:E.
  - destruct (build g) as [r|e'] eqn:B; [discriminate|]. intros H. injection H as <-. right.
    destruct (build_err_meaning _ _ B) as [(-> & K)|[(-> & K)|[(-> & K)|(-> & K)]]].
    + left. split; auto. now apply (lift_unknown _ _ E).
    + right. left. split; auto. now apply (lift_self _ _ E).
    + right. right. left. split; auto. now apply (lift_isolated _ _ E).
    + right. right. right. split; auto. now apply (lift_cyclic _ _ E).
  - intros H. injection H as <-. left. split; auto. now apply direct_ancestors_none.
Qed.
