(** Model of [leaspy.variables.dag.VariablesDAG.__post_init__] (src/leaspy/variables/dag.py), definitions only.

    Nodes are [nat] indices in NAME-SORTED order (what [sorted(direct_ancestors.keys())] produces, dag.py:389),
    so a graph is the list, indexed by node, of each node's direct ancestors (the values of the
    [direct_ancestors] mapping; frozensets there, lists here — every definition below only uses membership,
    removal of all occurrences and emptiness, so list order and repetitions do not matter: see
    [DagProofs.build_set_order_irrelevant]).  A reference [p >= length g] is a name that is not a key.

    Errors are values; the numbers in comments are line numbers of dag.py. *)
From Coq Require Import List Bool Arith PeanoNat Relations.
Import ListNotations.

Definition graph := list (list nat).

Definition nnodes (g : graph) : nat := length g.
Definition parents (g : graph) (i : nat) : list nat := nth i g [].

Definition memb (x : nat) (l : list nat) : bool := existsb (Nat.eqb x) l.
Definition null {A} (l : list A) : bool := match l with [] => true | _ => false end.

Inductive err :=
| EUnknownRef      (* LeaspyInputError "Those ancestors variables are unknown"      :318 *)
| ESelfLoop        (* LeaspyInputError "Those variables have self ancestors"        :323 *)
| EIsolated        (* LeaspyInputError "There are some variables left alone"        :352 *)
| ENotDag          (* ValueError "Input graph is not a DAG"                         :421 *)
| ENotTriangular   (* ValueError "Input graph is not a DAG: sorted path matrix ="   :426 *)
| EFuel.           (* the [while] loop of :408 did not stop within the fuel (model artefact, proved unreachable) *)

Inductive res (T : Type) := Ok (x : T) | Err (e : err).
Arguments Ok {T} x.
Arguments Err {T} e.

(** ** Consistency checks *)

(** :315-316  pooled_nodes_from_edges.difference(s_nodes) *)
Definition unknown_nodes (g : graph) : list nat :=
  filter (fun p => negb (p <? nnodes g)) (concat g).

(** :321  {n for n, s_connected in d_edges.items() if n in s_connected} *)
Definition self_loops (g : graph) : list nat :=
  filter (fun i => memb i (parents g i)) (seq 0 (nnodes g)).

(** :206-210 inversion of the ancestor map, and :399 [sorted(direct_children[n])]:
    the children of [a] in increasing (= name) order. *)
Definition direct_children (g : graph) (a : nat) : list nat :=
  filter (fun c => memb a (parents g c)) (seq 0 (nnodes g)).

(** :346-350 *)
Definition left_alone (g : graph) : list nat :=
  filter (fun i => null (direct_children g i) && null (parents g i)) (seq 0 (nnodes g)).

(** ** Boolean matrices (row-major, [path_matrix[k, j]] = [mget M k j]) *)

Definition bmat := list (list bool).

Fixpoint upd {T} (l : list T) (i : nat) (v : T) : list T :=
  match l, i with
  | [], _ => []
  | _ :: r, 0 => v :: r
  | x :: r, S i' => x :: upd r i' v
  end.

Definition mget (M : bmat) (k j : nat) : bool := nth j (nth k M []) false.
(** path_matrix[:, j] |= path_matrix[:, i]     :414 *)
Definition col_or (M : bmat) (j i : nat) : bmat :=
  map (fun row => upd row j (nth j row false || nth i row false)) M.
(** path_matrix[k, j] = v                       :415 *)
Definition mset (M : bmat) (k j : nat) (v : bool) : bmat := upd M k (upd (nth k M []) j v).
Definition zeros (n : nat) : bmat := repeat (repeat false n) n.

(** ** Kahn's loop  :401-419 *)

Record kstate := mkK {
  k_sorted : list nat;        (* sorted_nodes *)
  k_queue : list nat;         (* q_roots (FIFO, head = next to get) *)
  k_anc : list (list nat);    (* direct_ancestors_ *)
  k_path : bmat               (* path_matrix, indexed by ix_nodes = the node numbers themselves *)
}.

Fixpoint remove_all (x : nat) (l : list nat) : list nat :=
  match l with
  | [] => []
  | y :: r => if Nat.eqb x y then remove_all x r else y :: remove_all x r
  end.

(** body of [for m in direct_children_[n]]  :412-419  (i = n, j = m) *)
Definition visit_child (n : nat) (st : kstate) (m : nat) : kstate :=
  let path1 := col_or (k_path st) m n in
  let path2 := mset path1 n m true in
  let am := remove_all n (nth m (k_anc st) []) in
  mkK (k_sorted st)
      (if null am then k_queue st ++ [m] else k_queue st)
      (upd (k_anc st) m am)
      path2.

(** [while not q_roots.empty()]  :408-419.  The queue is tested first, so [fuel] = number of [get]s allowed. *)
Fixpoint kahn_loop (g : graph) (fuel : nat) (st : kstate) : res kstate :=
  match k_queue st with
  | [] => Ok st
  | n :: q =>
    match fuel with
    | 0 => Err EFuel
    | S f =>
      let st1 := mkK (k_sorted st ++ [n]) q (k_anc st) (k_path st) in
      kahn_loop g f (fold_left (visit_child n) (direct_children g n) st1)
    end
  end.

(** :401-407 *)
Definition kahn_init (g : graph) : kstate :=
  mkK [] (filter (fun i => null (parents g i)) (seq 0 (nnodes g))) g (zeros (nnodes g)).

(** ** After the loop *)

(** set(sorted_nodes) != set(nodes)   :420 *)
Definition same_set (a b : list nat) : bool :=
  forallb (fun x => memb x b) a && forallb (fun x => memb x a) b.

(** path_matrix[ix_sorted_nodes, :][:, ix_sorted_nodes]   :424 *)
Definition reindex (M : bmat) (ix : list nat) : bmat :=
  map (fun r => map (fun b => nth b r false) ix) (map (fun a => nth a M []) ix).

Definition mapi {A B} (f : nat -> A -> B) (l : list A) : list B :=
  map (fun p => f (fst p) (snd p)) (combine (seq 0 (length l)) l).

(** M.triu(1) *)
Definition triu1 (M : bmat) : bmat :=
  mapi (fun a row => mapi (fun b v => if a <? b then v else false) row) M.

Fixpoint list_eqb {A} (e : A -> A -> bool) (l1 l2 : list A) : bool :=
  match l1, l2 with
  | [], [] => true
  | x :: r1, y :: r2 => e x y && list_eqb e r1 r2
  | _, _ => false
  end.
(** torch.equal *)
Definition mat_eqb (M1 M2 : bmat) : bool := list_eqb (list_eqb Bool.eqb) M1 M2.

(** row.nonzero()  :460,467 *)
Definition nonzero (v : list bool) : list nat := filter (fun j => nth j v false) (seq 0 (length v)).
Definition mrow (M : bmat) (a : nat) : list bool := nth a M [].
Definition mcol (M : bmat) (b : nat) : list bool := map (fun r => nth b r false) M.

(** :457-470; dictionaries in insertion order = association lists in the order of [sorted_nodes] *)
Definition read_children (sorted : list nat) (M : bmat) : list (nat * list nat) :=
  mapi (fun idx node => (node, map (fun j => nth j sorted 0) (nonzero (mrow M idx)))) sorted.
Definition read_ancestors (sorted : list nat) (M : bmat) : list (nat * list nat) :=
  mapi (fun idx node => (node, map (fun i => nth i sorted 0) (nonzero (mcol M idx)))) sorted.

Record dag := mkDag {
  order : list nat;                          (* sorted_variables_names *)
  dchildren : list (list nat);               (* direct_children, by node, each in increasing order *)
  sorted_children : list (nat * list nat);
  sorted_ancestors : list (nat * list nat)
}.

(** __post_init__  :146-152 *)
Definition build (g : graph) : res dag :=
  if negb (null (unknown_nodes g)) then Err EUnknownRef else
  if negb (null (self_loops g)) then Err ESelfLoop else
  if negb (null (left_alone g)) then Err EIsolated else
  match kahn_loop g (S (nnodes g)) (kahn_init g) with
  | Err e => Err e
  | Ok st =>
    if negb (same_set (k_sorted st) (seq 0 (nnodes g))) then Err ENotDag else
    let M := reindex (k_path st) (k_sorted st) in
    if negb (mat_eqb M (triu1 M)) then Err ENotTriangular else
    Ok (mkDag (k_sorted st)
              (map (direct_children g) (seq 0 (nnodes g)))
              (read_children (k_sorted st) M)
              (read_ancestors (k_sorted st) M))
  end.

(** ** Specification vocabulary (independent of the algorithm) *)


(** [p] is a direct ancestor of [c] *)
Definition edge (g : graph) (p c : nat) : Prop := In p (parents g c).
(** non-empty directed path: the transitive closure of [edge] *)
Definition reach (g : graph) : nat -> nat -> Prop := clos_trans nat (edge g).

Definition unknown_ref (g : graph) : Prop := exists c p, edge g p c /\ nnodes g <= p.
Definition self_loop (g : graph) : Prop := exists i, edge g i i.
Definition isolated (g : graph) : Prop :=
  exists i, i < nnodes g /\ parents g i = [] /\ forall c, ~ edge g i c.
Definition cyclic (g : graph) : Prop := exists i, reach g i i.

(** [a] occurs strictly before [b] in [l] *)
Definition before (l : list nat) (a b : nat) : Prop :=
  exists l1 l2 l3, l = l1 ++ a :: l2 ++ b :: l3.

(** ** Comparison helpers used by the executable correspondence (harness/props/c15.py) *)
Definition nat_list_eqb := list_eqb Nat.eqb.
Definition assoc_eqb (a b : list (nat * list nat)) : bool :=
  list_eqb (fun x y => Nat.eqb (fst x) (fst y) && nat_list_eqb (snd x) (snd y)) a b.

Definition err_code (e : err) : nat :=
  match e with EUnknownRef => 1 | ESelfLoop => 2 | EIsolated => 3 | ENotDag => 4 | ENotTriangular => 5 | EFuel => 6 end.

(** observed result of the implementation: [inl code] for an exception, [inr (order, direct children, sorted children, sorted ancestors)] *)
Definition observed := (nat + (list nat * list (list nat) * list (nat * list nat) * list (nat * list nat)))%type.

Definition agrees (g : graph) (o : observed) : bool :=
  match build g, o with
  | Err e, inl c => Nat.eqb (err_code e) c
  | Ok r, inr (ord, dch, sch, san) =>
      nat_list_eqb (order r) ord && list_eqb nat_list_eqb (dchildren r) dch
      && assoc_eqb (sorted_children r) sch && assoc_eqb (sorted_ancestors r) san
  | _, _ => false
  end.
