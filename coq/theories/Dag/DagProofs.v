(** Proofs about [Dag.DagModel] (C15).  No axioms. *)
From Coq Require Import List Bool Arith PeanoNat Lia Relations Permutation.
From Leaspy Require Import Dag.DagModel.
Import ListNotations.

(** * Small list facts *)

Lemma memb_In x l : memb x l = true <-> In x l.
Proof.
  unfold memb. rewrite existsb_exists. split.
  - intros (y & Hy & E). apply Nat.eqb_eq in E. now subst.
  - intros H. exists x. split; auto. apply Nat.eqb_refl.
Qed.

Lemma memb_cons x y l : memb x (y :: l) = (x =? y) || memb x l.
Proof. reflexivity. Qed.

Lemma memb_false x l : memb x l = false <-> ~ In x l.
Proof. rewrite <- memb_In. destruct (memb x l); split; congruence. Qed.

Lemma null_nil {A} (l : list A) : null l = true <-> l = [].
Proof. destruct l; simpl; split; congruence. Qed.

Lemma null_no_In {A} (l : list A) : null l = true <-> forall x, ~ In x l.
Proof.
  destruct l; simpl; split; auto; try congruence.
  intros H. exfalso. apply (H a). now left.
Qed.

Lemma null_false_In {A} (l : list A) : null l = false <-> exists x, In x l.
Proof.
  destruct l as [|a l]; simpl; split.
  - discriminate.
  - intros (x & []).
  - intros _. exists a. now left.
  - auto.
Qed.

Lemma length_upd {T} (l : list T) i v : length (upd l i v) = length l.
Proof. revert i; induction l; intros [|i]; simpl; auto. Qed.

Lemma nth_upd_eq {T} (l : list T) i v d : i < length l -> nth i (upd l i v) d = v.
Proof. revert i; induction l; intros [|i]; simpl; intros; try lia; auto. apply IHl. lia. Qed.

Lemma nth_upd_neq {T} (l : list T) i k v d : k <> i -> nth k (upd l i v) d = nth k l d.
Proof. revert i k; induction l; intros [|i] [|k]; simpl; intros; try lia; auto. Qed.

Lemma In_remove_all x y l : In y (remove_all x l) <-> In y l /\ y <> x.
Proof.
  induction l as [|z l IH]; simpl.
  - tauto.
  - destruct (Nat.eqb_spec x z); simpl; rewrite IH; intuition congruence.
Qed.

Lemma filter_nil_iff {A} (f : A -> bool) l : filter f l = [] <-> forall x, In x l -> f x = false.
Proof.
  induction l as [|a l IH]; simpl.
  - tauto.
  - destruct (f a) eqn:E.
    + split; [discriminate|]. intros H. specialize (H a (or_introl eq_refl)). congruence.
    + rewrite IH. split; intros H x; [intros [<-|]|]; auto.
Qed.

Lemma NoDup_filter {A} (f : A -> bool) l : NoDup l -> NoDup (filter f l).
Proof.
  induction 1; simpl; [constructor|].
  destruct (f x); auto. constructor; auto. rewrite filter_In. tauto.
Qed.

Lemma In_seq0 x n : In x (seq 0 n) <-> x < n.
Proof. rewrite in_seq. lia. Qed.

(** * Boolean matrices *)

Definition wf_mat (n : nat) (M : bmat) : Prop :=
  length M = n /\ forall k, k < n -> length (nth k M []) = n.

Lemma wf_zeros n : wf_mat n (zeros n).
Proof.
  unfold zeros. split; [apply repeat_length|].
  intros k Hk. rewrite nth_indep with (d' := repeat false n) by now rewrite repeat_length.
  assert (H : forall m, nth k (repeat (repeat false n) m) (repeat false n) = repeat false n).
  { clear. intros m. revert k. induction m; intros [|k]; simpl; auto. }
  rewrite H. apply repeat_length.
Qed.

Lemma mget_zeros n k j : mget (zeros n) k j = false.
Proof.
  unfold mget, zeros.
  assert (H : forall m, nth k (repeat (repeat false n) m) [] = repeat false n \/ nth k (repeat (repeat false n) m) [] = []).
  { intros m. revert k. induction m; intros [|k]; simpl; auto. }
  destruct (H n) as [-> | ->].
  - clear H. revert j. induction n; intros [|j]; simpl; auto.
  - now destruct j.
Qed.

Lemma nth_col_or M j i k :
  nth k (col_or M j i) [] = upd (nth k M []) j (nth j (nth k M []) false || nth i (nth k M []) false).
Proof.
  unfold col_or.
  change (@nil bool) with ((fun row : list bool => upd row j (nth j row false || nth i row false)) []) at 1.
  now rewrite map_nth.
Qed.

Lemma wf_col_or n M j i : wf_mat n M -> wf_mat n (col_or M j i).
Proof.
  intros [H1 H2]. split.
  - unfold col_or. now rewrite map_length.
  - intros k Hk. rewrite nth_col_or, length_upd. auto.
Qed.

Lemma mget_col_or n M j i k j' : wf_mat n M -> j < n -> k < n ->
  mget (col_or M j i) k j' = if j' =? j then mget M k j || mget M k i else mget M k j'.
Proof.
  intros [H1 H2] Hj Hk. unfold mget. rewrite nth_col_or.
  destruct (Nat.eqb_spec j' j) as [->|N].
  - apply nth_upd_eq. rewrite H2; auto.
  - now apply nth_upd_neq.
Qed.

Lemma wf_mset n M k j v : wf_mat n M -> wf_mat n (mset M k j v).
Proof.
  intros [H1 H2]. unfold mset. split.
  - now rewrite length_upd.
  - intros k' Hk'. destruct (Nat.eq_dec k' k) as [->|N].
    + rewrite nth_upd_eq by lia. rewrite length_upd. auto.
    + rewrite nth_upd_neq; auto.
Qed.

Lemma mget_mset n M k j v k' j' : wf_mat n M -> k < n -> j < n ->
  mget (mset M k j v) k' j' = if (k' =? k) && (j' =? j) then v else mget M k' j'.
Proof.
  intros [H1 H2] Hk Hj. unfold mget, mset.
  destruct (Nat.eqb_spec k' k) as [->|N]; simpl.
  - rewrite nth_upd_eq by lia.
    destruct (Nat.eqb_spec j' j) as [->|N'].
    + apply nth_upd_eq. rewrite H2; auto.
    + now apply nth_upd_neq.
  - now rewrite nth_upd_neq.
Qed.

(** * The inner loop [for m in direct_children_[n]] in closed form *)

Lemma fold_visit : forall cs st n N,
  NoDup cs -> ~ In n cs -> (forall m, In m cs -> m < N) -> n < N ->
  length (k_anc st) = N -> wf_mat N (k_path st) ->
  let st' := fold_left (visit_child n) cs st in
  k_sorted st' = k_sorted st /\
  k_queue st' = k_queue st ++ filter (fun m => null (remove_all n (nth m (k_anc st) []))) cs /\
  length (k_anc st') = N /\
  (forall m, m < N -> nth m (k_anc st') [] =
       if memb m cs then remove_all n (nth m (k_anc st) []) else nth m (k_anc st) []) /\
  wf_mat N (k_path st') /\
  (forall k j, k < N -> j < N -> mget (k_path st') k j =
       if memb j cs then mget (k_path st) k j || mget (k_path st) k n || (k =? n) else mget (k_path st) k j).
Proof.
  induction cs as [|m cs IH]; intros st n N Hnd Hn Hlt HnN Hlen Hwf; cbn [fold_left].
  - simpl. rewrite app_nil_r. repeat split; auto; apply Hwf.
  - apply NoDup_cons_iff in Hnd as [Hm Hnd'].
    assert (Hmn : m <> n) by (intros ->; apply Hn; now left).
    assert (HmN : m < N) by (apply Hlt; now left).
    set (st1 := visit_child n st m).
    assert (Hlen1 : length (k_anc st1) = N) by (unfold st1, visit_child; simpl; now rewrite length_upd).
    assert (Hwf1 : wf_mat N (k_path st1)).
    { unfold st1, visit_child; simpl. apply wf_mset, wf_col_or, Hwf. }
    assert (Hget1 : forall k j, k < N -> j < N -> mget (k_path st1) k j =
              if j =? m then mget (k_path st) k m || mget (k_path st) k n || (k =? n) else mget (k_path st) k j).
    { intros k j Hk Hj. unfold st1, visit_child; simpl.
      rewrite (mget_mset N) by (auto using wf_col_or).
      rewrite (mget_col_or N) by auto.
      destruct (Nat.eqb_spec k n) as [->|Nk]; destruct (Nat.eqb_spec j m) as [->|Nj]; simpl; auto.
      - now rewrite orb_true_r.
      - now rewrite orb_false_r. }
    assert (Hanc1 : forall m', m' <> m -> nth m' (k_anc st1) [] = nth m' (k_anc st) []).
    { intros m' Hm'. unfold st1, visit_child; simpl. now apply nth_upd_neq. }
    assert (Hancm : nth m (k_anc st1) [] = remove_all n (nth m (k_anc st) [])).
    { unfold st1, visit_child; simpl. apply nth_upd_eq. lia. }
    destruct (IH st1 n N Hnd') as (E1 & E2 & E3 & E4 & E5 & E6); auto.
    { intros H; apply Hn; now right. }
    { intros m' H'; apply Hlt; now right. }
    split; [|split; [|split; [|split; [|split]]]]; [| | exact E3 | | exact E5 | ].
    + rewrite E1. reflexivity.
    + rewrite E2.
      rewrite (filter_ext_in (fun m0 => null (remove_all n (nth m0 (k_anc st1) [])))
                             (fun m0 => null (remove_all n (nth m0 (k_anc st) [])))).
      2:{ intros a Ha. rewrite Hanc1; auto. intros ->. contradiction. }
      unfold st1, visit_child; cbn [k_queue filter].
      destruct (null (remove_all n (nth m (k_anc st) []))); simpl; auto.
      now rewrite <- app_assoc.
    + intros m' Hm'. rewrite E4 by auto. rewrite memb_cons.
      destruct (Nat.eqb_spec m' m) as [->|Nm]; simpl.
      * rewrite (proj2 (memb_false m cs) Hm). auto.
      * rewrite Hanc1 by auto. reflexivity.
    + intros k j Hk Hj. rewrite E6 by auto.
      rewrite !Hget1 by auto.
      rewrite memb_cons.
      destruct (Nat.eqb_spec n m); [congruence|].
      destruct (Nat.eqb_spec j m) as [->|Nj]; simpl.
      * rewrite (proj2 (memb_false m cs) Hm). auto.
      * reflexivity.
Qed.

(** * Graph vocabulary *)

Definition gwf (g : graph) : Prop :=
  (forall c p, edge g p c -> p < nnodes g) /\ (forall i, ~ edge g i i).

Lemma edge_child_lt g p c : edge g p c -> c < nnodes g.
Proof.
  unfold edge, parents, nnodes. intros H.
  destruct (Nat.lt_ge_cases c (length g)) as [|Hge]; auto.
  rewrite nth_overflow in H by lia. destruct H.
Qed.

Lemma In_children g n c : In c (direct_children g n) <-> edge g n c.
Proof.
  unfold direct_children. rewrite filter_In, In_seq0, memb_In. split.
  - tauto.
  - intros H. split; auto. eapply edge_child_lt; eauto.
Qed.

Lemma NoDup_children g n : NoDup (direct_children g n).
Proof. apply NoDup_filter, seq_NoDup. Qed.

Lemma reach_last g k j : reach g k j <-> exists i, edge g i j /\ (k = i \/ reach g k i).
Proof.
  unfold reach. split.
  - intros H. apply clos_trans_tn1 in H. inversion H as [E | i ? E H']; subst.
    + exists k. auto.
    + exists i. split; auto. right. now apply clos_tn1_trans.
  - intros (i & E & [-> | H]).
    + now apply t_step.
    + eapply t_trans; eauto. now apply t_step.
Qed.

Lemma reach_lt g k j : gwf g -> reach g k j -> k < nnodes g /\ j < nnodes g.
Proof.
  intros [Hw _]. unfold reach. induction 1 as [x y E | x y z _ [H1 _] _ [_ H2]].
  - split; [eapply Hw | eapply edge_child_lt]; eauto.
  - auto.
Qed.

Lemma NoDup_app_intro {A} (l1 l2 : list A) :
  NoDup l1 -> NoDup l2 -> (forall x, In x l1 -> ~ In x l2) -> NoDup (l1 ++ l2).
Proof.
  induction l1 as [|a l1 IH]; simpl; intros H1 H2 H; auto.
  apply NoDup_cons_iff in H1 as [Ha H1]. constructor.
  - rewrite in_app_iff. intros [|]; [contradiction|]. eapply H; eauto.
  - apply IH; auto.
Qed.

Lemma NoDup_mid_notin {A} (l1 l2 : list A) x : NoDup (l1 ++ x :: l2) -> ~ In x l1 /\ ~ In x l2.
Proof.
  intros H. apply NoDup_remove_2 in H. rewrite in_app_iff in H. tauto.
Qed.

(** * The loop invariant of Kahn's algorithm with the path matrix *)

Record Inv (g : graph) (st : kstate) : Prop := {
  inv_nodup : NoDup (k_sorted st ++ k_queue st);
  inv_ready : forall x, In x (k_sorted st ++ k_queue st) <->
                        x < nnodes g /\ forall p, edge g p x -> In p (k_sorted st);
  inv_anc_len : length (k_anc st) = nnodes g;
  inv_anc : forall m p, m < nnodes g ->
              (In p (nth m (k_anc st) []) <-> edge g p m /\ ~ In p (k_sorted st));
  inv_wf : wf_mat (nnodes g) (k_path st);
  inv_path : forall k j, k < nnodes g -> j < nnodes g ->
              (mget (k_path st) k j = true <->
               exists i, In i (k_sorted st) /\ edge g i j /\ (k = i \/ reach g k i));
  inv_topo : forall l1 x l2, k_sorted st = l1 ++ x :: l2 -> forall p, edge g p x -> In p l1
}.

Lemma inv_init g : gwf g -> Inv g (kahn_init g).
Proof.
  intros Hg. unfold kahn_init. constructor; simpl.
  - apply NoDup_filter, seq_NoDup.
  - intros x. rewrite filter_In, In_seq0, null_no_In. unfold edge. tauto.
  - reflexivity.
  - intros m p Hm. unfold edge, parents. tauto.
  - apply wf_zeros.
  - intros k j _ _. rewrite mget_zeros. split; [discriminate|]. intros (i & [] & _).
  - intros [|? ?] x l2 H; discriminate.
Qed.

Section Step.
  Variable g : graph.
  Hypothesis Hg : gwf g.
  Variable st : kstate.
  Hypothesis HI : Inv g st.
  Variables (n : nat) (q : list nat).
  Hypothesis Hq : k_queue st = n :: q.

  Let N := nnodes g.
  Let cs := direct_children g n.
  Let st1 := mkK (k_sorted st ++ [n]) q (k_anc st) (k_path st).
  Let st' := fold_left (visit_child n) cs st1.
  Let F := fun m => null (remove_all n (nth m (k_anc st) [])).

  Lemma step_n_ready : n < N /\ forall p, edge g p n -> In p (k_sorted st).
  Proof. apply (inv_ready g st HI). rewrite Hq, in_app_iff. right. now left. Qed.

  Lemma step_n_fresh : ~ In n (k_sorted st) /\ ~ In n q.
  Proof. pose proof (inv_nodup g st HI) as H. rewrite Hq in H. now apply NoDup_mid_notin. Qed.

  Lemma step_fold :
    k_sorted st' = k_sorted st ++ [n] /\
    k_queue st' = q ++ filter F cs /\
    length (k_anc st') = N /\
    (forall m, m < N -> nth m (k_anc st') [] =
         if memb m cs then remove_all n (nth m (k_anc st) []) else nth m (k_anc st) []) /\
    wf_mat N (k_path st') /\
    (forall k j, k < N -> j < N -> mget (k_path st') k j =
         if memb j cs then mget (k_path st) k j || mget (k_path st) k n || (k =? n) else mget (k_path st) k j).
  Proof.
    apply (fold_visit cs st1 n N).
    - apply NoDup_children.
    - unfold cs. rewrite In_children. apply Hg.
    - intros m Hm. apply In_children in Hm. eapply edge_child_lt; eauto.
    - apply step_n_ready.
    - apply (inv_anc_len g st HI).
    - apply (inv_wf g st HI).
  Qed.

  (** the test [len(direct_ancestors_[m]) == 0] after removing [n] *)
  Lemma step_F m : m < N -> (F m = true <-> forall p, edge g p m -> In p (k_sorted st ++ [n])).
  Proof.
    intros Hm. unfold F. rewrite null_no_In. split.
    - intros H p E. rewrite in_app_iff.
      destruct (in_dec Nat.eq_dec p (k_sorted st)) as [|Hp]; auto.
      destruct (Nat.eq_dec p n) as [->|Hn]; [right; now left|].
      exfalso. apply (H p). rewrite In_remove_all. split; auto.
      apply (inv_anc g st HI); auto.
    - intros H p. rewrite In_remove_all. intros [Hp Hn].
      apply (inv_anc g st HI) in Hp as [E Hs]; auto.
      apply H in E. rewrite in_app_iff in E. destruct E as [|[<-|[]]]; auto.
  Qed.

  Lemma inv_step : Inv g st'.
  Proof.
    destruct step_fold as (E1 & E2 & E3 & E4 & E5 & E6).
    destruct step_n_ready as [HnN Hnp]. destruct step_n_fresh as [Hns Hnq].
    pose proof (inv_nodup g st HI) as Hnd. rewrite Hq in Hnd.
    assert (Hready : forall x, In x (k_sorted st ++ n :: q) <->
                               x < N /\ forall p, edge g p x -> In p (k_sorted st)).
    { intros x. rewrite <- Hq. apply (inv_ready g st HI). }
    constructor.
    - (* NoDup *)
      rewrite E1, E2. rewrite app_assoc. apply NoDup_app_intro.
      + now rewrite <- app_assoc.
      + apply NoDup_filter, NoDup_children.
      + intros x Hx Hx'. rewrite <- app_assoc in Hx. simpl in Hx.
        apply filter_In in Hx' as [Hc _]. apply In_children in Hc.
        apply Hready in Hx as [_ Hx]. apply Hns. auto.
    - (* ready *)
      intros x. rewrite E1, E2. rewrite app_assoc, in_app_iff. rewrite <- app_assoc. simpl.
      rewrite Hready. rewrite filter_In. unfold cs. rewrite In_children. split.
      + intros [[Hx Hp] | [Hc HF]].
        * split; auto. intros p E. rewrite in_app_iff. auto.
        * assert (Hx : x < N) by (eapply edge_child_lt; eauto).
          split; auto. now apply step_F.
      + intros [Hx Hp].
        destruct (in_dec Nat.eq_dec n (parents g x)) as [Hc | Hc].
        * right. split; auto. now apply step_F.
        * left. split; auto. intros p E. specialize (Hp p E).
          rewrite in_app_iff in Hp. destruct Hp as [|[<-|[]]]; auto. contradiction.
    - exact E3.
    - (* remaining ancestors *)
      intros m p Hm. rewrite E4 by auto. rewrite E1.
      destruct (memb m cs) eqn:Em.
      + rewrite In_remove_all. rewrite (inv_anc g st HI) by auto. rewrite in_app_iff. simpl. intuition.
      + apply memb_false in Em. unfold cs in Em. rewrite In_children in Em.
        rewrite (inv_anc g st HI) by auto. rewrite in_app_iff. simpl.
        split; [|tauto]. intros [E Hs]. split; auto. intros [|[<-|[]]]; auto.
    - exact E5.
    - (* path matrix *)
      intros k j Hk Hj. rewrite E6 by auto. rewrite E1.
      assert (Hcol_n : mget (k_path st) k n = true <-> reach g k n).
      { rewrite (inv_path g st HI) by auto. rewrite reach_last. split.
        - intros (i & _ & H). eauto.
        - intros (i & E & H). exists i. auto. }
      destruct (memb j cs) eqn:Ej.
      + apply memb_In in Ej. unfold cs in Ej. rewrite In_children in Ej.
        rewrite !orb_true_iff, Nat.eqb_eq, Hcol_n, (inv_path g st HI) by auto. split.
        * intros [[(i & Hi & E & H) | H] | ->].
          -- exists i. rewrite in_app_iff. auto.
          -- exists n. rewrite in_app_iff. simpl. auto.
          -- exists n. rewrite in_app_iff. simpl. auto.
        * intros (i & Hi & E & H). rewrite in_app_iff in Hi. destruct Hi as [Hi|[<-|[]]].
          -- left. left. eauto.
          -- destruct H as [->|H]; auto.
      + apply memb_false in Ej. unfold cs in Ej. rewrite In_children in Ej.
        rewrite (inv_path g st HI) by auto. split.
        * intros (i & Hi & H). exists i. rewrite in_app_iff. auto.
        * intros (i & Hi & E & H). rewrite in_app_iff in Hi. destruct Hi as [Hi|[<-|[]]]; [eauto|contradiction].
    - (* topological *)
      intros l1 x l2. rewrite E1. intros Heq p E.
      destruct (exists_last (l := x :: l2)) as (l2' & y & Hl); [discriminate|].
      rewrite Hl, app_assoc in Heq. apply app_inj_tail in Heq as [Hs <-].
      destruct l2' as [|z l2']; simpl in Hl.
      + injection Hl as <-. destruct l2; [|destruct l2; discriminate].
        rewrite app_nil_r in Hs. subst l1. auto.
      + injection Hl as <- Hl2. eapply (inv_topo g st HI); eauto.
  Qed.
End Step.

(** * The loop terminates within its fuel and ends with an empty queue *)

Lemma inv_length g st : Inv g st -> length (k_sorted st) + length (k_queue st) <= nnodes g.
Proof.
  intros HI. rewrite <- app_length, <- (seq_length (nnodes g) 0).
  apply NoDup_incl_length; [apply (inv_nodup g st HI)|].
  intros x Hx. apply In_seq0. now apply (inv_ready g st HI).
Qed.

Lemma kahn_loop_spec g : gwf g -> forall fuel st, Inv g st -> nnodes g < length (k_sorted st) + fuel ->
  exists st', kahn_loop g fuel st = Ok st' /\ Inv g st' /\ k_queue st' = [].
Proof.
  intros Hg. induction fuel as [|fuel IH]; intros st HI Hf; simpl; destruct (k_queue st) as [|n q] eqn:Hq.
  - exists st. auto.
  - exfalso. pose proof (inv_length g st HI) as H. rewrite Hq in H. simpl in H. lia.
  - exists st. auto.
  - apply IH.
    + now apply inv_step.
    + destruct (step_fold g Hg st HI n q Hq) as (E1 & _). rewrite E1, app_length. simpl. lia.
Qed.

Lemma kahn_total g : gwf g ->
  exists st, kahn_loop g (S (nnodes g)) (kahn_init g) = Ok st /\ Inv g st /\ k_queue st = [].
Proof. intros Hg. apply kahn_loop_spec; [assumption | now apply inv_init | simpl; lia]. Qed.

(** * Order facts *)

Lemma NoDup_split_unique {A} (b : A) : forall x1 y1 x2 y2,
  NoDup (x1 ++ b :: y1) -> x1 ++ b :: y1 = x2 ++ b :: y2 -> x1 = x2 /\ y1 = y2.
Proof.
  induction x1 as [|z x1 IH]; intros y1 [|z' x2] y2 Hnd Heq; simpl in *.
  - injection Heq as ->. auto.
  - injection Heq as <- ->. apply NoDup_cons_iff in Hnd as [Hb _]. exfalso. apply Hb.
    rewrite in_app_iff. right. now left.
  - injection Heq as -> <-. apply NoDup_cons_iff in Hnd as [Hb _]. exfalso. apply Hb.
    rewrite in_app_iff. right. now left.
  - injection Heq as <- Heq. apply NoDup_cons_iff in Hnd as [_ Hnd].
    destruct (IH _ _ _ Hnd Heq) as [-> ->]. auto.
Qed.

Lemma before_trans l a b c : NoDup l -> before l a b -> before l b c -> before l a c.
Proof.
  intros Hnd (l1 & l2 & l3 & H1) (m1 & m2 & m3 & H2).
  assert (H : (l1 ++ a :: l2) ++ b :: l3 = m1 ++ b :: m2 ++ c :: m3).
  { rewrite <- H2, H1, <- app_assoc. reflexivity. }
  apply NoDup_split_unique in H as [_ ->].
  - exists l1, (l2 ++ b :: m2), m3. rewrite H1, <- app_assoc. reflexivity.
  - rewrite <- app_assoc. simpl. now rewrite <- H1.
Qed.

Lemma before_irrefl l a : NoDup l -> ~ before l a a.
Proof.
  intros Hnd (l1 & l2 & l3 & H). rewrite H in Hnd.
  apply NoDup_mid_notin in Hnd as [_ Hn]. apply Hn. rewrite in_app_iff. right. now left.
Qed.

Lemma before_nth l i j d : i < j -> j < length l -> before l (nth i l d) (nth j l d).
Proof.
  intros Hij Hj.
  destruct (nth_split l d Hj) as (l1 & l2 & Hl & Hlen).
  assert (Hi : i < length l1) by lia.
  destruct (nth_split l1 d Hi) as (a & b & Hl1 & _).
  assert (E : nth i l d = nth i l1 d).
  { rewrite Hl at 1. now apply app_nth1. }
  exists a, b, l2. rewrite E. rewrite Hl at 1. rewrite Hl1 at 1. rewrite <- app_assoc. reflexivity.
Qed.

Lemma before_In l a b : before l a b -> In a l /\ In b l.
Proof.
  intros (l1 & l2 & l3 & ->). split; rewrite in_app_iff; right; [now left|].
  right. rewrite in_app_iff. right. now left.
Qed.

Section Final.
  Variable g : graph.
  Hypothesis Hg : gwf g.
  Variable st : kstate.
  Hypothesis HI : Inv g st.
  Hypothesis Hq : k_queue st = [].
  Let N := nnodes g.
  Let srt := k_sorted st.

  Lemma final_nodup : NoDup srt.
  Proof. pose proof (inv_nodup g st HI) as H. now rewrite Hq, app_nil_r in H. Qed.

  Lemma final_lt x : In x srt -> x < N.
  Proof. intros H. apply (inv_ready g st HI). rewrite Hq, app_nil_r. exact H. Qed.

  Lemma final_edge_before p x : edge g p x -> In x srt -> before srt p x.
  Proof.
    intros E Hx. apply in_split in Hx as (l1 & l2 & Hs).
    pose proof (inv_topo g st HI l1 x l2 Hs p E) as Hp.
    apply in_split in Hp as (a & b & ->).
    exists a, b, l2. rewrite Hs, <- app_assoc. reflexivity.
  Qed.

  (** a node that was sorted has all its transitive ancestors sorted before it *)
  Lemma final_reach_before k j : reach g k j -> In j srt -> before srt k j.
  Proof.
    intros H. apply clos_trans_tn1 in H. induction H as [j E | i j E H IH]; intros Hj.
    - now apply final_edge_before.
    - pose proof (final_edge_before i j E Hj) as Hb.
      eapply before_trans; [apply final_nodup | apply IH | exact Hb].
      apply (before_In _ _ _ Hb).
  Qed.

  (** completeness, constructively: a node left unsorted when the queue is empty exhibits a cycle *)
  Fixpoint walk (l : list nat) : Prop :=
    match l with
    | [] => True
    | a :: r => match r with [] => True | b :: _ => edge g a b /\ walk r end
    end.

  Lemma walk_app_r l1 l2 : walk (l1 ++ l2) -> walk l2.
  Proof.
    induction l1 as [|a l1 IH]; simpl; auto.
    destruct (l1 ++ l2) eqn:E; [|tauto].
    intros _. apply app_eq_nil in E as [_ ->]. exact I.
  Qed.

  Lemma walk_app_l l1 l2 : walk (l1 ++ l2) -> walk l1.
  Proof.
    induction l1 as [|a l1 IH]; simpl; auto.
    destruct l1 as [|b l1]; simpl in *; auto. tauto.
  Qed.

  Lemma walk_reach : forall l a b, walk (a :: l ++ [b]) -> reach g a b.
  Proof.
    induction l as [|c l IH]; intros a b; simpl.
    - intros [E _]. now apply t_step.
    - intros [E H]. eapply t_trans; [apply t_step; exact E|]. now apply IH.
  Qed.

  Lemma forallb_false_ex {A} (f : A -> bool) l : forallb f l = false -> exists x, In x l /\ f x = false.
  Proof.
    induction l as [|a l IH]; simpl; [discriminate|].
    destruct (f a) eqn:E; simpl.
    - intros H. destruct (IH H) as (x & ? & ?). eauto.
    - intros _. eauto.
  Qed.

  Definition unsorted (x : nat) : Prop := x < N /\ ~ In x srt.

  Lemma unsorted_parent x : unsorted x -> exists p, unsorted p /\ edge g p x.
  Proof.
    intros [Hx Hn].
    destruct (forallb (fun p => memb p srt) (parents g x)) eqn:E.
    - exfalso. apply Hn. rewrite forallb_forall in E.
      assert (H : In x (k_sorted st ++ k_queue st)).
      { apply (inv_ready g st HI). split; auto. intros p Hp. apply memb_In. now apply E. }
      now rewrite Hq, app_nil_r in H.
    - apply forallb_false_ex in E as (p & Hp & E). apply memb_false in E.
      exists p. split; auto. split; auto. eapply (proj1 Hg); eauto.
  Qed.

  Lemma long_walk x : unsorted x -> forall k, exists l, length l = S k /\ Forall unsorted l /\ walk l.
  Proof.
    intros Hx. induction k as [|k (l & Hl & Hf & Hw)].
    - exists [x]. simpl. auto.
    - destruct l as [|h t]; [discriminate|].
      apply Forall_cons_iff in Hf as [Hh Ht].
      destruct (unsorted_parent h Hh) as (p & Hp & E).
      exists (p :: h :: t). split; [simpl in *; lia|]. split; [auto|]. simpl. auto.
  Qed.

  Lemma dup_split : forall l : list nat, ~ NoDup l -> exists a l1 l2 l3, l = l1 ++ a :: l2 ++ a :: l3.
  Proof.
    induction l as [|x l IH]; intros H.
    - exfalso. apply H. constructor.
    - destruct (in_dec Nat.eq_dec x l) as [Hx | Hx].
      + apply in_split in Hx as (l2 & l3 & ->). exists x, [], l2, l3. reflexivity.
      + destruct IH as (a & l1 & l2 & l3 & ->).
        * intros Hnd. apply H. now constructor.
        * exists a, (x :: l1), l2, l3. reflexivity.
  Qed.

  Lemma unsorted_cyclic x : unsorted x -> cyclic g.
  Proof.
    intros Hx. destruct (long_walk x Hx N) as (l & Hl & Hf & Hw).
    assert (Hnd : ~ NoDup l).
    { intros Hnd. apply NoDup_incl_length with (l' := seq 0 N) in Hnd.
      - rewrite seq_length in Hnd. lia.
      - intros y Hy. apply In_seq0. rewrite Forall_forall in Hf. now apply Hf. }
    apply dup_split in Hnd as (a & l1 & l2 & l3 & ->).
    exists a. apply walk_reach with (l := l2).
    apply walk_app_r in Hw.
    apply walk_app_l with (l2 := l3). simpl. rewrite <- app_assoc. exact Hw.
  Qed.

  (** from here on: every node was sorted (the test of dag.py:420 passed) *)
  Hypothesis Hall : forall x, x < N -> In x srt.

  Lemma final_perm : Permutation srt (seq 0 N).
  Proof.
    apply NoDup_Permutation; [apply final_nodup | apply seq_NoDup |].
    intros x. rewrite In_seq0. split; [apply final_lt | apply Hall].
  Qed.

  Lemma final_length : length srt = N.
  Proof. rewrite (Permutation_length final_perm). apply seq_length. Qed.

  Lemma final_path k j : k < N -> j < N -> (mget (k_path st) k j = true <-> reach g k j).
  Proof.
    intros Hk Hj. rewrite (inv_path g st HI) by auto. rewrite reach_last. split.
    - intros (i & _ & H). eauto.
    - intros (i & E & H). exists i. split; auto. apply Hall. eapply (proj1 Hg); eauto.
  Qed.

  Lemma final_before k j : reach g k j -> before srt k j.
  Proof.
    intros H. apply final_reach_before; auto. apply Hall. now apply (reach_lt g k j Hg).
  Qed.

  Lemma final_acyclic : ~ cyclic g.
  Proof. intros (i & H). apply final_before in H. eapply before_irrefl; eauto using final_nodup. Qed.

  (** the re-indexed path matrix is strictly upper triangular: the test of dag.py:425 cannot fail *)
  Lemma final_lower_false ia ib : ib <= ia -> ia < N ->
    mget (k_path st) (nth ia srt 0) (nth ib srt 0) = false.
  Proof.
    intros Hle Hia.
    assert (Ha : nth ia srt 0 < N) by (apply final_lt, nth_In; rewrite final_length; lia).
    assert (Hb : nth ib srt 0 < N) by (apply final_lt, nth_In; rewrite final_length; lia).
    destruct (mget (k_path st) (nth ia srt 0) (nth ib srt 0)) eqn:E; auto.
    exfalso. apply final_path in E; auto. apply final_before in E.
    destruct (Nat.eq_dec ia ib) as [->|Hne].
    - eapply before_irrefl; eauto using final_nodup.
    - eapply before_irrefl; [apply final_nodup|].
      eapply before_trans; [apply final_nodup | exact E |].
      apply before_nth; [lia | rewrite final_length; lia].
  Qed.
End Final.

(** * Reading the result off the re-indexed matrix *)

Definition mapi_from {A B} (s : nat) (f : nat -> A -> B) (l : list A) : list B :=
  map (fun p => f (fst p) (snd p)) (combine (seq s (length l)) l).

Lemma mapi_from_cons {A B} s (f : nat -> A -> B) x l : mapi_from s f (x :: l) = f s x :: mapi_from (S s) f l.
Proof. reflexivity. Qed.

Lemma mapi_is_from {A B} (f : nat -> A -> B) l : mapi f l = mapi_from 0 f l.
Proof. reflexivity. Qed.

Lemma mapi_from_map {A B} (f : nat -> A -> B) (h : A -> B) d : forall l s,
  (forall i, i < length l -> f (s + i) (nth i l d) = h (nth i l d)) -> mapi_from s f l = map h l.
Proof.
  induction l as [|x l IH]; intros s H; [reflexivity|].
  rewrite mapi_from_cons. simpl. f_equal.
  - specialize (H 0). simpl in H. rewrite Nat.add_0_r in H. apply H. lia.
  - apply IH. intros i Hi. specialize (H (S i)). simpl in H. rewrite Nat.add_succ_r in H. apply H. lia.
Qed.

Lemma list_eqb_mapi_from {A} (e : A -> A -> bool) (f : nat -> A -> A) d : forall l s,
  (forall i, i < length l -> e (nth i l d) (f (s + i) (nth i l d)) = true) ->
  list_eqb e l (mapi_from s f l) = true.
Proof.
  induction l as [|x l IH]; intros s H; [reflexivity|].
  rewrite mapi_from_cons. simpl. apply andb_true_iff. split.
  - specialize (H 0). simpl in H. rewrite Nat.add_0_r in H. apply H. lia.
  - apply IH. intros i Hi. specialize (H (S i)). simpl in H. rewrite Nat.add_succ_r in H. apply H. lia.
Qed.

Lemma reindex_simpl M ix : reindex M ix = map (fun a => map (fun b => mget M a b) ix) ix.
Proof. unfold reindex. rewrite map_map. reflexivity. Qed.

Lemma filter_map_S (P : nat -> bool) s : filter P (map S s) = map S (filter (fun j => P (S j)) s).
Proof. induction s as [|a s IH]; simpl; auto. destruct (P (S a)); simpl; now rewrite IH. Qed.

Lemma select_filter (f : nat -> bool) l : map (fun j => nth j l 0) (nonzero (map f l)) = filter f l.
Proof.
  unfold nonzero. rewrite map_length. induction l as [|x l IH]; [reflexivity|].
  cbn [length map]. rewrite <- cons_seq, <- seq_shift. cbn [filter nth].
  rewrite filter_map_S. cbn [nth]. 
  destruct (f x); cbn [map nth]; rewrite map_map; cbn [nth]; now rewrite IH.
Qed.

Lemma nth_map_in {A B} (h : A -> B) l i d d' : i < length l -> nth i (map h l) d' = h (nth i l d).
Proof. intros H. rewrite nth_indep with (d' := h d) by now rewrite map_length. apply map_nth. Qed.

Lemma read_children_simpl P srt :
  read_children srt (reindex P srt) = map (fun k => (k, filter (fun j => mget P k j) srt)) srt.
Proof.
  unfold read_children. rewrite mapi_is_from, reindex_simpl.
  apply mapi_from_map with (d := 0). intros i Hi. simpl. f_equal.
  unfold mrow. rewrite nth_map_in with (d := 0) by auto. apply select_filter.
Qed.

Lemma read_ancestors_simpl P srt :
  read_ancestors srt (reindex P srt) = map (fun j => (j, filter (fun k => mget P k j) srt)) srt.
Proof.
  unfold read_ancestors. rewrite mapi_is_from, reindex_simpl.
  apply mapi_from_map with (d := 0). intros i Hi. simpl. f_equal.
  unfold mcol. rewrite map_map.
  rewrite (map_ext (fun a => nth i (map (fun b => mget P a b) srt) false) (fun a => mget P a (nth i srt 0))).
  - apply select_filter.
  - intros a. now apply nth_map_in.
Qed.

Lemma triangular_ok P srt :
  (forall ia ib, ib <= ia -> ia < length srt -> mget P (nth ia srt 0) (nth ib srt 0) = false) ->
  mat_eqb (reindex P srt) (triu1 (reindex P srt)) = true.
Proof.
  intros H. unfold mat_eqb, triu1. rewrite mapi_is_from.
  apply list_eqb_mapi_from with (d := []). intros ia Hia. simpl.
  rewrite mapi_is_from. apply list_eqb_mapi_from with (d := false). intros ib Hib. simpl.
  destruct (Nat.ltb_spec ia ib); [apply eqb_reflx|].
  rewrite reindex_simpl, map_length in Hia.
  rewrite reindex_simpl in *. rewrite nth_map_in with (d := 0) in * by auto.
  rewrite map_length in Hib. rewrite nth_map_in with (d := 0) by auto.
  rewrite H; auto.
Qed.

(** * The consistency checks *)

Lemma unknown_nodes_nil g : unknown_nodes g = [] <-> forall c p, edge g p c -> p < nnodes g.
Proof.
  unfold unknown_nodes. rewrite filter_nil_iff. split.
  - intros H c p E. assert (Hc : c < nnodes g) by (eapply edge_child_lt; eauto).
    specialize (H p). rewrite negb_false_iff, Nat.ltb_lt in H. apply H.
    apply in_concat. exists (parents g c). split; auto. now apply nth_In.
  - intros H p Hp. apply in_concat in Hp as (l & Hl & Hp).
    apply In_nth with (d := []) in Hl as (c & Hc & <-).
    rewrite negb_false_iff, Nat.ltb_lt. apply (H c). exact Hp.
Qed.

Lemma self_loops_nil g : self_loops g = [] <-> forall i, ~ edge g i i.
Proof.
  unfold self_loops. rewrite filter_nil_iff. split.
  - intros H i E. assert (Hi : i < nnodes g) by (eapply edge_child_lt; eauto).
    apply In_seq0 in Hi. apply H in Hi. apply memb_false in Hi. contradiction.
  - intros H x _. apply memb_false. apply H.
Qed.

Lemma left_alone_In g i : In i (left_alone g) <-> i < nnodes g /\ parents g i = [] /\ forall c, ~ edge g i c.
Proof.
  unfold left_alone. rewrite filter_In, In_seq0, andb_true_iff, !null_no_In.
  split.
  - intros (H1 & H2 & H3). split; [|split]; auto.
    + destruct (parents g i) as [|x l]; auto. exfalso. apply (H3 x). now left.
    + intros c. rewrite <- In_children. apply H2.
  - intros (H1 & H2 & H3). split; [|split]; auto.
    + intros c. rewrite In_children. apply H3.
    + rewrite H2. auto.
Qed.

Lemma left_alone_nil g : left_alone g = [] <-> ~ isolated g.
Proof.
  split.
  - intros H (i & Hi). apply left_alone_In in Hi. rewrite H in Hi. destruct Hi.
  - intros H. destruct (left_alone g) as [|i l] eqn:E; auto.
    exfalso. apply H. exists i. apply left_alone_In. rewrite E. now left.
Qed.

(** * What [build] returns *)

Definition result_of (g : graph) (st : kstate) : dag :=
  mkDag (k_sorted st) (map (direct_children g) (seq 0 (nnodes g)))
        (read_children (k_sorted st) (reindex (k_path st) (k_sorted st)))
        (read_ancestors (k_sorted st) (reindex (k_path st) (k_sorted st))).

Lemma same_set_all srt n : same_set srt (seq 0 n) = true -> forall x, x < n -> In x srt.
Proof.
  unfold same_set. rewrite andb_true_iff, !forallb_forall. intros [_ H] x Hx.
  apply memb_In, H, In_seq0, Hx.
Qed.

Lemma build_ok g r : build g = Ok r ->
  gwf g /\ ~ isolated g /\
  exists st, Inv g st /\ k_queue st = [] /\ (forall x, x < nnodes g -> In x (k_sorted st)) /\ r = result_of g st.
Proof.
  unfold build.
  destruct (null (unknown_nodes g)) eqn:E1; cbn [negb]; [|discriminate].
  destruct (null (self_loops g)) eqn:E2; cbn [negb]; [|discriminate].
  destruct (null (left_alone g)) eqn:E3; cbn [negb]; [|discriminate].
  apply null_nil in E1, E2, E3.
  assert (Hg : gwf g) by (split; [now apply unknown_nodes_nil | now apply self_loops_nil]).
  destruct (kahn_total g Hg) as (st & -> & HI & Hq).
  destruct (same_set (k_sorted st) (seq 0 (nnodes g))) eqn:E4; cbn [negb]; [|discriminate].
  destruct (mat_eqb _ _) eqn:E5; cbn [negb]; [|discriminate].
  intros [= <-]. split; auto. split; [now apply left_alone_nil|].
  exists st. split; [exact HI|]. split; [exact Hq|]. split; [now apply same_set_all | reflexivity].
Qed.

Theorem build_err_meaning g e : build g = Err e ->
  (e = EUnknownRef /\ unknown_ref g) \/ (e = ESelfLoop /\ self_loop g) \/
  (e = EIsolated /\ isolated g) \/ (e = ENotDag /\ cyclic g).
Proof.
  unfold build.
  destruct (null (unknown_nodes g)) eqn:E1; cbn [negb].
  2:{ intros [= <-]. left. split; auto.
      apply null_false_In in E1 as (p & Hp). unfold unknown_nodes in Hp.
      apply filter_In in Hp as [Hp Hlt]. apply in_concat in Hp as (l & Hl & Hp).
      apply In_nth with (d := []) in Hl as (c & Hc & <-).
      exists c, p. split; auto. rewrite negb_true_iff, Nat.ltb_ge in Hlt. exact Hlt. }
  destruct (null (self_loops g)) eqn:E2; cbn [negb].
  2:{ intros [= <-]. right. left. split; auto.
      apply null_false_In in E2 as (i & Hi). unfold self_loops in Hi.
      apply filter_In in Hi as [_ Hi]. exists i. now apply memb_In. }
  destruct (null (left_alone g)) eqn:E3; cbn [negb].
  2:{ intros [= <-]. right. right. left. split; auto.
      apply null_false_In in E3 as (i & Hi). exists i. now apply left_alone_In. }
  apply null_nil in E1, E2.
  assert (Hg : gwf g) by (split; [now apply unknown_nodes_nil | now apply self_loops_nil]).
  destruct (kahn_total g Hg) as (st & -> & HI & Hq).
  destruct (same_set (k_sorted st) (seq 0 (nnodes g))) eqn:E4; cbn [negb].
  2:{ intros [= <-]. right. right. right. split; auto.
      unfold same_set in E4. apply andb_false_iff in E4 as [E4 | E4].
      - exfalso. apply forallb_false_ex in E4 as (x & Hx & E). apply memb_false in E. apply E.
        apply In_seq0. eapply final_lt; eauto.
      - apply forallb_false_ex in E4 as (x & Hx & E). apply memb_false in E. apply In_seq0 in Hx.
        eapply unsorted_cyclic; eauto. split; eauto. }
  pose proof (same_set_all _ _ E4) as Hall.
  rewrite triangular_ok; cbn [negb]; [discriminate|].
  intros ia ib Hle Hia. rewrite (final_length g st HI Hq Hall) in Hia.
  now apply (final_lower_false g Hg st HI Hq Hall).
Qed.

Theorem build_topological g r : build g = Ok r ->
  Permutation (order r) (seq 0 (nnodes g)) /\ forall i j, reach g i j -> before (order r) i j.
Proof.
  intros H. apply build_ok in H as (Hg & _ & st & HI & Hq & Hall & ->). simpl. split.
  - now apply final_perm.
  - now apply final_before.
Qed.

Theorem build_exact g r : build g = Ok r ->
  map fst (sorted_children r) = order r /\ map fst (sorted_ancestors r) = order r /\
  (forall i l, In (i, l) (sorted_children r) ->
      (exists f, l = filter f (order r)) /\ forall j, In j l <-> reach g i j) /\
  (forall i l, In (i, l) (sorted_ancestors r) ->
      (exists f, l = filter f (order r)) /\ forall j, In j l <-> reach g j i).
Proof.
  intros H. apply build_ok in H as (Hg & _ & st & HI & Hq & Hall & ->). simpl.
  rewrite read_children_simpl, read_ancestors_simpl, !map_map. simpl. rewrite !map_id.
  split; [reflexivity|]. split; [reflexivity|]. split.
  - intros i l Hil. apply in_map_iff in Hil as (k & [= <- <-] & Hk).
    split; [eexists; reflexivity|]. intros j. rewrite filter_In.
    assert (Hk' : k < nnodes g) by (eapply final_lt; eauto). split.
    + intros [Hj E]. apply (final_path g Hg st HI Hall); eauto using final_lt.
    + intros R. destruct (reach_lt g k j Hg R) as [_ Hj]. split; auto.
      now apply (final_path g Hg st HI Hall).
  - intros i l Hil. apply in_map_iff in Hil as (k & [= <- <-] & Hk).
    split; [eexists; reflexivity|]. intros j. rewrite filter_In.
    assert (Hk' : k < nnodes g) by (eapply final_lt; eauto). split.
    + intros [Hj E]. apply (final_path g Hg st HI Hall); eauto using final_lt.
    + intros R. destruct (reach_lt g j k Hg R) as [Hj _]. split; auto.
      now apply (final_path g Hg st HI Hall).
Qed.

Theorem build_refuses g : cyclic g \/ self_loop g \/ unknown_ref g \/ isolated g -> exists e, build g = Err e.
Proof.
  intros H. destruct (build g) as [r|e] eqn:E; [exfalso | eauto].
  apply build_ok in E as (Hg & Hiso & st & HI & Hq & Hall & _).
  destruct H as [H | [(i & H) | [(c & p & H & Hp) | H]]].
  - now apply (final_acyclic g Hg st HI Hq Hall).
  - now apply (proj2 Hg i).
  - apply (proj1 Hg) in H. lia.
  - contradiction.
Qed.

Theorem build_accepts g : ~ cyclic g -> ~ self_loop g -> ~ unknown_ref g -> ~ isolated g -> exists r, build g = Ok r.
Proof.
  intros H1 H2 H3 H4. destruct (build g) as [r|e] eqn:E; [eauto | exfalso].
  apply build_err_meaning in E as [[_ H] | [[_ H] | [[_ H] | [_ H]]]]; contradiction.
Qed.

Theorem build_no_artefact g e : build g = Err e -> e <> EFuel /\ e <> ENotTriangular.
Proof.
  intros E. apply build_err_meaning in E as [[-> _] | [[-> _] | [[-> _] | [-> _]]]]; split; discriminate.
Qed.

Theorem build_direct_children g r : build g = Ok r ->
  length (dchildren r) = nnodes g /\
  forall i, i < nnodes g -> NoDup (nth i (dchildren r) []) /\ forall c, In c (nth i (dchildren r) []) <-> edge g i c.
Proof.
  intros H. apply build_ok in H as (_ & _ & st & _ & _ & _ & ->). simpl. split.
  - now rewrite map_length, seq_length.
  - intros i Hi. rewrite nth_map_in with (d := 0) by now rewrite seq_length.
    rewrite seq_nth by auto. simpl. split; [apply NoDup_children | intros c; apply In_children].
Qed.

(** * The result does not depend on the order (or repetitions) in which the ancestor collections are listed
      — the model-side counterpart of "frozenset iteration order is irrelevant" *)

Definition set_eq (a b : list nat) : Prop := forall x, In x a <-> In x b.
Definition graph_equiv (g1 g2 : graph) : Prop :=
  length g1 = length g2 /\ forall i, set_eq (parents g1 i) (parents g2 i).

Lemma bool_eq_iff (b1 b2 : bool) : (b1 = true <-> b2 = true) -> b1 = b2.
Proof. destruct b1, b2; intuition congruence. Qed.

Lemma memb_set_eq x a b : set_eq a b -> memb x a = memb x b.
Proof. intros H. apply bool_eq_iff. rewrite !memb_In. apply H. Qed.

Lemma null_set_eq a b : set_eq a b -> null a = null b.
Proof.
  intros H. apply bool_eq_iff. rewrite !null_no_In. split; intros H' x Hx; apply (H' x), H, Hx.
Qed.

Lemma remove_all_set_eq n a b : set_eq a b -> set_eq (remove_all n a) (remove_all n b).
Proof. intros H x. rewrite !In_remove_all. now rewrite (H x). Qed.

Lemma nth_upd {T} (l : list T) i k v d :
  nth k (upd l i v) d = if (k =? i) && (i <? length l) then v else nth k l d.
Proof.
  revert i k; induction l as [|a l IH]; intros i k.
  - simpl. rewrite andb_false_r. now destruct i, k.
  - destruct i as [|i], k as [|k]; simpl; auto. rewrite IH. reflexivity.
Qed.

Section SetOrder.
  Variables g1 g2 : graph.
  Hypothesis Heq : graph_equiv g1 g2.

  Lemma eqv_nnodes : nnodes g1 = nnodes g2.
  Proof. apply Heq. Qed.

  Lemma eqv_edge p c : edge g1 p c <-> edge g2 p c.
  Proof. apply Heq. Qed.

  Lemma eqv_children a : direct_children g1 a = direct_children g2 a.
  Proof.
    unfold direct_children. rewrite eqv_nnodes. apply filter_ext.
    intros c. apply memb_set_eq, Heq.
  Qed.

  Definition krel (s1 s2 : kstate) : Prop :=
    k_sorted s1 = k_sorted s2 /\ k_queue s1 = k_queue s2 /\ k_path s1 = k_path s2 /\
    length (k_anc s1) = length (k_anc s2) /\ forall m, set_eq (nth m (k_anc s1) []) (nth m (k_anc s2) []).

  Lemma krel_visit n s1 s2 m : krel s1 s2 -> krel (visit_child n s1 m) (visit_child n s2 m).
  Proof.
    intros (E1 & E2 & E3 & E4 & E5). unfold visit_child, krel. simpl.
    pose proof (remove_all_set_eq n _ _ (E5 m)) as Hr.
    rewrite E1, E2, E3, (null_set_eq _ _ Hr), !length_upd.
    split; [|split; [|split; [|split]]]; auto.
    intros m'. rewrite !nth_upd, E4. destruct ((m' =? m) && (m <? length (k_anc s2))); [apply Hr | apply E5].
  Qed.

  Lemma krel_fold n cs : forall s1 s2, krel s1 s2 ->
    krel (fold_left (visit_child n) cs s1) (fold_left (visit_child n) cs s2).
  Proof. induction cs as [|m cs IH]; simpl; auto. intros s1 s2 H. apply IH, krel_visit, H. Qed.

  Definition res_rel (r1 r2 : res kstate) : Prop :=
    match r1, r2 with
    | Ok s1, Ok s2 => krel s1 s2
    | Err e1, Err e2 => e1 = e2
    | _, _ => False
    end.

  Lemma krel_loop : forall fuel s1 s2, krel s1 s2 -> res_rel (kahn_loop g1 fuel s1) (kahn_loop g2 fuel s2).
  Proof.
    induction fuel as [|fuel IH]; intros s1 s2 H; pose proof H as (E1 & E2 & E3 & E4 & E5); simpl; rewrite <- E2;
      destruct (k_queue s1) as [|n q]; simpl; auto.
    apply IH. rewrite eqv_children. apply krel_fold. unfold krel. simpl. rewrite E1. auto.
  Qed.

  Lemma krel_init : krel (kahn_init g1) (kahn_init g2).
  Proof.
    unfold kahn_init, krel. simpl. rewrite eqv_nnodes. repeat split; try apply Heq.
    apply filter_ext. intros i. apply null_set_eq, Heq.
  Qed.

  Theorem build_set_order_irrelevant : build g1 = build g2.
  Proof.
    unfold build.
    assert (H1 : null (unknown_nodes g1) = null (unknown_nodes g2)).
    { apply bool_eq_iff. rewrite !null_nil, !unknown_nodes_nil, eqv_nnodes.
      split; intros H c p E; apply (H c p), eqv_edge, E. }
    assert (H2 : self_loops g1 = self_loops g2).
    { unfold self_loops. rewrite eqv_nnodes. apply filter_ext. intros i. apply memb_set_eq, Heq. }
    assert (H3 : left_alone g1 = left_alone g2).
    { unfold left_alone. rewrite eqv_nnodes. apply filter_ext. intros i.
      rewrite eqv_children. f_equal. apply null_set_eq, Heq. }
    rewrite H1, H2, H3, eqv_nnodes.
    destruct (negb (null (unknown_nodes g2))); auto.
    destruct (negb (null (self_loops g2))); auto.
    destruct (negb (null (left_alone g2))); auto.
    pose proof (krel_loop (S (nnodes g2)) _ _ krel_init) as H.
    destruct (kahn_loop g1 (S (nnodes g2)) (kahn_init g1)) as [s1|e1],
             (kahn_loop g2 (S (nnodes g2)) (kahn_init g2)) as [s2|e2]; simpl in H; try contradiction.
    - destruct H as (E1 & _ & E3 & _). rewrite E1, E3.
      rewrite (map_ext _ _ eqv_children). reflexivity.
    - now subst.
  Qed.
End SetOrder.
