(** The source facts [Dag.FromDict] is a model OF, as tables (definitions only).  harness/translate/c15_fromdict.py
    regenerates the same tables from /repo on every run (coq/gen/GenC15FromDict.v); [Dag/FromDictTie.v] proves them equal.
    The two structured tables are computed from the executable model itself:
      [accepted_kinds]            is the list [get_named_parameters] tests membership in,
      [map p_kind g_o_f_sig]      is the signature [nif_then] gives to the composed function. *)
From Coq Require Import String List.
From Leaspy Require Import Dag.FromDict.
Import ListNotations.
Open Scope string_scope.

Record fromdict_source := mkSrc {
  s_gnp_named_result : string;            (* [get_named_parameters] on a NamedInputFunction    -> [GnpOk (nif_parameters n)] *)
  s_gnp_accepted_kinds : list pkind;      (* kinds that are not collected as refused           -> [accepted_kinds] *)
  s_gnp_refusal : string;                 (*                                                    -> [GnpValueError] *)
  s_gnp_plain_result : string;            (* ALL the names of the signature, in order           -> [GnpOk (map p_name s)] *)
  s_nif_fields : list (string * bool);    (* dataclass fields (has a default)                   -> record [nif] *)
  s_g_o_f_kinds : list pkind;             (*                                                    -> [g_o_f_sig] *)
  s_then_fields : list (string * string); (*                                                    -> [nif_then] *)
  s_bound_fields : list (string * string);(*                                                    -> [bound_to] *)
  s_variable_classes : list (string * string);  (* class, the class whose [get_ancestors_names] it uses -> [DIndep] / [DLinked] *)
  s_indep_ancestors : string;             (*                                                    -> [ancestors_names (DIndep _) = Some []] *)
  s_linked_post_init : list string;       (* ValueError -> LeaspyModelInputError                -> [ancestors_names (DLinked f)], [FSignature] *)
  s_linked_ancestors : string;
  s_from_dict : list string;              (*                                                    -> [direct_ancestors], [from_dict] *)
  s_check_consistency : list string;      (* key-set check first, then the bad-node check       -> [ctor], [FKeys] *)
  s_post_init_first : string              (* nothing precedes the key-set check                 -> [ctor] *)
}.

Definition model_source : fromdict_source := mkSrc
  "f.parameters"
  accepted_kinds
  "ValueError(refused names)"
  "tuple(params)"
  [("f", false); ("parameters", false); ("kws", true)]
  (map p_kind g_o_f_sig)
  [("f", "g_o_f"); ("parameters", "self.parameters"); ("kws", "self.kws")]
  [("f", "f"); ("parameters", "parameters"); ("kws", "kws or None")]
  [("DataVariable", "IndepVariable"); ("Hyperparameter", "IndepVariable"); ("IndepVariable", "IndepVariable");
   ("IndividualLatentVariable", "IndepVariable"); ("LatentVariable", "IndepVariable"); ("LinkedVariable", "LinkedVariable");
   ("ModelParameter", "IndepVariable"); ("PopulationLatentVariable", "IndepVariable")]
  "frozenset()"
  ["inferred_params = get_named_parameters(self.f)"; "except ValueError: raise LeaspyModelInputError";
   "object.__setattr__(self, 'parameters', frozenset(inferred_params))"]
  "self.parameters"
  ["direct_ancestors = {variable_name: variable.get_ancestors_names() for variable_name, variable in input_dictionary.items()}";
   "return cls(input_dictionary, direct_ancestors=direct_ancestors)"]
  ["nodes = frozenset(self.variables.keys())"; "if nodes != self.direct_ancestors.keys(): raise ValueError";
   "self._raise_if_bad_nodes_in_edges(self.direct_ancestors, nodes, what='ancestors')"; "return nodes"]
  "nodes = self._check_consistency_of_nodes()".
