(** Model of how the PARENTS of every variable are obtained from the variable DEFINITIONS (C15, extension 4), definitions only.

    Mirrors, in /repo/src/leaspy:
      utils/functional/_utils.py            get_named_parameters
      utils/functional/_named_input_function.py   NamedInputFunction (.parameters, .then, .bound_to -> factory)
      variables/specs.py                    IndepVariable.get_ancestors_names, LinkedVariable.__post_init__ / .get_ancestors_names
      variables/dag.py                      VariablesDAG.from_dict, VariablesDAG._check_consistency_of_nodes (key-set check)
    and ends in [Dag.DagModel.build] (the model of [VariablesDAG.__post_init__] after the key-set check).

    Names are [nat]: as in [DagModel], variable [i] is the [i]-th name in NAME-SORTED order and a name [p >= number of
    variables] is a name that is no variable.  A python callable is abstracted by what [inspect.signature] reports of it:
    the ordered list of its parameters (name, kind, has-a-default); [inspect.signature] itself (python standard library,
    including its treatment of [functools.partial]) is outside the model.  Errors are values. *)
From Coq Require Import List Bool Arith PeanoNat Relations.
From Leaspy Require Import Dag.DagModel Dag.GraphLit.
Import ListNotations.

(** ** Python signatures *)

(** [inspect.Parameter.kind] *)
Inductive pkind := PosOnly | PosOrKw | VarPos | KwOnly | VarKw.

Definition pkind_eqb (a b : pkind) : bool :=
  match a, b with
  | PosOnly, PosOnly | PosOrKw, PosOrKw | VarPos, VarPos | KwOnly, KwOnly | VarKw, VarKw => true
  | _, _ => false
  end.

Record param := mkParam {
  p_name : nat;
  p_kind : pkind;
  p_default : bool       (* [p.default is not p.empty]; read by NOTHING below: a default does not hide a parameter *)
}.

Definition signature := list param.

(** [NamedInputFunction(f, parameters, kws)]: [nif_f] is the signature of the wrapped callable (never inspected),
    [nif_parameters] the names assigned, in order, to its positional arguments (repetitions allowed),
    [nif_kws] the names of the fixed keyword arguments. *)
Record nif := mkNif {
  nif_f : signature;
  nif_parameters : list nat;
  nif_kws : list nat
}.

(** what can be given to [LinkedVariable(f)] / [get_named_parameters(f)] *)
Inductive callable :=
| CPlain (s : signature)     (* any callable that is not a NamedInputFunction *)
| CNamed (n : nif).          (* isinstance(f, NamedInputFunction) *)

(** ** get_named_parameters  (_utils.py) *)

(** the parameter kinds that do NOT land in [non_kw_only_params]  ([p.kind is not p.KEYWORD_ONLY]) *)
Definition accepted_kinds : list pkind := [KwOnly].
Definition kind_accepted (k : pkind) : bool := existsb (pkind_eqb k) accepted_kinds.

Inductive gnp_res :=
| GnpOk (ps : list nat)               (* [return f.parameters] / [return tuple(params)]: the names, in order *)
| GnpValueError (bad : list nat).     (* [raise ValueError(non_kw_only_params)] *)

Definition get_named_parameters (c : callable) : gnp_res :=
  match c with
  | CNamed n => GnpOk (nif_parameters n)
  | CPlain s =>
      let non_kw_only := map p_name (filter (fun p => negb (kind_accepted (p_kind p))) s) in
      if null non_kw_only then GnpOk (map p_name s) else GnpValueError non_kw_only
  end.

(** ** NamedInputFunction.then / bound_to *)

(** signature of the local function [g_o_f( *f_args, **f_kws )] of [then]; the two names are irrelevant *)
Definition g_o_f_sig : signature := [mkParam 0 VarPos false; mkParam 1 VarKw false].

(** [self.then(g, ** g_kws)] = [NamedInputFunction(f=g_o_f, parameters=self.parameters, kws=self.kws)] *)
Definition nif_then (self : nif) (g : signature) (g_kws : list nat) : nif :=
  mkNif g_o_f_sig (nif_parameters self) (nif_kws self).

(** [NamedInputFunction.bound_to(f)( *parameters, **kws )] = [NamedInputFunction(f=f, parameters=parameters, kws=kws or None)]
    (the optional [check_arguments] callback, which may refuse the call, is outside the model) *)
Definition bound_to (f : signature) (parameters kws : list nat) : nif := mkNif f parameters kws.

(** ** Variable definitions *)

Inductive vdef :=
| DIndep (k : vkind)        (* any IndepVariable: Hyperparameter, ModelParameter, DataVariable, latent variables *)
| DLinked (f : callable).   (* LinkedVariable(f) *)

(** [IndepVariable.get_ancestors_names] = [frozenset()];
    [LinkedVariable.__post_init__]: [parameters = frozenset(get_named_parameters(self.f))], a [ValueError] becoming a
    [LeaspyModelInputError]; [LinkedVariable.get_ancestors_names] = [self.parameters]. *)
Definition ancestors_names (d : vdef) : option (list nat) :=
  match d with
  | DIndep _ => Some []
  | DLinked f => match get_named_parameters f with GnpOk ps => Some ps | GnpValueError _ => None end
  end.

(** [{name: variable.get_ancestors_names() for name, variable in input_dictionary.items()}]  (dag.py from_dict), by rank
    of the name; [None] = some [LinkedVariable(...)] of the definitions could not even be constructed *)
Fixpoint direct_ancestors (ds : list vdef) : option graph :=
  match ds with
  | [] => Some []
  | d :: r =>
      match ancestors_names d, direct_ancestors r with
      | Some ps, Some g => Some (ps :: g)
      | _, _ => None
      end
  end.

Inductive ferr :=
| FSignature            (* LeaspyModelInputError "Function provided in `LinkedVariable` should be a function with keyword-only parameters" *)
| FKeys                 (* ValueError "Inconsistent nodes in dictionary of ancestors edges"   dag.py _check_consistency_of_nodes *)
| FDag (e : err).       (* a refusal of [DagModel.build] *)

Inductive fres (T : Type) := FOk (x : T) | FErr (e : ferr).
Arguments FOk {T} x.
Arguments FErr {T} e.

Definition lift {T} (r : res T) : fres T := match r with Ok x => FOk x | Err e => FErr (FDag e) end.

(** [VariablesDAG(variables, direct_ancestors=...)]: [var_keys] = [variables.keys()] (as names; those that are no key of
    [direct_ancestors] are [>= nnodes g]), [g] = [direct_ancestors] by rank of its keys.
    [_check_consistency_of_nodes]: [frozenset(variables.keys()) != direct_ancestors.keys()] -> ValueError, BEFORE anything else. *)
Definition ctor (var_keys : list nat) (g : graph) : fres dag :=
  if negb (same_set var_keys (seq 0 (nnodes g))) then FErr FKeys else lift (build g).

(** [VariablesDAG.from_dict(input_dictionary)] *)
Definition from_dict (ds : list vdef) : fres dag :=
  match direct_ancestors ds with
  | None => FErr FSignature
  | Some g => ctor (seq 0 (length ds)) g
  end.

(** ** Specification vocabulary (independent of the functions above) *)

(** [p] is a named parameter of the callable: ANY parameter of a plain function's signature (whatever its default),
    any of the names assigned by a NamedInputFunction *)
Definition named_param (c : callable) (p : nat) : Prop :=
  match c with
  | CPlain s => exists prm, In prm s /\ p_name prm = p
  | CNamed n => In p (nif_parameters n)
  end.

(** "[p] is a named parameter of the function defining variable [v]" *)
Definition is_param_of (ds : list vdef) (p v : nat) : Prop :=
  exists f, nth_error ds v = Some (DLinked f) /\ named_param f p.

(** the function of some definition has a parameter that cannot be given by name only *)
Definition bad_signature (ds : list vdef) : Prop :=
  exists v s prm, nth_error ds v = Some (DLinked (CPlain s)) /\ In prm s /\ p_kind prm <> KwOnly.

(** "[i] is (transitively) needed to compute [j]", straight from the definitions *)
Definition depends (ds : list vdef) : nat -> nat -> Prop := clos_trans nat (is_param_of ds).

(** the four defects of the property text, on the definitions *)
Definition unknown_param (ds : list vdef) : Prop := exists p v, is_param_of ds p v /\ length ds <= p.
Definition self_param (ds : list vdef) : Prop := exists v, is_param_of ds v v.
Definition isolated_def (ds : list vdef) : Prop :=
  exists i, i < length ds /\ (forall p, ~ is_param_of ds p i) /\ (forall c, ~ is_param_of ds i c).
Definition cyclic_defs (ds : list vdef) : Prop := exists i, depends ds i i.

(** ** Comparison helpers used by the executable correspondence (harness/props/c15.py) *)

Definition ferr_code (e : ferr) : nat :=
  match e with FSignature => 8 | FKeys => 7 | FDag e => err_code e end.

Definition fagrees (r : fres dag) (o : observed) : bool :=
  match r, o with
  | FErr e, inl c => Nat.eqb (ferr_code e) c
  | FOk r, inr (ord, dch, sch, san) =>
      nat_list_eqb (order r) ord && list_eqb nat_list_eqb (dchildren r) dch
      && assoc_eqb (sorted_children r) sch && assoc_eqb (sorted_ancestors r) san
  | _, _ => false
  end.

(** what the implementation reported of one definition: [None] for a variable that is no LinkedVariable (or when the
    definitions were refused), else [LinkedVariable.parameters] as sorted ranks *)
Definition parents_agree (ds : list vdef) (obs : list (list nat)) : bool :=
  match direct_ancestors ds with
  | None => null obs
  | Some g => list_eqb (fun a b => same_set a b) g obs
  end.

(** a [from_dict] case: the definitions, the outcome, the direct ancestors the code inferred (empty when refused at construction) *)
Definition from_dict_agrees (c : list vdef * observed * list (list nat)) : bool :=
  let '(ds, o, par) := c in
  fagrees (from_dict ds) o && (match o with inl 8 => true | _ => parents_agree ds par end).

(** a constructor case with its own key sets *)
Definition ctor_agrees (c : list nat * graph * observed) : bool :=
  let '(vk, g, o) := c in fagrees (ctor vk g) o.

(** ** The definitions of the shipped models (regenerated: coq/gen/GenC15Defs.v) against the graph literals of GenGraphs.v *)

Definition def_kind (d : vdef) : vkind := match d with DIndep k => k | DLinked _ => KLinked end.

(** the classes, the direct ancestors (as sets) and the order recorded in a shipped graph literal are what the model
    computes from the definitions' signatures *)
Definition defs_match (sg : shipped_graph) (ds : list vdef) : bool :=
  list_eqb vkind_eqb (map def_kind ds) (sg_kind sg) &&
  match direct_ancestors ds with
  | Some g => list_eqb (fun a b => same_set a b) g (sg_parents sg)
  | None => false
  end &&
  match from_dict ds with
  | FOk r => nat_list_eqb (order r) (sg_order sg)
  | FErr _ => false
  end.
