(** Record type of the graph literals that harness/translate/graphs.py regenerates into coq/gen/GenGraphs.v
    from the running code (one literal per shipped model configuration).  Definitions only.

    [sg_names]   : the variable names in NAME-SORTED order; node [i] of the model is [nth i sg_names].
    [sg_parents] : for each node (same indexing) the indices of its direct ancestors
                   (= [dag.direct_ancestors[name]], each list in increasing order).
    [sg_kind]    : for each node the class of its specification object.
    [sg_order]   : [dag.sorted_variables_names] as the implementation computed it, as node indices.  *)
From Coq Require Import List String.
Import ListNotations.

Inductive vkind :=
| KHyper        (* Hyperparameter *)
| KParam        (* ModelParameter *)
| KData         (* DataVariable *)
| KPopLatent    (* PopulationLatentVariable *)
| KIndLatent    (* IndividualLatentVariable *)
| KLinked.      (* LinkedVariable *)

Record shipped_graph := mkSG {
  sg_label : string;
  sg_names : list string;
  sg_parents : list (list nat);
  sg_kind : list vkind;
  sg_order : list nat
}.

Definition vkind_eqb (a b : vkind) : bool :=
  match a, b with
  | KHyper, KHyper | KParam, KParam | KData, KData | KPopLatent, KPopLatent
  | KIndLatent, KIndLatent | KLinked, KLinked => true
  | _, _ => false
  end.
