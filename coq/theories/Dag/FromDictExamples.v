(** Non-vacuity examples for the C15 theorems about [from_dict] (extension 4). *)
From Coq Require Import List Bool Arith Relations.
From Leaspy Require Import Dag.DagModel Dag.DagProofs Dag.GraphLit Dag.FromDict Dag.FromDictProofs.
Import ListNotations.

Definition kw (n : nat) := mkParam n KwOnly false.
Definition kw_default (n : nat) := mkParam n KwOnly true.

(** x = data, y = parameter, s = LinkedVariable(lambda *, x, y=1: ...),
    t = LinkedVariable(Sum("s", "x").then(g)) where [g] has a parameter named like variable 1 *)
Definition ex_defs : list vdef :=
  [ DIndep KData; DIndep KParam;
    DLinked (CPlain [kw 0; kw_default 1]);
    DLinked (CNamed (nif_then (bound_to [mkParam 0 VarPos false] [2; 0] []) [mkParam 1 PosOrKw false] [])) ].

Example ex_from_dict_ok :
  from_dict ex_defs =
  FOk (mkDag [0; 1; 2; 3] [[2; 3]; [2]; [3]; []]
             [(0, [2; 3]); (1, [2; 3]); (2, [3]); (3, [])]
             [(0, []); (1, []); (2, [0; 1]); (3, [0; 1; 2])]).
Proof. reflexivity. Qed.

(** the parameter with a default IS a parent; the parameter of the outer function of [then] is NOT *)
Example ex_default_is_parent : is_param_of ex_defs 1 2.
Proof. eexists. split; [reflexivity|]. exists (kw_default 1). simpl. auto. Qed.

Example ex_outer_is_not_parent : ~ is_param_of ex_defs 1 3.
Proof. intros (f & E & H). injection E as <-. simpl in H. intuition discriminate. Qed.

Example ex_depends : depends ex_defs 1 3.
Proof.
  apply t_trans with 2; apply t_step.
  - exact ex_default_is_parent.
  - eexists. split; [reflexivity|]. simpl. auto.
Qed.

(** a positional-or-keyword parameter: refused at construction *)
Definition ex_defs_positional : list vdef := [DIndep KData; DLinked (CPlain [mkParam 0 PosOrKw false])].
Example ex_bad_signature : bad_signature ex_defs_positional.
Proof. exists 1, [mkParam 0 PosOrKw false], (mkParam 0 PosOrKw false). simpl. repeat split; auto. discriminate. Qed.
Example ex_bad_signature_refused : from_dict ex_defs_positional = FErr FSignature.
Proof. reflexivity. Qed.

(** a keyword-only parameter that is no variable: unknown node *)
Definition ex_defs_unknown : list vdef := [DIndep KData; DLinked (CPlain [kw 0; kw_default 7])].
Example ex_unknown_hyps : ~ bad_signature ex_defs_unknown /\ exists p v, is_param_of ex_defs_unknown p v /\ length ex_defs_unknown <= p.
Proof.
  split.
  - intros H. apply from_dict_refuses_signature in H. discriminate.
  - exists 7, 1. split; [|simpl; auto with arith]. eexists. split; [reflexivity|]. exists (kw_default 7). simpl. auto.
Qed.
Example ex_unknown_refused : from_dict ex_defs_unknown = FErr (FDag EUnknownRef).
Proof. reflexivity. Qed.

(** two ways of writing the same dependencies (order of the parameters, default, plain / named / composed) *)
Definition ex_defs' : list vdef :=
  [ DIndep KHyper; DIndep KPopLatent;
    DLinked (CNamed (bound_to [] [1; 0; 1] []));
    DLinked (CPlain [kw_default 0; kw 2]) ].
Example ex_params_only_hyps :
  length ex_defs = length ex_defs' /\ (bad_signature ex_defs <-> bad_signature ex_defs') /\
  from_dict ex_defs = from_dict ex_defs'.
Proof.
  split; [reflexivity|]. split; [|reflexivity].
  split; intros H; apply from_dict_refuses_signature in H; discriminate.
Qed.

(** the key-set check of the constructor *)
Example ex_ctor_keys_missing : ctor [0; 1] [[]; [0]; [0]] = FErr FKeys.     (* a key of direct_ancestors is no variable *)
Proof. reflexivity. Qed.
Example ex_ctor_keys_extra : ctor [0; 1; 2] [[]; [0]] = FErr FKeys.         (* a variable has no entry in direct_ancestors *)
Proof. reflexivity. Qed.
Example ex_ctor_keys_ok : exists r, ctor [1; 0] [[]; [0]] = FOk r.
Proof. eexists. reflexivity. Qed.

(** the hypotheses of the acceptance theorem hold for [ex_defs]; a cyclic pair of definitions *)
Example ex_accept_defs_hyps :
  ~ bad_signature ex_defs /\ ~ unknown_param ex_defs /\ ~ self_param ex_defs /\ ~ isolated_def ex_defs /\ ~ cyclic_defs ex_defs.
Proof. apply from_dict_accepts_iff. eexists. exact ex_from_dict_ok. Qed.

Definition ex_defs_cyclic : list vdef := [DLinked (CPlain [kw 1]); DLinked (CNamed (bound_to [] [0] []))].
Example ex_cyclic_defs : cyclic_defs ex_defs_cyclic /\ from_dict ex_defs_cyclic = FErr (FDag ENotDag).
Proof.
  split; [|reflexivity]. exists 0. apply t_trans with 1; apply t_step.
  - eexists. split; [reflexivity|]. simpl. auto.
  - eexists. split; [reflexivity|]. exists (kw 1). simpl. auto.
Qed.
