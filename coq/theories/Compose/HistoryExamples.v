(** Non-vacuity of the history theorems of Compose/StateHistoryProofs.v on the 7-node graph of Compose/ComposeExamples.v:
    State object 0 of the store left by the 14-operation past (log_v0_mean = 7, log_v0 = 3, v0 = 6, model = 114), then, on that
    ONE object and with the caching reads of the code:
      load_parameters(log_v0_mean = 9) comparing v0 and model ; an observer reading v0 and model (cache filled) ; a fit whose iterations leave log_v0_mean = 5, log_v0 = 3 ;
      load_parameters(log_v0_mean = 11) comparing v0 ; an observer. *)
From Coq Require Import ZArith List String Bool.
From Leaspy Require Import State.StateModel State.StateNow State.StateExec Io.EndOfFit Io.History Io.HistoryProofs
                           Compose.StateEndOfFit Compose.StateHistory Compose.ComposeExamples.
Import ListNotations.
Open Scope string_scope.

Module DemoHistory.
  Import Demo.
  Definition gst := gstate xval g.
  Definition sset := s_set xval g g_wf names.
  Definition num (z : Z) : option xval := Some (XS (AFin z)).
  Definition iterations (s : gst) : gst := sset "log_v0" (num 3) (sset "log_v0_mean" (num 5) s).
  Definition h3 : list (event (option xval) gst) :=
    [EvLoad [("log_v0_mean", num 9)] ["v0"; "model"]; EvRead ["log_v0_mean"; "v0"; "model"]; EvFit iterations;
     EvLoad [("log_v0_mean", num 11)] ["v0"]; EvRead ["model"; "v0"]].
  Definition run := run_history_cached xval g g_wf names stat prior_params pops.
  Definition view (o : option gst) : option (list (option xval)) :=
    option_map (fun s => map (s_get xval g names s) ["log_v0_mean"; "log_v0"; "v0"; "model"]) o.

  Example history_events_ok : Forall (event_ok (option xval) gst (s_indep xval g names) pops) h3.
  Proof.
    assert (L : forall v, params_ok (option xval) (s_indep xval g names) pops [("log_v0_mean", v)]).
    { intros v p w [H|[]]. injection H as <- <-. split; [reflexivity|]. intros [H|[]]. discriminate. }
    constructor; [apply L|]. constructor; [exact I|]. constructor; [exact I|]. constructor; [apply L|]. constructor; [exact I|]. constructor.
  Qed.

  (** after each prefix: parameter, population variable (= the parameter: the mode), v0 = 2 * log_v0, model = 100 + v0 + 8 *)
  Example history_runs :
    view (run (firstn 1 h3) gs0) = Some [num 9; num 9; num 18; num 126] /\
    view (run (firstn 3 h3) gs0) = Some [num 5; num 5; num 10; num 118] /\
    view (run h3 gs0) = Some [num 11; num 11; num 22; num 130].
  Proof. repeat split; vm_compute; reflexivity. Qed.

  (** the same last call on the object as the past left it (no load, no fit in between) reads the same *)
  Example fresh_reads_the_same :
    view (run [EvLoad [("log_v0_mean", num 11)] ["v0"]] gs0) = view (run h3 gs0).
  Proof. vm_compute. reflexivity. Qed.
End DemoHistory.
