(* C05 on the run program of C11 — definitions only (proofs: ScheduleOnRunProofs.v; the statements over the program and the
   rules REGENERATED from today's source: ScheduleOnRunTie.v).

   `coq/gen/GenC11.v` (harness/translate/c11_run.py) is the control flow of a fit read off the source: the iteration loop
   `for self.current_iteration in range(1, n_iter + 1)`, in it the sampler loop, then — `_maximization_step` inlined —
   `sufficient_statistics = model.compute_sufficient_statistics(state)` (event ASuffStats), the silent register update of
   `self.sufficient_statistics`, `model.update_parameters(state, self.sufficient_statistics, burn_in=self._is_burn_in())`
   (event AMStep), then `self._update_temperature()` (ATemperature).  Every executed event carries the value of the loop
   counter (`item = IAlg a i k`).

   This file gives the two scheduling events a meaning: a little machine that walks the unfolded run, counts the calls of
   `compute_sufficient_statistics`, keeps the register `self.sufficient_statistics`, and logs for every maximisation the
   counter value it ran at, the statistics it was given, the branch and the `burn_in` flag — all computed with rules that are
   parameters here (instantiated in the tie file by the rules regenerated from `_maximization_step`, coq/gen/GenC05.v). *)
From Coq Require Import List Arith Bool ZArith Reals.
From Leaspy Require Import Api.ApiModel Api.RunProg Saem.Schedule.
Import ListNotations.

(* ---------------------------------------------------------------------- the events the schedule is about *)
Definition key_name (a : aname) : bool :=
  match a with ASample | ASuffStats | AMStep | ATemperature => true | _ => false end.

Definition is_key (it : item) : bool :=
  match it with IAlg a _ _ => key_name a | IObs _ _ => false end.

(* the events of iteration [i], as the source orders them: every sampler, the statistics, the maximisation, the temperature *)
Definition iteration_events (order : list nat) (i : nat) : list item :=
  map (fun k => IAlg ASample i k) order ++ [IAlg ASuffStats i 0; IAlg AMStep i 0; IAlg ATemperature i 0].

Definition run_events (e : env) : list item :=
  flat_map (fun i => iteration_events (e_order e i) i) (seq 1 (e_niter e)).

(* ---------------------------------------------------------------------- decidable shape check (on the program alone) *)
Fixpoint mentions (f : aname -> bool) (p : prog) : bool :=
  match p with
  | PSkip | PObs _ => false
  | PEv a => f a
  | PSeq a b => mentions f a || mentions f b
  | PIter b | PVars b => mentions f b
  | PIf _ t e => mentions f t || mentions f e
  end.

Definition quiet (p : prog) : bool := negb (mentions key_name p).

Fixpoint split_on (t : prog -> bool) (l : list prog) : option (list prog * list prog) :=
  match l with
  | [] => None
  | q :: r => if t q then Some ([], r)
              else match split_on t r with Some (a, b) => Some (q :: a, b) | None => None end
  end.

Definition is_sampler_loop (q : prog) : bool := match q with PVars (PEv ASample) => true | _ => false end.
Definition is_css (q : prog) : bool := match q with PEv ASuffStats => true | _ => false end.

(* one iteration = quiet ; sampler loop ; quiet ; ASuffStats ; AMStep ; ATemperature ; quiet *)
Definition iter_parts (b : prog) : option (list prog * list prog * list prog) :=
  match split_on is_sampler_loop (flatten b) with
  | Some (a1, rest) =>
      match split_on is_css rest with
      | Some (a2, PEv AMStep :: PEv ATemperature :: post) => Some (a1, a2, post)
      | _ => None
      end
  | None => None
  end.

Definition sched_shaped (p : prog) : bool :=
  match iter_parts (p_body p) with
  | Some (a1, a2, post) => forallb quiet a1 && forallb quiet a2 && forallb quiet post
  | None => false
  end
  && forallb quiet (p_init p) && forallb quiet (p_fin p).

(* ---------------------------------------------------------------------- what the two scheduling events do *)
(* one maximisation: the counter value it ran at, the statistics handed to `update_parameters`, the branch, the flag *)
Record mrec := MRec { m_iter : nat; m_stat : R; m_memoryless : bool; m_flag : bool }.

(* calls of compute_sufficient_statistics so far; the local `sufficient_statistics` (None: not computed since the last
   maximisation); the register `self.sufficient_statistics`; the log *)
Record sst := SSt { s_calls : nat; s_fresh : option R; s_reg : R; s_log : list mrec }.

Section Machine.
  Variable mless : Z -> Z -> bool.          (* the test of `_maximization_step`      (current_iteration, n_burn_in_iter) *)
  Variable flag : Z -> Z -> bool.           (* the keyword `burn_in=`                 (current_iteration, n_burn_in_iter) *)
  Variable comb : R -> R -> R -> R.         (* the point-wise combination             (register, fresh, step) *)
  Variable step : Z -> Z -> R.              (* the step                               (current_iteration, n_burn_in_iter) *)
  Variable nb : Z.                          (* algo_parameters["n_burn_in_iter"] *)
  Variable s : nat -> R.                    (* result of the j-th call of compute_sufficient_statistics (j >= 1) *)

  Definition sstep (st : sst) (it : item) : option sst :=
    match it with
    | IAlg ASuffStats _ _ =>
        Some (SSt (S (s_calls st)) (Some (s (S (s_calls st)))) (s_reg st) (s_log st))
    | IAlg AMStep i _ =>
        match s_fresh st with
        | None => None                      (* explicit error: a maximisation without freshly computed statistics *)
        | Some x =>
            let k := Z.of_nat i in
            let S' := if mless k nb then x else comb (s_reg st) x (step k nb) in
            Some (SSt (s_calls st) None S' (s_log st ++ [MRec i S' (mless k nb) (flag k nb)]))
        end
    | _ => Some st
    end.

  Fixpoint srun (st : sst) (l : list item) : option sst :=
    match l with
    | [] => Some st
    | it :: t => match sstep st it with None => None | Some st' => srun st' t end
    end.

  Definition sst0 : sst := SSt 0 None 0%R [].

  Definition mstep_log (l : list item) : option (list mrec) :=
    match srun sst0 l with Some st => Some (s_log st) | None => None end.
End Machine.

(* ---------------------------------------------------------------------- what the property expects *)
(* the k-th maximisation runs at counter k with `stat nb p s k` of Saem/Schedule.v (the documented recurrence) *)
Definition expected_rec (nb : Z) (p : R) (s : nat -> R) (k : nat) : mrec :=
  MRec k (stat nb p s k) (memoryless (Z.of_nat k) nb) (burn_flag (Z.of_nat k) nb).

Definition expected_log (nb : Z) (p : R) (s : nat -> R) (n : nat) : list mrec :=
  map (expected_rec nb p s) (seq 1 n).

(* the machine with the hand-written rules of Saem/Schedule.v *)
Definition model_log (nb : Z) (p : R) (s : nat -> R) : list item -> option (list mrec) :=
  mstep_log memoryless burn_flag convex (fun k nb' => eps k nb' p) nb s.

(* ---------------------------------------------------------------------- executable side of the trace tie (T2) *)
(* (code, counter value) of the key events of a run, in order *)
Definition key_trace (l : list item) : list (nat * nat) :=
  flat_map (fun it => match it with IAlg a i _ => if key_name a then [(acode a, i)] else [] | IObs _ _ => [] end) l.

(* n_iter, the number of variables sampled at iterations 1..n, the recorded (code, self.current_iteration) sequence *)
Definition trace_env (n : nat) (nvs : list nat) : env :=
  Env n (fun i => match i with 0 => [] | S j => seq 0 (nth j nvs 0) end) (fun _ => true) (fun _ => false) (fun _ => None).

Fixpoint pairs_eqb (a b : list (nat * nat)) : bool :=
  match a, b with
  | [], [] => true
  | (x, y) :: a', (x', y') :: b' => (x =? x') && (y =? y') && pairs_eqb a' b'
  | _, _ => false
  end.
