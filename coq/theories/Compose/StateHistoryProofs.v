(** Composition C01 -> C12, histories: the theorems of Io/HistoryProofs.v with the store interface discharged on the real
    State model, for the scripts as the code runs them (caching reads), on State objects of any reachable store. *)
From Coq Require Import List String Bool.
From Leaspy Require Import State.StateModel State.StateProofs State.StateNow Io.EndOfFit Io.EndOfFitProofs Io.History Io.HistoryProofs
                           Compose.StateApi Compose.StateApiProofs Compose.StateApiRunProofs
                           Compose.StateEndOfFit Compose.StateEndOfFitProofs Compose.StateHistory.
Import ListNotations.
Open Scope string_scope.
Open Scope list_scope.

Section Proofs.
Variable V : Type.
Variable g : graph V.
Hypothesis wf : WF g.
Variable names : list string.
Hypothesis names_nodup : NoDup names.
Hypothesis names_length : List.length names = gn g.
Variable stat : prior_stat -> string -> (string -> option V) -> option V.
Variable prior_params : string -> list string.
Variable pops : list string.
Hypothesis pops_nodup : NoDup pops.
Hypothesis pops_indep : forall pp, In pp pops -> s_indep V g names pp = true.
Hypothesis stat_local : forall k pp f f', (forall q, In q (prior_params pp) -> f q = f' q) -> stat k pp f = stat k pp f'.
Hypothesis prior_params_ok : forall pp q, In pp pops -> In q (prior_params pp) -> s_indep V g names q = true /\ ~ In q pops.

Notation gstate := (gstate V g).
Notation s_get := (s_get V g names).
Notation s_set := (s_set V g wf names).
Notation s_clone := (s_clone V g).
Notation s_vals := (s_vals V g names).
Notation s_eval := (s_eval V g names).
Notation s_indep := (s_indep V g names).
Notation s_isset := (s_isset V g names).
Notation ev := (event (option V) gstate).
Notation ev_ok := (event_ok (option V) gstate s_indep pops).
Notation run_ev := (run_event (option V) gstate s_get s_set s_clone stat s_isset pops).
Notation run_ev_c := (run_event_cached V g wf names stat prior_params pops).
Notation s_after := (after (option V) gstate s_vals).
Notation s_fresh_model := (fresh_model (option V) stat pops).
Notation s_at_mode := (at_mode (option V) gstate s_get stat pops).
Notation rds := (reads (option V) gstate).

(** one event as the code runs it leaves the same non-derived values as the abstract script, from the same State object *)
Lemma run_event_cached_sim (s : gstate) (e : ev) : ev_ok e ->
  exists x y, run_ev_c s e = Some x /\ run_ev s e = Some y /\ forall m, s_vals x m = s_vals y m.
Proof.
  intros _. destruct e as [a cmp|body|cmp]; cbn;
    [| |eexists; eexists; split; [reflexivity|]; split; [reflexivity|]; intros m; apply (touches_vals V g wf names)].
  - eexists. eexists. split; [reflexivity|]. split; [reflexivity|]. intros m.
    unfold load_parameters_cached. rewrite (touches_vals V g wf names).
    change (History.load_parameters (option V) gstate s_get s_set stat s_isset pops a s)
      with (put_population (option V) gstate s_get s_set stat init_route InitMode pops
              (assign_params (option V) gstate s_set a s)).
    apply (put_population_cached_vals V g wf names names_nodup names_length stat prior_params pops pops_indep stat_local);
      [auto | reflexivity].
  - eexists. eexists. split; [reflexivity|]. split; [reflexivity|]. intros m. unfold end_of_fit_cached.
    apply (put_population_cached_vals V g wf names names_nodup names_length stat prior_params pops pops_indep stat_local);
      [auto | reflexivity].
Qed.

Let SI := store_interface V g wf names names_nodup names_length.
Let I1 := proj1 SI.
Let I2 := proj1 (proj2 SI).
Let I3 := proj1 (proj2 (proj2 SI)).
Let I4 := proj1 (proj2 (proj2 (proj2 SI))).
Let I5 := proj2 (proj2 (proj2 (proj2 SI))).

(** the statement of the property for histories, abstract scripts on State objects (no store hypothesis left) *)
Theorem history_self_consistent_state (h : list ev) (e : ev) rs (s : gstate) : Forall ev_ok (h ++ [e]) -> is_read e = false ->
  exists s1 s', run_hist _ _ run_ev h s = Some s1 /\ run_hist _ _ run_ev (h ++ e :: rds rs) s = Some s' /\
    s_at_mode s' /\
    (forall q, s_indep q = true -> ~ In q pops -> s_get s' q = s_after e s1 q) /\
    (forall n, s_get s' n = s_eval (s_fresh_model (s_after e s1)) n).
Proof.
  exact (history_self_consistent (option V) gstate s_get s_set s_clone stat s_isset s_vals s_eval s_indep prior_params
           I1 I2 I3 I4 I5 pops pops_nodup pops_indep stat_local prior_params_ok run_ev
           (run_event_sim (option V) gstate s_get s_set s_clone stat s_isset s_vals s_eval s_indep prior_params
              I1 I2 I3 I4 pops pops_nodup pops_indep stat_local prior_params_ok) h e rs s).
Qed.

(** ... and for the scripts as the code runs them *)
Theorem history_self_consistent_cached (h : list ev) (e : ev) rs (s : gstate) : Forall ev_ok (h ++ [e]) -> is_read e = false ->
  exists s1 s', run_hist _ _ run_ev_c h s = Some s1 /\ run_hist _ _ run_ev_c (h ++ e :: rds rs) s = Some s' /\
    s_at_mode s' /\
    (forall q, s_indep q = true -> ~ In q pops -> s_get s' q = s_after e s1 q) /\
    (forall n, s_get s' n = s_eval (s_fresh_model (s_after e s1)) n).
Proof.
  exact (history_self_consistent (option V) gstate s_get s_set s_clone stat s_isset s_vals s_eval s_indep prior_params
           I1 I2 I3 I4 I5 pops pops_nodup pops_indep stat_local prior_params_ok run_ev_c run_event_cached_sim h e rs s).
Qed.

Theorem history_last_load_params_cached (h : list ev) a cmp rs (s : gstate) : Forall ev_ok (h ++ [EvLoad a cmp]) -> NoDup (map fst a) ->
  exists s', run_hist _ _ run_ev_c (h ++ EvLoad a cmp :: rds rs) s = Some s' /\ s_at_mode s' /\ forall p v, In (p, v) a -> s_get s' p = v.
Proof.
  exact (history_last_load_params (option V) gstate s_get s_set s_clone stat s_isset s_vals s_eval s_indep prior_params
           I1 I2 I3 I4 I5 pops pops_nodup pops_indep stat_local prior_params_ok run_ev_c run_event_cached_sim h a cmp rs s).
Qed.

Theorem history_independent_cached (h1 : list ev) e1 r1 (s1 : gstate) (h2 : list ev) e2 r2 (s2 : gstate) :
  Forall ev_ok (h1 ++ [e1]) -> is_read e1 = false -> Forall ev_ok (h2 ++ [e2]) -> is_read e2 = false ->
  exists m1 m2 f1 f2, run_hist _ _ run_ev_c h1 s1 = Some m1 /\ run_hist _ _ run_ev_c h2 s2 = Some m2 /\
    run_hist _ _ run_ev_c (h1 ++ e1 :: rds r1) s1 = Some f1 /\ run_hist _ _ run_ev_c (h2 ++ e2 :: rds r2) s2 = Some f2 /\
    ((forall q, ~ In q pops -> s_after e1 m1 q = s_after e2 m2 q) -> forall n, s_get f1 n = s_get f2 n).
Proof.
  exact (history_independent (option V) gstate s_get s_set s_clone stat s_isset s_vals s_eval s_indep prior_params
           I1 I2 I3 I4 I5 pops pops_nodup pops_indep stat_local prior_params_ok run_ev_c run_event_cached_sim h1 e1 r1 s1 h2 e2 r2 s2).
Qed.

Theorem history_vs_fresh_cached (h : list ev) a cmp rs (s s0 : gstate) : Forall ev_ok (h ++ [EvLoad a cmp]) ->
  exists s1 s' f, run_hist _ _ run_ev_c h s = Some s1 /\ run_hist _ _ run_ev_c (h ++ EvLoad a cmp :: rds rs) s = Some s' /\
    run_hist _ _ run_ev_c [EvLoad a cmp] s0 = Some f /\
    ((forall q, ~ In q pops -> ~ In q (map fst a) -> s_vals s1 q = s_vals s0 q) -> forall n, s_get s' n = s_get f n).
Proof.
  exact (history_vs_fresh (option V) gstate s_get s_set s_clone stat s_isset s_vals s_eval s_indep prior_params
           I1 I2 I3 I4 I5 pops pops_nodup pops_indep stat_local prior_params_ok run_ev_c run_event_cached_sim h a cmp rs s s0).
Qed.
End Proofs.

(** ** ... starting from any State object of any store reachable from [init_store] *)
Section Reachable.
Variables V M IX : Type.
Variable g : graph V.
Variable sm : sem V M IX.
Hypothesis wf : WF g.
Hypothesis fmix : F_mix g sm.
Variable names : list string.
Hypothesis names_nodup : NoDup names.
Hypothesis names_length : List.length names = gn g.
Variable stat : prior_stat -> string -> (string -> option V) -> option V.
Variable prior_params : string -> list string.
Variable pops : list string.
Hypothesis pops_nodup : NoDup pops.
Hypothesis pops_indep : forall pp, In pp pops -> s_indep V g names pp = true.
Hypothesis stat_local : forall k pp f f', (forall q, In q (prior_params pp) -> f q = f' q) -> stat k pp f = stat k pp f'.
Hypothesis prior_params_ok : forall pp q, In pp pops -> In q (prior_params pp) -> s_indep V g names q = true /\ ~ In q pops.

Notation ev := (event (option V) (gstate V g)).
Notation ev_ok := (event_ok (option V) (gstate V g) (s_indep V g names) pops).
Notation run_ev_c := (run_event_cached V g wf names stat prior_params pops).

Theorem history_self_consistent_reach (S : StateModel.store V) (k : nat) (s : state V) (h : list ev) (e : ev) (rs : list (list string)) :
  Reach V g M IX sm S -> nth_error S k = Some s -> Forall ev_ok (h ++ [e]) -> is_read e = false ->
  exists gs : gstate V g, proj1_sig gs = s /\
  exists s1 s', run_hist _ _ run_ev_c h gs = Some s1 /\
    run_hist _ _ run_ev_c (h ++ e :: reads (option V) (gstate V g) rs) gs = Some s' /\
    at_mode (option V) (gstate V g) (s_get V g names) stat pops s' /\
    (forall q, s_indep V g names q = true -> ~ In q pops -> s_get V g names s' q = after (option V) (gstate V g) (s_vals V g names) e s1 q) /\
    (forall n, s_get V g names s' n =
               s_eval V g names (fresh_model (option V) stat pops (after (option V) (gstate V g) (s_vals V g names) e s1)) n).
Proof.
  intros HR Hs Hh Hr. exists (exist _ s (proj1 (reach_cache V M IX g sm wf fmix S k s HR Hs))). split; [reflexivity|].
  exact (history_self_consistent_cached V g wf names names_nodup names_length stat prior_params pops pops_nodup pops_indep
           stat_local prior_params_ok h e rs _ Hh Hr).
Qed.

(** an OLD model object (State object [k] of a reachable store, any history [h], then load_parameters(a)) reads like a FRESH
    one (State object [k0] of any other reachable store, load_parameters(a) only) *)
Theorem history_vs_fresh_reach (S S0 : StateModel.store V) (k k0 : nat) (s s0 : state V) (h : list ev) a cmp (rs : list (list string)) :
  Reach V g M IX sm S -> nth_error S k = Some s -> Reach V g M IX sm S0 -> nth_error S0 k0 = Some s0 ->
  Forall ev_ok (h ++ [EvLoad a cmp]) ->
  exists gs gs0 : gstate V g, proj1_sig gs = s /\ proj1_sig gs0 = s0 /\
  exists s1 s' f, run_hist _ _ run_ev_c h gs = Some s1 /\
    run_hist _ _ run_ev_c (h ++ EvLoad a cmp :: reads (option V) (gstate V g) rs) gs = Some s' /\
    run_hist _ _ run_ev_c [EvLoad a cmp] gs0 = Some f /\
    ((forall q, ~ In q pops -> ~ In q (map fst a) -> s_vals V g names s1 q = s_vals V g names gs0 q) ->
     forall n, s_get V g names s' n = s_get V g names f n).
Proof.
  intros HR Hs HR0 Hs0 Hh.
  exists (exist _ s (proj1 (reach_cache V M IX g sm wf fmix S k s HR Hs))),
         (exist _ s0 (proj1 (reach_cache V M IX g sm wf fmix S0 k0 s0 HR0 Hs0))).
  split; [reflexivity|]. split; [reflexivity|].
  exact (history_vs_fresh_cached V g wf names names_nodup names_length stat prior_params pops pops_nodup pops_indep
           stat_local prior_params_ok h a cmp rs _ _ Hh).
Qed.
End Reachable.
