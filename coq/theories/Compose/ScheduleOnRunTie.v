(* C05 on the run program of C11 — the statements over what is REGENERATED from today's source:
   the control flow `fit_prog` (coq/gen/GenC11.v, harness/translate/c11_run.py) and the rules of `_maximization_step`
   (coq/gen/GenC05.v, harness/props/c05.py).  The two shape facts are decided on the generated value on every run. *)
From Coq Require Import List Arith Bool ZArith Reals QArith Qreals Lia.
From Leaspy Require Import Api.ApiModel Api.RunProg Api.RunProgProofs Saem.Schedule Saem.ScheduleProofs Saem.ScheduleTie
  Compose.ScheduleOnRun Compose.ScheduleOnRunProofs.
From LeaspyGen Require Import GenC05 GenC11.
Import ListNotations.
Local Open Scope nat_scope.

(* ---------------------------------------------------------------------- T1: decided on the generated program *)
Lemma src_well_shaped : well_shaped fit_prog = true.
Proof. vm_compute. reflexivity. Qed.

Lemma src_sched_shaped : sched_shaped fit_prog = true.
Proof. vm_compute. reflexivity. Qed.

(* the machine with the rules regenerated from `_maximization_step` / `_is_burn_in`; the power is the binary64 value of
   algo_parameters["burn_in_step_power"], a rational *)
Definition src_log (nb : Z) (p : Q) (s : nat -> R) : list item -> option (list mrec) :=
  mstep_log gen_memoryless gen_burn_flag gen_convex_R (fun k nb' => gen_step k nb' p) nb s.

(* ---------------------------------------------------------------------- order of the events of a run *)
(* for every configuration: the sampler / statistics / maximisation / temperature events of the run are, iteration by
   iteration with the counter running 1..n_iter, every sampler of the iteration, then ONE ASuffStats, ONE AMStep, ONE
   ATemperature — all carrying that counter value *)
Theorem src_run_key_events e : filter is_key (unfold e fit_prog) = run_events e.
Proof. apply run_key_events. exact src_well_shaped. exact src_sched_shaped. Qed.

(* ---------------------------------------------------------------------- the schedule of the run *)
Theorem src_run_log e nb p s :
  src_log nb p s (unfold e fit_prog) = Some (expected_log nb (Q2R p) s (e_niter e)).
Proof.
  rewrite <- (run_schedule e fit_prog nb (Q2R p) s src_well_shaped src_sched_shaped).
  unfold src_log, model_log, mstep_log.
  rewrite (srun_ext gen_memoryless memoryless gen_burn_flag burn_flag gen_convex_R convex
             (fun k nb' => gen_step k nb' p) (fun k nb' => eps k nb' (Q2R p)) nb s);
    try reflexivity; intros; first [apply tie_memoryless | apply tie_burn_flag | apply tie_convex | apply tie_step].
Qed.

(* end to end: in the run program regenerated from the source, with the rules regenerated from the source, for every
   configuration e (number of iterations, sampling orders, flags, logging), burn-in length, power and statistic sequence,
   the k-th maximisation (k <= n_iter) runs at counter value k, is handed S_k of the documented recurrence, takes the
   memory-less branch iff k <= nb + 1 and passes burn_in = (k <= nb) *)
Theorem src_run_schedule (e : env) (nb : Z) (p : Q) (s : nat -> R) :
  exists log,
    src_log nb p s (unfold e fit_prog) = Some log /\ length log = e_niter e /\
    forall k, 1 <= k <= e_niter e ->
      exists r, nth_error log (k - 1) = Some r
        /\ m_iter r = k
        /\ m_stat r = stat nb (Q2R p) s k
        /\ ((Z.of_nat k <= nb + 1)%Z -> m_stat r = s k /\ m_memoryless r = true)
        /\ ((nb + 2 <= Z.of_nat k)%Z ->
              m_memoryless r = false /\
              (2 <= k ->          (* implied when 0 <= nb; for a negative count the first iteration has no predecessor *)
               exists r', nth_error log (k - 2) = Some r' /\
                 m_stat r = ((1 - Rpower (IZR (Z.of_nat k - nb)) (- Q2R p)) * m_stat r'
                             + Rpower (IZR (Z.of_nat k - nb)) (- Q2R p) * s k)%R))
        /\ (m_flag r = true <-> (Z.of_nat k <= nb)%Z).
Proof.
  exists (expected_log nb (Q2R p) s (e_niter e)). split; [apply src_run_log|]. split; [apply expected_log_length|].
  intros k Hk. exists (expected_rec nb (Q2R p) s k). split; [apply expected_log_nth; auto|].
  destruct (expected_rec_reads nb (Q2R p) s k) as (H1 & H2 & H3 & H4); [lia|].
  split; [exact H1|]. split; [reflexivity|]. split; [exact H2|]. split; [|exact H4].
  intros H. destruct (H3 H) as (H5 & H6). split; [exact H6|]. intros Hk2.
  exists (expected_rec nb (Q2R p) s (k - 1)). split; [|exact H5].
  replace (k - 2) with ((k - 1) - 1) by lia. apply expected_log_nth. lia.
Qed.

(* ---------------------------------------------------------------------- T2: a recorded fit is an execution of the program *)
(* case = (n_iter, number of variables sampled at iterations 1..n, recorded (event code, self.current_iteration) of every
   sampler / compute_sufficient_statistics / update_parameters / _update_temperature call, in order) *)
Definition check_trace (c : nat * list nat * list (nat * nat)) : bool :=
  match c with
  | (n, nvs, recorded) => (length nvs =? n) && pairs_eqb (key_trace (unfold (trace_env n nvs) fit_prog)) recorded
  end.

(* what each maximisation of the program does, with the regenerated rules: (counter, memory-less branch, burn_in flag) *)
Definition mstep_obs (nb : Z) (l : list item) : list (nat * bool * bool) :=
  flat_map (fun it => match it with
                      | IAlg AMStep i _ => [(i, gen_memoryless (Z.of_nat i) nb, gen_burn_flag (Z.of_nat i) nb)]
                      | _ => []
                      end) l.

Fixpoint obs_eqb (a b : list (nat * bool * bool)) : bool :=
  match a, b with
  | [], [] => true
  | (i, m, f) :: a', (i', m', f') :: b' => (i =? i') && Bool.eqb m m' && Bool.eqb f f' && obs_eqb a' b'
  | _, _ => false
  end.

(* case = (n_iter, n_burn_in_iter, recorded (self.current_iteration, `S_k is s_k`, burn_in) of every _maximization_step) *)
Definition check_msteps (c : nat * Z * list (nat * bool * bool)) : bool :=
  match c with
  | (n, nb, recorded) => obs_eqb (mstep_obs nb (unfold (trace_env n (repeat 1 n)) fit_prog)) recorded
  end.

(* ---------------------------------------------------------------------- non-vacuity *)
Module ScheduleDemo.
  (* 4 iterations, two variables sampled in an order that changes, console printing every 2 iterations *)
  Definition e4 : env :=
    Env 4 (fun i => if Nat.even i then [1; 0] else [0; 1]) (fun _ => true)
        (fun f => match f with LHasManager | LHasCurrentIteration => true | LPathNone => true end)
        (fun p => match p with PerPrint => Some 2 | _ => None end).

  Example key_events_of_a_run :
    filter is_key (unfold e4 fit_prog)
    = [IAlg ASample 1 0; IAlg ASample 1 1; IAlg ASuffStats 1 0; IAlg AMStep 1 0; IAlg ATemperature 1 0;
       IAlg ASample 2 1; IAlg ASample 2 0; IAlg ASuffStats 2 0; IAlg AMStep 2 0; IAlg ATemperature 2 0;
       IAlg ASample 3 0; IAlg ASample 3 1; IAlg ASuffStats 3 0; IAlg AMStep 3 0; IAlg ATemperature 3 0;
       IAlg ASample 4 1; IAlg ASample 4 0; IAlg ASuffStats 4 0; IAlg AMStep 4 0; IAlg ATemperature 4 0]
    /\ length (unfold e4 fit_prog) = 47.
  Proof. vm_compute. split; reflexivity. Qed.

  (* burn-in of 1 iteration, power 0.8, the j-th statistic is j: branches M M C C, flags T F F F, and the third
     maximisation is handed (1 - 2^-0.8) * 2 + 2^-0.8 * 3 *)
  Example schedule_of_a_run :
    exists log, src_log 1 (4 # 5) INR (unfold e4 fit_prog) = Some log
      /\ map m_iter log = [1; 2; 3; 4]
      /\ map m_memoryless log = [true; true; false; false]
      /\ map m_flag log = [true; false; false; false]
      /\ (exists r2 r3, nth_error log 1 = Some r2 /\ nth_error log 2 = Some r3 /\ m_stat r2 = INR 2
            /\ m_stat r3 = ((1 - Rpower (IZR (3 - 1)) (- Q2R (4 # 5))) * INR 2 + Rpower (IZR (3 - 1)) (- Q2R (4 # 5)) * INR 3)%R).
  Proof.
    destruct (src_run_schedule e4 1 (4 # 5) INR) as (log & Hl & Hn & H).
    exists log. split; [exact Hl|].
    rewrite src_run_log in Hl. inversion Hl; subst log. repeat split; try reflexivity.
    destruct (H 2) as (r2 & E2 & _ & _ & M2 & _); [simpl; lia|].
    destruct (H 3) as (r3 & E3 & _ & _ & _ & C3 & _); [simpl; lia|].
    exists r2, r3. repeat split; auto.
    - apply M2. simpl. lia.
    - destruct C3 as (_ & C3); [simpl; lia|]. destruct C3 as (r' & E' & C3); [lia|].
      simpl in E', E2. rewrite E2 in E'. inversion E'; subst r'. rewrite C3.
      destruct M2 as (M2 & _); [simpl; lia|]. rewrite M2. reflexivity.
  Qed.

  Example recorded_trace_accepted :
    check_trace (2, [2; 2], [(11, 1); (11, 1); (12, 1); (13, 1); (14, 1); (11, 2); (11, 2); (12, 2); (13, 2); (14, 2)]) = true
    /\ check_msteps (3, 1%Z, [(1, true, true); (2, true, false); (3, false, false)]) = true
    (* a maximisation that saw the counter of the previous iteration, or ran before the samplers, is refused *)
    /\ check_msteps (3, 1%Z, [(0, true, true); (1, true, true); (2, true, false)]) = false
    /\ check_trace (1, [2], [(12, 1); (13, 1); (11, 1); (11, 1); (14, 1)]) = false.
  Proof. vm_compute. repeat split; reflexivity. Qed.

  (* the shape check is not vacuous: four single-site rewrites of `_iteration` are refused *)
  Definition seeds : prog := PIf (GA FSeedSet) (pseq [PEv ASeedPy; PEv ASeedNp; PEv ASeedTorch]) PSkip.
  Definition with_body (b : list prog) : prog := pseq [seeds; PEv AInitData; PIter (pseq b); PEv AFinReplace].
  Definition source_order := with_body [PEv AOrder; PVars (PEv ASample); PEv ASuffStats; PEv AMStep; PEv ATemperature].
  Definition mstep_before_samplers := with_body [PEv AOrder; PEv ASuffStats; PEv AMStep; PVars (PEv ASample); PEv ATemperature].
  Definition temperature_before_mstep := with_body [PEv AOrder; PVars (PEv ASample); PEv ATemperature; PEv ASuffStats; PEv AMStep].
  Definition mstep_twice := with_body [PEv AOrder; PVars (PEv ASample); PEv ASuffStats; PEv AMStep; PEv AMStep; PEv ATemperature].
  Definition mstep_under_a_flag :=
    with_body [PEv AOrder; PVars (PEv ASample); PEv ASuffStats; PIf (GA FRandomOrder) (PEv AMStep) PSkip; PEv ATemperature].
  Definition mstep_at_the_end := pseq [seeds; PEv AInitData; PIter (pseq [PVars (PEv ASample); PEv ATemperature]); PEv ASuffStats; PEv AMStep].

  Example mutants_refused :
    (well_shaped source_order = true /\ sched_shaped source_order = true)
    /\ (well_shaped mstep_before_samplers = true /\ sched_shaped mstep_before_samplers = false)
    /\ (well_shaped temperature_before_mstep = true /\ sched_shaped temperature_before_mstep = false)
    /\ (well_shaped mstep_twice = true /\ sched_shaped mstep_twice = false)
    /\ (well_shaped mstep_under_a_flag = true /\ sched_shaped mstep_under_a_flag = false)
    /\ (well_shaped mstep_at_the_end = true /\ sched_shaped mstep_at_the_end = false).
  Proof. vm_compute. repeat split; reflexivity. Qed.

  (* and the machine itself refuses a maximisation without freshly computed statistics *)
  Example stale_statistics_refused :
    src_log 0 (4 # 5) INR [IAlg ASuffStats 1 0; IAlg AMStep 1 0; IAlg AMStep 2 0] = None.
  Proof. reflexivity. Qed.
End ScheduleDemo.

(* ---------------------------------------------------------------------- the T2 checker reads the same machine *)
Definition rec_obs (r : mrec) : nat * bool * bool := (m_iter r, m_memoryless r, m_flag r).

Lemma srun_obs nb p s l : forall st st',
  srun gen_memoryless gen_burn_flag gen_convex_R (fun k nb' => gen_step k nb' p) nb s st l = Some st' ->
  map rec_obs (s_log st') = map rec_obs (s_log st) ++ mstep_obs nb l.
Proof.
  induction l as [|it t IH]; intros st st' H; simpl in H.
  - inversion H; subst. simpl. now rewrite app_nil_r.
  - destruct it as [a i k|o i].
    + destruct a; simpl in H; try (rewrite (IH _ _ H); reflexivity).
      destruct (s_fresh st) as [x|]; try discriminate.
      rewrite (IH _ _ H). simpl s_log. rewrite map_app, <- app_assoc. reflexivity.
    + simpl in H. rewrite (IH _ _ H). reflexivity.
Qed.

(* (counter, branch, flag) of the maximisations logged by `src_log` = what `check_msteps` compares the recorded fits with *)
Theorem src_log_obs nb p s l log : src_log nb p s l = Some log -> map rec_obs log = mstep_obs nb l.
Proof.
  unfold src_log, mstep_log. intros H.
  destruct (srun gen_memoryless gen_burn_flag gen_convex_R (fun k nb' => gen_step k nb' p) nb s (sst0) l) as [st'|] eqn:E; try discriminate.
  inversion H; subst. apply (srun_obs nb p s l _ _ E).
Qed.

(* ---------------------------------------------------------------------- the unrolled form, on the run *)
(* after burn-in (m = nb + 1 is the first iteration kept) the (m+d)-th maximisation of the run is handed an explicit convex
   combination of the statistics computed at iterations m .. m+d: weights >= 0, summing to 1 *)
Theorem src_run_unrolled (e : env) (nb : Z) (p : Q) (s : nat -> R) (m d : nat) :
  Z.of_nat m = (nb + 1)%Z -> 1 <= m -> m + d <= e_niter e -> (0 < Q2R p)%R ->
  exists log r,
    src_log nb p s (unfold e fit_prog) = Some log /\ nth_error log (m + d - 1) = Some r /\ m_iter r = m + d
    /\ m_stat r = dot (weights nb (Q2R p) m d) (map s (seq m (S d)))
    /\ sumR (weights nb (Q2R p) m d) = 1%R /\ Forall (fun w => (0 <= w)%R) (weights nb (Q2R p) m d).
Proof.
  intros Hm Hm1 Hd Hp.
  exists (expected_log nb (Q2R p) s (e_niter e)), (expected_rec nb (Q2R p) s (m + d)).
  split; [apply src_run_log|]. split; [apply expected_log_nth; lia|]. split; [reflexivity|].
  split; [simpl m_stat; apply stat_unrolled; auto|]. split; [apply weights_sum | apply weights_nonneg; auto].
Qed.

(* non-vacuity of the hypotheses of `src_run_unrolled`: the 4-iteration run of ScheduleDemo, burn-in 1, power 0.8, m = 2, d = 1 *)
Example src_run_unrolled_hypotheses :
  Z.of_nat 2 = (1 + 1)%Z /\ 1 <= 2 /\ 2 + 1 <= e_niter ScheduleDemo.e4 /\ (0 < Q2R (4 # 5))%R.
Proof.
  split; [reflexivity|]. split; [lia|]. split; [simpl; lia|].
  unfold Q2R. simpl. apply Rmult_lt_0_compat; [apply IZR_lt; reflexivity | apply Rinv_0_lt_compat, IZR_lt; reflexivity].
Qed.
