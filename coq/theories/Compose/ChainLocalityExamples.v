(** C07 x C17 — non-vacuity of the chain-locality theorems: a batch of two individuals (two variables, three shuffled
    iterations under a 3-plateau annealing, adaptation of the proposal scale every 2 calls) and individual 1 personalised
    ALONE on its own rows of the tape; every hypothesis of [chain_local] / [chain_alone] holds and both runs succeed. *)
From Coq Require Import ZArith QArith List Bool Arith Lia.
From Leaspy Require Import Base.QAux Sampler.SamplerModel Saem.Anneal Sampler.AdaptiveStd Api.Personalize Api.PersonalizeChain
  Api.PersonalizeChainProofs Compose.ChainLocality Compose.ChainLocalityProofs.
Import ListNotations.

(** row-local oracles for a cohort of [n] individuals *)
Definition loc_att (n : nat) (st : istate Q) : list Q := map (fun i => sumQ (row_vals Q st i)) (seq 0 n).
Definition loc_regv (n : nat) (v : nat) (st : istate Q) : list Q :=
  map (fun i => match nth_error (own i st) v with Some (Some r) => sumQ (flat r) | _ => 0 end) (seq 0 n).

Lemma nth_error_seq0 n j k : nth_error (seq 0 n) j = Some k -> k = j.
Proof.
  intros H. assert (L : (j < n)%nat) by (rewrite <- (seq_length n 0); apply nth_error_Some; congruence).
  apply (nth_error_nth _ _ 0%nat) in H. rewrite seq_nth in H by assumption. lia.
Qed.

Lemma loc_att_local n1 n2 j1 j2 sizes : row_local n1 n2 j1 j2 sizes (loc_att n1) (loc_att n2).
Proof.
  intros st1 st2 _ _ Ho a1 a2 E1 E2. unfold loc_att in *. rewrite nth_error_map in E1, E2.
  destruct (nth_error (seq 0 n1) j1) as [k1|] eqn:X1; [|discriminate]. destruct (nth_error (seq 0 n2) j2) as [k2|] eqn:X2; [|discriminate].
  apply nth_error_seq0 in X1. apply nth_error_seq0 in X2. subst. simpl in E1, E2. rewrite row_vals_own in E1, E2. rewrite Ho in E1. congruence.
Qed.

Lemma loc_regv_local n1 n2 j1 j2 sizes v : row_local n1 n2 j1 j2 sizes (loc_regv n1 v) (loc_regv n2 v).
Proof.
  intros st1 st2 _ _ Ho a1 a2 E1 E2. unfold loc_regv in *. rewrite nth_error_map in E1, E2.
  destruct (nth_error (seq 0 n1) j1) as [k1|] eqn:X1; [|discriminate]. destruct (nth_error (seq 0 n2) j2) as [k2|] eqn:X2; [|discriminate].
  apply nth_error_seq0 in X1. apply nth_error_seq0 in X2. subst. simpl in E1, E2. rewrite Ho in E1. congruence.
Qed.

Definition exl_sizes : list nat := [2; 1]%nat.
(** the tape of PersonalizeChainProofs.ex_tape, position-indexed: iteration / call / (normals of each individual, uniforms) *)
Definition exl_T : list (list (call_draws Q)) :=
  [ [ ([[1]; [-1]], [1 # 2; 9 # 10]); ([[2; 1 # 2]; [1; -2]], [1 # 10; 1 # 2]) ];
    [ ([[1; 1]; [-1; 3]], [3 # 4; 1 # 5]); ([[0]; [1]], [1 # 2; 1 # 2]) ];
    [ ([[1]; [-1]], [1 # 3; 1]); ([[2; 1 # 2]; [1; -2]], [0; 1 # 2]) ] ].
Definition exl_run (n : nat) (init : istate Q) (T : list (list (call_draws Q))) :=
  personalize_run Q Qplus Qmult (fun q => q) ex_decide (loc_att n) (loc_regv n) (loc_att n) ex_scf ex_acf 1 true n
                  ex_orders init [1; 2] (flat_tape (concat T)).
Definition exl_batch := exl_run 2 ex_init exl_T.
Definition exl_alone := exl_run 1 (reindex_state [1%nat] ex_init) (reindex_draws [1%nat] exl_T).

Example chain_local_example :
  flat_tape (concat exl_T) = ex_tape /\
  shaped 2 exl_sizes ex_init /\ shaped 1 exl_sizes (reindex_state [1%nat] ex_init) /\
  own 1 ex_init = own 0 (reindex_state [1%nat] ex_init) /\
  tape_fits 2 exl_sizes true (length ex_init) ex_orders exl_T /\
  tape_fits 1 exl_sizes true (length (reindex_state [1%nat] ex_init)) ex_orders (reindex_draws [1%nat] exl_T) /\
  own_draws 1 exl_T = own_draws 0 (reindex_draws [1%nat] exl_T) /\
  exists o o1, exl_batch = Done o /\ exl_alone = Done o1 /\
    own_col 1 (o_all o) = own_col 0 (o_all o1) /\
    (* not a trivial chain: individual 1 both accepts and refuses proposals, individual 0 decides differently *)
    map (fun kl => map (fun r => nth_error (sr_acc r) 1) (snd kl)) (o_trace o)
      = map (fun kl => map (fun r => nth_error (sr_acc r) 0) (snd kl)) (o_trace o1) /\
    existsb (fun kl => existsb (fun r => nth 1 (sr_acc r) false) (snd kl)) (o_trace o) = true /\
    existsb (fun kl => existsb (fun r => negb (nth 1 (sr_acc r) true)) (snd kl)) (o_trace o) = true /\
    existsb (fun kl => existsb (fun r => negb (Bool.eqb (nth 0 (sr_acc r) false) (nth 1 (sr_acc r) false))) (snd kl)) (o_trace o) = true.
Proof.
  split; [reflexivity|].
  split. { repeat constructor; eexists; repeat split; repeat constructor. }
  split. { repeat constructor; eexists; repeat split; repeat constructor. }
  split; [reflexivity|].
  split. { unfold tape_fits, fits. simpl. repeat constructor. }
  split. { unfold tape_fits, fits. simpl. repeat constructor. }
  split; [reflexivity|].
  destruct exl_batch as [o|e] eqn:E; vm_compute in E; [|discriminate].
  destruct exl_alone as [o1|e1] eqn:E1; vm_compute in E1; [|discriminate].
  exists o, o1. inversion E; inversion E1; subst o o1. repeat split; vm_compute; reflexivity.
Qed.
