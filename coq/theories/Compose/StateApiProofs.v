(** Composition C01 -> C11 / C13: [state_interface] PROVED for the real State model, for every graph [g] with [WF g].

    Part 1  operations commute with the abstraction [abs] (whatever the undo log and the fork mode of the State object).
    Part 2  the ten interface facts, from the C01 lemmas ([get_props], [get_is_scratch], [Inv_set], [scratch_ext], ...).
    (Parts 3-4 — reachable State objects are consistent caches; an API run is a run of the State model — are in
    Compose/StateApiRunProofs.v.) *)
From Coq Require Import List Arith Bool Lia.
From Leaspy Require Import State.StateModel State.StateProofs State.StateNow State.StateNowProofs
                           Api.ApiModel Api.ApiProofs Compose.StateApi.
Import ListNotations.

Section Proofs.
Variable V : Type.
Variable g : graph V.
Hypothesis wf : WF g.
Notation n := (gn g).
Notation to_vals := (@to_vals V).
Notation of_vals := (of_vals V g).
Notation abs := (abs V g).
Notation emb := (emb V).
Notation Cache := (Cache V g).
Notation Fixed := (Fixed V g).
Notation r_read := (r_read V g).
Notation r_write := (r_write V g).
Notation r_clone := (r_clone V g).
Notation r_simOn := (r_simOn V g).
Notation r_anc := (r_anc V g).
Notation r_indep := (r_indep V g).

(** * Part 1 — tabulation and extensionality *)

Lemma of_vals_length vs : length (of_vals vs) = n.
Proof. unfold StateApi.of_vals. now rewrite map_length, seq_length. Qed.

Lemma to_of vs j : to_vals (of_vals vs) j = if j <? n then vs j else None.
Proof.
  unfold StateApi.to_vals, StateApi.of_vals. destruct (j <? n) eqn:E.
  - apply Nat.ltb_lt in E. rewrite (nth_indep _ None (vs 0)) by (rewrite map_length, seq_length; exact E).
    rewrite map_nth, seq_nth by exact E. reflexivity.
  - apply Nat.ltb_ge in E. apply nth_overflow. rewrite map_length, seq_length. exact E.
Qed.

Lemma to_of_bounded vs : Bounded g vs -> forall j, to_vals (of_vals vs) j = vs j.
Proof. intros HB j. rewrite to_of. destruct (j <? n) eqn:E; [reflexivity|]. apply Nat.ltb_ge in E. symmetry. now apply HB. Qed.

Lemma of_vals_ext vs vs' : (forall j, j < n -> vs j = vs' j) -> of_vals vs = of_vals vs'.
Proof. intros H. unfold StateApi.of_vals. apply map_ext_in. intros j Hj. apply in_seq in Hj. apply H. lia. Qed.

Lemma of_to l : length l = n -> of_vals (to_vals l) = l.
Proof.
  intros Hl. apply (nth_ext _ _ None None); [now rewrite of_vals_length|].
  intros j Hj. rewrite of_vals_length in Hj. change (to_vals (of_vals (to_vals l)) j = to_vals l j).
  rewrite to_of. apply Nat.ltb_lt in Hj. now rewrite Hj.
Qed.

Lemma bounded_to_vals l : length l = n -> Bounded g (to_vals l).
Proof. intros Hl k Hk. unfold StateApi.to_vals. apply nth_overflow. lia. Qed.

Lemma upd_ext (vs vs' : vals V) k o : (forall j, vs j = vs' j) -> forall j, StateModel.upd vs k o j = StateModel.upd vs' k o j.
Proof. intros H j. unfold StateModel.upd. destruct (j =? k); auto. Qed.

Lemma compute_ext_all (vs vs' : vals V) a : (forall j, vs j = vs' j) -> compute g vs a = compute g vs' a.
Proof. intros H. apply compute_ext. intros p _. apply H. Qed.

Lemma walk_ext l : forall vs vs' : vals V, (forall j, vs j = vs' j) ->
  (forall j, fst (walk g vs l) j = fst (walk g vs' l) j) /\ snd (walk g vs l) = snd (walk g vs' l).
Proof.
  induction l as [|a r IH]; intros vs vs' H; cbn; [split; auto|].
  rewrite <- (H a). destruct (vs a); [now apply IH|].
  rewrite <- (compute_ext_all vs vs' a H). destruct (compute g vs a); cbn; [|split; auto|split; auto].
  apply IH. now apply upd_ext.
Qed.

(** [State.__getitem__] only looks at the dictionary point-wise *)
Lemma get_ext (vs vs' : vals V) i : (forall j, vs j = vs' j) ->
  (forall j, fst (get g vs i) j = fst (get g vs' i) j) /\ snd (get g vs i) = snd (get g vs' i).
Proof.
  intros H. unfold get. destruct (negb (i <? n)); [split; auto|].
  rewrite <- (H i). destruct (vs i); [split; auto|].
  destruct (walk_ext (StateModel.anc g i) vs vs' H) as [H1 H2].
  destruct (walk g vs (StateModel.anc g i)) as [w e]; destruct (walk g vs' (StateModel.anc g i)) as [w' e']. cbn in H1, H2. subst e'.
  destruct e; [split; auto|].
  rewrite <- (compute_ext_all w w' i H1). destruct (compute g w i); cbn; [|split; auto|split; auto].
  split; [|reflexivity]. now apply upd_ext.
Qed.

Lemma get_state_values (s : state V) i : values (fst (get_state g s i)) = fst (get g (values s) i) /\
                                         snd (get_state g s i) = snd (get g (values s) i).
Proof. unfold get_state. destruct (get g (values s) i). split; reflexivity. Qed.

(** ** the operations commute with [abs]: a cell is all that reads, assignments and clones see of a State object *)

Lemma abs_get (s : state V) i : Bounded g (values s) ->
  r_read (abs s) i = (abs (fst (get_state g s i)), out_opt V (snd (get_state g s i))).
Proof.
  intros HB. unfold StateApi.r_read.
  assert (T : forall j, to_vals (abs s) j = values s j) by (apply to_of_bounded; exact HB).
  set (l := abs s) in *.
  destruct (get_state_values (emb l) i) as [E1 E2]. destruct (get_state_values s i) as [E3 E4].
  cbn [StateApi.emb values] in E1, E2.
  destruct (get_ext (to_vals l) (values s) i T) as [G1 G2].
  rewrite E2, E4, G2. f_equal. unfold StateApi.abs. rewrite E1, E3. apply of_vals_ext. intros j _. apply G1.
Qed.

Lemma set_values (s : state V) i o :
  values (fst (set_now g s i o)) = if r_indep i then reset_list (StateModel.upd (values s) i o) (desc g i) else values s.
Proof.
  unfold set_now, set_state, StateApi.r_indep. destruct (i <? n); cbn; [|reflexivity]. destruct (settable g i); reflexivity.
Qed.

Lemma reset_ext (vs vs' : vals V) l : (forall j, vs j = vs' j) -> forall j, reset_list vs l j = reset_list vs' l j.
Proof. intros H j. unfold reset_list. destruct (StateModel.mem j l); auto. Qed.

Lemma abs_set (s : state V) i o : Bounded g (values s) -> r_write (abs s) i o = abs (fst (set_now g s i o)).
Proof.
  intros HB. unfold StateApi.r_write, StateApi.abs at 1 3. rewrite !set_values. cbn [StateApi.emb values].
  apply of_vals_ext. intros j _. destruct (r_indep i); [|now apply to_of_bounded].
  apply reset_ext. apply upd_ext. now apply to_of_bounded.
Qed.

Lemma abs_clone (s : state V) d kp : Bounded g (values s) -> r_clone (abs s) = abs (clone_state s d kp).
Proof. intros HB. unfold StateApi.r_clone, StateApi.abs. cbn. apply of_vals_ext. intros j _. now apply to_of_bounded. Qed.

(** * Part 2 — the interface *)

Lemma Cache_of_vals vs : Inv g vs -> Bounded g vs -> Fixed vs -> Cache (of_vals vs).
Proof.
  intros HI HB HF. split; [apply of_vals_length|]. split.
  - apply (Inv_ext V g vs); [|exact HI]. intros j. symmetry. now apply to_of_bounded.
  - intros k Hk L S. rewrite to_of_bounded by exact HB. now apply HF.
Qed.

Lemma read_vals l i : to_vals (fst (r_read l i)) = to_vals (of_vals (fst (get g (to_vals l) i))) /\
                      snd (r_read l i) = out_opt V (snd (get g (to_vals l) i)).
Proof.
  unfold StateApi.r_read, StateApi.abs. destruct (get_state_values (emb l) i) as [E1 E2]. cbn [fst snd]. rewrite E1, E2. split; reflexivity.
Qed.

(** everything a read does to a consistent cache: still one, same non-derived values *)
Lemma read_cache l i : Cache l ->
  Cache (fst (r_read l i)) /\ forall j, linked g j = false -> to_vals (fst (r_read l i)) j = to_vals l j.
Proof.
  intros (Hl & HI & HF). pose proof (bounded_to_vals l Hl) as HB.
  destruct (get_props V g wf (to_vals l) i HI HB) as (HI' & HB' & HE & _).
  pose proof (extends_indep V g _ _ _ HE) as HS.
  assert (E : fst (r_read l i) = of_vals (fst (get g (to_vals l) i))).
  { unfold StateApi.r_read, StateApi.abs. destruct (get_state_values (emb l) i) as [E1 _]. cbn [fst]. now rewrite E1. }
  rewrite E. split.
  - apply Cache_of_vals; auto. intros k Hk L S. rewrite HS by exact L. now apply HF.
  - intros j Lj. rewrite to_of_bounded by exact HB'. now apply HS.
Qed.

Lemma read_is_scratch l i : Cache l -> snd (r_read l i) = scratch g (to_vals l) i.
Proof.
  intros (Hl & HI & _). destruct (read_vals l i) as [_ E]. rewrite E.
  rewrite (get_is_scratch V g wf (to_vals l) i HI (bounded_to_vals l Hl)). unfold read_spec.
  destruct (scratch g (to_vals l) i); reflexivity.
Qed.

(** sorted_ancestors is transitive *)
Lemma anc_sub i p : i < n -> In p (StateModel.anc g i) -> forall a, In a (StateModel.anc g p) -> In a (StateModel.anc g i).
Proof.
  intros Hi Hp. pose proof (anc_lt V g wf i p Hi Hp) as Hpi. assert (Hpn : p < n) by lia.
  intros a. remember (p - a) as d eqn:Ed. revert a Ed. induction d as [d IH] using lt_wf_ind. intros a Ed Ha.
  destruct (wf_anc_only wf p a Hpn Ha) as [Hpa|[c [Hc Hpa]]].
  - exact (wf_anc_trans wf i p a Hi Hp Hpa).
  - pose proof (anc_lt V g wf p c Hpn Hc) as Hcp. assert (Hcn : c < n) by lia.
    pose proof (wf_parents_lt wf c a Hcn Hpa) as Hac.
    apply (wf_anc_trans wf i c a Hi); [|exact Hpa]. apply (IH (p - c)); [lia | reflexivity | exact Hc].
Qed.

(** the from-scratch value of [i] depends only on the non-derived variables among [i] and its sorted ancestors *)
Lemma scratch_local (a b : vals V) : forall i, i < n ->
  (forall j, (j = i \/ In j (StateModel.anc g i)) -> linked g j = false -> a j = b j) ->
  scratch g a i = scratch g b i.
Proof.
  induction i as [i IH] using lt_wf_ind. intros Hi H. rewrite !(scratch_unfold V g wf) by exact Hi.
  destruct (linked g i) eqn:Li; [|apply H; auto].
  rewrite (mapM_ext V (scratch g a) (scratch g b)); [reflexivity|].
  intros p Hp. pose proof (wf_parents_lt wf i p Hi Hp) as Hpi. pose proof (wf_anc_parents wf i p Hi Hp) as Hpa.
  apply IH; [exact Hpi | lia |]. intros j [->|Hj] Lj; apply H; auto. right. exact (anc_sub i p Hi Hpa j Hj).
Qed.

Lemma r_sim_sym P s s' : r_simOn P s s' -> r_simOn P s' s.
Proof. intros (A & B & C). split; [exact B|]. split; [exact A|]. intros; symmetry; auto. Qed.

Lemma r_sim_trans P s1 s2 s3 : r_simOn P s1 s2 -> r_simOn P s2 s3 -> r_simOn P s1 s3.
Proof. intros (A & B & C) (A' & B' & C'). split; [exact A|]. split; [exact B'|]. intros i Hi Li. rewrite C, C'; auto. Qed.

Lemma r_sim_mono (P Q : view) s s' : (forall m, Q m = true -> P m = true) -> r_simOn P s s' -> r_simOn Q s s'.
Proof. intros H (A & B & C). split; [exact A|]. split; [exact B|]. intros; auto. Qed.

(** a read — completed or aborted half-way with part of the ancestors cached — changes nothing observable *)
Lemma r_get_transparent P s i : r_simOn P s s -> r_simOn P (fst (r_read s i)) s.
Proof.
  intros (A & _ & _). destruct (read_cache s i A) as [C S]. split; [exact C|]. split; [exact A|]. intros j _ Lj. now apply S.
Qed.

Lemma r_get_determined P s s' i : r_simOn P s s' -> forallb P (r_anc i) = true -> snd (r_read s i) = snd (r_read s' i).
Proof.
  intros (A & B & C) H. rewrite !read_is_scratch by assumption.
  destruct (le_lt_dec n i) as [Hi|Hi]; [now rewrite !scratch_out|].
  apply scratch_local; [exact Hi|]. intros j Hj Lj. apply C; [|exact Lj].
  rewrite forallb_forall in H. apply H. unfold StateApi.r_anc.
  assert (E : i <? n = true) by now apply Nat.ltb_lt. rewrite E.
  destruct Hj as [->|Hj].
  - rewrite Lj. now left.
  - destruct (linked g i) eqn:Li.
    + apply filter_In. split; [exact Hj | now rewrite Lj].
    + (* a non-derived variable has no ancestors *)
      exfalso. clear - wf Hi Li Hj.
      assert (Hno : forall c, In c (StateModel.anc g i) -> False).
      { intros c. remember (i - c) as d eqn:Ed. revert c Ed. induction d as [d IH] using lt_wf_ind. intros c Ed Hc.
        destruct (wf_anc_only wf i c Hi Hc) as [Hp|[c' [Hc' Hp]]].
        - rewrite (wf_indep_no_parents wf i Hi Li) in Hp. inversion Hp.
        - pose proof (anc_lt V g wf i c' Hi Hc'). assert (c' < n) by lia. pose proof (wf_parents_lt wf c' c H0 Hp).
          apply (IH (i - c')) with c'; [lia | reflexivity | exact Hc']. }
      exact (Hno j Hj).
Qed.

Lemma write_vals l i v : length l = n ->
  forall j, to_vals (r_write l i v) j = if r_indep i then reset_list (StateModel.upd (to_vals l) i v) (desc g i) j else to_vals l j.
Proof.
  intros Hl j. pose proof (bounded_to_vals l Hl) as HB. unfold StateApi.r_write, StateApi.abs. rewrite set_values. cbn [StateApi.emb values].
  unfold StateApi.r_indep. destruct (i <? n) eqn:Ei; cbn [andb]; [|now rewrite to_of_bounded].
  apply Nat.ltb_lt in Ei. destruct (settable g i); [|now rewrite to_of_bounded].
  rewrite to_of_bounded; [reflexivity|]. now apply Bounded_set.
Qed.

Lemma indep_spec i : r_indep i = true -> i < n /\ settable g i = true /\ linked g i = false.
Proof.
  unfold StateApi.r_indep. intros H. apply andb_true_iff in H. destruct H as [H1 H2]. apply Nat.ltb_lt in H1.
  split; [exact H1|]. split; [exact H2|]. exact (wf_settable_indep wf i H1 H2).
Qed.

(** an accepted assignment changes the slot assigned and empties derived slots only *)
Lemma write_indep l i v : length l = n -> forall j, linked g j = false ->
  to_vals (r_write l i v) j = if r_indep i && (j =? i) then v else to_vals l j.
Proof.
  intros Hl j Lj. rewrite write_vals by exact Hl. destruct (r_indep i) eqn:Ei; [|reflexivity]. cbn [andb].
  destruct (indep_spec i Ei) as (Hi & _ & _).
  rewrite reset_out.
  - unfold StateModel.upd. reflexivity.
  - intros Hin. rewrite (desc_linked V g wf i j Hi Hin) in Lj. discriminate.
Qed.

Lemma write_cache l i v : Cache l -> Cache (r_write l i v).
Proof.
  intros (Hl & HI & HF). pose proof (bounded_to_vals l Hl) as HB.
  unfold StateApi.r_write, StateApi.abs. rewrite set_values. cbn [StateApi.emb values].
  destruct (r_indep i) eqn:Ei; [|now apply Cache_of_vals].
  destruct (indep_spec i Ei) as (Hi & Si & Li).
  apply Cache_of_vals; [now apply Inv_set | now apply Bounded_set|].
  intros k Hk Lk Sk. rewrite reset_out.
  - rewrite upd_other; [now apply HF | congruence].
  - intros Hin. rewrite (desc_linked V g wf i k Hi Hin) in Lk. discriminate.
Qed.

Lemma r_set_agree P s s' i v : r_simOn P s s' -> r_simOn (vadd i P) (r_write s i v) (r_write s' i v).
Proof.
  intros (A & B & C). split; [now apply write_cache|]. split; [now apply write_cache|].
  intros j Hj Lj. destruct A as (Hl & _ & HF). destruct B as (Hl' & _ & HF').
  rewrite !write_indep by assumption. destruct (r_indep i) eqn:Ei; cbn [andb].
  - destruct (j =? i) eqn:Eji; [reflexivity|]. unfold vadd in Hj. rewrite Eji in Hj. now apply C.
  - unfold vadd in Hj. destruct (j =? i) eqn:Eji; [|now apply C].
    apply Nat.eqb_eq in Eji. subst j.
    (* the assignment was refused on both sides: [i] is unknown, or neither derived nor settable, hence fixed by the graph *)
    destruct (le_lt_dec n i) as [Hi|Hi].
    + rewrite (bounded_to_vals s Hl i Hi), (bounded_to_vals s' Hl' i Hi). reflexivity.
    + assert (Si : settable g i = false).
      { unfold StateApi.r_indep in Ei. apply Nat.ltb_lt in Hi. rewrite Hi in Ei. exact Ei. }
      rewrite HF, HF' by assumption. reflexivity.
Qed.

Lemma r_set_frame (P : view) s i v : r_simOn P s s -> P i = false -> r_simOn P (r_write s i v) s.
Proof.
  intros (A & _ & _) Hi. split; [now apply write_cache|]. split; [exact A|].
  intros j Hj Lj. destruct A as (Hl & _ & _). rewrite write_indep by assumption.
  destruct (j =? i) eqn:E; [|now rewrite andb_false_r]. apply Nat.eqb_eq in E. subst j. congruence.
Qed.

Lemma r_set_get P s i v : r_simOn P s s -> r_indep i = true -> snd (r_read (r_write s i v) i) = v.
Proof.
  intros (A & _ & _) Ei. rewrite read_is_scratch by now apply write_cache.
  destruct (indep_spec i Ei) as (Hi & Si & Li). rewrite (scratch_unfold V g wf) by exact Hi. rewrite Li.
  destruct A as (Hl & _ & _). rewrite write_indep by assumption. now rewrite Ei, Nat.eqb_refl.
Qed.

Lemma clone_id l : length l = n -> r_clone l = l.
Proof. intros Hl. unfold StateApi.r_clone, StateApi.abs. cbn. now apply of_to. Qed.

Lemma r_clone_isolated P s : r_simOn P s s -> r_simOn P (r_clone s) s.
Proof. intros H. destruct H as (A & B & C). rewrite clone_id by apply A. split; [exact A|]. split; [exact A|]. exact C. Qed.

Lemma r_anc_indep i : r_indep i = true -> r_anc i = [i].
Proof.
  intros Ei. destruct (indep_spec i Ei) as (Hi & _ & Li). unfold StateApi.r_anc.
  apply Nat.ltb_lt in Hi. now rewrite Hi, Li.
Qed.

(** The interface assumed by every C11 / C13 theorem holds of the real State model, for every well-formed graph. *)
Theorem real_state_interface : state_interface V r_read r_write r_clone r_anc r_indep r_simOn.
Proof.
  constructor.
  - exact r_sim_sym.
  - exact r_sim_trans.
  - exact r_sim_mono.
  - exact r_get_transparent.
  - exact r_get_determined.
  - exact r_set_agree.
  - exact r_set_frame.
  - exact r_set_get.
  - exact r_clone_isolated.
  - exact r_anc_indep.
Qed.

End Proofs.
