(** The composition [from_dict] -> C01 on the definitions of the SHIPPED models, regenerated from the running code on every
    run (coq/gen/GenC15Defs.v: every variable of every shipped configuration's [get_variables_specs()], a
    NamedInputFunction by its assigned names, any other function by its [inspect.signature]).
    [from_dict] accepts each of them (by [vm_compute]); hence, for each, the State model is sound on the graph obtained
    from the signatures, whatever the values, node functions and history. *)
From Coq Require Import List Bool String.
From Leaspy Require Dag.DagModel Dag.FromDict.
From Leaspy Require Import Compose.FromDictState Compose.FromDictStateProofs.
From LeaspyGen Require Import GenC15Defs.
Import ListNotations.

Lemma shipped_defs_all_accepted : forallb (fun p => accepted_b (snd p)) shipped_defs = true.
Proof. vm_compute. reflexivity. Qed.

Theorem shipped_definitions_state_sound :
  shipped_defs <> [] /\
  forall lbl ds, In (lbl, ds) shipped_defs ->
    exists r, FromDict.from_dict ds = FromDict.FOk r /\ state_sound_from_definitions ds r.
Proof.
  split.
  - intros H. apply (f_equal (@List.length _)) in H. vm_compute in H. discriminate H.
  - exact (accepted_all_state_sound shipped_defs shipped_defs_all_accepted).
Qed.
