(** The composition [from_dict] -> C01 on the definitions of the SHIPPED models, regenerated from the running code on every
    run (coq/gen/GenC15Defs.v: every variable of every shipped configuration's [get_variables_specs()], a
    NamedInputFunction by its assigned names, any other function by its [inspect.signature]).
    [from_dict] accepts each of them (by [vm_compute]); hence, for each, the State model is sound on the graph obtained
    from the signatures, whatever the values, node functions and history. *)
From Coq Require Import List Bool Arith ZArith.
From Leaspy Require Dag.DagModel Dag.FromDict.
From Leaspy Require Import State.StateModel State.StateNow.
From Leaspy Require Import Compose.DagState Compose.FromDictState Compose.FromDictStateProofs.
From LeaspyGen Require Import GenC15Defs.
Import ListNotations.

Lemma shipped_defs_all_accepted : forallb (fun p => accepted_b (snd p)) shipped_defs = true.
Proof. vm_compute. reflexivity. Qed.

Theorem shipped_definitions_state_sound :
  shipped_defs <> [] /\
  forall lbl ds, In (lbl, ds) shipped_defs ->
    exists r, FromDict.from_dict ds = FromDict.FOk r /\ state_sound_from_definitions ds r.
Proof.
  split.
  - intros H. apply (f_equal (@List.length _)) in H. vm_compute in H. discriminate H.
  - exact (accepted_all_state_sound shipped_defs shipped_defs_all_accepted).
Qed.

(** * A concrete run on the FIRST shipped definition list (non-vacuity of the conclusion; the statement mentions no value, so
      that it survives regeneration): integer values, hyper-parameters = 1, node [i] = [i] + the sum of its arguments; fork on,
      every settable variable := 2; then EVERY variable can be read, and each read is the from-scratch value. *)
Definition sh_ds : list FromDict.vdef := match shipped_defs with (_, ds) :: _ => ds | [] => [] end.
Definition sh_r : DagModel.dag :=
  match FromDict.from_dict sh_ds with FromDict.FOk r => r | FromDict.FErr _ => DagModel.mkDag [] [] [] [] end.
Definition sh_hv (i : nat) : Z := 1%Z.
Definition sh_ax (i : nat) : bool := false.
Definition sh_fs (i : nat) (args : list Z) : Z := fold_right Z.add (Z.of_nat i) args.
Definition sh_sem : sem Z unit unit := mkSem (fun _ v _ old => Some (old + v)%Z) (fun _ _ _ => None).
Definition sh_g : graph Z := graph_from_definitions Z sh_hv sh_ax sh_fs sh_ds sh_r 0%Z.
Definition sh_ops : list (op Z unit unit) :=
  SetMode 0 (Some COPY) :: map (fun i => Set_ 0 i (Some 2%Z)) (filter (settable sh_g) (seq 0 (gn sh_g))).

Lemma sh_accepted : FromDict.from_dict sh_ds = FromDict.FOk sh_r.
Proof. vm_compute. reflexivity. Qed.

Lemma sh_wf : WF sh_g.
Proof. exact (graph_from_definitions_WF Z sh_hv sh_ax sh_fs sh_ds sh_r 0%Z sh_accepted). Qed.

Lemma sh_nontrivial : (0 <? gn sh_g) && existsb (linked sh_g) (seq 0 (gn sh_g)) && existsb (settable sh_g) (seq 0 (gn sh_g)) = true.
Proof. vm_compute. reflexivity. Qed.

Lemma sh_no_partial : forallb (@no_partial_revert Z unit unit) sh_ops = true.
Proof. vm_compute. reflexivity. Qed.

Lemma sh_all_ok :
  forallb (fun i => is_ok (snd (step_now sh_g sh_sem (fst (run_now sh_g sh_sem (init_store sh_g) sh_ops)) (Get 0 i)))) (seq 0 (gn sh_g)) = true.
Proof. vm_compute. reflexivity. Qed.

Lemma sh_state : (match nth_error (fst (run_now sh_g sh_sem (init_store sh_g) sh_ops)) 0 with Some _ => true | None => false end) = true.
Proof. vm_compute. reflexivity. Qed.

Theorem shipped_first_history :
  FromDict.from_dict sh_ds = FromDict.FOk sh_r /\
  (0 <? gn sh_g) && existsb (linked sh_g) (seq 0 (gn sh_g)) && existsb (settable sh_g) (seq 0 (gn sh_g)) = true /\
  exists st, nth_error (fst (run_now sh_g sh_sem (init_store sh_g) sh_ops)) 0 = Some st /\
    forall i, i < gn sh_g -> exists v,
      snd (step_now sh_g sh_sem (fst (run_now sh_g sh_sem (init_store sh_g) sh_ops)) (Get 0 i)) = Ok v /\
      scratch sh_g (values st) i = Some v.
Proof.
  split; [exact sh_accepted|]. split; [exact sh_nontrivial|].
  exact (all_reads_fresh Z unit unit sh_g sh_sem sh_ops sh_wf sh_no_partial sh_all_ok sh_state).
Qed.
