(* C05 on the run program of C11 — proofs, for EVERY program that passes the two decidable checks `well_shaped` (RunProg.v)
   and `sched_shaped` (ScheduleOnRun.v). *)
From Coq Require Import List Arith Bool ZArith Reals Lia.
From Leaspy Require Import Api.ApiModel Api.RunProg Api.RunProgProofs Saem.Schedule Saem.ScheduleProofs Compose.ScheduleOnRun.
Import ListNotations.

(* ---------------------------------------------------------------------- quiet statements unfold to no key event *)
Lemma filter_flat_map {A B} (f : B -> bool) (g : A -> list B) l :
  filter f (flat_map g l) = flat_map (fun x => filter f (g x)) l.
Proof. induction l; simpl; auto. rewrite filter_app, IHl. reflexivity. Qed.

Lemma flat_map_nil {A B} (g : A -> list B) l : (forall x, In x l -> g x = []) -> flat_map g l = [].
Proof. induction l; simpl; auto. intros H. rewrite (H a), IHl; auto. Qed.

Lemma quiet_unf e p : mentions key_name p = false -> forall i k, filter is_key (unf e p i k) = [].
Proof.
  induction p; simpl; intros H i k; auto.
  - rewrite H. reflexivity.
  - apply orb_false_iff in H as (H1 & H2). rewrite filter_app, IHp1, IHp2; auto.
  - rewrite filter_flat_map. apply flat_map_nil. intros; auto.
  - rewrite filter_flat_map. apply flat_map_nil. intros; auto.
  - apply orb_false_iff in H as (H1 & H2). destruct (geval e i g); auto.
Qed.

Lemma quiet_list_unf e l i k : forallb quiet l = true -> filter is_key (unf_list e l i k) = [].
Proof.
  intros H. unfold unf_list. rewrite filter_flat_map. apply flat_map_nil. intros q Hq.
  rewrite forallb_forall in H. specialize (H q Hq). unfold quiet in H. apply negb_true_iff in H. apply quiet_unf; auto.
Qed.

(* ---------------------------------------------------------------------- the shape of one iteration *)
Lemma split_on_spec t l : forall a b, split_on t l = Some (a, b) -> exists q, t q = true /\ l = a ++ q :: b.
Proof.
  induction l as [|q r IH]; simpl; intros a b H; try discriminate.
  destruct (t q) eqn:E.
  - inversion H; subst. exists q. auto.
  - destruct (split_on t r) as [[a' b']|]; try discriminate. inversion H; subst.
    destruct (IH a' b eq_refl) as (q' & Hq & Hr). exists q'. split; auto. simpl. now rewrite Hr.
Qed.

Lemma is_sampler_loop_eq q : is_sampler_loop q = true -> q = PVars (PEv ASample).
Proof. destruct q; try discriminate. destruct q; try discriminate. destruct a; try discriminate. reflexivity. Qed.

Lemma is_css_eq q : is_css q = true -> q = PEv ASuffStats.
Proof. destruct q; try discriminate. destruct a; try discriminate. reflexivity. Qed.

Lemma iter_parts_spec b a1 a2 post :
  iter_parts b = Some (a1, a2, post) ->
  flatten b = a1 ++ PVars (PEv ASample) :: a2 ++ PEv ASuffStats :: PEv AMStep :: PEv ATemperature :: post.
Proof.
  unfold iter_parts. destruct (split_on is_sampler_loop (flatten b)) as [[x rest]|] eqn:E1; try discriminate.
  destruct (split_on is_css rest) as [[y z]|] eqn:E2; try discriminate.
  destruct z as [|z1 z]; try discriminate. destruct z1; try discriminate. destruct a; try discriminate.
  destruct z as [|z2 z]; try discriminate. destruct z2; try discriminate. destruct a; try discriminate.
  intros H; inversion H; subst.
  destruct (split_on_spec _ _ _ _ E1) as (q1 & Hq1 & H1). destruct (split_on_spec _ _ _ _ E2) as (q2 & Hq2 & H2).
  apply is_sampler_loop_eq in Hq1. apply is_css_eq in Hq2. subst. exact H1.
Qed.

Lemma unf_list_cons e q l i k : unf_list e (q :: l) i k = unf e q i k ++ unf_list e l i k.
Proof. reflexivity. Qed.

Lemma samples_key i l : filter is_key (map (fun k => IAlg ASample i k) l) = map (fun k => IAlg ASample i k) l.
Proof. induction l; simpl; auto. now rewrite IHl. Qed.

(* the key events of iteration i of a program of that shape: every sampler, then the statistics, the maximisation, the
   temperature — each once, all at counter value i *)
Lemma body_key_events e b i a1 a2 post :
  iter_parts b = Some (a1, a2, post) -> forallb quiet a1 = true -> forallb quiet a2 = true -> forallb quiet post = true ->
  filter is_key (unf e b i 0) = iteration_events (e_order e i) i.
Proof.
  intros Hp H1 H2 H3. rewrite unf_flatten, (iter_parts_spec _ _ _ _ Hp).
  rewrite unf_list_app, filter_app, (quiet_list_unf e a1 i 0 H1), unf_list_cons, filter_app, unf_list_app, filter_app,
    (quiet_list_unf e a2 i 0 H2), !unf_list_cons, !filter_app, (quiet_list_unf e post i 0 H3).
  unfold iteration_events. simpl. f_equal.
  induction (e_order e i) as [|x l IHl]; simpl; auto. now rewrite IHl.
Qed.

(* ---------------------------------------------------------------------- the key events of the whole run *)
Theorem run_key_events e p :
  well_shaped p = true -> sched_shaped p = true -> filter is_key (unfold e p) = run_events e.
Proof.
  intros Hw Hs. rewrite (unfold_parts e p Hw).
  unfold sched_shaped in Hs. apply andb_true_iff in Hs as (Hs & Hfin). apply andb_true_iff in Hs as (Hs & Hinit).
  destruct (iter_parts (p_body p)) as [[[a1 a2] post]|] eqn:Ep; try discriminate.
  apply andb_true_iff in Hs as (Hs & H3). apply andb_true_iff in Hs as (H1 & H2).
  rewrite !filter_app, (quiet_list_unf e _ 0 0 Hinit), (quiet_list_unf e _ 0 0 Hfin), app_nil_r.
  replace (filter is_key (if e_aflag e FSeedSet then seed_items else [])) with (@nil item) by (destruct (e_aflag e FSeedSet); reflexivity).
  simpl app. rewrite filter_flat_map. unfold run_events. apply flat_map_ext. intros i.
  eapply body_key_events; eauto.
Qed.

(* position facts read off `run_events` *)
Lemma run_events_counter e it : In it (run_events e) -> exists a i k, it = IAlg a i k /\ 1 <= i <= e_niter e.
Proof.
  unfold run_events. intros H. apply in_flat_map in H as (i & Hi & H). apply in_seq in Hi.
  unfold iteration_events in H. apply in_app_or in H as [H|H].
  - apply in_map_iff in H as (k & <- & _). exists ASample, i, k. split; auto. lia.
  - simpl in H. destruct H as [<-|[<-|[<-|[]]]]; eexists _, i, 0; split; eauto; lia.
Qed.

(* ---------------------------------------------------------------------- the machine *)
Section MachineProofs.
  Variable mless : Z -> Z -> bool.
  Variable flag : Z -> Z -> bool.
  Variable comb : R -> R -> R -> R.
  Variable step : Z -> Z -> R.
  Variable nb : Z.
  Variable s : nat -> R.

  Notation sstep := (sstep mless flag comb step nb s).
  Notation srun := (srun mless flag comb step nb s).

  Lemma srun_app l1 l2 : forall st, srun st (l1 ++ l2) = match srun st l1 with None => None | Some st' => srun st' l2 end.
  Proof. induction l1 as [|it t IH]; intros st; simpl; auto. destruct (sstep st it); auto. Qed.

  (* only the key events matter *)
  Lemma srun_filter l : forall st, srun st l = srun st (filter is_key l).
  Proof.
    induction l as [|it t IH]; intros st; simpl; auto.
    destruct (is_key it) eqn:E.
    - simpl. destruct (sstep st it); auto.
    - replace (sstep st it) with (Some st); auto.
      destruct it as [a i k|o i]; simpl; auto. destruct a; simpl in E; try discriminate; reflexivity.
  Qed.

  Lemma srun_samples i l st : srun st (map (fun k => IAlg ASample i k) l) = Some st.
  Proof. induction l; simpl; auto. Qed.

  (* one iteration, started with no fresh statistics *)
  Lemma srun_iteration order i j r log :
    srun (SSt j None r log) (iteration_events order i)
    = let k := Z.of_nat i in
      let S' := if mless k nb then s (S j) else comb r (s (S j)) (step k nb) in
      Some (SSt (S j) None S' (log ++ [MRec i S' (mless k nb) (flag k nb)])).
  Proof. unfold iteration_events. rewrite srun_app, srun_samples. reflexivity. Qed.
End MachineProofs.

(* the machine only sees its rules point-wise *)
Lemma srun_ext mless mless' flag flag' comb comb' step step' nb s :
  (forall k n, mless k n = mless' k n) -> (forall k n, flag k n = flag' k n) ->
  (forall a b c, comb a b c = comb' a b c) -> (forall k n, step k n = step' k n) ->
  forall l st, srun mless flag comb step nb s st l = srun mless' flag' comb' step' nb s st l.
Proof.
  intros H1 H2 H3 H4. induction l as [|it t IH]; intros st; simpl; auto.
  replace (sstep mless' flag' comb' step' nb s st it) with (sstep mless flag comb step nb s st it).
  - destruct (sstep mless flag comb step nb s st it); auto.
  - destruct it as [a i k|o i]; simpl; auto. destruct a; simpl; auto.
    destruct (s_fresh st); auto. rewrite H1, H2, H3, H4. reflexivity.
Qed.

(* ---------------------------------------------------------------------- the schedule on the run (hand-written rules) *)
Lemma expected_log_S nb p s n : expected_log nb p s (S n) = expected_log nb p s n ++ [expected_rec nb p s (S n)].
Proof. unfold expected_log. rewrite seq_S, map_app. reflexivity. Qed.

Lemma run_events_S e n ord af lf per :
  e = Env (S n) ord af lf per ->
  run_events e = run_events (Env n ord af lf per) ++ iteration_events (ord (S n)) (S n).
Proof. intros ->. unfold run_events. simpl e_niter. rewrite seq_S, flat_map_app. simpl. now rewrite app_nil_r. Qed.

Lemma srun_run_events nb p s ord af lf per : forall n,
  srun memoryless burn_flag convex (fun k nb' => eps k nb' p) nb s (sst0) (run_events (Env n ord af lf per))
  = Some (SSt n None (stat nb p s n) (expected_log nb p s n)).
Proof.
  induction n as [|n IH].
  - reflexivity.
  - rewrite (run_events_S _ n ord af lf per eq_refl), srun_app, IH, srun_iteration, expected_log_S. reflexivity.
Qed.

(* for every configuration of a program of that shape: the k-th maximisation runs at counter k and is given stat k *)
Theorem run_schedule e p nb pw s :
  well_shaped p = true -> sched_shaped p = true ->
  model_log nb pw s (unfold e p) = Some (expected_log nb pw s (e_niter e)).
Proof.
  intros Hw Hs. unfold model_log, mstep_log. rewrite srun_filter, (run_key_events e p Hw Hs).
  destruct e as [n ord af lf per]. rewrite srun_run_events. reflexivity.
Qed.

(* reading the expected log: entry k-1 is the k-th maximisation *)
Lemma expected_log_nth nb p s n k :
  1 <= k <= n -> nth_error (expected_log nb p s n) (k - 1) = Some (expected_rec nb p s k).
Proof.
  intros H. unfold expected_log. rewrite nth_error_map.
  replace (nth_error (seq 1 n) (k - 1)) with (Some k); auto.
  symmetry. rewrite nth_error_nth' with (d := 0) by (rewrite seq_length; lia). rewrite seq_nth by lia. f_equal. lia.
Qed.

Lemma expected_log_length nb p s n : length (expected_log nb p s n) = n.
Proof. unfold expected_log. now rewrite map_length, seq_length. Qed.

(* the documented recurrence, on the entries of the log *)
Lemma expected_rec_reads nb p s k :
  1 <= k ->
  m_iter (expected_rec nb p s k) = k
  /\ ((Z.of_nat k <= nb + 1)%Z -> m_stat (expected_rec nb p s k) = s k /\ m_memoryless (expected_rec nb p s k) = true)
  /\ ((nb + 2 <= Z.of_nat k)%Z ->
        m_stat (expected_rec nb p s k)
        = ((1 - Rpower (IZR (Z.of_nat k - nb)) (- p)) * m_stat (expected_rec nb p s (k - 1))
           + Rpower (IZR (Z.of_nat k - nb)) (- p) * s k)%R
        /\ m_memoryless (expected_rec nb p s k) = false)
  /\ (m_flag (expected_rec nb p s k) = true <-> (Z.of_nat k <= nb)%Z).
Proof.
  intros Hk. split; [reflexivity|]. split; [|split].
  - intros H. split; [apply stat_memoryless; auto | apply memoryless_iff; auto].
  - intros H. destruct k as [|j]; [lia|]. replace (S j - 1) with j by lia. split.
    + simpl m_stat. apply stat_convex. exact H.
    + apply memoryless_false_iff; auto.
  - apply is_burn_in_iff.
Qed.
