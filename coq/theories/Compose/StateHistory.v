(** Composition C01 -> C12, histories: the scripts of Io/History.v on the REAL State model ([gstate] of Compose/StateEndOfFit.v),
    as the code runs them: [load_parameters] assigns the parameters with State.__setitem__, resets the population variables
    with [put_population_cached] (the prior's parameters are READ, which fills the cache, then the assignment is made on the
    State object left by those reads), then READS every other name of the dictionary (e.g. [mixing_matrix], [v0]) to compare
    it — one more cache-filling read each; an observer (to_dict / save / [parameters]) is a list of such reads.  Definitions only; proofs: Compose/StateHistoryProofs.v. *)
From Coq Require Import List String Bool.
From Leaspy Require Import State.StateModel State.StateProofs State.StateNow Io.EndOfFit Io.History Compose.StateEndOfFit.
Import ListNotations.
Open Scope string_scope.

Section StateStore.
Variable V : Type.
Variable g : graph V.
Hypothesis wf : WF g.
Variable names : list string.
Variable stat : prior_stat -> string -> (string -> option V) -> option V.
Variable prior_params : string -> list string.

(** State.is_variable_set *)
Definition s_isset (s : gstate V g) (nm : string) : bool :=
  match s_get V g names s nm with Some _ => true | None => false end.

Definition load_parameters_cached (pops : list string) (a : list (string * option V)) (cmp : list string) (s : gstate V g) : gstate V g :=
  fold_left (s_touch V g wf names) cmp
    (put_population_cached V g wf names stat prior_params init_route InitMode pops
       (assign_params (option V) (gstate V g) (s_set V g wf names) a s)).

Definition run_event_cached (pops : list string) (s : gstate V g) (e : event (option V) (gstate V g)) : option (gstate V g) :=
  match e with
  | EvLoad a cmp => Some (load_parameters_cached pops a cmp s)
  | EvFit body => Some (end_of_fit_cached V g wf names stat prior_params pops (body s))
  | EvRead cmp => Some (fold_left (s_touch V g wf names) cmp s)
  end.

Definition run_history_cached (pops : list string) : list (event (option V) (gstate V g)) -> gstate V g -> option (gstate V g) :=
  run_hist (option V) (gstate V g) (run_event_cached pops).
End StateStore.
