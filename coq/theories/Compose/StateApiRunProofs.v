(** Composition C01 -> C11 / C13, continued (Parts 1-2: Compose/StateApiProofs.v).

    Part 3  every State object of every store reachable from [init_store] is a consistent cache:
            [Reach S -> nth_error S k = Some s -> Cache (abs s)].  The C01 invariant [Good] is preserved by
            [StateProofs.Good_run]; the extra invariant [Fixed] (hyper-parameters stay where [State.__init__] put them)
            is proved here for every operation of the State model.
    Part 4  an API run IS a run of the State model: each API event is executed by the State operations
            [ops_of_event] on the State object the addressed cell stands for, and the API store keeps representing the
            store of State objects ([RepI]); lifted to scripts ([exec]), observers ([run_obs]: the clones an observer made
            are dropped by the API model, they stay in the State store as unreachable objects) and whole fits
            ([fit_run]).  Hence: API runs started on reachable State objects only ever meet reachable State objects. *)
From Coq Require Import List Arith Bool Lia.
From Leaspy Require Import State.StateModel State.StateProofs State.StateNow State.StateNowProofs
                           Api.ApiModel Api.ApiProofs Compose.StateApi Compose.StateApiProofs.
Import ListNotations.

Section Run.
Variables V M IX : Type.
Variable g : graph V.
Variable sm : sem V M IX.
Hypothesis wf : WF g.
Hypothesis fmix : F_mix g sm.
Notation n := (gn g).
Notation abs := (abs V g).
Notation Cache := (Cache V g).
Notation Fixed := (Fixed V g).
Notation r_read := (r_read V g).
Notation r_write := (r_write V g).
Notation r_clone := (r_clone V g).
Notation r_simOn := (r_simOn V g).
Notation Reach := (Reach V g M IX sm).
Notation RepI := (RepI V g).
Notation step_now := (step_now g sm).
Notation run_now := (run_now g sm).
Notation AllGood := (AllGood V g).
Notation no_partial := (@no_partial_revert V M IX).

(** * Part 3 — reachable State objects are consistent caches *)

Definition AllFixed (S : StateModel.store V) : Prop := forall k s, nth_error S k = Some s -> Fixed (values s).

Lemma Fixed_frame (vs vs' : vals V) :
  (forall k, k < n -> linked g k = false -> settable g k = false -> vs' k = vs k) -> Fixed vs -> Fixed vs'.
Proof. intros H HF k Hk L S. rewrite H by assumption. now apply HF. Qed.

Lemma Fixed_get s i : Good g s -> Fixed (values s) -> Fixed (values (fst (get_state g s i))).
Proof.
  intros (HI & HB & _) HF. destruct (get_state_values V g s i) as [E _]. rewrite E.
  destruct (get_props V g wf (values s) i HI HB) as (_ & _ & HE & _).
  apply (Fixed_frame (values s)); [|exact HF]. intros k _ L _. exact (extends_indep V g _ _ _ HE k L).
Qed.

Lemma Fixed_set s i o : Fixed (values s) -> Fixed (values (fst (set_now g s i o))).
Proof.
  intros HF. rewrite set_values. destruct (StateApi.r_indep V g i) eqn:Ei; [|exact HF].
  destruct (indep_spec V g wf i Ei) as (Hi & Si & Li).
  apply (Fixed_frame (values s)); [|exact HF]. intros k Hk L S. rewrite reset_out.
  - apply upd_other. congruence.
  - intros Hin. rewrite (desc_linked V g wf i k Hi Hin) in L. discriminate.
Qed.

Lemma Fixed_put s i ix v acc : Good g s -> Fixed (values s) -> Fixed (values (fst (put_state g sm true s i ix v acc))).
Proof.
  intros HG HF. unfold put_state.
  assert (Hdirect : Fixed (values (fst (set_state g true s i (Some v))))) by exact (Fixed_set s i (Some v) HF).
  assert (Hgen : Fixed (values (fst (let '(st', o) := get_state g s i in
      match o with
      | Ok old => match put_val sm ix v acc old with Some new => set_state g true st' i (Some new) | None => (st', Err Crash) end
      | other => (st', other) end)))).
  { pose proof (Fixed_get s i HG HF) as HF'. destruct (get_state g s i) as [st' o]. cbn [fst] in *.
    destruct o; try exact HF'. destruct (put_val sm ix v acc v0); [|exact HF']. exact (Fixed_set st' i (Some v1) HF'). }
  destruct ix; [exact Hgen|]. destruct acc; [exact Hgen | exact Hdirect].
Qed.

(** the keys of an undo log are a settable variable and derived variables: never a fixed one *)
Lemma fork_keys_not_fixed s fk : Good g s -> fork s = Some fk ->
  forall k, k < n -> linked g k = false -> settable g k = false -> ~ In k (map fst fk).
Proof.
  intros (_ & _ & HF) E k Hk L S Hin. unfold ForkOK in HF. rewrite E in HF.
  destruct HF as (i & Hi & Si & Hkeys & _). rewrite Hkeys in Hin. destruct Hin as [<-|Hin]; [congruence|].
  rewrite (desc_linked V g wf i k Hi Hin) in L. discriminate.
Qed.

Lemma Fixed_revert s : Good g s -> Fixed (values s) -> Fixed (values (fst (revert_state s))).
Proof.
  intros HG HF. unfold revert_state. destruct (fork s) as [fk|] eqn:E; [|exact HF]. cbn [fst values].
  apply (Fixed_frame (values s)); [|exact HF]. intros k Hk L S. apply override_nokey.
  exact (fork_keys_not_fixed s fk HG E k Hk L S).
Qed.

Lemma Fixed_revert_mask s m : Good g s -> mask_ok g sm m s -> Fixed (values s) ->
  Fixed (values (fst (revert_mask_state sm s m))).
Proof.
  intros HG Hm HF. unfold revert_mask_state. destruct (fork s) as [fk|] eqn:E; [|exact HF].
  pose proof (fork_keys_not_fixed s fk HG E) as Hkeys.
  destruct HG as (_ & _ & HFk). unfold ForkOK in HFk. rewrite E in HFk. destruct HFk as (i & Hi & Si & Hk & _).
  unfold mask_ok in Hm. rewrite E in Hm.
  destruct (revert_items_spec V M IX sm m fk (values s)) as [Hok Hpt].
  { rewrite Hk. apply increasing_NoDup. now apply (wf_desc_inc wf). }
  { intros c o cur Hin Hc. exact (proj2 (Hm c o cur Hin Hc)). }
  destruct (revert_items sm m (values s) fk) as [vs' ok]. cbn [fst snd] in *. subst ok. cbn [fst values].
  apply (Fixed_frame (values s)); [|exact HF]. intros k Hk' L S. rewrite Hpt. unfold revert_mask.
  pose proof (proj2 (assoc_keys V k fk) (Hkeys k Hk' L S)) as Ha. now rewrite Ha.
Qed.

Lemma Fixed_precompute s : Good g s -> Fixed (values s) -> Fixed (values (fst (precompute_state g s))).
Proof.
  intros (HI & HB & _) HF. unfold precompute_state.
  pose proof (walk_extends V g (seq 0 n) (values s)) as HE.
  destruct (walk g (values s) (seq 0 n)) as [vs' e]. cbn [fst with_values values] in *.
  apply (Fixed_frame (values s)); [|exact HF]. intros k _ L _. exact (extends_indep V g _ _ _ HE k L).
Qed.

Lemma Fixed_init_vals : Fixed (init_vals g).
Proof. intros k Hk _ _. unfold init_vals. apply Nat.ltb_lt in Hk. now rewrite Hk. Qed.

Lemma AllFixed_on_state S k f : AllFixed S -> (forall s, nth_error S k = Some s -> Fixed (values (fst (f s)))) ->
  AllFixed (fst (on_state S k f)).
Proof.
  intros HA Hf. unfold on_state. destruct (nth_error S k) as [s|] eqn:E; [|exact HA].
  specialize (Hf s eq_refl). destruct (f s) as [s' o]. cbn [fst] in *.
  intros j sj Hj. rewrite nth_set_nth in Hj. destruct (Nat.eqb j k) eqn:Ejk; [|now apply (HA j)].
  rewrite E in Hj. now injection Hj as <-.
Qed.

Lemma AllFixed_init : AllFixed (init_store g).
Proof. intros [|k] s H; cbn in H; [injection H as <-; apply Fixed_init_vals | destruct k; discriminate]. Qed.

Lemma Fixed_step S o : AllGood S -> AllFixed S -> pre_ok g sm S o -> AllFixed (fst (step_now S o)).
Proof.
  intros HG HA Hok. unfold StateNow.step_now. destruct o; cbn [StateModel.step].
  - apply AllFixed_on_state; [exact HA|]. intros s Hs. apply Fixed_get; [now apply (HG k) | now apply (HA k)].
  - apply AllFixed_on_state; [exact HA|]. intros s Hs. cbn. now apply (HA k).
  - apply AllFixed_on_state; [exact HA|]. intros s Hs. apply Fixed_set. now apply (HA k).
  - apply AllFixed_on_state; [exact HA|]. intros s Hs. apply Fixed_put; [now apply (HG k) | now apply (HA k)].
  - apply AllFixed_on_state; [exact HA|]. intros s Hs. apply Fixed_revert; [now apply (HG k) | now apply (HA k)].
  - apply AllFixed_on_state; [exact HA|]. intros s Hs. cbn in Hok. rewrite Hs in Hok.
    apply Fixed_revert_mask; [now apply (HG k) | exact Hok | now apply (HA k)].
  - destruct (nth_error S k) as [s|] eqn:E; [|exact HA]. cbn [fst].
    intros j sj Hj. destruct (lt_dec j (length S)) as [Hlt|Hge].
    + rewrite nth_error_app1 in Hj by exact Hlt. now apply (HA j).
    + rewrite nth_error_app2 in Hj by lia. destruct (j - length S) as [|d]; cbn in Hj; [|destruct d; discriminate].
      injection Hj as <-. cbn. now apply (HA k).
  - apply AllFixed_on_state; [exact HA|]. intros s Hs. cbn. exact (HA k s Hs).
  - apply AllFixed_on_state; [exact HA|]. intros s Hs. apply Fixed_precompute; [now apply (HG k) | now apply (HA k)].
  - apply AllFixed_on_state; [exact HA|]. intros s Hs. cbn. apply Fixed_init_vals.
Qed.

Lemma Good_step_now S o : AllGood S -> pre_ok g sm S o -> AllGood (fst (step_now S o)).
Proof.
  intros HG Hok. apply (Good_step V M IX g sm true false wf (or_introl eq_refl) S o fmix HG). now apply pre_ok_iff.
Qed.

Lemma run_now_cons S o r : fst (run_now S (o :: r)) = fst (run_now (fst (step_now S o)) r).
Proof. unfold StateNow.run_now, StateNow.step_now. now rewrite run_cons. Qed.

Lemma run_now_app a : forall S b, fst (run_now S (a ++ b)) = fst (run_now (fst (run_now S a)) b).
Proof. induction a as [|o r IH]; intros S b; [reflexivity|]. rewrite <- app_comm_cons, !run_now_cons. apply IH. Qed.

Lemma MaskDisciplined_app a : forall S b, MaskDisciplined g sm S a -> MaskDisciplined g sm (fst (run_now S a)) b ->
  MaskDisciplined g sm S (a ++ b).
Proof.
  induction a as [|o r IH]; intros S b Ha Hb; [exact Hb|]. destruct Ha as [H1 H2]. rewrite <- app_comm_cons. split; [exact H1|].
  apply IH; [exact H2|]. now rewrite run_now_cons in Hb.
Qed.

Lemma GoodFixed_run ops : forall S, AllGood S -> AllFixed S -> MaskDisciplined g sm S ops ->
  AllGood (fst (run_now S ops)) /\ AllFixed (fst (run_now S ops)).
Proof.
  induction ops as [|o r IH]; intros S HG HA HD; [split; assumption|]. destruct HD as [H1 H2]. rewrite run_now_cons.
  apply IH; [now apply Good_step_now | now apply Fixed_step | exact H2].
Qed.

Lemma Reach_init : Reach (init_store g).
Proof. exists []. split; [exact I | reflexivity]. Qed.

Lemma Reach_run S ops : Reach S -> MaskDisciplined g sm S ops -> Reach (fst (run_now S ops)).
Proof.
  intros (ops0 & H0 & ->) H. exists (ops0 ++ ops). split; [now apply MaskDisciplined_app | now rewrite run_now_app].
Qed.

Lemma Reach_good S : Reach S -> AllGood S /\ AllFixed S.
Proof. intros (ops & HD & ->). apply GoodFixed_run; [now apply AllGood_init | exact AllFixed_init | exact HD]. Qed.

Lemma good_cache s : Good g s -> Fixed (values s) -> Cache (abs s).
Proof. intros (HI & HB & _) HF. now apply Cache_of_vals. Qed.

(** every State object of a reachable store, seen from the API, is a consistent cache *)
Theorem reach_cache S k s : Reach S -> nth_error S k = Some s -> Good g s /\ Cache (abs s) /\ r_simOn top (abs s) (abs s).
Proof.
  intros HR Hs. destruct (Reach_good S HR) as [HG HA]. pose proof (good_cache s (HG k s Hs) (HA k s Hs)) as C.
  split; [exact (HG k s Hs)|]. split; [exact C|]. split; [exact C|]. split; [exact C|]. reflexivity.
Qed.

(** * Part 4 — API runs are runs of the State model *)

Variable tracked : list nat.
Variable tape : gen -> nat -> V.
Variable seed_pos : gen -> nat -> nat.
Notation a_step := (ApiModel.step V r_read r_write r_clone tracked tape seed_pos).
Notation a_exec := (ApiModel.exec V r_read r_write r_clone tracked tape seed_pos).
Notation a_run_obs := (run_obs V r_read r_write r_clone tracked tape seed_pos).
Notation a_run_observers := (run_observers V r_read r_write r_clone tracked tape seed_pos).
Notation a_run_logged := (run_logged V r_read r_write r_clone tracked tape seed_pos).
Notation a_fit_run := (fit_run V r_read r_write r_clone tracked tape seed_pos).
Notation a_api_call := (api_call V r_read r_write r_clone tracked tape seed_pos).
Notation a_sread_all := (sread_all V r_read).

Lemma no_partial_disciplined ops S : forallb no_partial ops = true -> MaskDisciplined g sm S ops.
Proof. intros H. now apply MaskDisciplined_no_partial. Qed.

Lemma set_nth_length {A} (l : list A) k x : length (set_nth l k x) = length l.
Proof. revert k. induction l as [|y r IH]; intros [|k]; cbn; auto. Qed.

Lemma RepI_lookup S ix A j a : RepI S ix A -> nth_error A j = Some a ->
  exists k s, nth_error ix j = Some k /\ nth_error S k = Some s /\ a = abs s.
Proof.
  intros (Hl & _ & H) Ha. destruct (nth_error ix j) as [k|] eqn:E.
  - destruct (H j k E) as (s & Hs & Ha'). exists k, s. split; [reflexivity|]. split; [exact Hs|]. congruence.
  - apply nth_error_None in E. pose proof (nth_error_lt _ _ _ Ha). lia.
Qed.

(** the State object behind one cell is replaced: the cell follows, the others are untouched *)
Lemma RepI_upd S ix A j k s' : RepI S ix A -> nth_error ix j = Some k ->
  RepI (set_nth S k s') ix (ApiModel.upd A j (abs s')).
Proof.
  intros (Hl & ND & H) Hj. split; [now rewrite length_upd|]. split; [exact ND|].
  intros j' k' Hj'. destruct (H j' k' Hj') as (s & Hs & Ha). rewrite nth_set_nth.
  destruct (Nat.eq_dec j' j) as [->|Hne].
  - assert (k' = k) by congruence. subst k'. rewrite Nat.eqb_refl. destruct (H j k Hj) as (s0 & Hs0 & _). rewrite Hs0.
    exists s'. split; [reflexivity|]. apply nth_error_upd_eq. rewrite <- Hl. apply nth_error_Some. congruence.
  - assert (Hk : k' <> k).
    { intros ->. apply Hne. apply (proj1 (NoDup_nth_error ix) ND); [apply nth_error_Some; congruence | congruence]. }
    apply Nat.eqb_neq in Hk. rewrite Hk. exists s. split; [exact Hs|]. now rewrite nth_error_upd_ne.
Qed.

Lemma NoDup_snoc {A} (l : list A) x : NoDup l -> ~ In x l -> NoDup (l ++ [x]).
Proof.
  induction l as [|a l IH]; intros ND H; cbn; [constructor; [intros []|constructor]|].
  inversion ND; subst. constructor.
  - intros Hin. apply in_app_or in Hin. destruct Hin as [Hin|[->|[]]]; [contradiction | apply H; now left].
  - apply IH; [assumption|]. intros Hx. apply H. now right.
Qed.

Lemma RepI_app S ix A s' : RepI S ix A -> RepI (S ++ [s']) (ix ++ [length S]) (A ++ [abs s']).
Proof.
  intros (Hl & ND & H). split; [rewrite !app_length; cbn; lia|]. split.
  - apply NoDup_snoc; [exact ND|]. intros Hin. apply In_nth_error in Hin. destruct Hin as [j Hj].
    destruct (H j _ Hj) as (s & Hs & _). pose proof (nth_error_lt _ _ _ Hs). lia.
  - intros j k Hj. destruct (lt_dec j (length ix)) as [Hlt|Hge].
    + rewrite nth_error_app1 in Hj by exact Hlt. destruct (H j k Hj) as (s & Hs & Ha). exists s. split.
      * rewrite nth_error_app1; [exact Hs | now apply nth_error_lt in Hs].
      * rewrite nth_error_app1; [exact Ha | lia].
    + rewrite nth_error_app2 in Hj by lia. destruct (j - length ix) as [|d] eqn:Ed; cbn in Hj; [|destruct d; discriminate].
      injection Hj as <-. exists s'. split.
      * rewrite nth_error_app2 by lia. now rewrite Nat.sub_diag.
      * rewrite nth_error_app2 by lia. replace (j - length A) with 0 by lia. reflexivity.
Qed.

Lemma firstn_incl {A} (l : list A) : forall m x, In x (firstn m l) -> In x l.
Proof. induction l as [|a l IH]; intros [|m] x H; cbn in *; auto; try contradiction. destruct H as [H|H]; [now left | right; eauto]. Qed.

Lemma NoDup_firstn {A} (l : list A) : forall m, NoDup l -> NoDup (firstn m l).
Proof.
  induction l as [|a l IH]; intros [|m] ND; cbn; try constructor.
  - inversion ND; subst. intros Hin. apply firstn_incl in Hin. contradiction.
  - inversion ND; subst. now apply IH.
Qed.

Lemma RepI_firstn S ix A m : RepI S ix A -> RepI S (firstn m ix) (firstn m A).
Proof.
  intros (Hl & ND & H). split; [rewrite !firstn_length; lia|]. split.
  - now apply NoDup_firstn.
  - intros j k Hj. assert (Hjm : j < m).
    { destruct (lt_dec j m) as [?|Hge]; [assumption|]. assert (E : nth_error (firstn m ix) j = None).
      { apply nth_error_None. rewrite firstn_length. lia. } congruence. }
    rewrite nth_error_firstn in Hj by exact Hjm. destruct (H j k Hj) as (s & Hs & Ha). exists s. split; [exact Hs|].
    now rewrite nth_error_firstn.
Qed.

(** the State store grows or its objects are replaced in place: what it takes for [RepI] to survive a change of [S]
    that leaves the represented objects alone *)
Lemma RepI_same S S' ix A : RepI S ix A -> (forall k, In k ix -> nth_error S' k = nth_error S k) -> RepI S' ix A.
Proof.
  intros (Hl & ND & H) Hs. split; [exact Hl|]. split; [exact ND|]. intros j k Hj. destruct (H j k Hj) as (s & Hs' & Ha).
  exists s. split; [|exact Ha]. rewrite Hs; [exact Hs' | now apply nth_error_In with j].
Qed.

Lemma step_on_state S k (f : state V -> state V * out V) s : nth_error S k = Some s ->
  fst (on_state S k f) = set_nth S k (fst (f s)).
Proof. intros E. unfold on_state. rewrite E. now destruct (f s). Qed.

Lemma nth_set_nth_same S k (s s' : state V) : nth_error S k = Some s -> nth_error (set_nth S k s') k = Some s'.
Proof. intros E. rewrite nth_set_nth, Nat.eqb_refl, E. reflexivity. Qed.

Lemma set_nth_twice {A} (l : list A) k x y : set_nth (set_nth l k x) k y = set_nth l k y.
Proof. revert k. induction l as [|z r IH]; intros [|k]; cbn; auto. now rewrite IH. Qed.

(** [State.save]: one read per tracked variable, all on the same State object *)
Lemma gets_refine l : forall S k s, nth_error S k = Some s -> Good g s ->
  exists s', fst (run_now S (map (fun i => Get k i) l)) = set_nth S k s' /\ abs s' = a_sread_all (abs s) l /\ Good g s'.
Proof.
  induction l as [|i r IH]; intros S k s Hs HG.
  - exists s. cbn. split; [|split; [reflexivity | exact HG]]. clear - Hs. revert k Hs.
    induction S as [|y t IHt]; intros [|k] H; cbn in *; try discriminate; [now injection H as -> | now rewrite <- IHt].
  - cbn [map]. rewrite run_now_cons. unfold StateNow.step_now. cbn [StateModel.step].
    rewrite (step_on_state S k (fun st => get_state g st i) s Hs).
    destruct (IH (set_nth S k (fst (get_state g s i))) k (fst (get_state g s i)) (nth_set_nth_same S k s _ Hs)
                 (Good_get V g wf s i HG)) as (s' & E1 & E2 & E3).
    exists s'. split; [now rewrite E1, set_nth_twice|]. split; [|exact E3]. cbn [ApiModel.sread_all].
    destruct HG as (_ & HB & _). rewrite (abs_get V g s i HB). exact E2.
Qed.

(** one API event = the State operations [ops_of_event] on the State object [k] behind the addressed cell *)
Definition target_ok (ix : list nat) (base cur : nat) (e : ev V) (k : nat) : Prop :=
  match ev_ref V e with Some r => nth_error ix (resolve base cur r) = Some k | None => True end.

Lemma step_refines base c e c' S ix d : RepI S ix (cS c) -> AllGood S -> a_step base c e = Some c' ->
  exists k ix', target_ok ix base (cCur c) e k /\
    RepI (fst (run_now S (ops_of_event V M IX tracked d k (cRegs c) e))) ix' (cS c') /\
    (exists new, ix' = ix ++ new) /\
    forallb no_partial (ops_of_event V M IX tracked d k (cRegs c) e) = true.
Proof.
  intros HR HG Hstep. destruct e as [r i|r i f|r i f|r|r|ge b|ge sd|r]; cbn [ApiModel.step] in Hstep.
  - destruct (nth_error (cS c) (resolve base (cCur c) r)) as [a|] eqn:Ea; [|discriminate]. injection Hstep as <-.
    destruct (RepI_lookup _ _ _ _ _ HR Ea) as (k & s & Hk & Hs & ->). exists k, ix. split; [exact Hk|]. cbn [cS ops_of_event].
    split; [|split; [exists []; now rewrite app_nil_r | reflexivity]].
    rewrite run_now_cons. cbn [StateNow.run_now run fst]. unfold StateNow.step_now. cbn [StateModel.step].
    rewrite (step_on_state S k (fun st => get_state g st i) s Hs).
    destruct (HG k s Hs) as (_ & HB & _). change (abs (fst (get_state g (emb V (abs s)) i))) with (fst (r_read (abs s) i)).
    rewrite (abs_get V g s i HB). cbn [fst]. now apply RepI_upd.
  - destruct (nth_error (cS c) (resolve base (cCur c) r)) as [a|] eqn:Ea; [|discriminate]. injection Hstep as <-.
    destruct (RepI_lookup _ _ _ _ _ HR Ea) as (k & s & Hk & Hs & ->). exists k, ix. split; [exact Hk|]. cbn [cS ops_of_event].
    split; [|split; [exists []; now rewrite app_nil_r | reflexivity]].
    rewrite run_now_cons. cbn [StateNow.run_now run fst]. unfold StateNow.step_now. cbn [StateModel.step].
    rewrite (step_on_state S k (fun st => set_state g true st i (f (cRegs c))) s Hs).
    destruct (HG k s Hs) as (_ & HB & _). rewrite (abs_set V g s i _ HB). now apply RepI_upd.
  - destruct (nth_error (cS c) (resolve base (cCur c) r)) as [a|] eqn:Ea; [|discriminate].
    destruct (RepI_lookup _ _ _ _ _ HR Ea) as (k & s & Hk & Hs & ->). exists k, ix. split; [exact Hk|]. cbn [ops_of_event].
    destruct (f (cRegs c)) as [v|]; injection Hstep as <-.
    + cbn [cS]. split; [|split; [exists []; now rewrite app_nil_r | reflexivity]].
      rewrite run_now_cons. cbn [StateNow.run_now run fst]. unfold StateNow.step_now. cbn [StateModel.step].
      rewrite (step_on_state S k (fun st => set_state g true st i v) s Hs).
      destruct (HG k s Hs) as (_ & HB & _). rewrite (abs_set V g s i _ HB). now apply RepI_upd.
    + split; [exact HR|]. split; [exists []; now rewrite app_nil_r | reflexivity].
  - destruct (nth_error (cS c) (resolve base (cCur c) r)) as [a|] eqn:Ea; [|discriminate]. injection Hstep as <-.
    destruct (RepI_lookup _ _ _ _ _ HR Ea) as (k & s & Hk & Hs & ->). exists k, (ix ++ [length S]). split; [exact Hk|].
    cbn [cS ops_of_event]. split; [|split; [now exists [length S] | reflexivity]].
    rewrite run_now_cons. cbn [StateNow.run_now run fst]. unfold StateNow.step_now. cbn [StateModel.step]. rewrite Hs. cbn [fst].
    destruct (HG k s Hs) as (_ & HB & _). rewrite (abs_clone V g s d false HB). now apply RepI_app.
  - destruct (nth_error (cS c) (resolve base (cCur c) r)) as [a|] eqn:Ea; [|discriminate]. injection Hstep as <-.
    destruct (RepI_lookup _ _ _ _ _ HR Ea) as (k & s & Hk & Hs & ->). exists k, ix. split; [exact Hk|]. cbn [cS ops_of_event].
    split; [|split; [exists []; now rewrite app_nil_r|]].
    + destruct (gets_refine tracked S k s Hs (HG k s Hs)) as (s' & E1 & E2 & _). rewrite E1, <- E2. now apply RepI_upd.
    + clear. induction tracked; cbn; auto.
  - exists 0, ix. split; [exact I|]. cbn [ops_of_event]. destruct (b (cRegs c)); injection Hstep as <-;
      (split; [exact HR|]; split; [exists []; now rewrite app_nil_r | reflexivity]).
  - exists 0, ix. split; [exact I|]. cbn [ops_of_event]. injection Hstep as <-.
    split; [exact HR|]. split; [exists []; now rewrite app_nil_r | reflexivity].
  - destruct (nth_error (cS c) (resolve base (cCur c) r)) as [a|] eqn:Ea; [|discriminate]. injection Hstep as <-.
    destruct (RepI_lookup _ _ _ _ _ HR Ea) as (k & s & Hk & Hs & ->). exists k, ix. split; [exact Hk|]. cbn [ops_of_event].
    split; [exact HR|]. split; [exists []; now rewrite app_nil_r | reflexivity].
Qed.

(** a script: some history of State operations without any partial revert, the representation extended by the clones made *)
Theorem exec_refines (d : bool) base evs : forall c c' S ix, RepI S ix (cS c) -> AllGood S -> a_exec base evs c = Some c' ->
  exists ops ix', forallb no_partial ops = true /\ RepI (fst (run_now S ops)) ix' (cS c') /\ (exists new, ix' = ix ++ new).
Proof.
  induction evs as [|e t IH]; intros c c' S ix HR HG H.
  - injection H as <-. exists [], ix. split; [reflexivity|]. split; [exact HR|]. exists []. now rewrite app_nil_r.
  - cbn [ApiModel.exec] in H. destruct (a_step base c e) as [c1|] eqn:E1; [|discriminate].
    destruct (step_refines base c e c1 S ix d HR HG E1) as (k & ix1 & _ & HR1 & (new1 & ->) & Hnp).
    set (ops1 := ops_of_event V M IX tracked d k (cRegs c) e) in *.
    assert (HG1 : AllGood (fst (run_now S ops1))).
    { apply (Good_run V M IX g sm true false wf (or_introl eq_refl) ops1 fmix S HG).
      apply MaskDisciplined_iff. now apply no_partial_disciplined. }
    destruct (IH c1 c' _ _ HR1 HG1 H) as (ops2 & ix2 & Hnp2 & HR2 & (new2 & ->)).
    exists (ops1 ++ ops2), ((ix ++ new1) ++ new2). split; [now rewrite forallb_app, Hnp, Hnp2|].
    split; [now rewrite run_now_app|]. exists (new1 ++ new2). now rewrite app_assoc.
Qed.

Lemma good_after S ops : AllGood S -> forallb no_partial ops = true -> AllGood (fst (run_now S ops)).
Proof.
  intros HG H. apply (Good_run V M IX g sm true false wf (or_introl eq_refl) ops fmix S HG).
  apply MaskDisciplined_iff. now apply no_partial_disciplined.
Qed.

(** an observer: its script is a history of State operations; the clones it made are dropped by the API model and stay
    behind in the State store, unreachable — the representation is the one before *)
Lemma run_obs_refines (d : bool) o c c' S ix : RepI S ix (cS c) -> AllGood S -> a_run_obs o c = Some c' ->
  exists ops, forallb no_partial ops = true /\ RepI (fst (run_now S ops)) ix (cS c').
Proof.
  intros HR HG H. unfold run_obs in H.
  destruct (a_exec (length (cS c)) o (Cfg (cS c) (cCur c) (cPos c) [] (cLog c))) as [c1|] eqn:E; [|discriminate].
  injection H as <-. destruct (exec_refines d _ o (Cfg (cS c) (cCur c) (cPos c) [] (cLog c)) c1 S ix HR HG E) as (ops & ix' & Hnp & HR' & (new & ->)).
  exists ops. split; [exact Hnp|]. cbn [cS].
  pose proof (RepI_firstn _ _ _ (length (cS c)) HR') as HF. destruct HR as (Hl & _ & _).
  rewrite <- Hl, firstn_app, firstn_all, Nat.sub_diag in HF. cbn in HF. rewrite app_nil_r in HF. now rewrite <- Hl.
Qed.

Lemma run_observers_refines (d : bool) os : forall c c' S ix, RepI S ix (cS c) -> AllGood S -> a_run_observers os c = Some c' ->
  exists ops, forallb no_partial ops = true /\ RepI (fst (run_now S ops)) ix (cS c').
Proof.
  induction os as [|o t IH]; intros c c' S ix HR HG H.
  - injection H as <-. exists []. split; [reflexivity | exact HR].
  - cbn [ApiModel.run_observers] in H. destruct (a_run_obs o c) as [c1|] eqn:E; [|discriminate].
    destruct (run_obs_refines d o c c1 S ix HR HG E) as (ops1 & Hnp1 & HR1).
    destruct (IH c1 c' _ ix HR1 (good_after S ops1 HG Hnp1) H) as (ops2 & Hnp2 & HR2).
    exists (ops1 ++ ops2). split; [now rewrite forallb_app, Hnp1, Hnp2 | now rewrite run_now_app].
Qed.

Lemma run_logged_refines (d : bool) base sched iters : forall i c c' S ix, RepI S ix (cS c) -> AllGood S ->
  a_run_logged base sched i iters c = Some c' ->
  exists ops ix', forallb no_partial ops = true /\ RepI (fst (run_now S ops)) ix' (cS c') /\ (exists new, ix' = ix ++ new).
Proof.
  induction iters as [|it rest IH]; intros i c c' S ix HR HG H.
  - injection H as <-. exists [], ix. split; [reflexivity|]. split; [exact HR|]. exists []. now rewrite app_nil_r.
  - cbn [ApiModel.run_logged] in H. destruct (a_exec base it c) as [c1|] eqn:E1; [|discriminate].
    destruct (a_run_observers (sched i) c1) as [c2|] eqn:E2; [|discriminate].
    destruct (exec_refines d base it c c1 S ix HR HG E1) as (ops1 & ix1 & Hnp1 & HR1 & (new1 & ->)).
    pose proof (good_after S ops1 HG Hnp1) as HG1.
    destruct (run_observers_refines d (sched i) c1 c2 _ _ HR1 HG1 E2) as (ops2 & Hnp2 & HR2).
    pose proof (good_after _ ops2 HG1 Hnp2) as HG2.
    destruct (IH (Datatypes.S i) c2 c' _ _ HR2 HG2 H) as (ops3 & ix3 & Hnp3 & HR3 & (new3 & ->)).
    exists (ops1 ++ ops2 ++ ops3), ((ix ++ new1) ++ new3). split; [now rewrite !forallb_app, Hnp1, Hnp2, Hnp3|].
    split; [now rewrite !run_now_app|]. exists (new1 ++ new3). now rewrite app_assoc.
Qed.

(** a whole fit, logged or not: one history of State operations (full reverts excluded, hence no precondition at all) *)
Theorem fit_run_refines (d : bool) base seed init iters fin sched c c' S ix : RepI S ix (cS c) -> AllGood S ->
  a_fit_run base seed init iters fin sched c = Some c' ->
  exists ops ix', forallb no_partial ops = true /\ RepI (fst (run_now S ops)) ix' (cS c') /\ (exists new, ix' = ix ++ new).
Proof.
  intros HR HG H. unfold fit_run in H.
  destruct (a_exec base (seed_all V seed ++ init) c) as [c1|] eqn:E1; [|discriminate].
  destruct (a_run_logged base sched 1 iters c1) as [c2|] eqn:E2; [|discriminate].
  destruct (exec_refines d base _ c c1 S ix HR HG E1) as (ops1 & ix1 & Hnp1 & HR1 & (new1 & ->)).
  pose proof (good_after S ops1 HG Hnp1) as HG1.
  destruct (run_logged_refines d base sched iters 1 c1 c2 _ _ HR1 HG1 E2) as (ops2 & ix2 & Hnp2 & HR2 & (new2 & ->)).
  pose proof (good_after _ ops2 HG1 Hnp2) as HG2.
  destruct (exec_refines d base fin c2 c' _ _ HR2 HG2 H) as (ops3 & ix3 & Hnp3 & HR3 & (new3 & ->)).
  exists (ops1 ++ ops2 ++ ops3), (((ix ++ new1) ++ new2) ++ new3). split; [now rewrite !forallb_app, Hnp1, Hnp2, Hnp3|].
  split; [now rewrite !run_now_app|]. exists (new1 ++ new2 ++ new3). now rewrite !app_assoc.
Qed.

(** ** configurations made of reachable State objects *)

(** [c] is an API configuration over the State objects [ix] of a reachable store *)
Definition RealCfg (c : cfg V) : Prop := exists S ix, Reach S /\ RepI S ix (cS c).

Lemma real_wf_cfg c : RealCfg c -> wf_cfg V r_simOn c.
Proof.
  intros (S & ix & HR & HRep) j a Ha. destruct (RepI_lookup _ _ _ _ _ HRep Ha) as (k & s & _ & Hs & ->).
  exact (proj2 (proj2 (reach_cache S k s HR Hs))).
Qed.

Lemma Reach_no_partial S ops : Reach S -> forallb no_partial ops = true -> Reach (fst (run_now S ops)).
Proof. intros HR H. apply Reach_run; [exact HR | now apply no_partial_disciplined]. Qed.

Theorem exec_real base evs c c' : RealCfg c -> a_exec base evs c = Some c' -> RealCfg c'.
Proof.
  intros (S & ix & HR & HRep) H. destruct (exec_refines false base evs c c' S ix HRep (proj1 (Reach_good S HR)) H)
    as (ops & ix' & Hnp & HR' & _).
  exists (fst (run_now S ops)), ix'. split; [now apply Reach_no_partial | exact HR'].
Qed.

Theorem fit_run_real base seed init iters fin sched c c' : RealCfg c ->
  a_fit_run base seed init iters fin sched c = Some c' -> RealCfg c'.
Proof.
  intros (S & ix & HR & HRep) H.
  destruct (fit_run_refines false base seed init iters fin sched c c' S ix HRep (proj1 (Reach_good S HR)) H)
    as (ops & ix' & Hnp & HR' & _).
  exists (fst (run_now S ops)), ix'. split; [now apply Reach_no_partial | exact HR'].
Qed.

(** the store of a public call on a model whose state is State object [k] of a reachable store *)
Lemma RepI_single S k s : nth_error S k = Some s -> RepI S [k] [abs s].
Proof.
  intros Hs. split; [reflexivity|]. split; [constructor; [intros []|constructor]|].
  intros [|j] k' Hj; cbn in Hj; [|destruct j; discriminate]. injection Hj as <-. exists s. split; [exact Hs | reflexivity].
Qed.

End Run.
