(** C07 x C17 — row-locality of the GENERATED personalisation chain (definitions only; proofs in ChainLocalityProofs.v).

    The chain model is Api/PersonalizeChain.v ([personalize_run]: the C03 individual step iterated at the C19 temperatures on a
    tape of draws), imported, not copied.  What is added here is the vocabulary of "position-indexed draws" and of "what belongs
    to the individual at position j":

    - one sampler call of variable v on a cohort of n individuals consumes `torch.randn((n, *shape_v))` — row i = the
      normals of individual i — and `torch.rand((n,))` — entry i = the uniform of individual i ([call_draws]);
      the flat C03 tape of a run is the row-major concatenation of its calls ([flat_tape]); [tape_fits] says that the
      structured tape has the shape the run consumes (n rows of |shape_v| normals and n uniforms for each call of v, one
      list of calls per iteration in the order the variables are swept);
    - [own j st]: row j of every individual variable; [own_draws j T]: row j of every normal draw and entry j of every
      uniform draw; [own_col j h]: cell j of every draw of a history; [own_trace j tr]: for every sampler call of every
      iteration, the variable, the inverse temperature, the proposal scale std[j] and the decision accepted[j];
      [own_samp j s]: the counter of the sampler (not per individual: it counts calls), std[j] and column j of the
      acceptance window;
    - [row_local]: the hypothesis on the oracle functions `nll_attach_ind`, `nll_regul_<v>_ind`, `nll_regul_ind_sum_ind`
      of two cohorts — entry j1 of the first = entry j2 of the second whenever the individual's own rows agree.  It is
      C07's locality ([C07_locality]) read on the values of the individual variables; ChainLocalityProofs.row_local_of_graph
      derives it from [well_typed] for oracles defined by the C07 graph evaluation.

    What is SHARED by the individuals of a cohort and therefore appears as a common argument of the two runs compared:
    the sampler settings [scf], the annealing settings [acf] (the temperature schedule is a function of the iteration number
    only), the burn-in [nb], [random_order] and the list [orders] of the permutations `random.shuffle` leaves in
    `individual_variable_names` (ONE order per iteration for the whole cohort), the scales of the samplers (a function of the
    prior, i.e. of the population), and each sampler's call counter. *)
From Coq Require Import ZArith QArith List Bool Arith.
From Leaspy Require Import Base.QAux Sampler.SamplerModel Saem.Anneal Sampler.AdaptiveStd Api.Personalize Api.PersonalizeChain.
Import ListNotations.

Section Draws.
  Variable A : Type.

  (** the draws of one sampler call: (rows of the normal draw, uniform draw) *)
  Definition call_draws : Type := (list (list A) * list A)%type.

  (** row-major flattening, calls in the order they are made *)
  Definition flat_tape (calls : list call_draws) : tape A :=
    Build_tape (concat (map (fun c => concat (fst c)) calls)) (concat (map snd calls)).

  (** the draws of a call of variable [v] have the shape `(n, *shape_v)` / `(n,)`; [sizes] = |shape_v| for every variable *)
  Definition fits (n : nat) (sizes : list nat) (v : nat) (c : call_draws) : Prop :=
    length (fst c) = n /\ Forall (fun z => length z = nth v sizes 0%nat) (fst c) /\ length (snd c) = n.

  (** the order in which the variables are swept at each iteration (`shuffle` is in place: the order persists) *)
  Fixpoint sweep_orders (random_order : bool) (ord : list nat) (orders : list (list nat)) : list (list nat) :=
    match orders with
    | [] => []
    | o :: r => let ord' := if random_order then o else ord in ord' :: sweep_orders random_order ord' r
    end.

  (** one list of calls per iteration *)
  Definition tape_fits (n : nat) (sizes : list nat) (random_order : bool) (nvars : nat) (orders : list (list nat))
             (T : list (list call_draws)) : Prop :=
    Forall2 (fun ord cs => Forall2 (fits n sizes) ord cs) (sweep_orders random_order (seq 0 nvars) orders) T.

  Definition row_of (j : nat) (t : tens A) : option (tens A) :=
    match t with Nd rows => nth_error rows j | Sc _ => None end.

  (** what individual [j] owns *)
  Definition own (j : nat) (st : istate A) : list (option (tens A)) := map (row_of j) st.
  Definition own_draws (j : nat) (T : list (list call_draws)) : list (list (option (list A) * option A)) :=
    map (map (fun c => (nth_error (fst c) j, nth_error (snd c) j))) T.
  Definition own_col {X} (j : nat) (h : list (list X)) : list (option X) := map (fun d => nth_error d j) h.
  Definition own_trace (j : nat) (tr : list (Z * list (step_rec A))) : list (Z * list (nat * Q * option Q * option bool)) :=
    map (fun kl => (fst kl, map (fun r => (sr_var r, sr_tinv r, nth_error (sr_sds r) j, nth_error (sr_acc r) j)) (snd kl))) tr.
  Definition own_samp (j : nat) (s : sstate) : Z * option Q * list bool :=
    (counter s, nth_error (std s) j, AdaptiveStd.column (window s) j).

  (** every individual variable is a tensor of [n] rows, the rows of variable v having |shape_v| = [nth v sizes] scalars *)
  Definition shaped (n : nat) (sizes : list nat) (st : istate A) : Prop :=
    Forall2 (fun t s => exists rows, t = Nd rows /\ length rows = n /\ Forall (fun r => size r = s) rows) st sizes.

  (** entry j1 of [f1] in cohort 1 = entry j2 of [f2] in cohort 2 whenever the individual's own rows agree *)
  Definition row_local (n1 n2 j1 j2 : nat) (sizes : list nat) (f1 f2 : istate A -> list A) : Prop :=
    forall st1 st2, shaped n1 sizes st1 -> shaped n2 sizes st2 -> own j1 st1 = own j2 st2 ->
      forall a1 a2, nth_error (f1 st1) j1 = Some a1 -> nth_error (f2 st2) j2 = Some a2 -> a1 = a2.

  (** the cohort re-indexed by a list of positions [p] (a permutation, one individual alone, ...) *)
  Definition reindex_rows {X} (p : list nat) (l : list X) : list X :=
    flat_map (fun i => match nth_error l i with Some x => [x] | None => [] end) p.
  Definition reindex_state (p : list nat) (st : istate A) : istate A :=
    map (fun t => match t with Nd rows => Nd (reindex_rows p rows) | Sc x => Sc x end) st.
  Definition reindex_draws (p : list nat) (T : list (list call_draws)) : list (list call_draws) :=
    map (map (fun c => (reindex_rows p (fst c), reindex_rows p (snd c)))) T.
End Draws.

Arguments flat_tape {A}.
Arguments fits {A}.
Arguments tape_fits {A}.
Arguments row_of {A}.
Arguments own {A}.
Arguments own_draws {A}.
Arguments own_trace {A}.
Arguments shaped {A}.
Arguments row_local {A}.
Arguments reindex_state {A}.
Arguments reindex_draws {A}.
