(** Composition C15 -> C02: the theorems of C02 that need the graph hypothesis only, stated for every graph built by the
    modelled DAG constructor (no hypothesis on the graph left). *)
From Coq Require Import List Arith Bool.
From Leaspy Require Dag.DagModel.
From Leaspy Require Import State.StateModel State.StateProofs State.Revert State.RevertProofs
                           Sampler.RevertScript Sampler.RevertScriptProofs.
From Leaspy Require Import Compose.DagState Compose.DagStateProofs.
Import ListNotations.

Section RevertBuilt.
Variables V M IX : Type.
Variable defs : list (vdef V).
Variable r : DagModel.dag.
Variable v0 : V.
Variable sm : sem V M IX.
Variables fx chk : bool.
Hypothesis Hb : DagModel.build (dag_of_defs defs) = DagModel.Ok r.
Hypothesis Hf : fx = true \/ chk = true.

Notation g := (graph_of_build defs r v0).

Theorem full_revert_built :
  forall (st : state V) (i : nat) (o : option V) (reads : list nat),
    Good g st -> mode st <> None -> i < gn g -> settable g i = true ->
    let st1 := fst (set_state g fx st i o) in
    let st2 := gets g st1 reads in
    let st3 := fst (revert_state st2) in
    snd (revert_state st2) = Done /\
    (forall j w, values st j = Some w -> values st3 j = Some w) /\
    (forall j, In j (i :: desc g i) -> values st3 j = values st j) /\
    (forall j, linked g j = false -> values st3 j = values st j) /\
    fork st3 = None /\ mode st3 = mode st /\ Good g st3 /\
    (forall j, snd (get g (values st3) j) = snd (get g (values st) j)).
Proof. exact (full_revert V g fx chk (built_graph_WF V defs r v0 Hb) Hf). Qed.

Theorem pop_step_built :
  forall decide x reads blks (st st' : state V), sim g st st' -> mode st <> None ->
    (forall a, In a (snd (pop_step g sm fx decide x reads st blks)) -> a <> None) ->
    sim g (fst (pop_step g sm fx decide x reads st blks))
          (pop_accepted g sm fx x st' blks (snd (pop_step g sm fx decide x reads st blks))).
Proof. exact (pop_step_as_if V M IX g sm fx chk (built_graph_WF V defs r v0 Hb) Hf). Qed.
End RevertBuilt.
