(** Composition C01 <-> C07: what the [State] model reads on a graph of the individual-axis type system IS the from-scratch
    evaluation [AxisTypes.eval] that the theorems of C07 (locality, equivariance, totals) are about.

    [eval] walks the checker's order [g_order G]; [scratch] (C01's specification) walks the order delivered by the modelled
    DAG constructor; the two are tied here through the fixed-point property of [eval] ([AxisProofs.fixpoint_thm]) and the
    unfolding of [scratch] on a well-formed graph, for every well-typed graph accepted by the constructor. *)
From Coq Require Import List Bool Arith PeanoNat Lia.
From Leaspy Require Import Locality.AxisTypes Locality.AxisProofs.
From Leaspy Require Dag.DagModel Dag.DagProofs.
From Leaspy Require Import State.StateModel State.StateProofs State.StateNow State.StateNowProofs.
From Leaspy Require Import Compose.DagState Compose.DagStateProofs Compose.AxisState Compose.AxisStateProofs.
Import ListNotations.

Section AxisEval.
Variable A : Type.
Variable add : A -> A -> A.
Variable G : AxisTypes.graph.
Variable fs : nat -> nodefun A.
Variable n : nat.
Variable r : DagModel.dag.
Variable v0 : aval A.
Hypothesis W : well_typed G = true.

Notation defs := (defs_of_axis A add G fs n).
Notation gS := (graph_of_build (defs_of_axis A add G fs n) r v0).
Notation N := (length (g_nodes G)).

Hypothesis Hb : DagModel.build (dag_of_defs defs) = DagModel.Ok r.

(** the state holds, for every independent variable, the (shape-checked) input of the C07 evaluation *)
Definition holds_inputs (inp : nat -> value A) (vs : vals (aval A)) : Prop :=
  forall x nd, nth_error (g_nodes G) x = Some nd -> n_kind nd = Indep ->
    vs (index_of x (DagModel.order r)) = Some (eval A add G fs inp n x).

Lemma sequence_gather (e : nat -> option (value A)) ps : sequence A (map e ps) = gather e ps.
Proof.
  induction ps as [|p ps IH]; simpl; [reflexivity|]. destruct (e p); [|reflexivity]. now rewrite IH.
Qed.

Lemma eval_node_linked (inp : nat -> value A) (e : env A) x nd k :
  nth_error (g_nodes G) x = Some nd -> n_kind nd = Linked k ->
  eval_node A add (g_nodes G) fs inp n e x = axis_fun A add k (fs x) n (map e (n_parents nd)).
Proof.
  intros E K. unfold eval_node, axis_fun. rewrite E, K, sequence_gather.
  destruct (gather e (n_parents nd)) as [vs|]; [|reflexivity]. unfold apply_kind. now destruct k.
Qed.

Theorem scratch_is_eval (inp : nat -> value A) (vs : vals (aval A)) : holds_inputs inp vs ->
  forall k, k < N -> scratch gS vs k = Some (eval A add G fs inp n (nth k (DagModel.order r) 0)).
Proof.
  intros HI. assert (LEN : length defs = N) by apply defs_of_axis_length.
  pose proof (built_graph_WF _ defs r v0 Hb) as WFg.
  intros k. induction k as [k IH] using lt_wf_ind. intros Hk.
  assert (Hk' : k < length defs) by (now rewrite LEN).
  assert (Hkg : k < gn gS) by (now rewrite (gn_gS _ defs r v0 Hb)).
  set (x := nth k (DagModel.order r) 0).
  assert (Hx : x < N) by (rewrite <- LEN; apply (nm_lt _ defs r Hb k Hk')).
  rewrite (scratch_unfold _ gS WFg vs k Hkg).
  change (linked gS k) with (d_linked (nth x defs d_default)).
  change (F gS k) with (d_fun v0 (nth x defs d_default)).
  change (parents gS k) with (map (fun y => index_of y (DagModel.order r)) (d_params (nth x defs d_default))).
  rewrite (def_nth A add G fs n x Hx). unfold def_of_node.
  pose proof (node_nth G x Hx) as En.
  rewrite (fixpoint_thm A add G fs W inp n x Hx).
  destruct (n_kind (nth x (g_nodes G) node0)) as [|kd] eqn:K; cbn [d_linked d_fun d_params].
  - (* independent variable: the state holds it *)
    rewrite <- (fixpoint_thm A add G fs W inp n x Hx).
    rewrite <- (HI x _ En K). unfold x. now rewrite (pos_nm _ defs r Hb k Hk').
  - (* linked variable: the parents are smaller State nodes *)
    rewrite (eval_node_linked inp _ x _ kd En K).
    assert (HM : mapM (scratch gS vs) (map (fun y => index_of y (DagModel.order r)) (n_parents (nth x (g_nodes G) node0)))
                 = Some (map (eval A add G fs inp n) (n_parents (nth x (g_nodes G) node0)))).
    { assert (Hps : forall p, In p (n_parents (nth x (g_nodes G) node0)) ->
                      p < N /\ index_of p (DagModel.order r) < k).
      { intros p Hp.
        assert (Ep : In (index_of p (DagModel.order r)) (parents gS k)).
        { change (parents gS k) with (map (fun y => index_of y (DagModel.order r)) (d_params (nth x defs d_default))).
          rewrite (def_nth A add G fs n x Hx). unfold def_of_node. rewrite K. cbn [d_params]. exact (in_map (fun y => index_of y (DagModel.order r)) _ p Hp). }
        split; [|exact (wf_parents_lt WFg k _ Hkg Ep)].
        assert (E : DagModel.edge (dag_of_defs defs) p x).
        { unfold DagModel.edge. rewrite dag_parents, (def_nth A add G fs n x Hx). unfold def_of_node. now rewrite K. }
        rewrite <- LEN. apply (edge_lt _ defs r Hb _ _ E). }
      induction (n_parents (nth x (g_nodes G) node0)) as [|p ps IHp]; [reflexivity|].
      cbn [map mapM]. destruct (Hps p (or_introl eq_refl)) as [HpN Hpk].
      rewrite (IH _ Hpk) by lia.
      assert (HpL : p < length defs) by (now rewrite LEN).
      rewrite (proj2 (nm_pos _ defs r Hb p HpL)).
      rewrite IHp by (intros q Hq; apply Hps; now right). reflexivity. }
    rewrite HM. reflexivity.
Qed.

(** every read of the State, after any history respecting the documented precondition, is the C07 evaluation of the inputs
    the state currently holds *)
Theorem read_is_eval (IX : Type) (put : option IX -> aval A -> bool -> aval A -> option (aval A))
  (ops : list (op (aval A) (list bool) IX)) :
  MaskDisciplined gS (axis_sem A IX put) (init_store gS) ops ->
  forall k x st (inp : nat -> value A), x < N ->
    nth_error (fst (run_now gS (axis_sem A IX put) (init_store gS) ops)) k = Some st ->
    holds_inputs inp (values st) ->
    snd (step_now gS (axis_sem A IX put) (fst (run_now gS (axis_sem A IX put) (init_store gS) ops))
           (Get k (index_of x (DagModel.order r)))) = Ok (eval A add G fs inp n x).
Proof.
  intros HD k x st inp Hx Hst HI.
  rewrite (read_is_scratch_axis A add IX put G fs n r v0 Hb ops HD k _ st Hst).
  assert (LEN : length defs = N) by apply defs_of_axis_length.
  assert (HxL : x < length defs) by (now rewrite LEN).
  destruct (nm_pos _ defs r Hb x HxL) as [Hp Ex]. rewrite LEN in Hp.
  rewrite (scratch_is_eval inp (values st) HI _ Hp). now rewrite Ex.
Qed.
End AxisEval.

(** Hence C07's locality is a statement about what the State READS: two cohorts (sizes [n1], [n2]), two arbitrary histories
    respecting the documented precondition, ending in states that hold inputs agreeing on the population values and on the row
    of one individual (position [j1] in the first cohort, [j2] in the second) — then every read of a per-individual variable
    returns the same row for that individual, whatever the other individuals' data and latent values are. *)
Theorem reads_row_local (A : Type) (add : A -> A -> A) (G : AxisTypes.graph) (fs : nat -> nodefun A)
  (IX : Type) (put : option IX -> aval A -> bool -> aval A -> option (aval A))
  (n1 n2 : nat) (r1 r2 : DagModel.dag) (v0 : aval A) :
  well_typed G = true ->
  DagModel.build (dag_of_defs (defs_of_axis A add G fs n1)) = DagModel.Ok r1 ->
  DagModel.build (dag_of_defs (defs_of_axis A add G fs n2)) = DagModel.Ok r2 ->
  forall ops1 ops2 k1 k2 st1 st2 (inp1 inp2 : nat -> value A) j1 j2,
    MaskDisciplined (graph_of_build (defs_of_axis A add G fs n1) r1 v0) (axis_sem A IX put)
                    (init_store (graph_of_build (defs_of_axis A add G fs n1) r1 v0)) ops1 ->
    MaskDisciplined (graph_of_build (defs_of_axis A add G fs n2) r2 v0) (axis_sem A IX put)
                    (init_store (graph_of_build (defs_of_axis A add G fs n2) r2 v0)) ops2 ->
    nth_error (fst (run_now (graph_of_build (defs_of_axis A add G fs n1) r1 v0) (axis_sem A IX put)
                      (init_store (graph_of_build (defs_of_axis A add G fs n1) r1 v0)) ops1)) k1 = Some st1 ->
    nth_error (fst (run_now (graph_of_build (defs_of_axis A add G fs n2) r2 v0) (axis_sem A IX put)
                      (init_store (graph_of_build (defs_of_axis A add G fs n2) r2 v0)) ops2)) k2 = Some st2 ->
    holds_inputs A add G fs n1 r1 inp1 (values st1) -> holds_inputs A add G fs n2 r2 inp2 (values st2) ->
    j1 < n1 -> j2 < n2 ->
    indep_inputs_related A G (fun v1 v2 => reindex A [j1] v1 = reindex A [j2] v2) inp1 inp2 ->
    forall x nd, nth_error (g_nodes G) x = Some nd -> n_sig nd = Ind ->
    forall w1 w2,
      snd (step_now (graph_of_build (defs_of_axis A add G fs n1) r1 v0) (axis_sem A IX put)
             (fst (run_now (graph_of_build (defs_of_axis A add G fs n1) r1 v0) (axis_sem A IX put)
                     (init_store (graph_of_build (defs_of_axis A add G fs n1) r1 v0)) ops1))
             (Get k1 (index_of x (DagModel.order r1)))) = Ok (Some w1) ->
      snd (step_now (graph_of_build (defs_of_axis A add G fs n2) r2 v0) (axis_sem A IX put)
             (fst (run_now (graph_of_build (defs_of_axis A add G fs n2) r2 v0) (axis_sem A IX put)
                     (init_store (graph_of_build (defs_of_axis A add G fs n2) r2 v0)) ops2))
             (Get k2 (index_of x (DagModel.order r2)))) = Ok (Some w2) ->
      vrow A j1 w1 = vrow A j2 w2.
Proof.
  intros W Hb1 Hb2 ops1 ops2 k1 k2 st1 st2 inp1 inp2 j1 j2 D1 D2 S1 S2 H1 H2 Hj1 Hj2 Rel x nd En Sg w1 w2 R1 R2.
  assert (Hx : x < length (g_nodes G)) by (apply nth_error_Some; congruence).
  rewrite (read_is_eval A add G fs n1 r1 v0 W Hb1 IX put ops1 D1 k1 x st1 inp1 Hx S1 H1) in R1.
  rewrite (read_is_eval A add G fs n2 r2 v0 W Hb2 IX put ops2 D2 k2 x st2 inp2 Hx S2 H2) in R2.
  injection R1 as R1. injection R2 as R2.
  exact (locality_ind A add G fs W n1 n2 j1 j2 inp1 inp2 Hj1 Hj2 Rel x nd En Sg w1 w2 R1 R2).
Qed.
