(* C11 — logging is transparent for the program REGENERATED from the source (coq/gen/GenC11.v), on the real State model:
   composition of Api/RunProgTie.v (the program denotes `fit_run`) with Compose/ApiOnStateProofs.v (`fit_run` over State
   objects reachable from `init_store`, interface hypothesis discharged). *)
From Coq Require Import List Arith Bool.
From Leaspy Require Import State.StateModel Api.ApiModel Api.RunProg Api.RunProgProofs Api.RunProgTie
                           Compose.StateApi Compose.StateApiProofs Compose.StateApiRunProofs Compose.ApiOnStateProofs.
From LeaspyGen Require Import GenC11.
Import ListNotations.

Theorem gen_logging_transparent_state :
  forall (V M IX : Type) (g : graph V) (sm : sem V M IX), WF g -> F_mix g sm ->
  forall tracked tape seed_pos (seed : nat) (interp : aname -> nat -> nat -> list (ev V)) (oi oi' : oname -> nat -> list (ev V))
         (base : nat) (e e' : env) (c c1 : cfg V),
    e_aflag e FSeedSet = true -> same_algorithm e e' -> e_lflag e' LHasManager = false ->
    RealCfg V M IX g sm c -> (forall o i, read_only V (oi o i) = true) ->
    run_prog V (r_read V g) (r_write V g) (r_clone V g) tracked tape seed_pos seed interp oi base e fit_prog c = Some c1 ->
    exists c2,
      run_prog V (r_read V g) (r_write V g) (r_clone V g) tracked tape seed_pos seed interp oi' base e' fit_prog c = Some c2
      /\ same_results V (r_read V g) c1 c2 /\ RealCfg V M IX g sm c1 /\ RealCfg V M IX g sm c2.
Proof.
  intros V M IX g sm wf fm tracked tape seed_pos seed interp oi oi' base e e' c c1 Hs Hsa Hoff HR Hro Hrun.
  rewrite (gen_without_logging V (r_read V g) (r_write V g) (r_clone V g) tracked tape seed_pos seed interp oi' base e e' c Hs Hsa Hoff).
  rewrite (gen_is_fit_run V (r_read V g) (r_write V g) (r_clone V g) tracked tape seed_pos seed interp oi base e c Hs) in Hrun.
  eapply (logging_transparent_state V M IX g sm wf fm); eauto.
  intros i o Hin. unfold d_sched, RunProg.observers_of in Hin. apply in_flat_map in Hin as (it & _ & Hin).
  destruct it as [a j k|o' j]; simpl in Hin; try contradiction. destruct Hin as [Hin|[]]. subst o. apply Hro.
Qed.
