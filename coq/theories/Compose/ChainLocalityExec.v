(** C07 x C17 — executable side of the chain-locality theorems (definitions only), run by harness/props/c07_chain.py on the
    tapes recorded from real `mean_posterior` / `mode_posterior` runs with position-indexed forced draws:
    [flat_tape (concat T)] of the recorded structured draws IS the flat sequence torch produced, the boolean version of
    [tape_fits] holds for the recorded sweep orders (which are the same in the two runs: the shuffle is shared),
    [own_draws j1 T1 = own_draws j2 T2] exactly (dyadic rationals), and the individual's kept-history column agrees
    (exactly when only another individual's data changed; within 1e-4 when positions / cohort size changed). *)
From Coq Require Import ZArith QArith Qabs List Bool Arith.
From Leaspy Require Import Base.QAux Sampler.SamplerModel Compose.ChainLocality.
Import ListNotations.

Record run_rec := mkRunRec {
  rr_n : nat; rr_j : nat;
  rr_orders : list (list nat);                 (* variables in the order the samplers were called, per iteration *)
  rr_T : list (list (call_draws Q));           (* the structured draws *)
  rr_normals : list Q; rr_uniforms : list Q;   (* what torch.randn / torch.rand returned, flattened in call order *)
  rr_col : list (list Q * Q * Q) }.            (* the individual's cell of every kept draw *)

Record pair_case := mkPair { pc_sizes : list nat; pc_exact : bool; pc_a : run_rec; pc_b : run_rec }.

Fixpoint all2b {X Y} (f : X -> Y -> bool) (l : list X) (m : list Y) : bool :=
  match l, m with
  | [], [] => true
  | a :: l', b :: m' => if f a b then all2b f l' m' else false
  | _, _ => false
  end.

Definition qs_eqb (a b : list Q) : bool := all2b Qeq_bool a b.
Definition opt_eqb {X} (f : X -> X -> bool) (a b : option X) : bool :=
  match a, b with Some x, Some y => f x y | None, None => true | _, _ => false end.

Definition fitsb (n : nat) (sizes : list nat) (v : nat) (c : call_draws Q) : bool :=
  Nat.eqb (length (fst c)) n && forallb (fun z => Nat.eqb (length z) (nth v sizes 0%nat)) (fst c) && Nat.eqb (length (snd c)) n.

Definition tape_fitsb (n : nat) (sizes : list nat) (orders : list (list nat)) (T : list (list (call_draws Q))) : bool :=
  all2b (all2b (fitsb n sizes)) (sweep_orders true (seq 0 (length sizes)) orders) T.

Definition run_ok (sizes : list nat) (r : run_rec) : bool :=
  qs_eqb (normals (flat_tape (concat (rr_T r)))) (rr_normals r) && qs_eqb (uniforms (flat_tape (concat (rr_T r)))) (rr_uniforms r)
  && tape_fitsb (rr_n r) sizes (rr_orders r) (rr_T r) && Nat.ltb (rr_j r) (rr_n r).

Definition own_draws_eqb (a b : list (list (option (list Q) * option Q))) : bool :=
  all2b (all2b (fun x y => opt_eqb qs_eqb (fst x) (fst y) && opt_eqb Qeq_bool (snd x) (snd y))) a b.

Definition qclose4 (x y : Q) : bool := Qle_bool (Qabs (x - y)) ((1 # 10000) * (1 + Qabs y)).
Definition cell_eqb (exact : bool) (a b : list Q * Q * Q) : bool :=
  let f := if exact then Qeq_bool else qclose4 in
  all2b f (fst (fst a)) (fst (fst b)) && f (snd (fst a)) (snd (fst b)) && f (snd a) (snd b).

Definition pair_ok (c : pair_case) : bool :=
  run_ok (pc_sizes c) (pc_a c) && run_ok (pc_sizes c) (pc_b c)
  && all2b (all2b Nat.eqb) (rr_orders (pc_a c)) (rr_orders (pc_b c))
  && own_draws_eqb (own_draws (rr_j (pc_a c)) (rr_T (pc_a c))) (own_draws (rr_j (pc_b c)) (rr_T (pc_b c)))
  && all2b (cell_eqb (pc_exact c)) (rr_col (pc_a c)) (rr_col (pc_b c)).
