(** Composition C01 -> C11 / C13: the abstract store cell of Api/ApiModel.v instantiated with the REAL model of
    [leaspy.variables.state.State] (State/StateModel.v, at the code as it is: State/StateNow.v).  Definitions only
    (proofs: Compose/StateApiProofs.v).

    Api/ApiModel.v fixes the type of one store cell to [st V = list (option V)] ("slot n = cached value of variable n")
    and takes the three operations on a cell — [sread], [swrite], [sclone] — and the observational relation [simOn] as
    Section variables; every C11 / C13 theorem assumes the ten facts [state_interface] about them.  Here

      * a cell is the [_values] dictionary of a State object, tabulated over the graph's nodes 0 .. gn-1 ([abs]);
      * [r_read]  IS  [StateModel.get_state]  (State.__getitem__: the caching walk over the sorted ancestors, with the
        partial caching an aborted read leaves behind), [r_write] IS [StateNow.set_now] (State.__setitem__: settable check,
        assignment, reset of the sorted children), [r_clone] IS [StateModel.clone_state] — run on the State object [emb l]
        that holds the dictionary [l]; the undo log and the fork mode of a State object are not visible in a cell, and
        need not be: reads, assignments and clones neither depend on them nor expose them (StateApiProofs.abs_get /
        abs_set / abs_clone: the operations commute with [abs] for EVERY undo log and fork mode);
      * [r_simOn P l l'] = both dictionaries are consistent caches ([Cache] = the C01 invariant [Inv] + the hyper-parameters
        are where [State.__init__] put them) that agree on the non-derived variables in P.

    [Reach] = the stores of State objects that [init_store] can reach by ANY history of ANY operations of the State model
    (Get, Set, Put, Revert, RevertMask, Clone, SetMode, Precompute, Clear on any number of states) meeting the documented
    precondition of per-individual reverts — the hypothesis of C01_never_stale. *)
From Coq Require Import List Arith Bool.
From Leaspy Require Import State.StateModel State.StateNow Api.ApiModel.
Import ListNotations.

Section StateApi.
Variable V : Type.
Variable g : graph V.

(** the dictionary held by a cell, as the [vals] of the State model (an absent slot is an unset variable) *)
Definition to_vals (l : st V) : vals V := fun j => nth j l None.
(** the dictionary of a State, tabulated over the nodes of the graph *)
Definition of_vals (vs : vals V) : st V := map vs (seq 0 (gn g)).

(** what the API level sees of a State object / a State object holding a given dictionary *)
Definition abs (s : state V) : st V := of_vals (values s).
Definition emb (l : st V) : state V := mkState (to_vals l) None None.

(** a read at API level returns the value, or None when [State.__getitem__] raises *)
Definition out_opt (o : out V) : option V := match o with Ok v => Some v | _ => None end.

Definition r_read (l : st V) (i : nat) : st V * option V :=
  (abs (fst (get_state g (emb l) i)), out_opt (snd (get_state g (emb l) i))).
Definition r_write (l : st V) (i : nat) (v : option V) : st V := abs (fst (set_now g (emb l) i v)).
Definition r_clone (l : st V) : st V := abs (clone_state (emb l) false false).

(** the variables an assignment is accepted for (VariableInterface.is_settable) *)
Definition r_indep (i : nat) : bool := (i <? gn g) && settable g i.
(** the non-derived variables a read of [i] depends on: [i] itself, or the non-derived members of sorted_ancestors[i] *)
Definition r_anc (i : nat) : list nat :=
  if i <? gn g then
    if linked g i then filter (fun a => negb (linked g a)) (StateModel.anc g i) else [i]
  else [].

(** hyper-parameters (and any other variable that is neither derived nor settable) hold what [State.__init__] / [clear] put *)
Definition Fixed (vs : vals V) : Prop :=
  forall k, k < gn g -> linked g k = false -> settable g k = false -> vs k = hyper g k.

(** a consistent cache: one slot per node, the C01 invariant, hyper-parameters in place *)
Definition Cache (l : st V) : Prop := length l = gn g /\ Inv g (to_vals l) /\ Fixed (to_vals l).

Definition r_simOn (P : view) (l l' : st V) : Prop :=
  Cache l /\ Cache l' /\ forall i, P i = true -> linked g i = false -> to_vals l i = to_vals l' i.

(** ** the State objects that exist *)
Variables M IX : Type.
Variable sm : sem V M IX.

Definition Reach (S : StateModel.store V) : Prop :=
  exists ops, MaskDisciplined g sm (init_store g) ops /\ S = fst (run_now g sm (init_store g) ops).

(** an API-level store [A] represents the store [S] of State objects through the index list [ix]: cell [j] of [A] is what
    the API sees of the State object number [ix j].  ([ix] is the identity as long as no observer ran: the clones an
    observer made stay in [S] as garbage, the API model drops them.) *)
Definition RepI (S : StateModel.store V) (ix : list nat) (A : ApiModel.store V) : Prop :=
  length ix = length A /\ NoDup ix /\
  forall j k, nth_error ix j = Some k -> exists s, nth_error S k = Some s /\ nth_error A j = Some (abs s).

(** the cell an event addresses *)
Definition ev_ref (e : ev V) : option ref :=
  match e with
  | EGet r _ | ESet r _ _ | ESetIf r _ _ | EClone r | ESave r | EReplace r => Some r
  | EDraw _ _ | ESeed _ _ => None
  end.

(** the State operations performed by one API event that addresses cell [k] ([tracked] = the variables [State.save] reads).
    A clone made by the API is [state.clone(disable_auto_fork=d)]; [d] does not matter for what follows. *)
Definition ops_of_event (tracked : list nat) (d : bool) (k : nat) (rg : regs V) (e : ev V) : list (op V M IX) :=
  match e with
  | EGet _ i => [Get k i]
  | ESet _ i f => [Set_ k i (f rg)]
  | ESetIf _ i f => match f rg with Some v => [Set_ k i v] | None => [] end
  | EClone _ => [Clone k d false]
  | ESave _ => map (fun i => Get k i) tracked
  | EDraw _ _ | ESeed _ _ | EReplace _ => []
  end.

End StateApi.
