(** C07 x C17 — proofs: the generated personalisation chain of an individual is a function of what that individual owns. *)
From Coq Require Import ZArith QArith List Bool Arith Lia.
From Leaspy Require Import Base.QAux Sampler.SamplerModel Sampler.SamplerProofs Saem.Anneal Sampler.AdaptiveStd
  Api.Personalize Api.PersonalizeChain Api.PersonalizeChainProofs Compose.ChainLocality.
Import ListNotations.

(** * Lists *)
Lemma nth_error_comb2 {X Y} : forall (l1 : list X) (l2 : list Y) j,
  nth_error (combine l1 l2) j =
  match nth_error l1 j, nth_error l2 j with Some a, Some b => Some (a, b) | _, _ => None end.
Proof.
  induction l1 as [|a l1 IH]; intros [|b l2] [|j]; simpl; auto.
  - destruct (nth_error l1 j); reflexivity.
Qed.

Lemma nth_error_set_nth {X} i j (x : X) l :
  nth_error (set_nth i x l) j = if Nat.eqb i j then (match nth_error l i with Some _ => Some x | None => None end) else nth_error l j.
Proof.
  revert i j. induction l as [|a l IH]; intros [|i] [|j]; simpl; auto.
  destruct (Nat.eqb i j); reflexivity.
Qed.

Lemma Forall2_nth_error {X Y} (P : X -> Y -> Prop) : forall l1 l2, Forall2 P l1 l2 ->
  forall j, match nth_error l1 j, nth_error l2 j with
            | Some a, Some b => P a b | None, None => True | _, _ => False end.
Proof.
  induction 1 as [|a b l1 l2 H F IH]; intros [|j]; simpl; auto. apply IH.
Qed.

Lemma Forall2_set_nth {X Y} (P : X -> Y -> Prop) : forall l1 l2 i x y, Forall2 P l1 l2 -> P x y ->
  Forall2 P (set_nth i x l1) (set_nth i y l2).
Proof.
  intros l1 l2 i x y F. revert i. induction F as [|a b l1 l2 H F IH]; intros [|i] Hxy; simpl; constructor; auto.
Qed.

Lemma Forall2_two_Forall {X Y} (P : X -> Prop) (Q : Y -> Prop) (R : X -> Y -> Prop) :
  (forall x y, P x -> Q y -> R x y) ->
  forall l1 l2, length l1 = length l2 -> Forall P l1 -> Forall Q l2 -> Forall2 R l1 l2.
Proof.
  intros H. induction l1 as [|a l1 IH]; intros [|b l2] L F1 F2; simpl in L; try discriminate; constructor.
  - inversion F1; inversion F2; subst. auto.
  - inversion F1; inversion F2; subst. apply IH; auto.
Qed.

Lemma skipn_app_exact {X} (a b : list X) n : n = length a -> skipn n (a ++ b) = b.
Proof. intros ->. induction a; simpl; auto. Qed.

Section Noise.
  Context {A : Type}.
  Variables add mul : A -> A -> A.

  Lemma add_noise_list_prefix sd (l : list (tens A)) :
    Forall (fun t => forall zs t' zs', add_noise add mul sd t zs = Some (t', zs') ->
                     forall R, add_noise add mul sd t (zs ++ R) = Some (t', zs' ++ R)) l ->
    forall zs l' zs', add_noise_list add mul sd l zs = Some (l', zs') ->
    forall R, add_noise_list add mul sd l (zs ++ R) = Some (l', zs' ++ R).
  Proof.
    induction 1 as [|c cs Hc Hcs IH]; intros zs l' zs' E R; simpl in *.
    - inversion E; subst. reflexivity.
    - destruct (add_noise add mul sd c zs) as [[c' z1]|] eqn:Ec; [|discriminate].
      destruct (add_noise_list add mul sd cs z1) as [[cs' z2]|] eqn:Ecs; [|discriminate].
      inversion E; subst; clear E. rewrite (Hc _ _ _ Ec R). rewrite (IH _ _ _ Ecs R). reflexivity.
  Qed.

  (** the normals a proposal does not consume are left as they are, whatever follows them *)
  Lemma add_noise_prefix sd : forall (t : tens A) zs t' zs',
    add_noise add mul sd t zs = Some (t', zs') -> forall R, add_noise add mul sd t (zs ++ R) = Some (t', zs' ++ R).
  Proof.
    induction t as [x | l IH] using tens_ind'; intros zs t' zs' H R.
    - simpl in *. destruct zs as [|z r]; [discriminate|]. inversion H; subst. reflexivity.
    - rewrite add_noise_Nd in H. rewrite add_noise_Nd.
      destruct (add_noise_list add mul sd l zs) as [[l' zs1]|] eqn:E; [|discriminate]. inversion H; subst; clear H.
      rewrite (add_noise_list_prefix sd l IH _ _ _ E R). reflexivity.
  Qed.

  (** a row that receives exactly its own segment of the normals *)
  Lemma add_noise_exact sd (t : tens A) zs R t' zs' :
    length zs = size t -> add_noise add mul sd t (zs ++ R) = Some (t', zs') ->
    zs' = R /\ add_noise add mul sd t zs = Some (t', []).
  Proof.
    intros L H. destruct (add_noise_total add mul sd t zs) as (t0 & z0 & E); [lia|].
    destruct (add_noise_sound add mul _ _ _ _ _ E) as (_ & S0 & _).
    rewrite <- L, skipn_all in S0. subst z0.
    pose proof (add_noise_prefix sd _ _ _ _ E R) as E'. simpl in E'. rewrite E' in H. inversion H; subst. auto.
  Qed.

  (** the proposal of a cohort on a position-indexed draw: the tape is left after the draw, and row j is the proposal of
      individual j alone on ITS normals *)
  Lemma rows_char : forall (Z : list (list A)) rows, Forall2 (fun z row => length z = size row) Z rows ->
    forall sds R rows' zs', add_noise_rows add mul sds rows (concat Z ++ R) = Some (rows', zs') ->
    zs' = R /\
    forall j, nth_error rows' j =
              match nth_error sds j, nth_error rows j, nth_error Z j with
              | Some sd, Some row, Some z => option_map fst (add_noise add mul sd row z)
              | _, _, _ => None
              end.
  Proof.
    induction 1 as [|z row Z rows Hz F IH]; intros sds R rows' zs' H.
    - destruct sds; simpl in H; [|discriminate]. inversion H; subst. split; auto.
      intros [|j]; simpl; reflexivity.
    - destruct sds as [|sd sds]; simpl in H; [discriminate|].
      rewrite <- app_assoc in H.
      destruct (add_noise add mul sd row (z ++ concat Z ++ R)) as [[r' z1]|] eqn:E1; [|discriminate].
      destruct (add_noise_exact _ _ _ _ _ _ Hz E1) as (-> & E1').
      destruct (add_noise_rows add mul sds rows (concat Z ++ R)) as [[rs' z2]|] eqn:E2; [|discriminate].
      inversion H; subst; clear H. destruct (IH _ _ _ _ E2) as (-> & Hn). split; auto.
      intros [|j]; simpl.
      + rewrite E1'. reflexivity.
      + apply Hn.
  Qed.
End Noise.

(** * One sampler call on a position-indexed draw *)
Section OneCohort.
  Variable A : Type.
  Variables add mul : A -> A -> A.
  Variable decide : A -> A -> A -> A -> A -> A -> bool.
  Variable att : istate A -> list A.
  Variable regv : nat -> istate A -> list A.
  Variable sizes : list nat.
  Variable n : nat.

  Lemma shaped_nth st v rows : shaped n sizes st -> nth_error st v = Some (Nd rows) ->
    length rows = n /\ Forall (fun r : tens A => size r = nth v sizes 0%nat) rows /\ (v < length sizes)%nat.
  Proof.
    intros Hs Ev. pose proof (Forall2_nth_error _ _ _ Hs v) as H. rewrite Ev in H.
    destruct (nth_error sizes v) as [s|] eqn:Es; [|contradiction].
    destruct H as (rows0 & E & L & F). inversion E; subst rows0.
    rewrite (nth_error_nth _ _ _ Es). repeat split; auto. apply nth_error_Some. congruence.
  Qed.

  Lemma shaped_set st v rows rows' : shaped n sizes st -> nth_error st v = Some (Nd rows) ->
    length rows' = n -> Forall (fun r : tens A => size r = nth v sizes 0%nat) rows' -> shaped n sizes (set_nth v (Nd rows') st).
  Proof.
    intros Hs Ev L F. destruct (shaped_nth _ _ _ Hs Ev) as (_ & _ & Hv).
    unfold shaped in *. revert v Ev F Hv. induction Hs as [|t s st sz H Hs IH]; intros [|v] Ev F Hv; simpl in *; try discriminate.
    - constructor; auto. exists rows'. auto.
    - constructor; auto. apply IH; auto. lia.
  Qed.

  Lemma own_set_nth j v rows (st : istate A) : own j (set_nth v (Nd rows) st) = set_nth v (nth_error rows j) (own j st).
  Proof. unfold own. now rewrite map_set_nth. Qed.

  Lemma own_nth j (st : istate A) v rows : nth_error st v = Some (Nd rows) -> nth_error (own j st) v = Some (nth_error rows j).
  Proof. intros E. unfold own. now rewrite nth_error_map, E. Qed.

  Lemma gmix_Forall (P : tens A -> Prop) : forall acc old new, Forall P old -> Forall P new -> Forall P (gmix A acc old new).
  Proof.
    induction acc as [|b acc IH]; intros old new Fo Fn; simpl; [constructor|].
    destruct Fo as [|o old Ho Fo]; [constructor|]. destruct Fn as [|x new Hx Fn]; [constructor|].
    constructor; [destruct b; auto | apply IH; auto].
  Qed.

  Lemma size_from_flat_noise sd (row row' : tens A) z : add_noise add mul sd row z = Some (row', []) -> size row' = size row.
  Proof. apply add_noise_size. Qed.

  (** what one call computes, individual by individual *)
  Lemma gstep_char v tinv sds st (c : call_draws A) R st' tp' acc :
    shaped n sizes st -> fits n sizes v c ->
    gstep A add mul decide att regv v tinv sds st (flat_tape (c :: R)) = Some (st', tp', acc) ->
    exists rows rows',
      nth_error st v = Some (Nd rows) /\ st' = set_nth v (Nd (gmix A acc rows rows')) st /\ tp' = flat_tape R /\
      length acc = n /\ length rows = n /\ length rows' = n /\
      shaped n sizes st' /\ shaped n sizes (set_nth v (Nd rows') st) /\
      forall j, (j < n)%nat ->
        exists sd row z row' u a b c0 d,
          nth_error sds j = Some sd /\ nth_error rows j = Some row /\ nth_error (fst c) j = Some z /\
          add_noise add mul sd row z = Some (row', []) /\ nth_error rows' j = Some row' /\
          nth_error (snd c) j = Some u /\
          nth_error (att st) j = Some a /\ nth_error (att (set_nth v (Nd rows') st)) j = Some b /\
          nth_error (regv v st) j = Some c0 /\ nth_error (regv v (set_nth v (Nd rows') st)) j = Some d /\
          nth_error acc j = Some (decide u a b c0 d tinv).
  Proof.
    intros Hs (Lz & Fz & Lu) H.
    pose proof H as H0. unfold PersonalizeChain.gstep in H0.
    destruct (nth_error st v) as [[?|rows]|] eqn:Ev; try discriminate.
    destruct (add_noise_rows add mul sds rows (normals (flat_tape (c :: R)))) as [[rows' zs']|] eqn:En; [|discriminate].
    destruct (decisions A decide tinv (att st) (att (set_nth v (Nd rows') st)) (regv v st) (regv v (set_nth v (Nd rows') st))
                        (uniforms (flat_tape (c :: R)))) as [[bs us']|] eqn:Ed; [|discriminate].
    destruct (Nat.eqb_spec (length bs) (length rows)) as [El|]; [|discriminate].
    inversion H0; subst st' tp' acc; clear H0 H.
    destruct (shaped_nth _ _ _ Hs Ev) as (Lr & Fr & Hv).
    assert (F2 : Forall2 (fun z row => length z = size row) (fst c) rows).
    { apply (Forall2_two_Forall (fun z => length z = nth v sizes 0%nat) (fun r => size r = nth v sizes 0%nat)); auto; [|lia].
      intros; lia. }
    unfold flat_tape in En, Ed. simpl in En, Ed.
    destruct (rows_char add mul _ _ F2 _ _ _ _ En) as (-> & Hrows).
    destruct (add_noise_rows_sound add mul _ _ _ _ _ En) as (Ls & Lr' & _).
    destruct (decisions_sound _ _ _ _ _ _ _ _ _ _ Ed) as (D1 & D2 & D3 & D4 & D5 & D6 & Hd).
    assert (Lpa : length (att st) = n) by lia.
    rewrite skipn_app_exact in D6 by lia. subst us'.
    assert (Sz' : Forall (fun r => size r = nth v sizes 0%nat) rows').
    { pose proof (add_noise_rows_sizes _ add mul _ _ _ _ _ En) as F. clear - F Fr.
      induction F as [|o x old new E F IH]; constructor; inversion Fr; subst; [lia|auto]. }
    exists rows, rows'. repeat split; auto; try lia.
    - apply (shaped_set _ _ rows); auto. { rewrite gmix_length; lia. } apply gmix_Forall; auto.
    - apply (shaped_set _ _ rows); auto. lia.
    - intros j Hj.
      destruct (nth_error sds j) as [sd|] eqn:Esd; [|apply nth_error_None in Esd; lia].
      destruct (nth_error rows j) as [row|] eqn:Erow; [|apply nth_error_None in Erow; lia].
      destruct (nth_error (fst c) j) as [z|] eqn:Ez; [|apply nth_error_None in Ez; lia].
      destruct (nth_error rows' j) as [row'|] eqn:Erow'; [|apply nth_error_None in Erow'; lia].
      pose proof (Hrows j) as Hj'. rewrite Esd, Erow, Ez, Erow' in Hj'.
      destruct (add_noise add mul sd row z) as [[r0 z0]|] eqn:Ean; [|discriminate]. simpl in Hj'. inversion Hj'; subst r0.
      assert (z0 = []).
      { destruct (add_noise_sound add mul _ _ _ _ _ Ean) as (_ & S0 & _).
        pose proof (Forall2_nth_error _ _ _ F2 j) as X. rewrite Ez, Erow in X. rewrite <- X, skipn_all in S0. exact S0. }
      subst z0.
      destruct (nth_error (snd c) j) as [u|] eqn:Eu; [|apply nth_error_None in Eu; lia].
      destruct (nth_error (att st) j) as [a|] eqn:Ea; [|apply nth_error_None in Ea; lia].
      destruct (nth_error (att (set_nth v (Nd rows') st)) j) as [b|] eqn:Eb; [|apply nth_error_None in Eb; lia].
      destruct (nth_error (regv v st) j) as [c0|] eqn:Ec0; [|apply nth_error_None in Ec0; lia].
      destruct (nth_error (regv v (set_nth v (Nd rows') st)) j) as [d|] eqn:Edd; [|apply nth_error_None in Edd; lia].
      exists sd, row, z, row', u, a, b, c0, d. repeat split; auto.
      apply Hd; auto. rewrite nth_error_app1; auto. apply nth_error_Some. congruence.
  Qed.
End OneCohort.

(** * The adaptive proposal scale is per individual *)
Lemma column_push w row j : AdaptiveStd.column (push w row) j = skipn 1 (AdaptiveStd.column w j) ++ [nth j row false].
Proof. unfold AdaptiveStd.column, push. rewrite map_app. simpl. f_equal. destruct w; reflexivity. Qed.

Lemma rate_col w j :
  rate w j = inject_Z (AdaptiveStd.count_true (AdaptiveStd.column w j)) / inject_Z (Z.of_nat (length (AdaptiveStd.column w j))).
Proof. unfold rate, AdaptiveStd.column. now rewrite map_length. Qed.

Lemma adapt_from_nth c w : forall sd k j,
  nth_error (adapt_from c w k sd) j = option_map (adapt1 c (rate w (k + j))) (nth_error sd j).
Proof.
  induction sd as [|s sd IH]; intros k [|j]; simpl; auto.
  - now rewrite Nat.add_0_r.
  - rewrite IH. now rewrite Nat.add_succ_r.
Qed.

Lemma nth_error_repeat_lt {X} (x : X) : forall n j, (j < n)%nat -> nth_error (repeat x n) j = Some x.
Proof. induction n as [|n IH]; intros [|j] H; simpl; try lia; auto. apply IH. lia. Qed.

Lemma nth_repeat_same {X} (x : X) : forall n j, nth j (repeat x n) x = x.
Proof. induction n as [|n IH]; intros [|j]; simpl; auto. Qed.

Lemma map_repeat_const {X Y} (f : X -> Y) x : forall n, map f (repeat x n) = repeat (f x) n.
Proof. induction n; simpl; congruence. Qed.

Lemma sample_step_own scf j1 j2 s1 s2 acc1 acc2 s1' s2' :
  own_samp j1 s1 = own_samp j2 s2 -> nth_error acc1 j1 = nth_error acc2 j2 ->
  (j1 < length acc1)%nat -> (j2 < length acc2)%nat ->
  sample_step scf s1 acc1 = Anneal.Ok s1' -> sample_step scf s2 acc2 = Anneal.Ok s2' ->
  own_samp j1 s1' = own_samp j2 s2'.
Proof.
  unfold own_samp, sample_step. intros E Ea L1 L2 H1 H2. inversion E as [[Ec Es Ew]].
  destruct (negb (length acc1 =? length (std s1))%nat); [discriminate|].
  destruct (negb (length acc2 =? length (std s2))%nat); [discriminate|].
  destruct (hist_len scf =? 0)%Z; [discriminate|].
  assert (Hn : nth j1 acc1 false = nth j2 acc2 false).
  { destruct (nth_error acc1 j1) as [b|] eqn:X; [|apply nth_error_None in X; lia]. symmetry in Ea.
    rewrite (nth_error_nth _ _ false X), (nth_error_nth _ _ false Ea). reflexivity. }
  rewrite Ec in H1.
  destruct ((counter s2 + 1) mod hist_len scf =? 0)%Z; inversion H1; inversion H2; subst; simpl;
    rewrite !column_push, Ew, Hn; f_equal; f_equal; [|exact Es].
  unfold adapt. rewrite !adapt_from_nth. simpl. rewrite Es. destruct (nth_error (std s2) j2); simpl; [|reflexivity].
  f_equal. f_equal. rewrite !rate_col, !column_push, Ew, Hn. reflexivity.
Qed.

Lemma init_sampler_own scf f sc n1 n2 j1 j2 s1 s2 : (j1 < n1)%nat -> (j2 < n2)%nat ->
  init_sampler scf f (repeat sc n1) = Anneal.Ok s1 -> init_sampler scf f (repeat sc n2) = Anneal.Ok s2 ->
  own_samp j1 s1 = own_samp j2 s2.
Proof.
  unfold init_sampler, own_samp. intros L1 L2 H1 H2.
  destruct (hist_len scf <? 0)%Z; [discriminate|].
  destruct (scale_refused (repeat sc n1)); [discriminate|]. destruct (scale_refused (repeat sc n2)); [discriminate|].
  destruct (bounds_refused (lo scf) (hi scf)); [discriminate|]. destruct (factor_refused (fac scf)); [discriminate|].
  inversion H1; inversion H2; subst; simpl. f_equal; [f_equal|].
  - rewrite !nth_error_map, !nth_error_repeat_lt by assumption. reflexivity.
  - unfold AdaptiveStd.column. rewrite !map_repeat_const, !nth_repeat_same. reflexivity.
Qed.

Lemma row_vals_own {A} (st : istate A) j :
  row_vals A st j = flat_map (fun o => match o with Some r => flat r | None => [] end) (own j st).
Proof.
  unfold row_vals, own. induction st as [|t st IH]; simpl; [reflexivity|]. rewrite IH. f_equal.
  destruct t; reflexivity.
Qed.

Lemma own_col_fkeep {X} nb j : forall (l : list (list X)) k, own_col j (fkeep nb k l) = fkeep nb k (own_col j l).
Proof.
  unfold own_col. induction l as [|d l IH]; intros k; simpl; [reflexivity|].
  destruct (keep k nb); simpl; now rewrite IH.
Qed.

(** * Two cohorts that agree on what one individual owns *)
Section TwoCohorts.
  Variable A : Type.
  Variables add mul : A -> A -> A.
  Variable ofQ : Q -> A.
  Variable decide : A -> A -> A -> A -> A -> A -> bool.
  Variables att1 att2 : istate A -> list A.
  Variables regv1 regv2 : nat -> istate A -> list A.
  Variables regsum1 regsum2 : istate A -> list A.
  Variable scf : scfg.
  Variable acf : Anneal.cfg.
  Variable nb : Z.
  Variable random_order : bool.
  Variables n1 n2 j1 j2 : nat.
  Variable sizes : list nat.
  Hypothesis Hj1 : (j1 < n1)%nat.
  Hypothesis Hj2 : (j2 < n2)%nat.
  Hypothesis Hatt : row_local n1 n2 j1 j2 sizes att1 att2.
  Hypothesis Hregv : forall v, row_local n1 n2 j1 j2 sizes (regv1 v) (regv2 v).
  Hypothesis Hregsum : row_local n1 n2 j1 j2 sizes regsum1 regsum2.

  Lemma gstep_rel v tinv sds1 sds2 st1 st2 (c1 c2 : call_draws A) R1 R2 st1' st2' tp1' tp2' acc1 acc2 :
    shaped n1 sizes st1 -> shaped n2 sizes st2 -> own j1 st1 = own j2 st2 ->
    fits n1 sizes v c1 -> fits n2 sizes v c2 ->
    nth_error (fst c1) j1 = nth_error (fst c2) j2 -> nth_error (snd c1) j1 = nth_error (snd c2) j2 ->
    nth_error sds1 j1 = nth_error sds2 j2 ->
    gstep A add mul decide att1 regv1 v tinv sds1 st1 (flat_tape (c1 :: R1)) = Some (st1', tp1', acc1) ->
    gstep A add mul decide att2 regv2 v tinv sds2 st2 (flat_tape (c2 :: R2)) = Some (st2', tp2', acc2) ->
    shaped n1 sizes st1' /\ shaped n2 sizes st2' /\ own j1 st1' = own j2 st2' /\
    tp1' = flat_tape R1 /\ tp2' = flat_tape R2 /\ length acc1 = n1 /\ length acc2 = n2 /\
    nth_error acc1 j1 = nth_error acc2 j2.
  Proof.
    intros S1 S2 Ho F1 F2 Ez Eu Esd G1 G2.
    destruct (gstep_char _ _ _ _ _ _ _ _ _ _ _ _ _ _ _ _ _ S1 F1 G1)
      as (rows1 & rows1' & Ev1 & -> & -> & La1 & Lr1 & Lr1' & S1' & S1p & H1).
    destruct (gstep_char _ _ _ _ _ _ _ _ _ _ _ _ _ _ _ _ _ S2 F2 G2)
      as (rows2 & rows2' & Ev2 & -> & -> & La2 & Lr2 & Lr2' & S2' & S2p & H2).
    destruct (H1 j1 Hj1) as (sd1 & row1 & z1 & row1' & u1 & a1 & b1 & c01 & d1 & Esd1 & Er1 & Ez1 & En1 & Er1' & Eu1 & Ea1 & Eb1 & Ec1 & Ed1 & Eacc1).
    destruct (H2 j2 Hj2) as (sd2 & row2 & z2 & row2' & u2 & a2 & b2 & c02 & d2 & Esd2 & Er2 & Ez2 & En2 & Er2' & Eu2 & Ea2 & Eb2 & Ec2 & Ed2 & Eacc2).
    assert (row1 = row2).
    { pose proof (own_nth _ j1 st1 v rows1 Ev1) as X1. pose proof (own_nth _ j2 st2 v rows2 Ev2) as X2.
      rewrite Ho, X2 in X1. inversion X1. congruence. }
    assert (sd1 = sd2) by congruence. assert (z1 = z2) by congruence. assert (u1 = u2) by congruence. subst.
    rewrite En1 in En2. inversion En2; subst row2'.
    assert (Hop : own j1 (set_nth v (Nd rows1') st1) = own j2 (set_nth v (Nd rows2') st2)).
    { rewrite !own_set_nth, Er1', Er2', Ho. reflexivity. }
    assert (a1 = a2) by (eapply (Hatt st1 st2); eauto).
    assert (b1 = b2) by (eapply (Hatt _ _ S1p S2p Hop); eauto).
    assert (c01 = c02) by (eapply (Hregv v st1 st2); eauto).
    assert (d1 = d2) by (eapply (Hregv v _ _ S1p S2p Hop); eauto). subst.
    repeat split; auto.
    - rewrite !own_set_nth.
      rewrite (gmix_nth _ _ _ _ _ _ _ _ Eacc1 Er1 Er1'), (gmix_nth _ _ _ _ _ _ _ _ Eacc2 Er2 Er2'), Ho. reflexivity.
    - congruence.
  Qed.

  Definition rel_samps (samp1 samp2 : list sstate) : Prop := map (own_samp j1) samp1 = map (own_samp j2) samp2.
  Definition own_log (j : nat) (log : list (step_rec A)) :=
    map (fun r => (sr_var r, sr_tinv r, nth_error (sr_sds r) j, nth_error (sr_acc r) j)) log.
  Definition own_calls (j : nat) (cs : list (call_draws A)) := map (fun c => (nth_error (fst c) j, nth_error (snd c) j)) cs.

  Lemma sweep_rel tinv : forall ord cs1 cs2 R1 R2 st1 st2 samp1 samp2 s1' s2' log1 log2,
    Forall2 (fits n1 sizes) ord cs1 -> Forall2 (fits n2 sizes) ord cs2 -> own_calls j1 cs1 = own_calls j2 cs2 ->
    shaped n1 sizes st1 -> shaped n2 sizes st2 -> own j1 st1 = own j2 st2 -> rel_samps samp1 samp2 ->
    sweep A add mul ofQ decide att1 regv1 scf tinv ord (mkRs st1 (flat_tape (cs1 ++ R1)) samp1) = Done (s1', log1) ->
    sweep A add mul ofQ decide att2 regv2 scf tinv ord (mkRs st2 (flat_tape (cs2 ++ R2)) samp2) = Done (s2', log2) ->
    shaped n1 sizes (r_vals s1') /\ shaped n2 sizes (r_vals s2') /\ own j1 (r_vals s1') = own j2 (r_vals s2') /\
    r_tape s1' = flat_tape R1 /\ r_tape s2' = flat_tape R2 /\ rel_samps (r_samp s1') (r_samp s2') /\
    own_log j1 log1 = own_log j2 log2.
  Proof.
    induction ord as [|v rest IH]; intros cs1 cs2 R1 R2 st1 st2 samp1 samp2 s1' s2' log1 log2 F1 F2 Ec S1 S2 Ho Rs W1 W2.
    - inversion F1; inversion F2; subst. simpl in *. inversion W1; inversion W2; subst; simpl. repeat split; auto.
    - inversion F1 as [|? c1 ? cs1' Fc1 F1']; inversion F2 as [|? c2 ? cs2' Fc2 F2']; subst. clear F1 F2.
      simpl in Ec. inversion Ec as [[Ez Eu Ec']]. clear Ec.
      simpl in W1, W2.
      destruct (nth_error samp1 v) as [sst1|] eqn:Es1; [|discriminate].
      destruct (nth_error samp2 v) as [sst2|] eqn:Es2; [|discriminate].
      assert (Eo : own_samp j1 sst1 = own_samp j2 sst2).
      { unfold rel_samps in Rs. pose proof (map_nth_error (own_samp j1) _ _ Es1) as X1.
        pose proof (map_nth_error (own_samp j2) _ _ Es2) as X2. rewrite Rs, X2 in X1. congruence. }
      destruct (gstep A add mul decide att1 regv1 v (ofQ tinv) (map ofQ (std sst1)) st1 (flat_tape (c1 :: cs1' ++ R1)))
        as [[[st1a tp1a] acc1]|] eqn:G1; [|discriminate].
      destruct (gstep A add mul decide att2 regv2 v (ofQ tinv) (map ofQ (std sst2)) st2 (flat_tape (c2 :: cs2' ++ R2)))
        as [[[st2a tp2a] acc2]|] eqn:G2; [|discriminate].
      destruct (sample_step scf sst1 acc1) as [sst1'|] eqn:P1; [|discriminate].
      destruct (sample_step scf sst2 acc2) as [sst2'|] eqn:P2; [|discriminate].
      apply obind_done in W1. destruct W1 as ([s1b l1b] & W1 & D1). inversion D1; subst; clear D1.
      apply obind_done in W2. destruct W2 as ([s2b l2b] & W2 & D2). inversion D2; subst; clear D2.
      assert (Esd : nth_error (map ofQ (std sst1)) j1 = nth_error (map ofQ (std sst2)) j2).
      { rewrite !nth_error_map. unfold own_samp in Eo. inversion Eo as [[X0 X X1]]. now rewrite X. }
      destruct (gstep_rel _ _ _ _ _ _ _ _ _ _ _ _ _ _ _ _ S1 S2 Ho Fc1 Fc2 Ez Eu Esd G1 G2)
        as (S1a & S2a & Hoa & -> & -> & La1 & La2 & Eacc).
      assert (Eo' : own_samp j1 sst1' = own_samp j2 sst2').
      { eapply sample_step_own; eauto; lia. }
      assert (Rs' : rel_samps (set_nth v sst1' samp1) (set_nth v sst2' samp2)).
      { unfold rel_samps in *. rewrite !map_set_nth, Rs, Eo'. reflexivity. }
      destruct (IH _ _ _ _ _ _ _ _ _ _ _ _ F1' F2' Ec' S1a S2a Hoa Rs' W1 W2) as (Q1 & Q2 & Q3 & Q4 & Q5 & Q6 & Q7).
      simpl. repeat split; auto.
      unfold own_log in *. simpl. rewrite Q7, Eacc. unfold own_samp in Eo. inversion Eo as [[X0 X X1]]. rewrite X. reflexivity.
  Qed.

  Lemma cells_rel st1 st2 d1 d2 : shaped n1 sizes st1 -> shaped n2 sizes st2 -> own j1 st1 = own j2 st2 ->
    cells A att1 regsum1 n1 st1 = Some d1 -> cells A att2 regsum2 n2 st2 = Some d2 -> nth_error d1 j1 = nth_error d2 j2.
  Proof.
    unfold cells. intros S1 S2 Ho.
    destruct (Nat.eqb_spec (length (att1 st1)) n1) as [La1|]; [|discriminate].
    destruct (Nat.eqb_spec (length (regsum1 st1)) n1) as [Lr1|]; [|discriminate].
    destruct (Nat.eqb_spec (length (att2 st2)) n2) as [La2|]; [|discriminate].
    destruct (Nat.eqb_spec (length (regsum2 st2)) n2) as [Lr2|]; [|discriminate].
    simpl. intros C1 C2. inversion C1; inversion C2; subst d1 d2. unfold gcell. rewrite !nth_error_comb2, !nth_error_map.
    rewrite (nth_error_nth' _ 0%nat) by (rewrite seq_length; exact Hj1).
    rewrite (nth_error_nth' (seq 0 n2) 0%nat) by (rewrite seq_length; exact Hj2).
    rewrite !seq_nth by assumption. simpl. rewrite !row_vals_own, Ho.
    destruct (nth_error (att1 st1) j1) as [a1|] eqn:Ea1; [|apply nth_error_None in Ea1; lia].
    destruct (nth_error (att2 st2) j2) as [a2|] eqn:Ea2; [|apply nth_error_None in Ea2; lia].
    destruct (nth_error (regsum1 st1) j1) as [r1|] eqn:Er1; [|apply nth_error_None in Er1; lia].
    destruct (nth_error (regsum2 st2) j2) as [r2|] eqn:Er2; [|apply nth_error_None in Er2; lia].
    rewrite (Hatt _ _ S1 S2 Ho _ _ Ea1 Ea2), (Hregsum _ _ S1 S2 Ho _ _ Er1 Er2). reflexivity.
  Qed.

  Lemma run_iters_rel : forall orders T1 T2 k ast st1 st2 samp1 samp2 ord o1 o2,
    Forall2 (fun ord cs => Forall2 (fits n1 sizes) ord cs) (sweep_orders random_order ord orders) T1 ->
    Forall2 (fun ord cs => Forall2 (fits n2 sizes) ord cs) (sweep_orders random_order ord orders) T2 ->
    own_draws j1 T1 = own_draws j2 T2 ->
    shaped n1 sizes st1 -> shaped n2 sizes st2 -> own j1 st1 = own j2 st2 -> rel_samps samp1 samp2 ->
    run_iters A add mul ofQ decide att1 regv1 regsum1 scf acf nb random_order n1 iteration_body orders k ast
              (mkRs st1 (flat_tape (concat T1)) samp1) ord = Done o1 ->
    run_iters A add mul ofQ decide att2 regv2 regsum2 scf acf nb random_order n2 iteration_body orders k ast
              (mkRs st2 (flat_tape (concat T2)) samp2) ord = Done o2 ->
    own_col j1 (o_all o1) = own_col j2 (o_all o2) /\ own_trace j1 (o_trace o1) = own_trace j2 (o_trace o2) /\
    own j1 (r_vals (o_rs o1)) = own j2 (r_vals (o_rs o2)) /\ rel_samps (r_samp (o_rs o1)) (r_samp (o_rs o2)) /\
    o_ast o1 = o_ast o2.
  Proof.
    induction orders as [|ord_k rest IH]; intros T1 T2 k ast st1 st2 samp1 samp2 ord o1 o2 F1 F2 Ed S1 S2 Ho Rs H1 H2.
    - simpl in H1, H2. inversion H1; inversion H2; subst; simpl. repeat split; auto.
    - simpl in F1, F2. inversion F1 as [|? cs1 ? T1' Fc1 F1']; inversion F2 as [|? cs2 ? T2' Fc2 F2']; subst. clear F1 F2.
      simpl in Ed. inversion Ed as [[Ec Ed']]. clear Ed.
      simpl in H1, H2.
      apply obind_done in H1. destruct H1 as (x1 & X1 & H1). apply obind_done in H2. destruct H2 as (x2 & X2 & H2).
      destruct (cells A att1 regsum1 n1 (r_vals (i_rs A x1))) as [d1|] eqn:C1; [|discriminate].
      destruct (cells A att2 regsum2 n2 (r_vals (i_rs A x2))) as [d2|] eqn:C2; [|discriminate].
      apply obind_done in H1. destruct H1 as (o1' & R1 & H1). inversion H1; subst o1; clear H1.
      apply obind_done in H2. destruct H2 as (o2' & R2 & H2). inversion H2; subst o2; clear H2.
      destruct (iteration_inv _ _ _ _ _ _ _ _ _ _ _ _ _ _ _ _ _ _ _ X1) as (log1 & W1 & Hl1 & Ho1 & Hu1 & _).
      destruct (iteration_inv _ _ _ _ _ _ _ _ _ _ _ _ _ _ _ _ _ _ _ X2) as (log2 & W2 & Hl2 & Ho2 & Hu2 & _).
      destruct (i_rs A x1) as [st1a tp1a samp1a] eqn:E1. destruct (i_rs A x2) as [st2a tp2a samp2a] eqn:E2.
      destruct (sweep_rel _ _ _ _ _ _ _ _ _ _ _ _ _ _ Fc1 Fc2 Ec S1 S2 Ho Rs W1 W2) as (Q1 & Q2 & Q3 & Q4 & Q5 & Q6 & Q7).
      simpl in Q1, Q2, Q3, Q4, Q5, Q6, C1, C2. subst tp1a tp2a.
      assert (Ea : i_ast A x1 = i_ast A x2) by congruence.
      rewrite Ho1, Ea in R1. rewrite Ho2 in R2.
      destruct (IH _ _ _ _ _ _ _ _ _ _ _ F1' F2' Ed' Q1 Q2 Q3 Q6 R1 R2) as (P1 & P2 & P3 & P4 & P5).
      simpl. repeat split; auto.
      + unfold own_col in *. simpl. rewrite P1, (cells_rel _ _ _ _ Q1 Q2 Q3 C1 C2). reflexivity.
      + unfold own_trace in *. simpl. rewrite P2, Hl1, Hl2. f_equal. f_equal. exact Q7.
  Qed.

  Lemma init_samplers_rel : forall scales samp1 samp2,
    init_samplers scf n1 scales = Done samp1 -> init_samplers scf n2 scales = Done samp2 -> rel_samps samp1 samp2.
  Proof.
    induction scales as [|sc r IH]; intros samp1 samp2 H1 H2; simpl in *.
    - inversion H1; inversion H2; subst. reflexivity.
    - destruct (init_sampler scf ind_scale_factor (repeat sc n1)) as [s1|] eqn:E1; [|discriminate].
      destruct (init_sampler scf ind_scale_factor (repeat sc n2)) as [s2|] eqn:E2; [|discriminate].
      apply obind_done in H1. destruct H1 as (l1 & I1 & D1). apply obind_done in H2. destruct H2 as (l2 & I2 & D2).
      inversion D1; inversion D2; subst. unfold rel_samps. simpl. f_equal.
      + eapply init_sampler_own; eauto.
      + apply (IH _ _ I1 I2).
  Qed.

  (** THE THEOREM: two cohorts, the individual at position j1 of the first and at position j2 of the second own the same rows
      of the initial values and of every draw; the oracles agree on that individual; everything that is shared by a cohort is
      the same.  Then the whole chain of that individual, what is appended to the histories for it, its proposal scale and
      its decision at every sampler call, its final values and its samplers' own state are identical. *)
  Theorem chain_local orders init1 init2 scales T1 T2 o1 o2 :
    shaped n1 sizes init1 -> shaped n2 sizes init2 -> own j1 init1 = own j2 init2 ->
    tape_fits n1 sizes random_order (length init1) orders T1 -> tape_fits n2 sizes random_order (length init2) orders T2 ->
    own_draws j1 T1 = own_draws j2 T2 ->
    personalize_run A add mul ofQ decide att1 regv1 regsum1 scf acf nb random_order n1 orders init1 scales (flat_tape (concat T1)) = Done o1 ->
    personalize_run A add mul ofQ decide att2 regv2 regsum2 scf acf nb random_order n2 orders init2 scales (flat_tape (concat T2)) = Done o2 ->
    own_col j1 (o_all o1) = own_col j2 (o_all o2) /\ own_col j1 (o_hist o1) = own_col j2 (o_hist o2) /\
    own_trace j1 (o_trace o1) = own_trace j2 (o_trace o2) /\
    own j1 (r_vals (o_rs o1)) = own j2 (r_vals (o_rs o2)) /\
    map (own_samp j1) (r_samp (o_rs o1)) = map (own_samp j2) (r_samp (o_rs o2)) /\ o_ast o1 = o_ast o2.
  Proof.
    intros S1 S2 Ho F1 F2 Ed H1 H2.
    assert (Ln : length init1 = length init2).
    { apply (f_equal (@length _)) in Ho. unfold own in Ho. now rewrite !map_length in Ho. }
    destruct (run_records _ _ _ _ _ _ _ _ _ _ _ _ _ _ _ _ _ _ H1) as (_ & Hh1).
    destruct (run_records _ _ _ _ _ _ _ _ _ _ _ _ _ _ _ _ _ _ H2) as (_ & Hh2).
    destruct (personalize_run_inv _ _ _ _ _ _ _ _ _ _ _ _ _ _ _ _ _ _ H1) as (samp1 & a1 & I1 & A1 & R1).
    destruct (personalize_run_inv _ _ _ _ _ _ _ _ _ _ _ _ _ _ _ _ _ _ H2) as (samp2 & a2 & I2 & A2 & R2).
    assert (a1 = a2) by congruence. subst a2.
    unfold tape_fits in F1, F2. rewrite <- Ln in F2, R2.
    destruct (run_iters_rel _ _ _ _ _ _ _ _ _ _ _ _ F1 F2 Ed S1 S2 Ho (init_samplers_rel _ _ _ I1 I2) R1 R2) as (P1 & P2 & P3 & P4 & P5).
    repeat split; auto.
    rewrite Hh1, Hh2.
    transitivity (fkeep nb 1 (own_col j1 (o_all o1))); [exact (own_col_fkeep nb j1 (o_all o1) 1)|].
    rewrite P1. symmetry. exact (own_col_fkeep nb j2 (o_all o2) 1).
  Qed.
End TwoCohorts.

(** * The estimates of an individual are functions of its own column of the kept history *)
Lemma column_own {X} (h : list (list X)) i :
  Personalize.column h i = sequence (map (of_option ShapeMismatch) (own_col i h)).
Proof. unfold Personalize.column, own_col. now rewrite map_map. Qed.

Lemma entry_own {X} (h : list (list X)) b i :
  entry h b i = match nth_error (own_col i h) b with Some o => o | None => None end.
Proof. unfold entry, own_col. rewrite nth_error_map. destruct (nth_error h b); reflexivity. Qed.

Theorem estimates_own (h1 h2 : list draw) i1 i2 : own_col i1 h1 = own_col i2 h2 ->
  mode_row h1 i1 = mode_row h2 i2 /\ forall j, mean_coord h1 i1 j = mean_coord h2 i2 j.
Proof.
  intros E. split.
  - unfold mode_row. rewrite !column_own, E. destruct (sequence _) as [col|e]; simpl; [|reflexivity].
    destruct (of_option EmptyHistory (argmin_first (map mode_loss col))) as [b|e]; simpl; [|reflexivity].
    now rewrite !entry_own, E.
  - intros j. unfold mean_coord. now rewrite !column_own, E.
Qed.

Lemma own_col_map {X Y} (f : X -> Y) j (h : list (list X)) : own_col j (map (map f) h) = map (option_map f) (own_col j h).
Proof. unfold own_col. rewrite !map_map. apply map_ext. intros d. apply nth_error_map. Qed.

(** (a) end to end on a rational run: same own rows, same own draws => same mode and same mean estimate *)
Theorem chain_estimates_local add mul ofQ decide att1 att2 regv1 regv2 regsum1 regsum2 scf acf nb random_order n1 n2 j1 j2 sizes
    orders init1 init2 scales T1 T2 o1 o2 :
  (j1 < n1)%nat -> (j2 < n2)%nat ->
  row_local n1 n2 j1 j2 sizes att1 att2 -> (forall v, row_local n1 n2 j1 j2 sizes (regv1 v) (regv2 v)) ->
  row_local n1 n2 j1 j2 sizes regsum1 regsum2 ->
  shaped n1 sizes init1 -> shaped n2 sizes init2 -> own j1 init1 = own j2 init2 ->
  tape_fits n1 sizes random_order (length init1) orders T1 -> tape_fits n2 sizes random_order (length init2) orders T2 ->
  own_draws j1 T1 = own_draws j2 T2 ->
  personalize_run Q add mul ofQ decide att1 regv1 regsum1 scf acf nb random_order n1 orders init1 scales (flat_tape (concat T1)) = Done o1 ->
  personalize_run Q add mul ofQ decide att2 regv2 regsum2 scf acf nb random_order n2 orders init2 scales (flat_tape (concat T2)) = Done o2 ->
  let N := Z.of_nat (length orders) in
  mode_row (history (chain_q (o_all o1)) N nb) j1 = mode_row (history (chain_q (o_all o2)) N nb) j2 /\
  forall c, mean_coord (history (chain_q (o_all o1)) N nb) j1 c = mean_coord (history (chain_q (o_all o2)) N nb) j2 c.
Proof.
  intros Hj1 Hj2 Ha Hr Hs S1 S2 Ho F1 F2 Ed H1 H2 N.
  destruct (chain_local Q add mul ofQ decide att1 att2 regv1 regv2 regsum1 regsum2 scf acf nb random_order n1 n2 j1 j2 sizes
                        Hj1 Hj2 Ha Hr Hs orders init1 init2 scales T1 T2 o1 o2 S1 S2 Ho F1 F2 Ed H1 H2) as (_ & Hh & _).
  destruct (generated_history _ _ _ _ _ _ _ _ _ _ _ _ _ _ _ _ _ H1) as (_ & G1).
  destruct (generated_history _ _ _ _ _ _ _ _ _ _ _ _ _ _ _ _ _ H2) as (_ & G2).
  apply estimates_own. unfold N. rewrite G1, G2.
  transitivity (map (option_map cell_q) (own_col j1 (o_hist o1))); [exact (own_col_map cell_q j1 (o_hist o1))|].
  rewrite Hh. symmetry. exact (own_col_map cell_q j2 (o_hist o2)).
Qed.

(** * (b) permuting the individuals permutes the chains, (c) an individual alone = its row of the batch: instances *)
Theorem chain_equivariant A add mul ofQ decide att1 att2 regv1 regv2 regsum1 regsum2 scf acf nb random_order n (p : nat -> nat) sizes
    orders init1 init2 scales T1 T2 o1 o2 :
  (forall i, (i < n)%nat -> (p i < n)%nat) ->
  (forall i, (i < n)%nat -> row_local n n (p i) i sizes att1 att2) ->
  (forall i, (i < n)%nat -> forall v, row_local n n (p i) i sizes (regv1 v) (regv2 v)) ->
  (forall i, (i < n)%nat -> row_local n n (p i) i sizes regsum1 regsum2) ->
  shaped n sizes init1 -> shaped n sizes init2 -> (forall i, (i < n)%nat -> own (p i) init1 = own i init2) ->
  tape_fits n sizes random_order (length init1) orders T1 -> tape_fits n sizes random_order (length init2) orders T2 ->
  (forall i, (i < n)%nat -> own_draws (p i) T1 = own_draws i T2) ->
  personalize_run A add mul ofQ decide att1 regv1 regsum1 scf acf nb random_order n orders init1 scales (flat_tape (concat T1)) = Done o1 ->
  personalize_run A add mul ofQ decide att2 regv2 regsum2 scf acf nb random_order n orders init2 scales (flat_tape (concat T2)) = Done o2 ->
  forall i, (i < n)%nat ->
    own_col (p i) (o_all o1) = own_col i (o_all o2) /\ own_col (p i) (o_hist o1) = own_col i (o_hist o2) /\
    own_trace (p i) (o_trace o1) = own_trace i (o_trace o2) /\
    map (own_samp (p i)) (r_samp (o_rs o1)) = map (own_samp i) (r_samp (o_rs o2)).
Proof.
  intros Hp Ha Hr Hs S1 S2 Ho F1 F2 Ed H1 H2 i Hi.
  destruct (chain_local A add mul ofQ decide att1 att2 regv1 regv2 regsum1 regsum2 scf acf nb random_order n n (p i) i sizes
                        (Hp i Hi) Hi (Ha i Hi) (Hr i Hi) (Hs i Hi) orders init1 init2 scales T1 T2 o1 o2 S1 S2 (Ho i Hi) F1 F2 (Ed i Hi) H1 H2)
    as (P1 & P2 & P3 & _ & P5 & _).
  auto.
Qed.

Theorem chain_alone A add mul ofQ decide att att1 regv regv1 regsum regsum1 scf acf nb random_order n j sizes
    orders init init1 scales T T1 o o1 :
  (j < n)%nat ->
  row_local n 1 j 0 sizes att att1 -> (forall v, row_local n 1 j 0 sizes (regv v) (regv1 v)) -> row_local n 1 j 0 sizes regsum regsum1 ->
  shaped n sizes init -> shaped 1 sizes init1 -> own j init = own 0 init1 ->
  tape_fits n sizes random_order (length init) orders T -> tape_fits 1 sizes random_order (length init1) orders T1 ->
  own_draws j T = own_draws 0 T1 ->
  personalize_run A add mul ofQ decide att regv regsum scf acf nb random_order n orders init scales (flat_tape (concat T)) = Done o ->
  personalize_run A add mul ofQ decide att1 regv1 regsum1 scf acf nb random_order 1 orders init1 scales (flat_tape (concat T1)) = Done o1 ->
  own_col j (o_all o) = own_col 0 (o_all o1) /\ own_col j (o_hist o) = own_col 0 (o_hist o1) /\
  own_trace j (o_trace o) = own_trace 0 (o_trace o1) /\
  map (own_samp j) (r_samp (o_rs o)) = map (own_samp 0) (r_samp (o_rs o1)).
Proof.
  intros Hj Ha Hr Hs S S1 Ho F F1 Ed H H1.
  destruct (chain_local A add mul ofQ decide att att1 regv regv1 regsum regsum1 scf acf nb random_order n 1 j 0 sizes
                        Hj Nat.lt_0_1 Ha Hr Hs orders init init1 scales T T1 o o1 S S1 Ho F F1 Ed H H1) as (P1 & P2 & P3 & _ & P5 & _).
  auto.
Qed.
