(** C11 / C13 on the REAL State model: the theorems of Api/ApiProofs.v with the hypothesis [state_interface] discharged
    (Compose/StateApiProofs.real_state_interface) and the hypothesis "the configuration is well-formed" replaced by
    "its cells are State objects of a store reachable from [init_store]" ([RealCfg] / [Reach]).
    What is left in the statements: [WF g] (discharged for every input graph by C15), [F_mix g sm] (C07; only used by the
    partial reverts the PAST history may contain), the script-shape conditions of the original theorems. *)
From Coq Require Import List Arith Bool Lia.
From Leaspy Require Import State.StateModel State.StateProofs State.StateNow State.StateNowProofs
                           Api.ApiModel Api.ApiProofs Api.ApiCalls Api.ApiCallsProofs
                           Compose.StateApi Compose.StateApiProofs Compose.StateApiRunProofs.
Import ListNotations.

Section OnState.
Variables V M IX : Type.
Variable g : graph V.
Variable sm : sem V M IX.
Hypothesis wf : WF g.
Hypothesis fmix : F_mix g sm.
Variable tracked : list nat.
Variable tape : gen -> nat -> V.
Variable seed_pos : gen -> nat -> nat.
Notation abs := (abs V g).
Notation r_read := (r_read V g).
Notation r_write := (r_write V g).
Notation r_clone := (r_clone V g).
Notation r_simOn := (r_simOn V g).
Notation r_anc := (r_anc V g).
Notation r_indep := (r_indep V g).
Notation Reach := (Reach V g M IX sm).
Notation RepI := (RepI V g).
Notation RealCfg := (RealCfg V M IX g sm).
Notation run_now := (run_now g sm).
Notation no_partial := (@no_partial_revert V M IX).
Notation a_exec := (ApiModel.exec V r_read r_write r_clone tracked tape seed_pos).
Notation a_fit_run := (fit_run V r_read r_write r_clone tracked tape seed_pos).
Notation a_api_call := (api_call V r_read r_write r_clone tracked tape seed_pos).

Ltac by_interface thm := destruct (real_state_interface V g wf); eapply thm; eauto.

(** ** bridge: what the API-level facts say about the State objects themselves *)

(** an API cell is a State object: the three operations commute with [abs], for every undo log and fork mode *)
Theorem cell_is_state_object (s : state V) : Bounded g (values s) ->
  (forall i, r_read (abs s) i = (abs (fst (get_state g s i)), out_opt V (snd (get_state g s i)))) /\
  (forall i o, r_write (abs s) i o = abs (fst (set_now g s i o))) /\
  (forall d kp, r_clone (abs s) = abs (clone_state s d kp)).
Proof. intros HB. split; [intros; now apply abs_get|]. split; [intros; now apply abs_set | intros; now apply abs_clone]. Qed.

Lemma abs_vals (s : state V) : Bounded g (values s) -> forall i, to_vals V (abs s) i = values s i.
Proof. intros HB i. now apply to_of_bounded. Qed.

Lemma abs_eq_values (s s' : state V) : abs s' = abs s -> forall i, i < gn g -> values s' i = values s i.
Proof.
  intros E i Hi. assert (H : to_vals V (abs s') i = to_vals V (abs s) i) by now rewrite E.
  unfold StateApi.abs in H. rewrite !to_of in H. apply Nat.ltb_lt in Hi. now rewrite Hi in H.
Qed.

Lemma sim_values P (s s' : state V) : Good g s -> Good g s' -> r_simOn P (abs s') (abs s) ->
  forall i, P i = true -> linked g i = false -> values s' i = values s i.
Proof.
  intros (_ & HB & _) (_ & HB' & _) (_ & _ & H) i Pi Li. specialize (H i Pi Li). now rewrite !abs_vals in H by assumption.
Qed.

Lemma read_none_is_error (s : state V) i : Good g s -> snd (r_read (abs s) i) = None -> snd (get_state g s i) = Err InputError.
Proof.
  intros (HI & HB & _) H. rewrite (abs_get V g s i HB) in H. cbn [snd] in H.
  destruct (get_state_values V g s i) as [_ E]. rewrite E in *. rewrite (get_is_scratch V g wf (values s) i HI HB) in *.
  unfold read_spec in *. destruct (scratch g (values s) i); [discriminate | reflexivity].
Qed.

Lemma read_same_is_same (s s' : state V) i : Good g s -> Good g s' ->
  snd (r_read (abs s') i) = snd (r_read (abs s) i) -> snd (get_state g s' i) = snd (get_state g s i).
Proof.
  intros (HI & HB & _) (HI' & HB' & _) H. rewrite (abs_get V g s i HB), (abs_get V g s' i HB') in H. cbn [snd] in H.
  destruct (get_state_values V g s i) as [_ E]. destruct (get_state_values V g s' i) as [_ E']. rewrite E, E' in *.
  rewrite (get_is_scratch V g wf (values s) i HI HB), (get_is_scratch V g wf (values s') i HI' HB') in *.
  unfold read_spec in *. destruct (scratch g (values s) i), (scratch g (values s') i); cbn in H; congruence.
Qed.

(** the model's state after a run whose configuration is made of reachable State objects is one of them *)
Lemma real_model_state c sf : RealCfg c -> model_state V c = Some sf ->
  exists S k s, Reach S /\ nth_error S k = Some s /\ Good g s /\ sf = abs s.
Proof.
  intros (S & ix & HR & HRep) H. unfold model_state in H.
  destruct (RepI_lookup V g S ix (cS c) (cCur c) sf HRep H) as (k & s & _ & Hs & ->).
  exists S, k, s. split; [exact HR|]. split; [exact Hs|]. split; [|reflexivity].
  exact (proj1 (reach_cache V M IX g sm wf fmix S k s HR Hs)).
Qed.

Lemma real_single S k s p : Reach S -> nth_error S k = Some s -> RealCfg (Cfg [abs s] 0 p [] []).
Proof. intros HR Hs. exists S, [k]. split; [exact HR | now apply RepI_single]. Qed.

Lemma call_real script S k s p c' : Reach S -> nth_error S k = Some s -> a_api_call script (abs s) p = Some c' -> RealCfg c'.
Proof. intros HR Hs H. exact (exec_real V M IX g sm wf fmix tracked tape seed_pos 1 script _ c' (real_single S k s p HR Hs) H). Qed.

(** ** C11 *)

(** logging is transparent, on configurations made of reachable State objects; both outcomes are again made of reachable
    State objects *)
Theorem logging_transparent_state base seed init iters fin sched c c1 :
  RealCfg c ->
  (forall i o, In o (sched i) -> read_only V o = true) ->
  a_fit_run base seed init iters fin sched c = Some c1 ->
  exists c2, a_fit_run base seed init iters fin (no_observers V) c = Some c2 /\ same_results V r_read c1 c2 /\
             RealCfg c1 /\ RealCfg c2.
Proof.
  intros HR Hro H. pose proof (real_wf_cfg V M IX g sm wf fmix c HR) as Hwf.
  assert (T : exists c2, a_fit_run base seed init iters fin (no_observers V) c = Some c2 /\ same_results V r_read c1 c2)
    by (by_interface logging_transparent).
  destruct T as (c2 & H2 & Hs).
  exists c2. split; [exact H2|]. split; [exact Hs|].
  split; eapply fit_run_real; eauto.
Qed.

(** ** C13 *)

(** estimate: the State OBJECT of the model — values and cache — is what it was, in the store of State objects the call
    leaves behind; that store is reached from the former one by State operations that contain no partial revert *)
Theorem estimate_pure_state tvar modelvar tin ips S k s p c' :
  Reach S -> nth_error S k = Some s ->
  a_api_call (estimate_script V tvar modelvar tin ips) (abs s) p = Some c' ->
  cCur c' = 0 /\ cPos c' = p /\ nth_error (cS c') 0 = Some (abs s) /\
  exists ops s', forallb no_partial ops = true /\ Reach (fst (run_now S ops)) /\
                 nth_error (fst (run_now S ops)) k = Some s' /\ forall i, i < gn g -> values s' i = values s i.
Proof.
  intros HR Hs H.
  destruct (estimate_pure V r_read r_write r_clone tracked tape seed_pos tvar modelvar tin ips (abs s) p c' H) as (H0 & Hc & Hp).
  split; [exact Hc|]. split; [exact Hp|]. split; [exact H0|].
  destruct (exec_refines V M IX g sm wf fmix tracked tape seed_pos false 1 _ (Cfg [abs s] 0 p [] []) c' S [k] (RepI_single V g S k s Hs)
              (proj1 (Reach_good V M IX g sm wf fmix S HR)) H) as (ops & ix' & Hnp & HRep & (new & ->)).
  destruct HRep as (_ & _ & HRep). destruct (HRep 0 k eq_refl) as (s' & Hs' & Ha).
  exists ops, s'. split; [exact Hnp|]. split; [now apply (Reach_no_partial V M IX g sm)|]. split; [exact Hs'|].
  apply abs_eq_values. congruence.
Qed.

(** simulate and every call that only reads the model's state: the model's state is a reachable State object on which every
    non-derived variable holds the same value and every read gives the same result (value or error) as before *)
Theorem simulate_pure_state script S k s p c' :
  Reach S -> nth_error S k = Some s ->
  forallb (writes_in V (fun _ => false)) script = true ->
  a_api_call script (abs s) p = Some c' ->
  exists S' k' s', Reach S' /\ nth_error S' k' = Some s' /\ model_state V c' = Some (abs s') /\
    (forall i, linked g i = false -> values s' i = values s i) /\
    (forall i, snd (get_state g s' i) = snd (get_state g s i)).
Proof.
  intros HR Hs Hro H. destruct (reach_cache V M IX g sm wf fmix S k s HR Hs) as (HG & _ & Hsim).
  assert (T : exists sf, model_state V c' = Some sf /\ r_simOn top sf (abs s) /\ forall n, snd (r_read sf n) = snd (r_read (abs s) n))
    by (by_interface reads_only_pure).
  destruct T as (sf & Hm & Hs' & Hr).
  destruct (real_model_state c' sf (call_real script S k s p c' HR Hs H) Hm) as (S' & k' & s' & HR' & Hk' & HG' & ->).
  exists S', k', s'. split; [exact HR'|]. split; [exact Hk'|]. split; [exact Hm|]. split.
  - intros i Li. destruct (le_lt_dec (gn g) i) as [Hi|Hi].
    + destruct HG as (_ & HB & _). destruct HG' as (_ & HB' & _). now rewrite HB, HB'.
    + exact (sim_values top s s' HG HG' Hs' i eq_refl Li).
  - intros i. apply read_same_is_same; auto.
Qed.

(** MCMC personalisation: afterwards the model's state is a NEW reachable State object in which every non-derived variable
    of P (parameters, hyper-parameters, population variables) holds what it held before the call, and every data and
    individual variable is unset (reading it raises the input error) *)
Theorem mcmc_clean_state (P : view) data init_ind body dvars ivars S k s p c' :
  Reach S -> nth_error S k = Some s ->
  (forall i, In i (dvars ++ ivars) -> P i = false /\ i < gn g /\ settable g i = true) ->
  (forall nv, In nv data -> In (fst nv) (dvars ++ ivars)) ->
  (forall nf, In nf init_ind -> In (fst nf) (dvars ++ ivars)) ->
  forallb (fun e => writes_in V (mem (dvars ++ ivars)) e && noclone_ev V e) body = true ->
  a_api_call (mcmc_script V data init_ind body dvars ivars) (abs s) p = Some c' ->
  cCur c' = 1 /\
  exists S' k' s', Reach S' /\ nth_error S' k' = Some s' /\ model_state V c' = Some (abs s') /\
    (forall i, P i = true -> linked g i = false -> values s' i = values s i) /\
    (forall i, In i (dvars ++ ivars) -> snd (get_state g s' i) = Err InputError).
Proof.
  intros HR Hs Hv Hd Hi Hb H. destruct (reach_cache V M IX g sm wf fmix S k s HR Hs) as (HG & _ & Hsim).
  assert (Hv' : forall i, In i (dvars ++ ivars) -> P i = false /\ r_indep i = true).
  { intros i Hin. destruct (Hv i Hin) as (H1 & H2 & H3). split; [exact H1|]. unfold StateApi.r_indep.
    apply Nat.ltb_lt in H2. now rewrite H2, H3. }
  assert (T : exists sf, model_state V c' = Some sf /\ cCur c' = 1 /\ r_simOn P sf (abs s) /\
                         forall n, In n (dvars ++ ivars) -> snd (r_read sf n) = None)
    by (by_interface mcmc_clean).
  destruct T as (sf & Hm & Hc & Hs' & Hr).
  split; [exact Hc|].
  destruct (real_model_state c' sf (call_real _ S k s p c' HR Hs H) Hm) as (S' & k' & s' & HR' & Hk' & HG' & ->).
  exists S', k', s'. split; [exact HR'|]. split; [exact Hk'|]. split; [exact Hm|]. split.
  - exact (sim_values P s s' HG HG' Hs').
  - intros i Hin. apply read_none_is_error; auto.
Qed.

(** history independence: two reachable State objects — of any two reachable stores — that agree on the kept non-derived
    variables give the same outcome for every script the flow check accepts *)
Theorem history_independent_state (kept : view) script S k s S0 k0 s0 p :
  Reach S -> nth_error S k = Some s -> Reach S0 -> nth_error S0 k0 = Some s0 ->
  (forall i, kept i = true -> linked g i = false -> values s i = values s0 i) ->
  flow_all V r_anc 1 ([kept], 0) script <> None ->
  orel (same_outcome V) (a_api_call script (abs s) p) (a_api_call script (abs s0) p).
Proof.
  intros HR Hs HR0 Hs0 Hag Hf.
  destruct (reach_cache V M IX g sm wf fmix S k s HR Hs) as ((_ & HB & _) & HC & _).
  destruct (reach_cache V M IX g sm wf fmix S0 k0 s0 HR0 Hs0) as ((_ & HB0 & _) & HC0 & _).
  assert (Hsim : r_simOn kept (abs s) (abs s0)); [|by_interface history_independent].
  split; [exact HC|]. split; [exact HC0|]. intros i Ki Li. rewrite !abs_vals by assumption. now apply Hag.
Qed.

End OnState.
