(** Boolean checks used by the tie of the composition to the shipped graphs (Compose/ShippedTie.v) — definitions and
    their soundness lemmas only; no generated file is imported here, so that harness/props/c01.py can evaluate the checks
    graph by graph when the tie theorem fails. *)
From Coq Require Import List Bool Arith PeanoNat.
From Leaspy Require Dag.DagModel.
From Leaspy Require Import Dag.GraphLit.
From Leaspy Require Locality.AxisTypes Locality.Shipped.
From Leaspy Require Import State.StateModel State.Revert.
From Leaspy Require Import Compose.DagState Compose.DagStateProofs Compose.AxisState.
Import ListNotations.

(** ** [wf_b] of State/StateExec.v for any value type *)
Section Generic.
Variable V : Type.
Variable g : graph V.

Fixpoint increasing_gb (l : list nat) : bool :=
  match l with
  | [] => true
  | a :: r => (match r with [] => true | b :: _ => a <? b end) && increasing_gb r
  end.

Definition wf_node_gb (k : nat) : bool :=
  let ps := parents g k in
  forallb (fun p => p <? k) ps
  && (linked g k || match ps with [] => true | _ => false end)
  && (negb (settable g k) || negb (linked g k))
  && (match hyper g k with Some _ => negb (linked g k) && negb (settable g k) | None => true end)
  && increasing_gb (k :: desc g k)
  && forallb (fun c => c <? gn g) (desc g k)
  && forallb (fun c => negb (existsb (fun p => Nat.eqb p k || mem p (desc g k)) (parents g c)) || mem c (desc g k)) (seq 0 (gn g))
  && forallb (fun c => existsb (fun p => Nat.eqb p k || mem p (desc g k)) (parents g c)) (desc g k)
  && increasing_gb (anc g k ++ [k])
  && forallb (fun p => mem p (anc g k)) ps
  && forallb (fun a => forallb (fun p => mem p (anc g k)) (parents g a)) (anc g k)
  && forallb (fun a => mem a ps || existsb (fun c => mem a (parents g c)) (anc g k)) (anc g k).

Definition wf_gb : bool := forallb wf_node_gb (seq 0 (gn g)).

(** [Revert.axis_read_ok], decided *)
Definition axis_read_ok_b (i q : nat) : bool :=
  forallb (fun a => negb (mem a (desc g i)) || ind_axis g a) (anc g q ++ [q]).

(** the same graph with every field tabulated once (the fields of [graph_of_build] recompute positions on each call) *)
Definition tabulate : graph V :=
  let n := gn g in
  let tab {X} (f : nat -> X) (d : X) := let l := map f (seq 0 n) in fun k => nth k l d in
  mkGraph n (tab (linked g) false) (tab (settable g) false) (tab (hyper g) None) (tab (ind_axis g) false)
          (tab (parents g) []) (tab (anc g) []) (tab (desc g) []) (F g).
End Generic.

Lemma axis_read_ok_b_sound V (g : graph V) i q : axis_read_ok_b V g i q = true -> axis_read_ok g i q.
Proof.
  unfold axis_read_ok_b, axis_read_ok. rewrite forallb_forall. intros H a Ha Hd. specialize (H a Ha).
  apply orb_prop in H. destruct H as [H|H]; [|exact H].
  apply negb_true_iff in H. exfalso. revert H. apply not_false_iff_true. unfold mem. apply existsb_exists.
  exists a. split; [exact Hd | apply Nat.eqb_refl].
Qed.

(** ** literals of harness/translate/graphs.py (every shipped model configuration) *)
Definition def_of_kind (k : vkind) (ps : list nat) : vdef unit :=
  match k with
  | KHyper => DHyper tt
  | KLinked => DLinked false ps (fun _ => tt)
  | _ => DIndep false
  end.

Fixpoint zip_defs (ks : list vkind) (ps : list (list nat)) : list (vdef unit) :=
  match ks, ps with
  | k :: ks', p :: ps' => def_of_kind k p :: zip_defs ks' ps'
  | _, _ => []
  end.

Definition sg_defs (sg : shipped_graph) : list (vdef unit) := zip_defs (sg_kind sg) (sg_parents sg).

Definition sg_check (sg : shipped_graph) : bool :=
  Nat.eqb (List.length (sg_kind sg)) (List.length (sg_parents sg))
  && DagModel.list_eqb DagModel.nat_list_eqb (dag_of_defs (sg_defs sg)) (sg_parents sg)
  && match DagModel.build (dag_of_defs (sg_defs sg)) with
     | DagModel.Ok r => DagModel.nat_list_eqb (DagModel.order r) (sg_order sg)
                        && wf_gb unit (tabulate unit (graph_of_build (sg_defs sg) r tt))
     | DagModel.Err _ => false
     end.

Lemma list_eqb_eq {X} (e : X -> X -> bool) : (forall x y, e x y = true -> x = y) ->
  forall l1 l2, DagModel.list_eqb e l1 l2 = true -> l1 = l2.
Proof.
  intros He. induction l1 as [|x l1 IH]; intros [|y l2] H; simpl in H; try discriminate; [reflexivity|].
  apply andb_prop in H as [H1 H2]. f_equal; [now apply He | now apply IH].
Qed.

Lemma nat_list_eqb_eq l1 l2 : DagModel.nat_list_eqb l1 l2 = true -> l1 = l2.
Proof. apply list_eqb_eq. intros x y H. now apply Nat.eqb_eq. Qed.

(** ** literals of harness/props/c07.py (individual-axis type system; one per shipped model kind x sources x noise) *)
Definition fs0 : nat -> AxisTypes.nodefun unit := fun _ => AxisTypes.mkFun (fun _ _ => []) (fun _ => []).
Definition ax_defs (G : AxisTypes.graph) : list (vdef (aval unit)) := defs_of_axis unit (fun _ _ => tt) G fs0 0.

Definition ax_check (s : Shipped.shipped_graph) : bool :=
  let G := Shipped.sg_graph s in
  AxisTypes.well_typed G
  && match DagModel.build (dag_of_defs (ax_defs G)) with
     | DagModel.Ok r =>
         let g := tabulate (aval unit) (graph_of_build (ax_defs G) r None) in
         let pos := fun x => index_of x (DagModel.order r) in
         DagModel.nat_list_eqb (DagModel.order r) (AxisTypes.g_order G)
         && wf_gb (aval unit) g
         && forallb (fun i => settable g (pos i) && ind_axis g (pos i)
                              && forallb (fun q => ind_axis g (pos q) && axis_read_ok_b (aval unit) g (pos i) (pos q))
                                         (Shipped.sg_ind_terms s))
                    (Shipped.sg_ind_latents s)
     | DagModel.Err _ => false
     end.

