(** Composition C15 -> C01/C02: from the result of the modelled [VariablesDAG.__post_init__]
    (Dag/DagModel.v, [build]) to the graph record the [State] model works on (State/StateModel.v).
    Definitions only; proofs in DagStateProofs.v.

    The two models index nodes differently, and this file is the exact bridge:

    - Dag/DagModel.v: node [x] = the x-th variable NAME in sorted order ([sorted(direct_ancestors.keys())],
      dag.py:389); the input is, per node, its set of direct ancestors; the result [r] holds
      [order r] = [sorted_variables_names] and the two dictionaries [sorted_children] / [sorted_ancestors]
      (association lists keyed by node, values = lists of nodes).
    - State/StateModel.v: node [k] = the k-th variable in the TOPOLOGICAL order the code iterates in
      ([for n in self.dag], state.py:527); [anc k] / [desc k] are [dag.sorted_ancestors[name]] /
      [dag.sorted_children[name]] (state.py:359, 450), [parents k] are [LinkedVariable.parameters] in the
      positional order of the node function, [F k] the function itself.

    A set of variable definitions is a list [defs], indexed by name-sorted node, of [vdef]s that mirror
    the classes of variables/specs.py:
      [DHyper v]          Hyperparameter (fixed value, [is_settable = False], no ancestors),
      [DIndep axis]       ModelParameter / DataVariable / Population- / IndividualLatentVariable
                          ([is_settable = True], [get_ancestors_names() = frozenset()], specs.py:136),
      [DLinked axis ps f] LinkedVariable with [parameters = ps] (names as name-sorted indices, positional
                          order) and function [f]; [get_ancestors_names() = frozenset(parameters)]
                          (specs.py:952).
    [dag_of_defs defs] is the argument [VariablesDAG.from_dict] passes to the constructor:
    [direct_ancestors = {name: var.get_ancestors_names()}].

    [graph_of_build defs r v0] re-indexes everything through [order r]: State node [k] is the name
    [nth k (order r)], a name [x] becomes the State node [index_of x (order r)], and [anc] / [desc]
    are LOOKED UP BY NAME in the dictionaries of [r], exactly as state.py does.  [v0] is only the
    result of [F] on a node that is not a [LinkedVariable]; the model of [State] never calls [F] there
    ([compute] tests [linked] first), so no statement depends on it. *)
From Coq Require Import List Arith Bool PeanoNat.
From Leaspy Require Dag.DagModel.
From Leaspy Require Import State.StateModel.
Import ListNotations.

Section Defs.
Variable V : Type.

Inductive vdef :=
| DHyper (value : V)
| DIndep (axis : bool)
| DLinked (axis : bool) (params : list nat) (f : list V -> V).

Definition d_default : vdef := DIndep false.

(** [var.get_ancestors_names()] *)
Definition d_params (d : vdef) : list nat :=
  match d with DLinked _ ps _ => ps | _ => [] end.

(** the [direct_ancestors] mapping handed to [VariablesDAG.__post_init__] *)
Definition dag_of_defs (defs : list vdef) : DagModel.graph := map d_params defs.

Definition d_linked (d : vdef) : bool := match d with DLinked _ _ _ => true | _ => false end.
Definition d_settable (d : vdef) : bool := match d with DIndep _ => true | _ => false end.
Definition d_hyper (d : vdef) : option V := match d with DHyper v => Some v | _ => None end.
Definition d_axis (d : vdef) : bool :=
  match d with DHyper _ => false | DIndep a => a | DLinked a _ _ => a end.
Definition d_fun (v0 : V) (d : vdef) : list V -> V :=
  match d with DLinked _ _ f => f | _ => fun _ => v0 end.

(** position of the first occurrence of [x] in [l] ([length l] when absent) *)
Fixpoint index_of (x : nat) (l : list nat) : nat :=
  match l with
  | [] => 0
  | y :: r => if Nat.eqb x y then 0 else S (index_of x r)
  end.

(** [dict[name]] on an association list in insertion order; [[]] for a missing key *)
Definition alookup (x : nat) (al : list (nat * list nat)) : list nat :=
  match find (fun p => Nat.eqb (fst p) x) al with
  | Some p => snd p
  | None => []
  end.

Definition graph_of_build (defs : list vdef) (r : DagModel.dag) (v0 : V) : graph V :=
  let ord := DagModel.order r in
  let name := fun k => nth k ord 0 in
  let pos := fun x => index_of x ord in
  let d := fun k => nth (name k) defs d_default in
  mkGraph (length ord)
    (fun k => d_linked (d k))
    (fun k => d_settable (d k))
    (fun k => d_hyper (d k))
    (fun k => d_axis (d k))
    (fun k => map pos (d_params (d k)))
    (fun k => map pos (alookup (name k) (DagModel.sorted_ancestors r)))
    (fun k => map pos (alookup (name k) (DagModel.sorted_children r)))
    (fun k => d_fun v0 (d k)).

(** * The from-scratch value of a set of definitions, by NAME — no order, no graph construction at all:
      the least relation closed under "an independent variable (hyper-parameter or not) has the value it
      currently holds" and "a linked variable is its function applied to the values of its parameters".
      [ind] gives the current independent values by name. *)
Inductive Eval (defs : list vdef) (ind : nat -> option V) : nat -> V -> Prop :=
| EvIndep x d v : nth_error defs x = Some d -> d_linked d = false -> ind x = Some v -> Eval defs ind x v
| EvLinked x a ps f args : nth_error defs x = Some (DLinked a ps f) ->
    EvalL defs ind ps args -> Eval defs ind x (f args)
with EvalL (defs : list vdef) (ind : nat -> option V) : list nat -> list V -> Prop :=
| EvNil : EvalL defs ind [] []
| EvCons p ps v vs : Eval defs ind p v -> EvalL defs ind ps vs -> EvalL defs ind (p :: ps) (v :: vs).

End Defs.

Arguments DHyper {V}. Arguments DIndep {V}. Arguments DLinked {V}.
Arguments Eval {V}. Arguments EvalL {V}.
Arguments d_default {V}. Arguments d_params {V}. Arguments dag_of_defs {V}. Arguments d_linked {V}.
Arguments d_settable {V}. Arguments d_hyper {V}. Arguments d_axis {V}. Arguments d_fun {V}.
Arguments graph_of_build {V}.
