(** Composition C01 -> C12: the abstract store of Io/EndOfFit.v instantiated with the REAL State model.

    Io/EndOfFitProofs.v proves C12_self_consistent for any store with [get] / [set] / [clone] satisfying five interface
    hypotheses, the first being  [fresh_reads : forall s n, get s n = eval (vals s) n]  ("to be discharged by the C01 state
    model").  Here the store is a State object of State/StateModel.v that satisfies the C01 invariant [Good] (every State
    object reachable from [init_store] by a disciplined history does: StateProofs.Good_run), variables are addressed by
    NAME through the list [names] (= [VariablesDAG.sorted_variables_names]), a value is [option V] ([None] = the variable is
    unset / the read raises), and
        [s_get]   = State.__getitem__   ([StateModel.get_state], result only),
        [s_touch] = the State object after that read (the cache it filled, incl. the partial caching of an aborted read),
        [s_set]   = State.__setitem__   ([StateNow.set_now]),
        [s_clone] = State.clone()       ([StateModel.clone_state] with the default flags),
        [s_eval]  = the from-scratch evaluation [StateModel.scratch] of C01.
    Definitions only (the [Good] proofs carried by [s_set] / [s_touch] / [s_clone] are the C01 lemmas [Good_set],
    [Good_get], [Good_clone]); proofs: Compose/StateEndOfFitProofs.v. *)
From Coq Require Import List String Bool Arith.
From Leaspy Require Import State.StateModel State.StateProofs State.StateNow Io.EndOfFit.
Import ListNotations.
Open Scope string_scope.

Section StateStore.
Variable V : Type.
Variable g : graph V.
Hypothesis wf : WF g.
Variable names : list string.

(** position of a name in [names] *)
Fixpoint index_of (nm : string) (l : list string) : option nat :=
  match l with
  | [] => None
  | x :: r => if String.eqb nm x then Some 0 else option_map S (index_of nm r)
  end.
Definition idx (nm : string) : option nat := index_of nm names.
Definition name_of (i : nat) : string := nth i names "".

(** a State object that satisfies the C01 invariant *)
Definition gstate : Type := { s : state V | Good g s }.

Definition out_val (o : out V) : option V := match o with Ok v => Some v | _ => None end.

Definition s_get (s : gstate) (nm : string) : option V :=
  match idx nm with Some i => out_val (snd (get_state g (proj1_sig s) i)) | None => None end.

Definition s_touch (s : gstate) (nm : string) : gstate :=
  match idx nm with
  | Some i => exist _ (fst (get_state g (proj1_sig s) i)) (Good_get V g wf (proj1_sig s) i (proj2_sig s))
  | None => s
  end.

Definition s_set (nm : string) (v : option V) (s : gstate) : gstate :=
  match idx nm with
  | Some i => exist _ (fst (set_now g (proj1_sig s) i v))
                (Good_set V g true false wf (or_introl eq_refl) (proj1_sig s) i v (proj2_sig s)
                          (fun _ _ (H : false = true) => match Bool.diff_false_true H with end))
  | None => s
  end.

Definition s_clone (s : gstate) : gstate :=
  exist _ (clone_state (proj1_sig s) false false) (Good_clone V g (proj1_sig s) false false (proj2_sig s)).

(** what the State holds for the non-derived variables / from-scratch evaluation from those / settable variables *)
Definition s_vals (s : gstate) (nm : string) : option V :=
  match idx nm with Some i => if linked g i then None else values (proj1_sig s) i | None => None end.
Definition s_eval (a : string -> option V) (nm : string) : option V :=
  match idx nm with Some i => scratch g (fun j => a (name_of j)) i | None => None end.
Definition s_indep (nm : string) : bool :=
  match idx nm with Some i => settable g i | None => false end.

(** put_population_latent_variables as the code runs it: the prior's parameters are READ (which fills the cache of the State
    object being prepared) and the assignment is made on the State object left by those reads *)
Variable stat : prior_stat -> string -> (string -> option V) -> option V.
Variable prior_params : string -> list string.
Definition put_population_cached (route : init_type -> prior_stat) (i : init_type) (pops : list string) (s : gstate) : gstate :=
  fold_left (fun s pp => s_set pp (stat (route i) pp (s_get s)) (fold_left s_touch (prior_params pp) s)) pops s.

(** the end-of-fit script with those reads: clone; put_population_latent_variables(PRIOR_MODE); install the clone *)
Definition end_of_fit_cached (pops : list string) (sampling : gstate) : gstate :=
  put_population_cached init_route InitMode pops (s_clone sampling).

End StateStore.
