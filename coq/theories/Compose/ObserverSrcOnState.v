(* C11 — logging is transparent for the program regenerated from the source, on the real State model, with the observers'
   `read_only` hypothesis discharged from the source too: composition of Compose/RunProgOnState.v with Api/ObserverSrcTie.v
   (coq/gen/GenC11Obs.v: the operations the output manager's methods perform). *)
From Coq Require Import List Arith Bool.
From Leaspy Require Import State.StateModel Api.ApiModel Api.RunProg Api.RunProgProofs Api.RunProgTie
                           Api.ObserverSrc Api.ObserverSrcProofs Api.ObserverSrcTie
                           Compose.StateApi Compose.StateApiProofs Compose.StateApiRunProofs Compose.ApiOnStateProofs
                           Compose.RunProgOnState.
From LeaspyGen Require Import GenC11 GenC11Obs.
Import ListNotations.

Theorem gen_logging_transparent_state_observers_from_source :
  forall (V M IX : Type) (g : graph V) (sm : sem V M IX), WF g -> F_mix g sm ->
  forall tracked tape seed_pos (seed : nat) (interp : aname -> nat -> nat -> list (ev V)) (oi oi' : oname -> nat -> list (ev V))
         (base : nat) (e e' : env) (c c1 : cfg V),
    e_aflag e FSeedSet = true -> same_algorithm e e' -> e_lflag e' LHasManager = false ->
    RealCfg V M IX g sm c -> (forall o i, realises V (gen_observer_ops o) (oi o i) = true) ->
    run_prog V (r_read V g) (r_write V g) (r_clone V g) tracked tape seed_pos seed interp oi base e fit_prog c = Some c1 ->
    exists c2,
      run_prog V (r_read V g) (r_write V g) (r_clone V g) tracked tape seed_pos seed interp oi' base e' fit_prog c = Some c2
      /\ same_results V (r_read V g) c1 c2 /\ RealCfg V M IX g sm c1 /\ RealCfg V M IX g sm c2.
Proof.
  intros V M IX g sm wf fm tracked tape seed_pos seed interp oi oi' base e e' c c1 Hs Hsa Hoff HR Hre Hrun.
  eapply (gen_logging_transparent_state V M IX g sm wf fm); eauto.
  apply gen_observers_read_only; auto.
Qed.
