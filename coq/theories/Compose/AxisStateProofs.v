(** Composition C07 -> C01/C02, proofs.
    (1) [F_mix] — node functions of per-individual nodes commute with the row-wise selection of a partial revert —
        is a THEOREM for every node whose function is given by an op-kind of AxisTypes.v, with any number of parents
        (Pointwise / RowMatMul / ReduceOther by row-locality; ReduceInd / BroadcastPop / Opaque deliver a population
        value, which the selection refuses, so nothing is asked of them).
    (2) For graphs accepted by the [well_typed] checker the documented contract on the reads between a per-individual
        proposal and its decision — "only variables carrying the individual axis" — implies the closure condition
        [axis_read_ok] that the partial-revert theorems of C02 need (DESIGN.md: AxisClosed). *)
From Coq Require Import List Bool Arith PeanoNat Lia Relations.
From Leaspy Require Import Locality.AxisTypes Locality.AxisProofs.
From Leaspy Require Dag.DagModel Dag.DagProofs.
From Leaspy Require Import State.StateModel State.StateProofs State.Revert.
From Leaspy Require Import Compose.DagState Compose.DagStateProofs Compose.AxisState.
Import ListNotations.

Section Select.
Variable A : Type.

Lemma select_length (m : list bool) : forall (o c : list (row A)),
  length o = length m -> length c = length m -> length (select A m o c) = length m.
Proof.
  induction m as [|b m IH]; intros [|x o] [|y c] Ho Hc; simpl in *; try discriminate; auto.
Qed.

Lemma select_nth (m : list bool) : forall (o c : list (row A)) j,
  length o = length m -> length c = length m -> j < length m ->
  nth j (select A m o c) [] = if nth j m false then nth j o [] else nth j c [].
Proof.
  induction m as [|b m IH]; intros [|x o] [|y c] j Ho Hc Hj; simpl in *; try discriminate; try lia.
  destruct j as [|j]; [reflexivity|]. apply IH; lia.
Qed.

Lemma select_map_seq (m : list bool) (F1 F2 : nat -> row A) :
  select A m (map F1 (seq 0 (length m))) (map F2 (seq 0 (length m))) =
  map (fun j => if nth j m false then F1 j else F2 j) (seq 0 (length m)).
Proof.
  apply nth_ext with (d := []) (d' := []).
  - rewrite select_length, map_length, seq_length; rewrite ?map_length, ?seq_length; reflexivity.
  - intros j Hj. rewrite select_length in Hj by (now rewrite map_length, seq_length).
    rewrite select_nth by (rewrite ?map_length, ?seq_length; auto).
    rewrite !nth_map_seq by exact Hj. reflexivity.
Qed.
End Select.

Section FMix.
Variable A : Type.
Variable add : A -> A -> A.
Variable IX : Type.
Variable put : option IX -> aval A -> bool -> aval A -> option (aval A).

Notation sm := (axis_sem A IX put).

Lemma axis_mix_inv m (old cur : aval A) x : axis_mix A m old cur = Some x ->
  exists o c, old = Some (VInd o) /\ cur = Some (VInd c) /\ length o = length m /\ length c = length m /\
              x = Some (VInd (select A m o c)).
Proof.
  unfold axis_mix. destruct old as [[|o]|]; try discriminate. destruct cur as [[|c]|]; try discriminate.
  destruct (Nat.eqb_spec (length o) (length m)) as [Ho|]; [|discriminate].
  destruct (Nat.eqb_spec (length c) (length m)) as [Hc|]; [|discriminate].
  simpl. intros [= <-]. exists o, c. auto.
Qed.

(** what a row-wise selected argument list looks like to a node function *)
Lemma mixed_args_sequence m sel ps olds curs news :
  mixed_args sm m sel ps olds curs news ->
  forall vo vc, sequence A olds = Some vo -> sequence A curs = Some vc ->
  exists vn, sequence A news = Some vn /\
    pops_of A vn = pops_of A vo /\ pops_of A vn = pops_of A vc /\
    forall j, j < length m ->
      slice A j (inds_of A vn) = if nth j m false then slice A j (inds_of A vo) else slice A j (inds_of A vc).
Proof.
  induction 1 as [|p ps o os c cs x xs Hs Hm _ IH | p ps os c cs xs Hs _ IH]; intros vo vc Ho Hc.
  - injection Ho as <-. injection Hc as <-. exists []. repeat split; auto. intros j _. now destruct (nth j m false).
  - apply axis_mix_inv in Hm as (ro & rc & -> & -> & Lo & Lc & ->).
    simpl in Ho, Hc |- *.
    destruct (sequence A os) as [vo'|]; [|discriminate]. destruct (sequence A cs) as [vc'|]; [|discriminate].
    injection Ho as <-. injection Hc as <-.
    destruct (IH vo' vc' eq_refl eq_refl) as (vn & -> & P1 & P2 & S).
    exists (VInd (select A m ro rc) :: vn). simpl. repeat split; auto.
    intros j Hj. change (nth j (select A m ro rc) [] :: slice A j (inds_of A vn) =
      if nth j m false then nth j ro [] :: slice A j (inds_of A vo') else nth j rc [] :: slice A j (inds_of A vc')).
    rewrite (S j Hj), (select_nth A m ro rc j Lo Lc Hj). now destruct (nth j m false).
  - simpl in Ho, Hc |- *. destruct c as [v|]; [|discriminate].
    destruct (sequence A os) as [vo'|]; [|discriminate]. destruct (sequence A cs) as [vc'|]; [|discriminate].
    injection Ho as <-. injection Hc as <-.
    destruct (IH vo' vc' eq_refl eq_refl) as (vn & -> & P1 & P2 & S).
    exists (v :: vn). destruct v as [rw|rows]; simpl.
    + split; [reflexivity|]. split; [now rewrite P1|]. split; [now rewrite P2 | exact S].
    + split; [reflexivity|]. split; [exact P1|]. split; [exact P2|]. intros j Hj.
      change (nth j rows [] :: slice A j (inds_of A vn) =
        if nth j m false then nth j rows [] :: slice A j (inds_of A vo') else nth j rows [] :: slice A j (inds_of A vc')).
      rewrite (S j Hj). now destruct (nth j m false).
Qed.

(** ** (1) the op-kind semantics gives [F_mix], for any kind and any number of parents *)
Theorem axis_fun_mix (k : opkind) (f : nodefun A) (n : nat) m sel ps olds curs news x :
  mixed_args sm m sel ps olds curs news ->
  axis_mix A m (axis_fun A add k f n olds) (axis_fun A add k f n curs) = Some x ->
  axis_fun A add k f n news = x.
Proof.
  intros HM Hx. apply axis_mix_inv in Hx as (ro & rc & Eo & Ec & Lo & Lc & ->).
  unfold axis_fun in *.
  destruct (sequence A olds) as [vo|] eqn:So; [|discriminate].
  destruct (sequence A curs) as [vc|] eqn:Sc; [|discriminate].
  destruct (mixed_args_sequence m sel ps olds curs news HM vo vc So Sc) as (vn & -> & P1 & P2 & S).
  assert (RL : forall vs rows, apply_kind A add k f n vs = Some (VInd rows) ->
            rows = map (fun j => frow f (pops_of A vs) (slice A j (inds_of A vs))) (seq 0 n) /\
            forall vs', apply_kind A add k f n vs' = Some (VInd (map (fun j => frow f (pops_of A vs') (slice A j (inds_of A vs'))) (seq 0 n)))).
  { intros vs rows H. unfold apply_kind in *. destruct k; try discriminate;
      try (injection H as <-; split; [reflexivity | intros; reflexivity]);
      destruct (all_pop A vs); discriminate. }
  destruct (RL vo ro Eo) as [-> Hn]. destruct (RL vc rc Ec) as [-> _]. rewrite (Hn vn).
  rewrite map_length, seq_length in Lo. subst n.
  rewrite select_map_seq. do 2 f_equal. apply map_ext_in. intros j Hj. apply in_seq in Hj.
  rewrite (S j) by lia. rewrite P1 at 1. destruct (nth j m false); [reflexivity|]. now rewrite <- P1, P2.
Qed.
End FMix.

(** ** [F_mix] for every State graph built from definitions whose linked functions are op-kind functions *)
Section FMixBuilt.
Variable A : Type.
Variable add : A -> A -> A.
Variable IX : Type.
Variable put : option IX -> aval A -> bool -> aval A -> option (aval A).

Definition axis_defs (n : nat) (defs : list (vdef (aval A))) : Prop :=
  forall x a ps f, nth_error defs x = Some (DLinked a ps f) -> exists k fn, f = axis_fun A add k fn n.

Theorem F_mix_axis_defs n defs r v0 : axis_defs n defs ->
  F_mix (graph_of_build defs r v0) (axis_sem A IX put).
Proof.
  intros HD k m sel olds curs news x _ Hl _ HM _ _ Hx.
  change (F (graph_of_build defs r v0) k) with (d_fun v0 (nth (nth k (DagModel.order r) 0) defs d_default)) in *.
  change (linked (graph_of_build defs r v0) k) with (d_linked (nth (nth k (DagModel.order r) 0) defs d_default)) in Hl.
  set (y := nth k (DagModel.order r) 0) in *.
  destruct (nth_error defs y) as [d|] eqn:E.
  - rewrite (nth_error_nth defs y d_default E) in *. destruct d as [hv|a|a ps f]; try discriminate Hl.
    destruct (HD y a ps f E) as (kd & fn & ->). cbn [d_fun] in *.
    exact (axis_fun_mix A add IX put kd fn n m sel _ olds curs news x HM Hx).
  - apply nth_error_None in E. rewrite (nth_overflow defs d_default E) in Hl. discriminate Hl.
Qed.

Lemma defs_of_axis_length G fs n : length (defs_of_axis A add G fs n) = length (g_nodes G).
Proof. unfold defs_of_axis. now rewrite map_length, seq_length. Qed.

Lemma defs_of_axis_nth G fs n x : x < length (g_nodes G) ->
  nth_error (defs_of_axis A add G fs n) x = Some (def_of_node A add fs n x (nth x (g_nodes G) node0)).
Proof.
  intros H. unfold defs_of_axis.
  rewrite (nth_error_nth' _ d_default) by (now rewrite map_length, seq_length). f_equal.
  rewrite (nth_indep _ d_default (def_of_node A add fs n 0 (nth 0 (g_nodes G) node0))) by (now rewrite map_length, seq_length).
  rewrite (map_nth (fun i => def_of_node A add fs n i (nth i (g_nodes G) node0)) (seq 0 (length (g_nodes G))) 0 x).
  now rewrite seq_nth.
Qed.

Lemma defs_of_axis_are_axis G fs n : axis_defs n (defs_of_axis A add G fs n).
Proof.
  intros x a ps f E.
  assert (Hx : x < length (g_nodes G)).
  { rewrite <- (defs_of_axis_length G fs n). apply nth_error_Some. congruence. }
  rewrite (defs_of_axis_nth G fs n x Hx) in E. injection E as E. unfold def_of_node in E.
  destruct (n_kind (nth x (g_nodes G) node0)) as [|k]; [discriminate|]. injection E as _ _ <-. eauto.
Qed.

(** [F_mix] is no longer a hypothesis for the graphs of the type system — whatever the graph, the node functions
    [fs], the number of individuals and the order [r] it was built in. *)
Corollary F_mix_axis G fs n r v0 :
  F_mix (graph_of_build (defs_of_axis A add G fs n) r v0) (axis_sem A IX put).
Proof. apply F_mix_axis_defs with (n := n). apply defs_of_axis_are_axis. Qed.
End FMixBuilt.

(** ** (2) what the [well_typed] checker guarantees, edge by edge *)
Section Levels.
Variable g : list node.

(** the typing rule of node [i] holds in the environment [lv] *)
Definition node_ok (lv : lenv) (l : level) (nd : node) : Prop :=
  match n_kind nd with
  | Indep => n_parents nd = [] /\ l = (match n_sig nd with Pop => LPop | Ind => LInd end)
  | Linked k => exists pl, gather lv (n_parents nd) = Some pl /\ level_of_kind k pl = Some l
  end.

Lemma gather_mono (lv lv' : lenv) ps pl : lv_mono lv lv' -> gather lv ps = Some pl -> gather lv' ps = Some pl.
Proof.
  intros Hm. revert pl. induction ps as [|p ps IH]; intros pl H; simpl in *; [exact H|].
  destruct (lv p) as [l|] eqn:E; [|discriminate]. rewrite (Hm _ _ E).
  destruct (gather lv ps) as [pl'|]; [|discriminate]. now rewrite (IH pl' eq_refl).
Qed.

Lemma node_ok_mono lv lv' l nd : lv_mono lv lv' -> node_ok lv l nd -> node_ok lv' l nd.
Proof.
  unfold node_ok. intros Hm. destruct (n_kind nd); [auto|].
  intros (pl & G & K). exists pl. split; [eapply gather_mono; eauto | exact K].
Qed.

Lemma node_level_ok lv i l nd : node_level g lv i = Some l -> nth_error g i = Some nd -> node_ok lv l nd.
Proof.
  unfold node_level, node_ok. intros H E. rewrite E in H. destruct (lv i); [discriminate|].
  destruct (n_kind nd) as [|k].
  - destruct (n_parents nd); [|discriminate]. injection H as <-. auto.
  - destruct (gather lv (n_parents nd)) as [pl|]; [|discriminate].
    destruct (level_of_kind k pl) as [l'|] eqn:K; [|discriminate].
    destruct (sig_eqb (sig_of_level l') (n_sig nd)); [|discriminate]. injection H as <-. eauto.
Qed.

Lemma check_order_ok order : forall lv lvF, check_order g order lv = Some lvF ->
  (forall i l nd, lv i = Some l -> nth_error g i = Some nd -> node_ok lvF l nd) ->
  (forall i l nd, lvF i = Some l -> nth_error g i = Some nd -> node_ok lvF l nd).
Proof.
  induction order as [|i r IH]; simpl; intros lv lvF H Hok.
  - injection H as <-. exact Hok.
  - destruct (node_level g lv i) as [l|] eqn:N; [|discriminate].
    apply (IH _ _ H). intros j l' nd Hj E.
    destruct (Nat.eq_dec j i) as [->|Hne].
    + rewrite upd_same in Hj. injection Hj as <-.
      apply node_ok_mono with (lv := lv); [|eapply node_level_ok; eauto].
      intros a la Ha. apply (check_order_mono g r _ _ H). rewrite upd_other; [exact Ha|].
      intros ->. apply node_level_fresh in N. congruence.
    + rewrite upd_other in Hj by exact Hne. eapply Hok; eauto.
Qed.
End Levels.

Lemma well_typed_node_ok G : well_typed G = true ->
  exists lv, levels G = Some lv /\
    (forall i, i < length (g_nodes G) -> exists l, lv i = Some l) /\
    (forall i l nd, lv i = Some l -> nth_error (g_nodes G) i = Some nd ->
       sig_of_level l = n_sig nd /\ node_ok lv l nd).
Proof.
  intros W. destruct (well_typed_levels G W) as (lv & EL & Cov & Sig). exists lv. split; [exact EL|]. split; [exact Cov|].
  intros i l nd Hl E. split; [eapply Sig; eauto|].
  unfold levels in EL. eapply (check_order_ok (g_nodes G) (g_order G) _ lv EL); eauto. intros ? ? ? H. discriminate H.
Qed.

Lemma gather_in {X} (e : nat -> option X) ps xs p : gather e ps = Some xs -> In p ps -> exists x, e p = Some x /\ In x xs.
Proof.
  revert xs. induction ps as [|q ps IH]; intros xs H Hp; simpl in *; [contradiction|].
  destruct (e q) as [x|] eqn:E; [|discriminate]. destruct (gather e ps) as [xs'|]; [|discriminate]. injection H as <-.
  destruct Hp as [->|Hp]; [exists x; split; [exact E | now left]|].
  destruct (IH xs' eq_refl Hp) as (x' & E' & I'). exists x'. split; [exact E' | now right].
Qed.

Lemma kind_pop_parents k pl : level_of_kind k pl = Some LPop -> forall l, In l pl -> l = LPop.
Proof.
  intros H l Hl. destruct k; simpl in H.
  - destruct (existsb is_ind pl && forallb ind_or_pop pl); discriminate.
  - destruct (forallb (fun l0 => negb (is_ind l0)) pl); [|discriminate].
    destruct (forallb is_pop pl) eqn:E; [|discriminate]. rewrite forallb_forall in E. specialize (E l Hl). now destruct l.
  - destruct pl as [|[] [|[] [|]]]; discriminate.
  - destruct (existsb is_ind pl && forallb ind_or_pop pl); discriminate.
  - destruct (existsb is_ind pl && forallb ind_or_pop pl); discriminate.
  - destruct (forallb (fun l0 => negb (is_ind l0)) pl); [|discriminate].
    destruct (forallb is_pop pl) eqn:E; [|discriminate]. rewrite forallb_forall in E. specialize (E l Hl). now destruct l.
Qed.

(** ** the closure condition of the partial-revert theorems, from [well_typed] *)
Section Closed.
Variable A : Type.
Variable add : A -> A -> A.
Variable G : AxisTypes.graph.
Variable fs : nat -> nodefun A.
Variable n : nat.
Variable r : DagModel.dag.
Variable v0 : aval A.
Hypothesis W : well_typed G = true.

Notation defs := (defs_of_axis A add G fs n).
Notation dg := (dag_of_defs (defs_of_axis A add G fs n)).
Notation gS := (graph_of_build (defs_of_axis A add G fs n) r v0).
Notation N := (length (g_nodes G)).

Hypothesis Hb : DagModel.build dg = DagModel.Ok r.

Lemma def_nth x : x < N -> nth x defs d_default = def_of_node A add fs n x (nth x (g_nodes G) node0).
Proof. intros H. apply nth_error_nth. now apply defs_of_axis_nth. Qed.

Lemma node_nth x : x < N -> nth_error (g_nodes G) x = Some (nth x (g_nodes G) node0).
Proof. intros H. now apply nth_error_nth'. Qed.

(** an edge of the dependency graph handed to the constructor is a parameter of a linked node *)
Lemma edge_axis p c : DagModel.edge dg p c ->
  c < N /\ exists k, n_kind (nth c (g_nodes G) node0) = Linked k /\ In p (n_parents (nth c (g_nodes G) node0)).
Proof.
  unfold DagModel.edge. rewrite dag_parents. intros H.
  destruct (Nat.lt_ge_cases c N) as [Hc|Hc].
  - split; [exact Hc|]. rewrite (def_nth c Hc) in H. unfold def_of_node in H.
    destruct (n_kind (nth c (g_nodes G) node0)) as [|k]; [destruct H|]. exists k. split; [reflexivity | exact H].
  - rewrite nth_overflow in H by (now rewrite defs_of_axis_length). destruct H.
Qed.

Lemma axis_flag k : k < N ->
  ind_axis gS k = sig_is_ind (n_sig (nth (nth k (DagModel.order r) 0) (g_nodes G) node0)).
Proof.
  intros Hk. change (ind_axis gS k) with (d_axis (nth (nth k (DagModel.order r) 0) defs d_default)).
  assert (Hx : nth k (DagModel.order r) 0 < N).
  { rewrite <- (defs_of_axis_length A add G fs n). apply (nm_lt _ _ r Hb). now rewrite defs_of_axis_length. }
  rewrite (def_nth _ Hx). unfold def_of_node. now destruct (n_kind _).
Qed.

Theorem well_typed_axis_closed : forall i q, i < N -> q < N ->
  ind_axis gS i = true -> ind_axis gS q = true -> axis_read_ok gS i q.
Proof.
  intros i q Hi Hq Ai Aq a Ha Hd.
  destruct (well_typed_node_ok G W) as (lv & _ & Cov & Ok).
  assert (LEN : length defs = N) by apply defs_of_axis_length.
  assert (Hi' : i < length defs) by (now rewrite LEN). assert (Hq' : q < length defs) by (now rewrite LEN).
  (* the level of a node whose declared signature is Ind *)
  assert (IndLevel : forall x, x < N -> sig_is_ind (n_sig (nth x (g_nodes G) node0)) = true -> lv x = Some LInd).
  { intros x Hx Sx. destruct (Cov x Hx) as [l Hl]. destruct (Ok x l _ Hl (node_nth x Hx)) as [Sg _].
    destruct (n_sig (nth x (g_nodes G) node0)); [discriminate|]. destruct l; simpl in Sg; congruence. }
  (* one edge *)
  assert (Edge : forall x y, DagModel.edge dg x y -> exists lx ly k pl,
            lv x = Some lx /\ lv y = Some ly /\ In lx pl /\ level_of_kind k pl = Some ly).
  { intros x y E. destruct (edge_axis x y E) as (Hy & k & Kd & Hin).
    destruct (Cov y Hy) as [ly Hly]. destruct (Ok y ly _ Hly (node_nth y Hy)) as [_ NO].
    unfold node_ok in NO. rewrite Kd in NO. destruct NO as (pl & Gt & Lk).
    destruct (gather_in lv _ pl x Gt Hin) as (lx & Hlx & Ilx). exists lx, ly, k, pl. auto. }
  (* below a non-population node nothing is a pure population value *)
  assert (Down : forall x y, DagModel.reach dg x y -> forall lx, lv x = Some lx -> lx <> LPop ->
            exists ly, lv y = Some ly /\ ly <> LPop).
  { unfold DagModel.reach. induction 1 as [x y E | x y z _ IH1 _ IH2]; intros lx Hlx Nx.
    - destruct (Edge x y E) as (lx' & ly & k & pl & H1 & H2 & H3 & H4). exists ly. split; [exact H2|].
      intros ->. rewrite Hlx in H1. injection H1 as <-. apply Nx. eapply kind_pop_parents; eauto.
    - destruct (IH1 lx Hlx Nx) as (ly & Hly & Ny). eapply IH2; eauto. }
  (* above a node that is not an aggregate nothing is an aggregate *)
  assert (Up : forall x y, DagModel.reach dg x y -> forall ly, lv y = Some ly -> ly <> LAgg ->
            exists lx, lv x = Some lx /\ lx <> LAgg).
  { unfold DagModel.reach. induction 1 as [x y E | x y z _ IH1 _ IH2]; intros lz Hlz Nz.
    - destruct (Edge x y E) as (lx & ly & k & pl & H1 & H2 & H3 & H4). exists lx. split; [exact H1|].
      intros ->. rewrite Hlz in H2. injection H2 as <-. apply Nz. eapply kind_parents_agg; eauto.
    - destruct (IH2 lz Hlz Nz) as (ly & Hly & Ny). eapply IH1; eauto. }
  (* the node [a], by name *)
  apply (desc_iff _ defs r v0 Hb i a Hi') in Hd as (y & Ry & ->).
  destruct (reach_lt _ defs r Hb _ _ Ry) as [_ Hy]. assert (HyN : y < N) by (now rewrite <- LEN).
  set (xi := nth i (DagModel.order r) 0) in *. set (xq := nth q (DagModel.order r) 0) in *.
  assert (Hxi : xi < N) by (rewrite <- LEN; apply (nm_lt _ defs r Hb i Hi')).
  assert (Hxq : xq < N) by (rewrite <- LEN; apply (nm_lt _ defs r Hb q Hq')).
  rewrite (axis_flag i Hi) in Ai. rewrite (axis_flag q Hq) in Aq. fold xi in Ai. fold xq in Aq.
  destruct (Down xi y Ry LInd (IndLevel xi Hxi Ai)) as (ly & Hly & NotPop); [discriminate|].
  assert (NotAgg : ly <> LAgg).
  { apply in_app_or in Ha. destruct Ha as [Ha|[Ha|[]]].
    - apply (anc_iff _ defs r v0 Hb q _ Hq') in Ha as (y' & Ry' & Ey).
      assert (y = y') as <-.
      { apply (pos_inj _ defs r Hb); [exact Hy | apply (reach_lt _ defs r Hb _ _ Ry') | exact Ey]. }
      destruct (Up y xq Ry' LInd (IndLevel xq Hxq Aq)) as (ly' & Hly' & NA); [discriminate|]. congruence.
    - assert (y = xq) as ->.
      { apply (pos_inj _ defs r Hb); [exact Hy | now rewrite LEN|]. unfold xq. now rewrite (pos_nm _ defs r Hb q Hq'). }
      rewrite (IndLevel xq Hxq Aq) in Hly. injection Hly as <-. discriminate. }
  assert (ly = LInd) as -> by (destruct ly; congruence).
  destruct (nm_pos _ defs r Hb y Hy) as [Hp Ey].
  rewrite axis_flag by (now rewrite <- LEN). rewrite Ey.
  destruct (Ok y LInd _ Hly (node_nth y HyN)) as [Sg _]. simpl in Sg. now rewrite <- Sg.
Qed.

End Closed.

(** * The composed statements: C15 + C07 discharge the graph hypothesis [WF], the node-function hypothesis [F_mix] and the
      closure hypothesis [axis_read_ok] of the C01 / C02 theorems, for every graph accepted by the [well_typed] checker
      whose definitions the modelled DAG constructor accepts. *)
From Leaspy Require Import State.StateNow State.StateNowProofs State.RevertProofs Sampler.RevertScript Sampler.RevertScriptProofs.

Section Composed.
Variable A : Type.
Variable add : A -> A -> A.
Variable IX : Type.
Variable put : option IX -> aval A -> bool -> aval A -> option (aval A).
Variable G : AxisTypes.graph.
Variable fs : nat -> nodefun A.
Variable n : nat.
Variable r : DagModel.dag.
Variable v0 : aval A.
Hypothesis Hb : DagModel.build (dag_of_defs (defs_of_axis A add G fs n)) = DagModel.Ok r.

Notation g := (graph_of_build (defs_of_axis A add G fs n) r v0).
Notation sm := (axis_sem A IX put).

Lemma axis_built_WF : WF g.
Proof. exact (built_graph_WF _ _ r v0 Hb). Qed.

Lemma axis_built_F_mix : F_mix g sm.
Proof. apply F_mix_axis. Qed.

Lemma axis_gn : gn g = length (g_nodes G).
Proof. rewrite (gn_gS _ _ r v0 Hb). apply defs_of_axis_length. Qed.

(** C01 on these graphs: nothing is assumed but the documented precondition of per-individual reverts *)
Theorem read_is_scratch_axis :
  forall ops, MaskDisciplined g sm (init_store g) ops ->
  forall k i st,
    nth_error (fst (run_now g sm (init_store g) ops)) k = Some st ->
    snd (step_now g sm (fst (run_now g sm (init_store g) ops)) (Get k i)) =
      match scratch g (values st) i with Some v => Ok v | None => Err InputError end.
Proof. intros ops. exact (read_after_history_now _ _ _ g sm axis_built_WF ops axis_built_F_mix). Qed.

Theorem never_stale_axis :
  forall ops, MaskDisciplined g sm (init_store g) ops ->
  forall k i st v,
    nth_error (fst (run_now g sm (init_store g) ops)) k = Some st ->
    snd (step_now g sm (fst (run_now g sm (init_store g) ops)) (Get k i)) = Ok v ->
    scratch g (values st) i = Some v.
Proof. intros ops. exact (never_stale_now _ _ _ g sm axis_built_WF ops axis_built_F_mix). Qed.

(** C02, every later history *)
Theorem later_history_axis (fx chk : bool) : fx = true \/ chk = true ->
  forall (ops : list (op (aval A) (list bool) IX)) (s1 s2 : store (aval A)), sim_store g s1 s2 ->
    Disciplined g sm fx chk s1 ops -> Disciplined g sm fx chk s2 ops ->
    sim_store g (fst (run g sm fx s1 ops)) (fst (run g sm fx s2 ops)) /\
    outs_agree g ops (snd (run g sm fx s1 ops)) (snd (run g sm fx s2 ops)).
Proof. intros Hf ops. exact (sim_run _ _ _ g sm fx chk axis_built_WF Hf ops axis_built_F_mix). Qed.

Hypothesis W : well_typed G = true.

Lemma reads_ok i reads : i < gn g -> ind_axis g i = true ->
  (forall q, In q reads -> q < gn g /\ ind_axis g q = true) ->
  forall q, In q reads -> axis_read_ok g i q.
Proof.
  intros Hi Ai Hr q Hq. destruct (Hr q Hq) as [Hqn Aq]. rewrite axis_gn in *.
  exact (well_typed_axis_closed A add G fs n r v0 W Hb i q Hi Hqn Ai Aq).
Qed.

(** C02, per-individual rejection: the contract on the reads is now literally the documented one —
    "only variables carrying the individual axis". *)
Theorem partial_revert_axis (fx chk : bool) : fx = true \/ chk = true ->
  forall (st : state (aval A)) (i : nat) (o : option (aval A)) (reads : list nat) (m : list bool),
    Good g st -> mode st <> None -> i < gn g -> settable g i = true -> ind_axis g i = true ->
    (forall q, In q reads -> q < gn g /\ ind_axis g q = true) ->
    let st1 := fst (set_state g fx st i o) in
    let st2 := gets g st1 reads in
    shapes_ok g sm m i (values st) (values st2) ->
    let st3 := fst (revert_mask_state sm st2 m) in
    snd (revert_mask_state sm st2 m) = Done /\
    (forall j, In j (i :: desc g i) ->
       values st3 j = match values st j, values st2 j with Some old, Some cur => mix sm m old cur | _, _ => None end) /\
    (forall j, ~ In j (i :: desc g i) -> values st3 j = values st2 j) /\
    (forall j w, ~ In j (i :: desc g i) -> values st j = Some w -> values st3 j = Some w) /\
    (forall j, In j (desc g i) -> ind_axis g j = false -> values st3 j = None) /\
    Good g st3 /\ fork st3 = None /\ mode st3 = mode st.
Proof.
  intros Hf st i o reads m HG Hm Hi Hs Ai Hr.
  exact (partial_revert _ _ _ g sm fx chk axis_built_WF Hf st i o reads m axis_built_F_mix HG Hm Hi Hs Ai
           (reads_ok i reads Hi Ai Hr)).
Qed.

Theorem partial_revert_as_if_axis (fx chk : bool) : fx = true \/ chk = true ->
  forall (st : state (aval A)) (i : nat) (o : option (aval A)) (reads : list nat) (m : list bool),
    Good g st -> mode st <> None -> i < gn g -> settable g i = true -> ind_axis g i = true ->
    (forall q, In q reads -> q < gn g /\ ind_axis g q = true) ->
    let st2 := gets g (fst (set_state g fx st i o)) reads in
    shapes_ok g sm m i (values st) (values st2) ->
    let st3 := fst (revert_mask_state sm st2 m) in
    sim g st3 (forget_fork (fst (set_state g fx st i (values st3 i)))).
Proof.
  intros Hf st i o reads m HG Hm Hi Hs Ai Hr.
  exact (partial_revert_sim _ _ _ g sm fx chk axis_built_WF Hf st i o reads m axis_built_F_mix HG Hm Hi Hs Ai
           (reads_ok i reads Hi Ai Hr)).
Qed.

(** C02, the individual sampler step *)
Theorem ind_step_axis (fx chk : bool) : fx = true \/ chk = true ->
  forall decide x reads (st st' : state (aval A)) d (m : list bool),
    Good g st -> mode st <> None -> x < gn g -> ind_axis g x = true ->
    (forall q, In q reads -> q < gn g /\ ind_axis g q = true) ->
    ind_step g sm fx decide x reads st d = (st', Some m) ->
    exists old new,
      snd (get g (values st) x) = Ok old /\ put_val sm None d true old = Some new /\
      values st' x = mix sm m old new /\
      (forall j, In j (desc g x) -> ind_axis g j = false -> values st' j = None) /\
      (forall j w, ~ In j (x :: desc g x) -> values st j = Some w -> values st' j = Some w) /\
      Good g st' /\ fork st' = None /\ mode st' = mode st /\
      sim g st' (forget_fork (fst (set_state g fx st x (values st' x)))).
Proof.
  intros Hf decide x reads st st' d m HG Hm Hx Ax Hr.
  exact (ind_step_spec _ _ _ g sm fx chk axis_built_WF Hf decide x reads st st' d m axis_built_F_mix HG Hm Ax
           (reads_ok x reads Hx Ax Hr)).
Qed.
End Composed.
