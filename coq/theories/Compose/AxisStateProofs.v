(** Composition C07 -> C01/C02, proofs.
    (1) [F_mix] — node functions of per-individual nodes commute with the row-wise selection of a partial revert —
        is a THEOREM for every node whose function is given by an op-kind of AxisTypes.v, with any number of parents
        (Pointwise / RowMatMul / ReduceOther by row-locality; ReduceInd / BroadcastPop / Opaque deliver a population
        value, which the selection refuses, so nothing is asked of them).
    (2) For graphs accepted by the [well_typed] checker the documented contract on the reads between a per-individual
        proposal and its decision — "only variables carrying the individual axis" — implies the closure condition
        [axis_read_ok] that the partial-revert theorems of C02 need (DESIGN.md: AxisClosed). *)
From Coq Require Import List Bool Arith PeanoNat Lia Relations.
From Leaspy Require Import Locality.AxisTypes Locality.AxisProofs.
From Leaspy Require Dag.DagModel Dag.DagProofs.
From Leaspy Require Import State.StateModel State.StateProofs State.Revert.
From Leaspy Require Import Compose.DagState Compose.DagStateProofs Compose.AxisState.
Import ListNotations.

Section Select.
Variable A : Type.

Lemma select_length (m : list bool) : forall (o c : list (row A)),
  length o = length m -> length c = length m -> length (select A m o c) = length m.
Proof.
  induction m as [|b m IH]; intros [|x o] [|y c] Ho Hc; simpl in *; try discriminate; auto.
Qed.

Lemma select_nth (m : list bool) : forall (o c : list (row A)) j,
  length o = length m -> length c = length m -> j < length m ->
  nth j (select A m o c) [] = if nth j m false then nth j o [] else nth j c [].
Proof.
  induction m as [|b m IH]; intros [|x o] [|y c] j Ho Hc Hj; simpl in *; try discriminate; try lia.
  destruct j as [|j]; [reflexivity|]. apply IH; lia.
Qed.

Lemma select_map_seq (m : list bool) (F1 F2 : nat -> row A) :
  select A m (map F1 (seq 0 (length m))) (map F2 (seq 0 (length m))) =
  map (fun j => if nth j m false then F1 j else F2 j) (seq 0 (length m)).
Proof.
  apply nth_ext with (d := []) (d' := []).
  - rewrite select_length, map_length, seq_length; rewrite ?map_length, ?seq_length; reflexivity.
  - intros j Hj. rewrite select_length in Hj by (now rewrite map_length, seq_length).
    rewrite select_nth by (rewrite ?map_length, ?seq_length; auto).
    rewrite !nth_map_seq by exact Hj. reflexivity.
Qed.
End Select.

Section FMix.
Variable A : Type.
Variable add : A -> A -> A.
Variable IX : Type.
Variable put : option IX -> aval A -> bool -> aval A -> option (aval A).

Notation sm := (axis_sem A IX put).

Lemma axis_mix_inv m (old cur : aval A) x : axis_mix A m old cur = Some x ->
  exists o c, old = Some (VInd o) /\ cur = Some (VInd c) /\ length o = length m /\ length c = length m /\
              x = Some (VInd (select A m o c)).
Proof.
  unfold axis_mix. destruct old as [[|o]|]; try discriminate. destruct cur as [[|c]|]; try discriminate.
  destruct (Nat.eqb_spec (length o) (length m)) as [Ho|]; [|discriminate].
  destruct (Nat.eqb_spec (length c) (length m)) as [Hc|]; [|discriminate].
  simpl. intros [= <-]. exists o, c. auto.
Qed.

(** what a row-wise selected argument list looks like to a node function *)
Lemma mixed_args_sequence m sel ps olds curs news :
  mixed_args sm m sel ps olds curs news ->
  forall vo vc, sequence A olds = Some vo -> sequence A curs = Some vc ->
  exists vn, sequence A news = Some vn /\
    pops_of A vn = pops_of A vo /\ pops_of A vn = pops_of A vc /\
    forall j, j < length m ->
      slice A j (inds_of A vn) = if nth j m false then slice A j (inds_of A vo) else slice A j (inds_of A vc).
Proof.
  induction 1 as [|p ps o os c cs x xs Hs Hm _ IH | p ps os c cs xs Hs _ IH]; intros vo vc Ho Hc.
  - injection Ho as <-. injection Hc as <-. exists []. repeat split; auto. intros j _. now destruct (nth j m false).
  - apply axis_mix_inv in Hm as (ro & rc & -> & -> & Lo & Lc & ->).
    simpl in Ho, Hc |- *.
    destruct (sequence A os) as [vo'|]; [|discriminate]. destruct (sequence A cs) as [vc'|]; [|discriminate].
    injection Ho as <-. injection Hc as <-.
    destruct (IH vo' vc' eq_refl eq_refl) as (vn & -> & P1 & P2 & S).
    exists (VInd (select A m ro rc) :: vn). simpl. repeat split; auto.
    intros j Hj. change (nth j (select A m ro rc) [] :: slice A j (inds_of A vn) =
      if nth j m false then nth j ro [] :: slice A j (inds_of A vo') else nth j rc [] :: slice A j (inds_of A vc')).
    rewrite (S j Hj), (select_nth A m ro rc j Lo Lc Hj). now destruct (nth j m false).
  - simpl in Ho, Hc |- *. destruct c as [v|]; [|discriminate].
    destruct (sequence A os) as [vo'|]; [|discriminate]. destruct (sequence A cs) as [vc'|]; [|discriminate].
    injection Ho as <-. injection Hc as <-.
    destruct (IH vo' vc' eq_refl eq_refl) as (vn & -> & P1 & P2 & S).
    exists (v :: vn). destruct v as [rw|rows]; simpl.
    + split; [reflexivity|]. split; [now rewrite P1|]. split; [now rewrite P2 | exact S].
    + split; [reflexivity|]. split; [exact P1|]. split; [exact P2|]. intros j Hj.
      change (nth j rows [] :: slice A j (inds_of A vn) =
        if nth j m false then nth j rows [] :: slice A j (inds_of A vo') else nth j rows [] :: slice A j (inds_of A vc')).
      rewrite (S j Hj). now destruct (nth j m false).
Qed.

(** ** (1) the op-kind semantics gives [F_mix], for any kind and any number of parents *)
Theorem axis_fun_mix (k : opkind) (f : nodefun A) (n : nat) m sel ps olds curs news x :
  mixed_args sm m sel ps olds curs news ->
  axis_mix A m (axis_fun A add k f n olds) (axis_fun A add k f n curs) = Some x ->
  axis_fun A add k f n news = x.
Proof.
  intros HM Hx. apply axis_mix_inv in Hx as (ro & rc & Eo & Ec & Lo & Lc & ->).
  unfold axis_fun in *.
  destruct (sequence A olds) as [vo|] eqn:So; [|discriminate].
  destruct (sequence A curs) as [vc|] eqn:Sc; [|discriminate].
  destruct (mixed_args_sequence m sel ps olds curs news HM vo vc So Sc) as (vn & -> & P1 & P2 & S).
  assert (RL : forall vs rows, apply_kind A add k f n vs = Some (VInd rows) ->
            rows = map (fun j => frow f (pops_of A vs) (slice A j (inds_of A vs))) (seq 0 n) /\
            forall vs', apply_kind A add k f n vs' = Some (VInd (map (fun j => frow f (pops_of A vs') (slice A j (inds_of A vs'))) (seq 0 n)))).
  { intros vs rows H. unfold apply_kind in *. destruct k; try discriminate;
      try (injection H as <-; split; [reflexivity | intros; reflexivity]);
      destruct (all_pop A vs); discriminate. }
  destruct (RL vo ro Eo) as [-> Hn]. destruct (RL vc rc Ec) as [-> _]. rewrite (Hn vn).
  rewrite map_length, seq_length in Lo. subst n.
  rewrite select_map_seq. do 2 f_equal. apply map_ext_in. intros j Hj. apply in_seq in Hj.
  rewrite (S j) by lia. rewrite P1 at 1. destruct (nth j m false); [reflexivity|]. now rewrite <- P1, P2.
Qed.
End FMix.

(** ** [F_mix] for every State graph built from definitions whose linked functions are op-kind functions *)
Section FMixBuilt.
Variable A : Type.
Variable add : A -> A -> A.
Variable IX : Type.
Variable put : option IX -> aval A -> bool -> aval A -> option (aval A).

Definition axis_defs (n : nat) (defs : list (vdef (aval A))) : Prop :=
  forall x a ps f, nth_error defs x = Some (DLinked a ps f) -> exists k fn, f = axis_fun A add k fn n.

Theorem F_mix_axis_defs n defs r v0 : axis_defs n defs ->
  F_mix (graph_of_build defs r v0) (axis_sem A IX put).
Proof.
  intros HD k m sel olds curs news x _ Hl _ HM _ _ Hx.
  change (F (graph_of_build defs r v0) k) with (d_fun v0 (nth (nth k (DagModel.order r) 0) defs d_default)) in *.
  change (linked (graph_of_build defs r v0) k) with (d_linked (nth (nth k (DagModel.order r) 0) defs d_default)) in Hl.
  set (y := nth k (DagModel.order r) 0) in *.
  destruct (nth_error defs y) as [d|] eqn:E.
  - rewrite (nth_error_nth defs y d_default E) in *. destruct d as [hv|a|a ps f]; try discriminate Hl.
    destruct (HD y a ps f E) as (kd & fn & ->). cbn [d_fun] in *.
    exact (axis_fun_mix A add IX put kd fn n m sel _ olds curs news x HM Hx).
  - apply nth_error_None in E. rewrite (nth_overflow defs d_default E) in Hl. discriminate Hl.
Qed.

Lemma defs_of_axis_length G fs n : length (defs_of_axis A add G fs n) = length (g_nodes G).
Proof. unfold defs_of_axis. now rewrite map_length, seq_length. Qed.

Lemma defs_of_axis_nth G fs n x : x < length (g_nodes G) ->
  nth_error (defs_of_axis A add G fs n) x = Some (def_of_node A add fs n x (nth x (g_nodes G) node0)).
Proof.
  intros H. unfold defs_of_axis.
  rewrite (nth_error_nth' _ d_default) by (now rewrite map_length, seq_length). f_equal.
  rewrite (nth_indep _ d_default (def_of_node A add fs n 0 (nth 0 (g_nodes G) node0))) by (now rewrite map_length, seq_length).
  rewrite (map_nth (fun i => def_of_node A add fs n i (nth i (g_nodes G) node0)) (seq 0 (length (g_nodes G))) 0 x).
  now rewrite seq_nth.
Qed.

Lemma defs_of_axis_are_axis G fs n : axis_defs n (defs_of_axis A add G fs n).
Proof.
  intros x a ps f E.
  assert (Hx : x < length (g_nodes G)).
  { rewrite <- (defs_of_axis_length G fs n). apply nth_error_Some. congruence. }
  rewrite (defs_of_axis_nth G fs n x Hx) in E. injection E as E. unfold def_of_node in E.
  destruct (n_kind (nth x (g_nodes G) node0)) as [|k]; [discriminate|]. injection E as _ _ <-. eauto.
Qed.

(** [F_mix] is no longer a hypothesis for the graphs of the type system — whatever the graph, the node functions
    [fs], the number of individuals and the order [r] it was built in. *)
Corollary F_mix_axis G fs n r v0 :
  F_mix (graph_of_build (defs_of_axis A add G fs n) r v0) (axis_sem A IX put).
Proof. apply F_mix_axis_defs with (n := n). apply defs_of_axis_are_axis. Qed.
End FMixBuilt.
