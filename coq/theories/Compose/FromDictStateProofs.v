(** Composition C15 (extension 4: [from_dict]) -> C01/C02, proofs.  No axioms.

    (1) [dag_of_sdefs]: the [direct_ancestors] mapping Compose/DagState.v starts from ([dag_of_defs]) IS, for the
        definitions obtained from the signatures, the mapping [FromDict.direct_ancestors] derives with
        [get_named_parameters] — so [from_dict ds = FOk r] is [build (dag_of_defs (sdefs ds)) = Ok r].
    (2) hence every [_built] theorem of DagStateProofs.v holds with the single hypothesis [from_dict ds = FOk r],
        and the [parents] of the State graph are exactly the NAMED PARAMETERS of the node functions, re-indexed. *)
From Coq Require Import List Arith Bool PeanoNat Lia.
From Leaspy Require Dag.DagModel Dag.DagProofs Dag.GraphLit Dag.FromDict Dag.FromDictProofs.
From Leaspy Require Import State.StateModel State.StateProofs State.StateNow State.StateNowProofs.
From Leaspy Require Import Compose.DagState Compose.DagStateProofs Compose.FromDictState.
Import ListNotations.

Section Sdefs.
Variable V : Type.
Variable hv : nat -> V.
Variable ax : nat -> bool.
Variable fs : nat -> list V -> V.

Local Notation sdef_of := (sdef_of V hv ax fs).
Local Notation sdefs_from := (sdefs_from V hv ax fs).
Local Notation sdefs := (sdefs V hv ax fs).

Lemma sdefs_from_length ds : forall i, length (sdefs_from i ds) = length ds.
Proof. induction ds as [|d ds IH]; intros i; simpl; [reflexivity | now rewrite IH]. Qed.

Lemma sdefs_length ds : length (sdefs ds) = length ds.
Proof. apply sdefs_from_length. Qed.

Lemma sdefs_from_nth ds : forall i k d, nth_error ds k = Some d ->
  nth_error (sdefs_from i ds) k = Some (sdef_of (i + k) d).
Proof.
  induction ds as [|d0 ds IH]; intros i [|k] d E; simpl in *; try discriminate.
  - injection E as ->. now rewrite Nat.add_0_r.
  - rewrite (IH (S i) k d E). now rewrite Nat.add_succ_r.
Qed.

Lemma sdefs_nth ds k d : nth_error ds k = Some d -> nth_error (sdefs ds) k = Some (sdef_of k d).
Proof. intros E. exact (sdefs_from_nth ds 0 k d E). Qed.

(** the parameter list of the State-level definition is what [get_ancestors_names] returns *)
Lemma d_params_sdef_of i d ps : FromDict.ancestors_names d = Some ps -> d_params (sdef_of i d) = ps.
Proof.
  destruct d as [k|c]; simpl.
  - intros [= <-]. now destruct k.
  - unfold names_of. destruct (FromDict.get_named_parameters c); [now intros [= <-] | discriminate].
Qed.

(** (1) [dag_of_defs] of the definitions obtained from the signatures = the [direct_ancestors] of [from_dict] *)
Lemma dag_of_sdefs_from ds : forall i g, FromDict.direct_ancestors ds = Some g -> dag_of_defs (sdefs_from i ds) = g.
Proof.
  induction ds as [|d ds IH]; intros i g; simpl.
  - now intros [= <-].
  - destruct (FromDict.ancestors_names d) as [ps|] eqn:Ea; [|discriminate].
    destruct (FromDict.direct_ancestors ds) as [g'|] eqn:Eg; [|discriminate].
    intros [= <-]. unfold dag_of_defs in *. simpl. rewrite (d_params_sdef_of i d ps Ea). f_equal. now apply IH.
Qed.

Theorem dag_of_sdefs ds g : FromDict.direct_ancestors ds = Some g -> dag_of_defs (sdefs ds) = g.
Proof. apply dag_of_sdefs_from. Qed.

(** ... and conversely, whenever no signature is refused *)
Theorem direct_ancestors_is_dag_of_sdefs ds : ~ FromDict.bad_signature ds ->
  FromDict.direct_ancestors ds = Some (dag_of_defs (sdefs ds)).
Proof.
  intros H. destruct (FromDict.direct_ancestors ds) as [g|] eqn:E.
  - now rewrite (dag_of_sdefs ds g E).
  - exfalso. apply H. now apply FromDictProofs.direct_ancestors_none.
Qed.

(** [from_dict], in terms of the constructor model [DagState] starts from *)
Theorem from_dict_is_build_of_sdefs ds :
  FromDict.from_dict ds =
    match FromDict.direct_ancestors ds with
    | None => FromDict.FErr FromDict.FSignature
    | Some _ => FromDict.lift (DagModel.build (dag_of_defs (sdefs ds)))
    end.
Proof.
  rewrite FromDictProofs.from_dict_unfold. destruct (FromDict.direct_ancestors ds) as [g|] eqn:E; [|reflexivity].
  now rewrite (dag_of_sdefs ds g E).
Qed.

Theorem from_dict_ok_iff ds r :
  FromDict.from_dict ds = FromDict.FOk r <->
  ~ FromDict.bad_signature ds /\ DagModel.build (dag_of_defs (sdefs ds)) = DagModel.Ok r.
Proof.
  rewrite from_dict_is_build_of_sdefs. rewrite <- FromDictProofs.direct_ancestors_none.
  destruct (FromDict.direct_ancestors ds) as [g|].
  - destruct (DagModel.build (dag_of_defs (sdefs ds))) as [r'|e]; simpl; split.
    + intros [= ->]. split; [discriminate | reflexivity].
    + now intros [_ [= ->]].
    + discriminate.
    + intros [_ H]. discriminate H.
  - split; [discriminate|]. intros [H _]. now elim H.
Qed.

Corollary from_dict_build ds r :
  FromDict.from_dict ds = FromDict.FOk r -> DagModel.build (dag_of_defs (sdefs ds)) = DagModel.Ok r.
Proof. intros H. now apply from_dict_ok_iff in H. Qed.

Theorem from_dict_is_build_of_state_definitions ds :
  (forall g, FromDict.direct_ancestors ds = Some g -> dag_of_defs (sdefs ds) = g) /\
  (~ FromDict.bad_signature ds -> FromDict.direct_ancestors ds = Some (dag_of_defs (sdefs ds))) /\
  (forall r, FromDict.from_dict ds = FromDict.FOk r <->
             ~ FromDict.bad_signature ds /\ DagModel.build (dag_of_defs (sdefs ds)) = DagModel.Ok r).
Proof.
  split; [exact (dag_of_sdefs ds)|]. split; [exact (direct_ancestors_is_dag_of_sdefs ds) | exact (from_dict_ok_iff ds)].
Qed.

(** * (2) the State graph from the definitions *)
Section Graph.
Variable ds : list FromDict.vdef.
Variable r : DagModel.dag.
Variable v0 : V.
Hypothesis Hfd : FromDict.from_dict ds = FromDict.FOk r.

Let Hb : DagModel.build (dag_of_defs (sdefs ds)) = DagModel.Ok r := from_dict_build ds r Hfd.
Local Notation gS := (graph_from_definitions V hv ax fs ds r v0).

Theorem graph_from_definitions_WF : WF gS.
Proof. exact (built_graph_WF V (sdefs ds) r v0 Hb). Qed.

Lemma gn_from_definitions : gn gS = length ds.
Proof. unfold graph_from_definitions. rewrite (gn_gS V (sdefs ds) r v0 Hb). apply sdefs_length. Qed.

(** the parents of a State node are exactly the named parameters of the function defining it (by name:
    [nth k (order r) 0] is the name of State node [k], [index_of q (order r)] the State node of name [q]) *)
Theorem parents_are_named_parameters k p : k < length ds ->
  (In p (parents gS k) <->
   exists q, FromDict.is_param_of ds q (nth k (DagModel.order r) 0) /\ p = index_of q (DagModel.order r)).
Proof.
  intros Hk. rewrite <- sdefs_length in Hk.
  unfold graph_from_definitions. rewrite (parents_iff V (sdefs ds) r v0 k p Hk).
  destruct (FromDictProofs.from_dict_edges_exact ds r Hfd) as (g & Eg & _ & _ & Ed & _).
  rewrite (dag_of_sdefs ds g Eg).
  split; intros (q & Hq & ->); exists q; (split; [now apply Ed | reflexivity]).
Qed.

(** a State node is [linked] exactly when its definition is a [LinkedVariable]; settable exactly when it is an
    independent variable that is no hyper-parameter *)
Theorem linked_from_definitions k : k < length ds ->
  (linked gS k = true <-> exists c, nth_error ds (nth k (DagModel.order r) 0) = Some (FromDict.DLinked c)).
Proof.
  intros Hk. rewrite <- sdefs_length in Hk.
  pose proof (nm_lt V (sdefs ds) r Hb k Hk) as Hx. cbv zeta in Hx. rewrite sdefs_length in Hx.
  set (x := nth k (DagModel.order r) 0) in *.
  change (linked gS k) with (d_linked (nth x (sdefs ds) d_default)).
  destruct (nth_error ds x) as [d|] eqn:E; [|apply nth_error_None in E; lia].
  rewrite (nth_error_nth _ _ d_default (sdefs_nth ds x d E)).
  destruct d as [kd|c]; simpl.
  - split; [destruct kd; discriminate | intros (c & H); discriminate].
  - split; eauto.
Qed.

End Graph.
End Sdefs.

Theorem graph_from_definitions_wf_parents (V : Type) hv ax fs (ds : list FromDict.vdef) (r : DagModel.dag) (v0 : V) :
  FromDict.from_dict ds = FromDict.FOk r ->
  WF (graph_from_definitions V hv ax fs ds r v0) /\
  gn (graph_from_definitions V hv ax fs ds r v0) = length ds /\
  forall k p, k < length ds ->
    (In p (parents (graph_from_definitions V hv ax fs ds r v0) k) <->
     exists q, FromDict.is_param_of ds q (nth k (DagModel.order r) 0) /\ p = index_of q (DagModel.order r)).
Proof.
  intros H.
  split; [exact (graph_from_definitions_WF V hv ax fs ds r v0 H)|].
  split; [exact (gn_from_definitions V hv ax fs ds r v0 H)|].
  exact (parents_are_named_parameters V hv ax fs ds r v0 H).
Qed.

(** * End to end: from the definitions WITH THEIR FUNCTION SIGNATURES to every read of every history.
    The only hypothesis on the graph side is that [from_dict] accepted the definitions. *)
Section EndToEnd.
Variables V M IX : Type.
Variable hv : nat -> V.
Variable ax : nat -> bool.
Variable fs : nat -> list V -> V.
Variable ds : list FromDict.vdef.
Variable r : DagModel.dag.
Variable v0 : V.
Variable sm : sem V M IX.
Hypothesis Hfd : FromDict.from_dict ds = FromDict.FOk r.

Local Notation g := (graph_from_definitions V hv ax fs ds r v0).
Let Hb := from_dict_build V hv ax fs ds r Hfd.

Theorem never_stale_from_definitions : F_mix g sm ->
  forall ops, MaskDisciplined g sm (init_store g) ops ->
  forall k i st v,
    nth_error (fst (run_now g sm (init_store g) ops)) k = Some st ->
    snd (step_now g sm (fst (run_now g sm (init_store g) ops)) (Get k i)) = Ok v ->
    scratch g (values st) i = Some v.
Proof. exact (never_stale_built V M IX (sdefs V hv ax fs ds) r v0 sm Hb). Qed.

Theorem read_is_scratch_from_definitions : F_mix g sm ->
  forall ops, MaskDisciplined g sm (init_store g) ops ->
  forall k i st,
    nth_error (fst (run_now g sm (init_store g) ops)) k = Some st ->
    snd (step_now g sm (fst (run_now g sm (init_store g) ops)) (Get k i)) =
      match scratch g (values st) i with Some v => Ok v | None => Err InputError end.
Proof. exact (read_is_scratch_built V M IX (sdefs V hv ax fs ds) r v0 sm Hb). Qed.

Theorem never_stale_full_reverts_from_definitions :
  forall ops, forallb (@no_partial_revert V M IX) ops = true ->
  forall k i st v,
    nth_error (fst (run_now g sm (init_store g) ops)) k = Some st ->
    snd (step_now g sm (fst (run_now g sm (init_store g) ops)) (Get k i)) = Ok v ->
    scratch g (values st) i = Some v.
Proof. exact (never_stale_full_reverts_built V M IX (sdefs V hv ax fs ds) r v0 sm Hb). Qed.

(** reads by NAME: the from-scratch value of the definitions ([Eval], no order, no graph), where the parameter list of
    every linked definition is the one computed from its signature *)
Theorem read_by_name_from_definitions : F_mix g sm ->
  forall ops, MaskDisciplined g sm (init_store g) ops ->
  forall k x st, x < length ds ->
    nth_error (fst (run_now g sm (init_store g) ops)) k = Some st ->
    let res := snd (step_now g sm (fst (run_now g sm (init_store g) ops)) (Get k (index_of x (DagModel.order r)))) in
    (forall v, res = Ok v <-> Eval (sdefs V hv ax fs ds) (by_name V r (values st)) x v) /\
    (res = Err InputError <-> forall v, ~ Eval (sdefs V hv ax fs ds) (by_name V r (values st)) x v) /\
    (forall e, res = Err e -> e = InputError).
Proof.
  intros Fm ops HD k x st Hx. rewrite <- (sdefs_length V hv ax fs ds) in Hx.
  exact (read_by_name_built V M IX (sdefs V hv ax fs ds) r v0 sm Hb Fm ops HD k x st Hx).
Qed.
End EndToEnd.

(** Acceptance side: definitions whose signatures are all keyword-only and that have no unknown / self / isolated /
    cyclic dependency ARE accepted ([from_dict_accepts_iff]), so the theorems above are about all of them. *)
Theorem accepted_definitions_have_WF_graph (V : Type) hv ax fs (ds : list FromDict.vdef) (v0 : V) :
  ~ FromDict.bad_signature ds -> ~ FromDict.unknown_param ds -> ~ FromDict.self_param ds ->
  ~ FromDict.isolated_def ds -> ~ FromDict.cyclic_defs ds ->
  exists r, FromDict.from_dict ds = FromDict.FOk r /\ WF (graph_from_definitions V hv ax fs ds r v0).
Proof.
  intros H1 H2 H3 H4 H5.
  destruct (proj2 (FromDictProofs.from_dict_accepts_iff ds)) as [r Hr]; [tauto|].
  exists r. split; [exact Hr | now apply graph_from_definitions_WF].
Qed.

(** * Everything at once, from the single fact that [from_dict] accepted the definitions *)
Theorem from_dict_state_sound ds r : FromDict.from_dict ds = FromDict.FOk r -> state_sound_from_definitions ds r.
Proof.
  intros H V M IX hv ax fs v0 sm g. subst g.
  split; [now apply graph_from_definitions_WF|].
  split; [now apply gn_from_definitions|].
  split; [intros k p; now apply parents_are_named_parameters|].
  split.
  - now apply never_stale_full_reverts_from_definitions.
  - now apply never_stale_from_definitions.
Qed.

Theorem accepted_b_state_sound ds : accepted_b ds = true ->
  exists r, FromDict.from_dict ds = FromDict.FOk r /\ state_sound_from_definitions ds r.
Proof.
  unfold accepted_b. destruct (FromDict.from_dict ds) as [r|e] eqn:E; [|discriminate].
  intros _. exists r. split; [reflexivity | now apply from_dict_state_sound].
Qed.

(** for a list of labelled definition lists (the shape of the regenerated [GenC15Defs.shipped_defs]) *)
Theorem accepted_all_state_sound {L : Type} (l : list (L * list FromDict.vdef)) :
  forallb (fun p => accepted_b (snd p)) l = true ->
  forall lbl ds, In (lbl, ds) l ->
    exists r, FromDict.from_dict ds = FromDict.FOk r /\ state_sound_from_definitions ds r.
Proof.
  intros H lbl ds Hin. rewrite forallb_forall in H. apply accepted_b_state_sound. exact (H _ Hin).
Qed.

(** * A generic way to exhibit concrete runs: if a computed check says that, after a history without per-individual revert
      on a well-formed graph, every variable reads [Ok _], then every such read is the from-scratch value. *)
Lemma seq_in_lt n i : In i (seq 0 n) -> i < n.
Proof. intros H. apply in_seq in H. lia. Qed.
Lemma lt_in_seq n i : i < n -> In i (seq 0 n).
Proof. intros H. apply in_seq. lia. Qed.

Theorem all_reads_fresh (V M IX : Type) (g : graph V) (sm : sem V M IX) (ops : list (op V M IX)) :
  WF g -> forallb (@no_partial_revert V M IX) ops = true ->
  forallb (fun i => is_ok (snd (step_now g sm (fst (run_now g sm (init_store g) ops)) (Get 0 i)))) (seq 0 (gn g)) = true ->
  (match nth_error (fst (run_now g sm (init_store g) ops)) 0 with Some _ => true | None => false end) = true ->
  exists st, nth_error (fst (run_now g sm (init_store g) ops)) 0 = Some st /\
    forall i, i < gn g -> exists v,
      snd (step_now g sm (fst (run_now g sm (init_store g) ops)) (Get 0 i)) = Ok v /\ scratch g (values st) i = Some v.
Proof.
  intros W H2 H3 H4.
  destruct (nth_error (fst (run_now g sm (init_store g) ops)) 0) as [st|] eqn:E; [|discriminate H4].
  exists st. split; [reflexivity|]. intros i Hi.
  rewrite forallb_forall in H3. specialize (H3 i (lt_in_seq _ _ Hi)).
  destruct (snd (step_now g sm (fst (run_now g sm (init_store g) ops)) (Get 0 i))) as [v|b| |e] eqn:Er; try discriminate H3.
  exists v. split; [reflexivity|].
  exact (never_stale_full_reverts_nomix V M IX g sm W ops H2 0 i st v E Er).
Qed.
