(** C07 x C17 — proofs: oracles defined by the evaluation of [LInd] nodes of a well-typed graph are [row_local]; hence
    [chain_local] without any hypothesis on the oracles ([chain_local_graph]). *)
From Coq Require Import ZArith QArith List Bool Arith Lia.
From Leaspy Require Import Base.QAux Sampler.SamplerModel Saem.Anneal Sampler.AdaptiveStd Api.Personalize Api.PersonalizeChain
  Api.PersonalizeChainProofs Compose.ChainLocality Compose.ChainLocalityProofs
  Locality.AxisTypes Locality.AxisProofs Locality.Shipped Compose.ChainGraph.
Import ListNotations.
Close Scope Q_scope.

Lemma collect_nth {X} : forall (l : list (option X)) xs j a,
  collect l = Some xs -> nth_error xs j = Some a -> nth_error l j = Some (Some a).
Proof.
  induction l as [|[x|] l IH]; intros xs j a H E; simpl in H.
  - inversion H; subst. destruct j; discriminate.
  - destruct (collect l) as [ys|] eqn:C; [|discriminate]. inversion H; subst. destruct j as [|j]; simpl in *.
    + congruence.
    + eapply IH; eauto.
  - discriminate.
Qed.

Lemma level_is_ind G x : level_is G LInd x = true -> level_at G x = Some LInd.
Proof. unfold level_is. destruct (level_at G x) as [[| |]|]; intros H; try discriminate; reflexivity. Qed.

Section RowLocal.
  Variable A : Type.
  Variable add : A -> A -> A.
  Variable G : graph.
  Variable fs : nat -> nodefun A.
  Variable lat : list nat.
  Variables n1 n2 j1 j2 : nat.
  Hypothesis Hj1 : j1 < n1.
  Hypothesis Hj2 : j2 < n2.
  Variable sizes : list nat.
  Variables base1 base2 : nat -> value A.
  (** the fixed inputs of the two cohorts: same population values, same rows of the data for this individual *)
  Hypothesis Hbase : indep_inputs_related A G (fun v1 v2 => reindex A [j1] v1 = reindex A [j2] v2) base1 base2.

  Lemma inputs_of_related st1 st2 :
    shaped n1 sizes st1 -> shaped n2 sizes st2 -> own j1 st1 = own j2 st2 ->
    indep_inputs_related A G (fun v1 v2 => reindex A [j1] v1 = reindex A [j2] v2)
                         (inputs_of A lat base1 st1) (inputs_of A lat base2 st2).
  Proof.
    intros S1 S2 Ho i nd E K. unfold inputs_of. destruct (pos_of i lat) as [v|]; [|exact (Hbase i nd E K)].
    pose proof (Forall2_nth_error _ _ _ S1 v) as F1. pose proof (Forall2_nth_error _ _ _ S2 v) as F2.
    assert (Hv : nth_error (own j1 st1) v = nth_error (own j2 st2) v) by (now rewrite Ho).
    unfold own in Hv. rewrite !nth_error_map in Hv.
    destruct (nth_error st1 v) as [t1|] eqn:E1, (nth_error st2 v) as [t2|] eqn:E2; simpl in Hv; try discriminate.
    - destruct (nth_error sizes v) as [s|]; [|contradiction].
      destruct F1 as (rows1 & -> & L1 & _). destruct F2 as (rows2 & -> & L2 & _).
      simpl in Hv. injection Hv as Hv.
      destruct (nth_error rows1 j1) as [r|] eqn:R1.
      + symmetry in Hv. unfold reindex, AxisTypes.reindex_rows. cbn [map]. f_equal. f_equal.
        transitivity (flat r); [|symmetry]; apply nth_error_nth; rewrite nth_error_map; [rewrite R1|rewrite Hv]; reflexivity.
      + exfalso. apply nth_error_None in R1. lia.
    - exact (Hbase i nd E K).
  Qed.

  Lemma gather_rows_local inp1 inp2 :
    indep_inputs_related A G (fun v1 v2 => reindex A [j1] v1 = reindex A [j2] v2) inp1 inp2 ->
    forall xs vs1 vs2, forallb (level_is G LInd) xs = true ->
      gather (eval A add G fs inp1 n1) xs = Some vs1 -> gather (eval A add G fs inp2 n2) xs = Some vs2 ->
      map (vrow A j1) vs1 = map (vrow A j2) vs2.
  Proof.
    intros Hin. induction xs as [|x xs IH]; intros vs1 vs2 L G1 G2; simpl in *.
    - inversion G1; inversion G2; reflexivity.
    - apply andb_prop in L as [Lx L].
      destruct (eval A add G fs inp1 n1 x) as [v1|] eqn:E1; [|discriminate].
      destruct (gather (eval A add G fs inp1 n1) xs) as [r1|]; [|discriminate].
      destruct (eval A add G fs inp2 n2 x) as [v2|] eqn:E2; [|discriminate].
      destruct (gather (eval A add G fs inp2 n2) xs) as [r2|]; [|discriminate].
      inversion G1; inversion G2; subst. simpl. f_equal.
      + apply (locality_thm A add G fs n1 n2 j1 j2 inp1 inp2 Hj1 Hj2 Hin x LInd (level_is_ind _ _ Lx)); [discriminate|exact E1|exact E2].
      + apply IH; auto.
  Qed.

  (** THE INSTANTIATION: an oracle that reads, row by row, nodes typed [LInd] by the checker is row-local.  ([level_is G LInd x = true]
      already says that the checker accepted the evaluation order: [levels G] is defined; [well_typed] adds that every node is
      covered, which the shipped corollary has from [C07_shipped_well_typed].) *)
  Theorem row_local_of_graph xs h : forallb (level_is G LInd) xs = true ->
    row_local n1 n2 j1 j2 sizes (graph_oracle A add G fs lat base1 n1 xs h) (graph_oracle A add G fs lat base2 n2 xs h).
  Proof.
    intros L st1 st2 S1 S2 Ho a1 a2 E1 E2. unfold graph_oracle in E1, E2.
    destruct (gather (eval A add G fs (inputs_of A lat base1 st1) n1) xs) as [vs1|] eqn:G1; [|destruct j1; discriminate].
    destruct (gather (eval A add G fs (inputs_of A lat base2 st2) n2) xs) as [vs2|] eqn:G2; [|destruct j2; discriminate].
    destruct (collect (map (fun j => h (map (vrow A j) vs1)) (seq 0 n1))) as [l1|] eqn:C1; [|destruct j1; discriminate].
    destruct (collect (map (fun j => h (map (vrow A j) vs2)) (seq 0 n2))) as [l2|] eqn:C2; [|destruct j2; discriminate].
    pose proof (collect_nth _ _ _ _ C1 E1) as N1. pose proof (collect_nth _ _ _ _ C2 E2) as N2.
    rewrite nth_error_map in N1, N2.
    rewrite (nth_error_nth' (seq 0 n1) 0) in N1 by (now rewrite seq_length).
    rewrite (nth_error_nth' (seq 0 n2) 0) in N2 by (now rewrite seq_length).
    rewrite seq_nth in N1, N2 by assumption. simpl in N1, N2.
    rewrite (gather_rows_local _ _ (inputs_of_related st1 st2 S1 S2 Ho) xs vs1 vs2 L G1 G2) in N1. congruence.
  Qed.
End RowLocal.

(** [chain_local] with the oracle hypotheses discharged: the three oracles ARE the evaluation of [LInd] nodes of a well-typed
    graph ([xa]: `nll_attach_ind`, [xr v]: `nll_regul_<v>_ind`, [xs]: `nll_regul_ind_sum_ind`; any row-wise read-out [ha],
    [hr], [hs]); what remains on the graph side is that the two cohorts hold the same population inputs and the same data rows
    for the individual ([indep_inputs_related] on [base1], [base2]) *)
Theorem chain_local_graph (A : Type) (add mul : A -> A -> A) (ofQ : Q -> A) (decide : A -> A -> A -> A -> A -> A -> bool)
    (gadd : A -> A -> A) (G : graph) (fs : nat -> nodefun A) (lat : list nat) (base1 base2 : nat -> value A)
    (xa : list nat) (xr : nat -> list nat) (xs : list nat) (ha : list (row A) -> option A) (hr : nat -> list (row A) -> option A)
    (hs : list (row A) -> option A)
    (scf : scfg) (acf : Anneal.cfg) (nb : Z) (random_order : bool) (n1 n2 j1 j2 : nat) (sizes : list nat) :
  forallb (level_is G LInd) xa = true -> (forall v, forallb (level_is G LInd) (xr v) = true) -> forallb (level_is G LInd) xs = true ->
  (j1 < n1)%nat -> (j2 < n2)%nat ->
  indep_inputs_related A G (fun v1 v2 => reindex A [j1] v1 = reindex A [j2] v2) base1 base2 ->
  forall orders init1 init2 scales T1 T2 o1 o2,
  shaped n1 sizes init1 -> shaped n2 sizes init2 -> own j1 init1 = own j2 init2 ->
  tape_fits n1 sizes random_order (length init1) orders T1 -> tape_fits n2 sizes random_order (length init2) orders T2 ->
  own_draws j1 T1 = own_draws j2 T2 ->
  personalize_run A add mul ofQ decide
    (graph_oracle A gadd G fs lat base1 n1 xa ha) (fun v => graph_oracle A gadd G fs lat base1 n1 (xr v) (hr v))
    (graph_oracle A gadd G fs lat base1 n1 xs hs) scf acf nb random_order n1 orders init1 scales (flat_tape (concat T1)) = Done o1 ->
  personalize_run A add mul ofQ decide
    (graph_oracle A gadd G fs lat base2 n2 xa ha) (fun v => graph_oracle A gadd G fs lat base2 n2 (xr v) (hr v))
    (graph_oracle A gadd G fs lat base2 n2 xs hs) scf acf nb random_order n2 orders init2 scales (flat_tape (concat T2)) = Done o2 ->
  own_col j1 (o_all o1) = own_col j2 (o_all o2) /\ own_col j1 (o_hist o1) = own_col j2 (o_hist o2) /\
  own_trace j1 (o_trace o1) = own_trace j2 (o_trace o2) /\
  own j1 (r_vals (o_rs o1)) = own j2 (r_vals (o_rs o2)) /\
  map (own_samp j1) (r_samp (o_rs o1)) = map (own_samp j2) (r_samp (o_rs o2)) /\ o_ast o1 = o_ast o2.
Proof.
  intros La Lr Ls Hj1 Hj2 Hb orders init1 init2 scales T1 T2 o1 o2.
  apply chain_local; auto.
  - apply row_local_of_graph; auto.
  - intros v. apply row_local_of_graph; auto.
  - apply row_local_of_graph; auto.
Qed.
