(** Composition C07 -> C01/C02: the graphs of the individual-axis type system (Locality/AxisTypes.v) as sets of
    variable definitions for the [State] model, with the op-kind semantics of AxisTypes.v as node functions.
    Definitions only; proofs in AxisStateProofs.v.

    Bridging conventions (nothing of the existing models is changed):
    - value type of the State model: [aval A := option (value A)] — a population row [VPop], a per-individual list
      of rows [VInd], or [None] = "the node function raised" (what [eval_node] reports as [None]);
    - [apply_kind k f n vs] is, verbatim, the [Linked k] branch of [AxisTypes.eval_node] for [n] individuals;
      [axis_fun] applies it to the values the State hands over ([None] argument -> [None], as a node function
      called on the result of a failed call);
    - an AxisTypes node becomes a [vdef]: [Indep] -> [DIndep axis], [Linked k] -> [DLinked axis (n_parents nd) (axis_fun k (fs i) n)],
      with [axis] = "the declared signature is [Ind]".  (AxisTypes does not separate hyper-parameters from the other
      independent variables, so none is produced; [DagState.graph_of_build] handles them independently.)
    - the partial revert of one cache entry, [axis_mix m old cur]: row-wise selection ([torch.where(mask, old, cur)],
      state.py since fe0cadd) on two per-individual values of exactly [length m] rows; ANYTHING ELSE IS REFUSED
      ([None]): a value without the individual axis, a length mismatch, a failed value.  The real code would broadcast
      a population-shaped value over the individuals — the misuse the docstring of [State.revert] excludes; the
      theorems of C01/C02 exclude it the same way, through [mask_ok] / [shapes_ok] ("[mix] does not refuse"). *)
From Coq Require Import List Bool Arith PeanoNat.
From Leaspy Require Import Locality.AxisTypes.
From Leaspy Require State.StateModel.
From Leaspy Require Import Compose.DagState.
Import ListNotations.

Section AxisState.
Variable A : Type.
Variable add : A -> A -> A.

Definition aval := option (value A).

Fixpoint sequence (l : list aval) : option (list (value A)) :=
  match l with
  | [] => Some []
  | Some v :: r => match sequence r with Some vs => Some (v :: vs) | None => None end
  | None :: _ => None
  end.

(** the [Linked k] branch of [AxisTypes.eval_node], for [n] individuals *)
Definition apply_kind (k : opkind) (f : nodefun A) (n : nat) (vs : list (value A)) : aval :=
  let pops := pops_of A vs in
  let inds := inds_of A vs in
  match k with
  | Pointwise | RowMatMul | ReduceOther =>
      Some (VInd (map (fun j => frow f pops (slice A j inds)) (seq 0 n)))
  | ReduceInd =>
      Some (VPop (vsum A add (map (fun j => frow f pops (slice A j inds)) (seq 0 n))))
  | BroadcastPop | Opaque =>
      if all_pop A vs then Some (VPop (fpop f pops)) else None
  end.

Definition axis_fun (k : opkind) (f : nodefun A) (n : nat) (args : list aval) : aval :=
  match sequence args with Some vs => apply_kind k f n vs | None => None end.

Definition sig_is_ind (s : sig) : bool := match s with Ind => true | Pop => false end.

Definition def_of_node (fs : nat -> nodefun A) (n : nat) (i : nat) (nd : node) : vdef aval :=
  match n_kind nd with
  | Indep => DIndep (sig_is_ind (n_sig nd))
  | Linked k => DLinked (sig_is_ind (n_sig nd)) (n_parents nd) (axis_fun k (fs i) n)
  end.

Definition node0 : node := mkNode Pop Indep [].

(** the variable definitions of an AxisTypes graph, in its own (name-sorted) indexing *)
Definition defs_of_axis (G : graph) (fs : nat -> nodefun A) (n : nat) : list (vdef aval) :=
  map (fun i => def_of_node fs n i (nth i (g_nodes G) node0)) (seq 0 (length (g_nodes G))).

(** row-wise selection: row j of the result is row j of [o] where [m j], of [c] elsewhere *)
Fixpoint select (m : list bool) (o c : list (row A)) : list (row A) :=
  match m, o, c with
  | b :: m', x :: o', y :: c' => (if b then x else y) :: select m' o' c'
  | _, _, _ => []
  end.

Definition axis_mix (m : list bool) (old cur : aval) : option aval :=
  match old, cur with
  | Some (VInd o), Some (VInd c) =>
      if Nat.eqb (length o) (length m) && Nat.eqb (length c) (length m)
      then Some (Some (VInd (select m o c))) else None
  | _, _ => None
  end.

(** the semantic record of the State model for these values; [put] (index_put / +) is left arbitrary *)
Definition axis_sem (IX : Type) (put : option IX -> aval -> bool -> aval -> option aval)
  : StateModel.sem aval (list bool) IX := StateModel.mkSem put axis_mix.

End AxisState.
