(** Tie of the composition to the graphs the running code builds today (coq/gen/GenGraphs.v and coq/gen/GenC07.v are
    regenerated from $VERIF_REPO on every run of the C01 check, which then rebuilds this file — harness/props/c01.py).

    Computed (vm_compute) on EVERY shipped graph literal:
    - the variable definitions read off the literal reproduce its [direct_ancestors] mapping, the modelled constructor
      accepts them, and the order it delivers is the order the implementation computed ([sg_order] / [g_order]) — so the
      hypothesis [DagModel.build (dag_of_defs defs) = Ok r] of the composed theorems holds with the code's own [r];
    - the bridged State graph [graph_of_build defs r _] passes the boolean well-formedness check [wf_gb] (the checker [wf_b]
      of State/StateExec.v, generic in the value type) — a computed cross-check of [built_graph_WF] on real graphs;
    - for the literals of the individual-axis type system: [well_typed] holds, and for every individual latent variable
      [i] and every per-individual term [q] the samplers read, the closure condition [axis_read_ok] of the partial-revert
      theorems holds by computation ([axis_read_ok_b]) — a computed cross-check of [well_typed_axis_closed]. *)
From Coq Require Import List Bool Arith PeanoNat.
From Leaspy Require Dag.DagModel.
From Leaspy Require Import Dag.GraphLit.
From Leaspy Require Locality.AxisTypes Locality.Shipped.
From Leaspy Require Import State.StateModel State.Revert.
From Leaspy Require Import Compose.DagState Compose.DagStateProofs Compose.AxisState Compose.ShippedCheck.
From LeaspyGen Require GenGraphs GenC07.
Import ListNotations.

Theorem shipped_graphs_bridge : forallb sg_check GenGraphs.shipped = true.
Proof. vm_compute. reflexivity. Qed.

(** hence the hypothesis of the composed C01 theorems holds for each of them, with the order the code computed *)
Theorem shipped_graphs_accepted : forall sg, In sg GenGraphs.shipped ->
  dag_of_defs (sg_defs sg) = sg_parents sg /\
  exists r, DagModel.build (dag_of_defs (sg_defs sg)) = DagModel.Ok r /\ DagModel.order r = sg_order sg.
Proof.
  intros sg Hin. pose proof shipped_graphs_bridge as H. rewrite forallb_forall in H. specialize (H sg Hin).
  unfold sg_check in H. apply andb_prop in H as [H H3]. apply andb_prop in H as [_ H2]. split.
  - apply (list_eqb_eq DagModel.nat_list_eqb nat_list_eqb_eq). exact H2.
  - destruct (DagModel.build (dag_of_defs (sg_defs sg))) as [r|]; [|discriminate].
    apply andb_prop in H3 as [H3 _]. exists r. split; [reflexivity | now apply nat_list_eqb_eq].
Qed.

Theorem shipped_axis_graphs_bridge : forallb ax_check GenC07.shipped = true.
Proof. vm_compute. reflexivity. Qed.

(** the hypotheses of the composed C02 theorems ([C02_partial_revert_well_typed], ...), for each of them *)
Theorem shipped_axis_graphs_accepted : forall s, In s GenC07.shipped ->
  AxisTypes.well_typed (Shipped.sg_graph s) = true /\
  exists r, DagModel.build (dag_of_defs (ax_defs (Shipped.sg_graph s))) = DagModel.Ok r /\
            DagModel.order r = AxisTypes.g_order (Shipped.sg_graph s).
Proof.
  intros s Hin. pose proof shipped_axis_graphs_bridge as H. rewrite forallb_forall in H. specialize (H s Hin).
  unfold ax_check in H. apply andb_prop in H as [H1 H2]. split; [exact H1|].
  destruct (DagModel.build (dag_of_defs (ax_defs (Shipped.sg_graph s)))) as [r|]; [|discriminate].
  apply andb_prop in H2 as [H2 _]. apply andb_prop in H2 as [H2 _]. exists r. split; [reflexivity | now apply nat_list_eqb_eq].
Qed.

(** counts (harness/props/c01.py reports them in the evidence file) *)
Definition n_shipped_graphs : nat := List.length GenGraphs.shipped.
Definition n_axis_graphs : nat := List.length GenC07.shipped.
