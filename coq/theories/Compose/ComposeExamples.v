(** Non-vacuity of the composed statements (Compose/ApiOnStateProofs.v, Compose/StateEndOfFitProofs.v): one concrete
    variable graph, one concrete past history of the State model (forked assignments, reads, a partial revert that mixes
    rows, a clone, a full revert on the clone), and concrete API scripts run on the State objects that history leaves.

    The graph (7 nodes, in topological order):
      0 offset       hyper-parameter 100
      1 log_v0_mean  parameter (settable)
      2 log_v0       population latent variable (settable)
      3 v0           = 2 * log_v0                      (derived)
      4 xi           individual latent variable (settable, per individual)
      5 rxi          = 1 + 3 * xi                      (derived, per individual)
      6 model        = offset + v0 + sum_i rxi_i       (derived, aggregated over the individuals) *)
From Coq Require Import List Arith Bool ZArith String Lia.
From Leaspy Require Import State.StateModel State.StateProofs State.StateExec State.StateExecProofs
                           State.RevertExec State.RevertExecProofs State.StateNow State.StateNowProofs
                           Api.ApiModel Api.ApiProofs Io.EndOfFit Io.EndOfFitProofs
                           Compose.StateApi Compose.StateApiProofs Compose.StateApiRunProofs Compose.ApiOnStateProofs
                           Compose.StateEndOfFit Compose.StateEndOfFitProofs.
Import ListNotations.

Module Demo.
  Definition nodes : list nspec :=
    [ mkN false false (Some (XS (AFin 100))) false [] [] [6] NLog2;
      mkN false true None false [] [] [] NLog2;
      mkN false true None false [] [] [3; 6] NLog2;
      mkN true false None false [2] [2] [6] (NAffine 0 [2])%Z;
      mkN false true None true [] [] [5; 6] NLog2;
      mkN true false None true [4] [4] [6] (NAffine 1 [3])%Z;
      mkN true false None false [0; 3; 5] [0; 2; 3; 4; 5] [] (NSum 0 [1; 1; 1])%Z ].
  Definition g : graph xval := mk_graph nodes.
  Definition sm := xsem_where.

  Lemma g_wf : WF g.
  Proof. apply wf_b_sound. vm_compute. reflexivity. Qed.
  Lemma g_fmix : F_mix g sm.
  Proof. apply F_mix_unary. vm_compute. reflexivity. Qed.

  (** the past: what was done to the State objects before the API calls below *)
  Definition past : list xop :=
    [ SetMode 0 (Some REF);
      Set_ 0 1 (Some (XS (AFin 7))); Set_ 0 2 (Some (XS (AFin 3))); Set_ 0 4 (Some (XP [AFin 1; AFin 2])); Get 0 6;
      Put 0 4 None (XP [AFin 5; AFin (-1)]) true; Get 0 5; RevertMask 0 [true; false]; Get 0 6;
      Clone 0 false false; Set_ 1 2 (Some (XS (AFin 50))); Get 1 6; Revert 1; SetMode 0 None ]%Z.
  Definition S0 : StateModel.store xval := fst (run_now g sm (init_store g) past).

  Lemma past_disciplined : MaskDisciplined g sm (init_store g) past.
  Proof. apply mask_disciplined_b_sound. vm_compute. reflexivity. Qed.

  Lemma S0_reach : Reach xval g (list bool) nat sm S0.
  Proof. exists past. split; [exact past_disciplined | reflexivity]. Qed.

  (** the partial revert of the past was accepted (individual 0 back to xi = 1, individual 1 keeps xi = 1 + (-1) + ... = 1);
      the read after it is the fresh 100 + 6 + (4 + 4) *)
  Example past_outcomes :
    nth_error (snd (run_now g sm (init_store g) past)) 7 = Some Done /\
    nth_error (snd (run_now g sm (init_store g) past)) 8 = Some (Ok (XS (AFin 114)))%Z /\
    List.length S0 = 2.
  Proof. vm_compute. repeat split. Qed.

  Definition abs0 : st xval := abs xval g (nth 0 S0 (init_state g None)).
  Definition abs1 : st xval := abs xval g (nth 1 S0 (init_state g None)).

  Lemma S0_nth0 : nth_error S0 0 = Some (nth 0 S0 (init_state g None)).
  Proof. apply nth_error_nth'. vm_compute. lia. Qed.
  Lemma S0_nth1 : nth_error S0 1 = Some (nth 1 S0 (init_state g None)).
  Proof. apply nth_error_nth'. vm_compute. lia. Qed.

  (** what the API sees of State object 0: hyper-parameter, parameters, xi after the partial revert, and a partly filled cache *)
  Example abs0_is :
    abs0 = [Some (XS (AFin 100)); Some (XS (AFin 7)); Some (XS (AFin 3)); Some (XS (AFin 6));
            Some (XP [AFin 1; AFin 1]); Some (XP [AFin 4; AFin 4]); Some (XS (AFin 114))]%Z.
  Proof. vm_compute. reflexivity. Qed.

  (** ** C11: a logged fit on the configuration made of the two State objects *)
  Definition tape (ge : gen) (i : nat) : xval :=
    XS (AFin (Z.of_nat i * 3 + match ge with GPy => 0 | GNp => 1 | GTorch => 2 end))%Z.
  Definition seed_pos (ge : gen) (s : nat) : nat := 1000 * s.
  Definition tracked := [6; 5].
  Definition c0 : cfg xval := Cfg [abs0; abs1] 0 (5, 6, 7) [] [].
  Definition hd_or (r : regs xval) : option xval := match r with x :: _ => x | [] => None end.

  (** an iteration: read model; draw; assign the population variable; read model; draw; assign the parameter *)
  Definition iter1 : list (ev xval) :=
    [EGet Cur 6; EDraw GTorch (fun _ => true); ESet Cur 2 hd_or; EGet Cur 6; EDraw GPy (fun _ => true); ESet Cur 1 hd_or].
  (** an observer: read a derived variable (fills the cache of the model's State object), save, clone, assign on the clone *)
  Definition obs1 : list (ev xval) :=
    [EGet Cur 6; ESave Cur; EClone Cur; ESet (Loc 0) 2 (fun _ => Some (XS (AFin 99)))%Z; EGet (Loc 0) 6].
  Definition sched1 (i : nat) : list (list (ev xval)) := if Nat.even i then [obs1; obs1] else [obs1].
  (** finalisation = the end-of-fit script: clone; population variable := mode; install the clone; read *)
  Definition fin1 : list (ev xval) := [EClone Cur; EGet (Loc 0) 1; ESet (Loc 0) 2 hd_or; EReplace (Loc 0); EGet Cur 6].

  Definition a_fit_run := fit_run xval (r_read xval g) (r_write xval g) (r_clone xval g) tracked tape seed_pos.
  Definition a_api_call := api_call xval (r_read xval g) (r_write xval g) (r_clone xval g) tracked tape seed_pos.
  Definition final_view (o : option (cfg xval)) :=
    match o with
    | None => None
    | Some c => Some (map (fun s => map (fun i => snd (r_read xval g s i)) (seq 0 7)) (cS c), cCur c, cPos c, cRegs c, cLog c)
    end.

  Lemma RepI_id (S : StateModel.store xval) : RepI xval g S (seq 0 (List.length S)) (map (abs xval g) S).
  Proof.
    split; [now rewrite seq_length, map_length|]. split; [apply seq_NoDup|].
    intros j k Hj. assert (Hlt : j < List.length S).
    { rewrite <- (seq_length (List.length S) 0). apply nth_error_Some. congruence. }
    assert (k = j). { rewrite (nth_error_nth' _ 0) in Hj by (now rewrite seq_length). rewrite seq_nth in Hj by exact Hlt. now injection Hj as <-. }
    subst k. destruct (nth_error S j) as [s|] eqn:E; [|apply nth_error_None in E; lia].
    exists s. split; [reflexivity | now apply map_nth_error].
  Qed.

  Lemma c0_real : RealCfg xval (list bool) nat g sm c0.
  Proof.
    exists S0, (seq 0 (List.length S0)). split; [exact S0_reach|].
    assert (E : cS c0 = map (abs xval g) S0) by (vm_compute; reflexivity). rewrite E. apply RepI_id.
  Qed.

  Example observers_are_read_only : forall i o, In o (sched1 i) -> read_only xval o = true.
  Proof. intros i o H. unfold sched1 in H. destruct (Nat.even i); cbn in H; intuition (subst; reflexivity). Qed.

  (** the observer DOES change the model's State object: after an assignment emptied the cache, it fills it again *)
  Example observer_fills_the_cache :
    option_map (fun c => nth 6 (nth 0 (cS c) []) None)
               (ApiModel.exec xval (r_read xval g) (r_write xval g) (r_clone xval g) tracked tape seed_pos 2
                              [ESet Cur 2 (fun _ => Some (XS (AFin 4)))%Z] c0) = Some None /\
    option_map (fun c => nth 6 (nth 0 (cS c) []) None)
               (match ApiModel.exec xval (r_read xval g) (r_write xval g) (r_clone xval g) tracked tape seed_pos 2
                                    [ESet Cur 2 (fun _ => Some (XS (AFin 4)))%Z] c0 with
                | Some c => run_obs xval (r_read xval g) (r_write xval g) (r_clone xval g) tracked tape seed_pos obs1 c
                | None => None end) = Some (Some (XS (AFin 116)))%Z.
  Proof. split; vm_compute; reflexivity. Qed.

  (** the logged fit finishes, and its reads, registers, log and generator positions are those of the plain fit *)
  Example logged_equals_plain :
    final_view (a_fit_run 2 3 [] [iter1; iter1; iter1] fin1 sched1 c0)
    = final_view (a_fit_run 2 3 [] [iter1; iter1; iter1] fin1 (no_observers xval) c0)
    /\ final_view (a_fit_run 2 3 [] [iter1; iter1; iter1] fin1 sched1 c0) <> None.
  Proof. split; vm_compute; [reflexivity | discriminate]. Qed.

  (** ** C13: calls on the model whose state is State object 0 *)
  (** estimate: individual parameter xi := [0, 3] on a clone, read model = 100 + 6 + (1 + 10) = 117 *)
  Definition est : list (ev xval) := estimate_script xval 4 6 (Some (XP [AFin 0; AFin 3]))%Z [].
  Example estimate_runs :
    option_map (fun c => (cRegs c, nth_error (cS c) 0, cCur c)) (a_api_call est abs0 (0, 0, 0))
    = Some ([Some (XS (AFin 117))]%Z, Some abs0, 0).
  Proof. vm_compute. reflexivity. Qed.

  (** MCMC personalisation: individual variable 4 assigned on the model's own state, sampler activity, termination *)
  Definition mcmc : list (ev xval) :=
    mcmc_script xval [] [(4, fun _ => Some (XP [AFin 0; AFin 0]))]
                [EGet Cur 6; EDraw GTorch (fun _ => true); ESet Cur 4 hd_or; EGet Cur 6] [] [4].
  Definition keptP : view := fun i => negb (Nat.eqb i 4).
  Example mcmc_hypotheses :
    (forall i, In i ([] ++ [4]) -> keptP i = false /\ i < gn g /\ settable g i = true) /\
    (forall nv : nat * option xval, In nv [] -> In (fst nv) ([] ++ [4])) /\
    (forall nf, In nf [(4, fun _ : regs xval => Some (XP [AFin 0; AFin 0]))] -> In (fst nf) ([] ++ [4])) /\
    forallb (fun e => writes_in xval (mem ([] ++ [4])) e && noclone_ev xval e)
            [EGet Cur 6; EDraw GTorch (fun _ => true); ESet Cur 4 hd_or; EGet Cur 6] = true.
  Proof.
    split; [|split; [|split]].
    - intros i [<-|[]]. vm_compute. repeat split; lia.
    - intros nv [].
    - intros nf [<-|[]]. now left.
    - vm_compute. reflexivity.
  Qed.
  Example mcmc_runs :
    option_map (fun c => (cCur c, option_map (fun s => map (fun i => snd (r_read xval g s i)) [1; 2; 4; 6]) (model_state xval c)))
               (a_api_call mcmc abs0 (0, 0, 0))
    = Some (1, Some [Some (XS (AFin 7%Z)); Some (XS (AFin 3%Z)); None; None]).
  Proof. vm_compute. reflexivity. Qed.

  (** ** C12: the end-of-fit script on State object 0 *)
  Open Scope string_scope.
  Definition names : list string := ["offset"; "log_v0_mean"; "log_v0"; "v0"; "xi"; "rxi"; "model"].
  Definition stat (k : prior_stat) (pp : string) (f : string -> option xval) : option xval :=
    if String.eqb pp "log_v0" then
      match k with UseMode => f "log_v0_mean" | UseMean => option_map (xadd (XS (AFin 1))) (f "log_v0_mean") end
    else None.
  Definition prior_params (pp : string) : list string := if String.eqb pp "log_v0" then ["log_v0_mean"] else [].
  Definition pops : list string := ["log_v0"].

  Lemma names_ok : NoDup names /\ List.length names = gn g.
  Proof.
    split; [|reflexivity]. unfold names.
    repeat (constructor; [cbn; intuition discriminate|]). constructor.
  Qed.

  Lemma s0_good : Good g (nth 0 S0 (init_state g None)).
  Proof. exact (proj1 (reach_cache xval (list bool) nat g sm g_wf g_fmix S0 0 _ S0_reach S0_nth0)). Qed.
  Definition gs0 : gstate xval g := exist _ (nth 0 S0 (init_state g None)) s0_good.

  Example c12_hypotheses :
    NoDup pops /\ (forall pp, In pp pops -> s_indep xval g names pp = true) /\
    (forall k pp f f', (forall q, In q (prior_params pp) -> f q = f' q) -> stat k pp f = stat k pp f') /\
    (forall pp q, In pp pops -> In q (prior_params pp) -> s_indep xval g names q = true /\ ~ In q pops).
  Proof.
    split; [constructor; [intros []|constructor]|]. split; [intros pp [<-|[]]; reflexivity|]. split.
    - intros k pp f f' H. unfold stat, prior_params in *. destruct (String.eqb pp "log_v0"); [|reflexivity].
      rewrite (H "log_v0_mean") by now left. reflexivity.
    - intros pp q [<-|[]] [<-|[]]. split; [reflexivity|]. intros [H|[]]. discriminate.
  Qed.

  (** before: log_v0 = 3, v0 = 6, model = 114; after the script (with the reads that fill the cache): log_v0 = mode = 7,
      v0 = 14, model = 100 + 14 + 4 + 4 = 122, parameter untouched *)
  Example end_of_fit_runs :
    map (s_get xval g names gs0) ["log_v0_mean"; "log_v0"; "v0"; "model"]
      = [Some (XS (AFin 7)); Some (XS (AFin 3)); Some (XS (AFin 6)); Some (XS (AFin 114))]%Z /\
    map (s_get xval g names (end_of_fit_cached xval g g_wf names stat prior_params pops gs0)) ["log_v0_mean"; "log_v0"; "v0"; "model"]
      = [Some (XS (AFin 7)); Some (XS (AFin 7)); Some (XS (AFin 14)); Some (XS (AFin 122))]%Z.
  Proof. split; vm_compute; reflexivity. Qed.
End Demo.

(** Why the invariant [Fixed] is part of [Cache]: the C01 invariant alone ([Inv] + one slot per node) does not give the
    interface fact [set_agree].  One hyper-parameter node; two dictionaries that differ on it are both [Inv]-consistent and
    agree on the empty set of variables; the assignment to the node is refused on both sides (it is not settable), so they do
    not agree on [vadd 0 (fun _ => false)].  No reachable State object holds anything but 1 there ([Fixed]). *)
Module FixedNeeded.
  Definition g : graph xval := mk_graph [mkN false false (Some (XS (AFin 1%Z))) false [] [] [] NLog2].
  Definition l1 : st xval := [Some (XS (AFin 1%Z))].
  Definition l2 : st xval := [Some (XS (AFin 2%Z))].
  Example fixed_is_needed :
    (List.length l1 = gn g /\ Inv g (to_vals xval l1)) /\ (List.length l2 = gn g /\ Inv g (to_vals xval l2)) /\
    r_write xval g l1 0 None = l1 /\ r_write xval g l2 0 None = l2 /\
    vadd 0 (fun _ => false) 0 = true /\ linked g 0 = false /\
    to_vals xval (r_write xval g l1 0 None) 0 <> to_vals xval (r_write xval g l2 0 None) 0 /\
    Fixed xval g (to_vals xval l1) /\ ~ Fixed xval g (to_vals xval l2).
  Proof.
    assert (I : forall l, Inv g (to_vals xval l)).
    { intros l k v Hk Lk. cbn in Hk. assert (k = 0) by lia. subst. discriminate. }
    split; [split; [reflexivity | apply I]|]. split; [split; [reflexivity | apply I]|].
    split; [vm_compute; reflexivity|]. split; [vm_compute; reflexivity|]. split; [reflexivity|]. split; [reflexivity|].
    split; [vm_compute; discriminate|]. split.
    - intros k Hk _ _. cbn in Hk. assert (k = 0) by lia. subst. reflexivity.
    - intros H. specialize (H 0 (le_n 1) eq_refl eq_refl). vm_compute in H. discriminate.
  Qed.
End FixedNeeded.
