(** C07 x C17 — [chain_local_graph] on the graph literals the running code builds today (coq/gen/GenC07.v, regenerated on
    every run), for the nodes `IndividualGibbsSampler.sample` reads as resolved by the translator ([shipped_reads]); and a
    concrete pair of runs on the first shipped literal (non-vacuity: every hypothesis is met, both runs succeed, the
    individual accepts some proposals and refuses others). *)
From Coq Require Import ZArith QArith List Bool Arith Lia.
From Coq Require String.
From Leaspy Require Import Base.QAux Sampler.SamplerModel Saem.Anneal Sampler.AdaptiveStd Api.Personalize Api.PersonalizeChain
  Api.PersonalizeChainProofs Compose.ChainLocality Compose.ChainLocalityProofs
  Locality.AxisTypes Locality.AxisProofs Locality.Shipped Compose.ChainGraph Compose.ChainGraphProofs.
From LeaspyGen Require Import GenC07.
Import ListNotations.
Close Scope Q_scope.

Lemma forallb_hd {X} (f : X -> bool) d l : forallb f l = true -> l <> [] -> f (hd d l) = true.
Proof. destruct l; simpl; [congruence|]. intros H _. now apply andb_prop in H. Qed.

Lemma forallb_last {X} (f : X -> bool) d : forall l, forallb f l = true -> l <> [] -> f (last l d) = true.
Proof.
  induction l as [|a l IH]; [congruence|]. intros H _. simpl in H. apply andb_prop in H as [Ha Hl].
  destruct l as [|b l]; [exact Ha|]. change (f (last (b :: l) d) = true). apply IH; [exact Hl|discriminate].
Qed.

Lemma forallb_nth {X} (f : X -> bool) d : forall l k, forallb f l = true -> f d = true -> f (nth k l d) = true.
Proof.
  induction l as [|a l IH]; intros [|k] H Hd; simpl in *; auto; apply andb_prop in H as [Ha Hl]; auto.
Qed.

Lemma shipped_reads_levels : forall s rs, In (s, rs) (combine shipped shipped_reads) ->
  forallb (level_is (sg_graph s) LInd) rs = true /\ rs <> [].
Proof.
  assert (H : sample_reads_local shipped shipped_reads = true) by (vm_compute; reflexivity).
  unfold sample_reads_local in H. apply andb_prop in H as [_ H]. rewrite forallb_forall in H.
  intros s rs I. specialize (H _ I). simpl in H. apply andb_prop in H as [H1 H2]. split; [exact H1|].
  intros ->. discriminate.
Qed.

(** the translator resolves, for each shipped graph, attachment + one `nll_regul_<v>_ind` per individual latent variable + the summed
    regularity: [reads_reg rs v], v < number of individual latent variables, is an entry strictly between the first and the last *)
Lemma shipped_reads_shape :
  forallb (fun p => Nat.eqb (length (snd p)) (length (sg_ind_latents (fst p)) + 2)) (combine shipped shipped_reads) = true.
Proof. vm_compute; reflexivity. Qed.

(** The corollary: for EVERY shipped graph, with the three oracles = the evaluation of the nodes `sample` reads *)
Theorem chain_local_shipped : forall s rs, In (s, rs) (combine shipped shipped_reads) ->
  forall (A : Type) (add mul : A -> A -> A) (ofQ : Q -> A) (decide : A -> A -> A -> A -> A -> A -> bool)
    (gadd : A -> A -> A) (fs : nat -> nodefun A) (base1 base2 : nat -> value A)
    (scf : scfg) (acf : Anneal.cfg) (nb : Z) (random_order : bool) (n1 n2 j1 j2 : nat) (sizes : list nat),
  (j1 < n1)%nat -> (j2 < n2)%nat ->
  indep_inputs_related A (sg_graph s) (fun v1 v2 => reindex A [j1] v1 = reindex A [j2] v2) base1 base2 ->
  forall orders init1 init2 scales T1 T2 o1 o2,
  shaped n1 sizes init1 -> shaped n2 sizes init2 -> own j1 init1 = own j2 init2 ->
  tape_fits n1 sizes random_order (length init1) orders T1 -> tape_fits n2 sizes random_order (length init2) orders T2 ->
  own_draws j1 T1 = own_draws j2 T2 ->
  personalize_run A add mul ofQ decide
    (node_oracle A gadd (sg_graph s) fs (sg_ind_latents s) base1 n1 (reads_att rs))
    (fun v => node_oracle A gadd (sg_graph s) fs (sg_ind_latents s) base1 n1 (reads_reg rs v))
    (node_oracle A gadd (sg_graph s) fs (sg_ind_latents s) base1 n1 (reads_sum rs))
    scf acf nb random_order n1 orders init1 scales (flat_tape (concat T1)) = Done o1 ->
  personalize_run A add mul ofQ decide
    (node_oracle A gadd (sg_graph s) fs (sg_ind_latents s) base2 n2 (reads_att rs))
    (fun v => node_oracle A gadd (sg_graph s) fs (sg_ind_latents s) base2 n2 (reads_reg rs v))
    (node_oracle A gadd (sg_graph s) fs (sg_ind_latents s) base2 n2 (reads_sum rs))
    scf acf nb random_order n2 orders init2 scales (flat_tape (concat T2)) = Done o2 ->
  well_typed (sg_graph s) = true /\
  own_col j1 (o_all o1) = own_col j2 (o_all o2) /\ own_col j1 (o_hist o1) = own_col j2 (o_hist o2) /\
  own_trace j1 (o_trace o1) = own_trace j2 (o_trace o2) /\
  own j1 (r_vals (o_rs o1)) = own j2 (r_vals (o_rs o2)) /\
  map (own_samp j1) (r_samp (o_rs o1)) = map (own_samp j2) (r_samp (o_rs o2)) /\ o_ast o1 = o_ast o2.
Proof.
  intros s rs I A add mul ofQ decide gadd fs base1 base2 scf acf nb random_order n1 n2 j1 j2 sizes Hj1 Hj2 Hb
         orders init1 init2 scales T1 T2 o1 o2 S1 S2 Ho F1 F2 Ed R1 R2.
  destruct (shipped_reads_levels s rs I) as [L Ne].
  split.
  { assert (H : forallb shipped_ok shipped = true) by (vm_compute; reflexivity).
    rewrite forallb_forall in H. specialize (H s (in_combine_l _ _ _ _ I)).
    unfold shipped_ok in H. repeat (apply andb_prop in H; destruct H as [H _]). exact H. }
  unfold node_oracle in R1, R2.
  refine (chain_local_graph A add mul ofQ decide gadd (sg_graph s) fs (sg_ind_latents s) base1 base2
            [reads_att rs] (fun v => [reads_reg rs v]) [reads_sum rs] _ (fun _ => _) _ scf acf nb random_order n1 n2 j1 j2 sizes
            _ _ _ Hj1 Hj2 Hb orders init1 init2 scales T1 T2 o1 o2 S1 S2 Ho F1 F2 Ed R1 R2).
  - simpl. rewrite andb_true_r. apply forallb_hd; assumption.
  - intros v. simpl. rewrite andb_true_r. unfold reads_reg. apply forallb_nth; [assumption|]. apply forallb_last; assumption.
  - simpl. rewrite andb_true_r. apply forallb_last; assumption.
Qed.

(** * Non-vacuity on the first shipped literal *)
Definition sx_dummy : shipped_graph := mkShipped String.EmptyString (mkGraph [] []) [] [] [].
Definition sx_pair : shipped_graph * list nat := hd (sx_dummy, []) (combine shipped shipped_reads).
Definition sx_G : graph := sg_graph (fst sx_pair).
Definition sx_lat : list nat := sg_ind_latents (fst sx_pair).
Definition sx_m : nat := length sx_lat.

(** node functions of the form their op-kind dictates (any would do): half the sum of the row entries / a constant *)
Definition sx_fs : nat -> nodefun Q :=
  fun i => mkFun (fun pops inds => [Qred ((1 # 2) * sumQ (concat inds) + (1 # 8) * inject_Z (Z.of_nat (length pops)))]) (fun _ => [1%Q]).
(** fixed inputs of a cohort whose individuals carry the identifiers [ids]: one data row per individual, population values 1/2 *)
Definition sx_base (ids : list Q) : nat -> value Q :=
  fun i => match nth_error (g_nodes sx_G) i with
           | Some (mkNode Ind Indep _) => VInd (map (fun id => [id]) ids)
           | _ => VPop [(1 # 2)%Q]
           end.
Definition sx_init (ids : list Q) : istate Q := map (fun _ => Nd (map (fun _ => Nd [Sc 0%Q]) ids)) sx_lat.
Definition sx_sizes : list nat := repeat 1%nat sx_m.
Definition sx_orders : list (list nat) := [rev (seq 0 sx_m); seq 0 sx_m; rev (seq 0 sx_m)].
(** position-indexed draws: the draws of an individual are a function of (its identifier, iteration, call) *)
Definition sx_z (k c : nat) (id : Q) : Q := Qred (inject_Z (Z.of_nat ((k + 2 * c) mod 3)) - id * (1 # 3)).
Definition sx_u (k c : nat) (id : Q) : Q := Qred (inject_Z ((Z.of_nat (2 * k + c) + Qnum id) mod 5) * (1 # 5)).
Definition sx_T (ids : list Q) : list (list (call_draws Q)) :=
  map (fun k => map (fun c => (map (fun id => [sx_z k c id]) ids, map (sx_u k c) ids)) (seq 0 sx_m)) (seq 0 3).
Definition sx_run (ids : list Q) :=
  personalize_run Q Qplus Qmult (fun q => q) ex_decide
    (node_oracle Q Qplus sx_G sx_fs sx_lat (sx_base ids) (length ids) (reads_att (snd sx_pair)))
    (fun v => node_oracle Q Qplus sx_G sx_fs sx_lat (sx_base ids) (length ids) (reads_reg (snd sx_pair) v))
    (node_oracle Q Qplus sx_G sx_fs sx_lat (sx_base ids) (length ids) (reads_sum (snd sx_pair)))
    ex_scf ex_acf 1 true (length ids) sx_orders (sx_init ids) (repeat 2%Q sx_m) (flat_tape (concat (sx_T ids))).
Definition sx_batch := sx_run [3; 5]%Q.
Definition sx_alone := sx_run [5%Q].

Lemma sx_base_related : indep_inputs_related Q sx_G (fun v1 v2 => reindex Q [1%nat] v1 = reindex Q [0%nat] v2)
                                             (sx_base [3; 5]%Q) (sx_base [5%Q]).
Proof.
  intros i nd E _. unfold sx_base. rewrite E. destruct nd as [[|] [|k] ps]; reflexivity.
Qed.

Example chain_local_shipped_example :
  In sx_pair (combine shipped shipped_reads) /\
  (2 <= sx_m)%nat /\
  shaped 2 sx_sizes (sx_init [3; 5]%Q) /\ shaped 1 sx_sizes (sx_init [5%Q]) /\
  own 1 (sx_init [3; 5]%Q) = own 0 (sx_init [5%Q]) /\
  tape_fits 2 sx_sizes true (length (sx_init [3; 5]%Q)) sx_orders (sx_T [3; 5]%Q) /\
  tape_fits 1 sx_sizes true (length (sx_init [5%Q])) sx_orders (sx_T [5%Q]) /\
  own_draws 1 (sx_T [3; 5]%Q) = own_draws 0 (sx_T [5%Q]) /\
  exists o o1, sx_batch = Done o /\ sx_alone = Done o1 /\
    own_col 1 (o_all o) = own_col 0 (o_all o1) /\
    (* not a trivial chain: individual 1 both accepts and refuses proposals, individual 0 decides differently *)
    existsb (fun kl => existsb (fun r => nth 1 (sr_acc r) false) (snd kl)) (o_trace o) = true /\
    existsb (fun kl => existsb (fun r => negb (nth 1 (sr_acc r) true)) (snd kl)) (o_trace o) = true /\
    existsb (fun kl => existsb (fun r => negb (Bool.eqb (nth 0 (sr_acc r) false) (nth 1 (sr_acc r) false))) (snd kl)) (o_trace o) = true.
Proof.
  split. { vm_compute. left. reflexivity. }
  split. { vm_compute. repeat constructor. }
  split. { vm_compute. repeat constructor; eexists; repeat split; repeat constructor. }
  split. { vm_compute. repeat constructor; eexists; repeat split; repeat constructor. }
  split; [vm_compute; reflexivity|].
  split. { unfold tape_fits, fits. vm_compute. repeat constructor. }
  split. { unfold tape_fits, fits. vm_compute. repeat constructor. }
  split; [vm_compute; reflexivity|].
  destruct sx_batch as [o|e] eqn:E; vm_compute in E; [|discriminate].
  destruct sx_alone as [o1|e1] eqn:E1; vm_compute in E1; [|discriminate].
  exists o, o1. inversion E; inversion E1; subst o o1. repeat split; vm_compute; reflexivity.
Qed.
