(** Non-vacuity of the composition [from_dict] -> C01: definitions given by FUNCTION SIGNATURES (a lambda with
    keyword-only parameters one of which has a default, a [NamedInputFunction], a [.then]), accepted by the modelled
    [from_dict]; the parameter lists the State model uses are the ones computed from the signatures — they coincide with
    the hand-written ones of DagStateExamples.v —; a history with a rejected proposal; the read is the by-name
    from-scratch value. *)
From Coq Require Import List Arith Bool ZArith Lia.
From Leaspy Require Dag.DagModel Dag.GraphLit Dag.FromDict.
From Leaspy Require Import State.StateModel State.StateNow.
From Leaspy Require Import Compose.DagState Compose.DagStateProofs Compose.DagStateExamples.
From Leaspy Require Import Compose.FromDictState Compose.FromDictStateProofs.
Import ListNotations.
Local Open Scope Z_scope.

Definition kwp (n : nat) (dflt : bool) := FromDict.mkParam n FromDict.KwOnly dflt.

(** names in sorted order: 0 "d" = LinkedVariable(lambda *, x2, x1=0: x2 - x1), 1 "x1", 2 "x2" (parameters),
    3 "e" = LinkedVariable(NamedInputFunction(f, ("d",)).then(g)) with g taking a parameter named like "x1" (NOT a parent),
    4 "h" hyper-parameter = 7, 5 "s" = LinkedVariable(Sum("h", "e")) *)
Definition sx_ds : list FromDict.vdef :=
  [ FromDict.DLinked (FromDict.CPlain [kwp 2 false; kwp 1 true]);
    FromDict.DIndep GraphLit.KParam; FromDict.DIndep GraphLit.KParam;
    FromDict.DLinked (FromDict.CNamed (FromDict.nif_then
        (FromDict.bound_to [FromDict.mkParam 0 FromDict.PosOrKw false] [0%nat] [])
        [FromDict.mkParam 1 FromDict.PosOrKw false] []));
    FromDict.DIndep GraphLit.KHyper;
    FromDict.DLinked (FromDict.CNamed (FromDict.bound_to [FromDict.mkParam 0 FromDict.VarPos false] [4%nat; 3%nat] [])) ].

Definition sx_hv (i : nat) : Z := 7.
Definition sx_ax (i : nat) : bool := false.
Definition sx_fs (i : nat) : list Z -> Z :=
  match i with
  | 0%nat => fun a => match a with [x2; x1] => x2 - x1 | _ => 0 end
  | 3%nat => fun a => match a with [d] => 2 * d | _ => 0 end
  | _ => fun a => match a with [h; e] => h + e | _ => 0 end
  end.

Definition sx_r : DagModel.dag :=
  match FromDict.from_dict sx_ds with
  | FromDict.FOk r => r
  | FromDict.FErr _ => DagModel.mkDag [] [] [] []
  end.

Example sx_accepted : FromDict.from_dict sx_ds = FromDict.FOk sx_r /\ DagModel.order sx_r = [1; 2; 4; 0; 3; 5]%nat.
Proof. split; vm_compute; reflexivity. Qed.

(** the parameter lists computed from the signatures are the hand-written ones of DagStateExamples.v:
    the default does not hide "x1", the outer function of [then] adds nothing *)
Example sx_params : map (@d_params Z) (sdefs Z sx_hv sx_ax sx_fs sx_ds) = map (@d_params Z) ex_defs.
Proof. reflexivity. Qed.

Definition sx_g : graph Z := graph_from_definitions Z sx_hv sx_ax sx_fs sx_ds sx_r 0.

Example sx_wf : WF sx_g.
Proof. exact (graph_from_definitions_WF Z sx_hv sx_ax sx_fs sx_ds sx_r 0 (proj1 sx_accepted)). Qed.

Definition sx_pos (x : nat) : nat := index_of x (DagModel.order sx_r).

(** fork on; x1 := 10; x2 := 3; read s; propose x1 := 100; read s; reject *)
Definition sx_ops : list (op Z unit unit) :=
  [ SetMode 0 (Some COPY); Set_ 0 (sx_pos 1) (Some 10); Set_ 0 (sx_pos 2) (Some 3); Get 0 (sx_pos 5);
    Set_ 0 (sx_pos 1) (Some 100); Get 0 (sx_pos 5); Revert 0 ].

Example sx_history :
  forallb (@no_partial_revert Z unit unit) sx_ops = true /\
  snd (run_now sx_g ex_sem (init_store sx_g) sx_ops) = [Done; Done; Done; Ok (-7); Done; Ok (-187); Done] /\
  snd (step_now sx_g ex_sem (fst (run_now sx_g ex_sem (init_store sx_g) sx_ops)) (Get 0 (sx_pos 5))) = Ok (-7).
Proof. split; [vm_compute; reflexivity | split; vm_compute; reflexivity]. Qed.

(** by the composed theorem, -7 is the by-name from-scratch value of "s" after the rejection (x1 = 10 again) *)
Example sx_by_name : exists st,
  nth_error (fst (run_now sx_g ex_sem (init_store sx_g) sx_ops)) 0 = Some st /\
  by_name Z sx_r (values st) 1%nat = Some 10 /\
  scratch sx_g (values st) (sx_pos 5) = Some (-7).
Proof.
  destruct (nth_error (fst (run_now sx_g ex_sem (init_store sx_g) sx_ops)) 0) as [st|] eqn:E; [|vm_compute in E; discriminate].
  exists st. split; [reflexivity|]. split.
  - vm_compute in E. injection E as <-. reflexivity.
  - exact (never_stale_full_reverts_from_definitions Z unit unit sx_hv sx_ax sx_fs sx_ds sx_r 0 ex_sem (proj1 sx_accepted)
             sx_ops (proj1 sx_history) 0%nat (sx_pos 5) st (-7) E (proj2 (proj2 sx_history))).
Qed.

(** the parents of State node 3 (= name 0, "d") are the State nodes of "x2" and "x1" — both named parameters *)
Example sx_parents : parents sx_g 3 = [1; 0]%nat /\ FromDict.is_param_of sx_ds 1 0.
Proof. split; [reflexivity|]. eexists. split; [reflexivity|]. exists (kwp 1 true). simpl. auto. Qed.

(** a positional-or-keyword parameter: [from_dict] refuses, no State graph is obtained by the theorems *)
Example sx_refused : FromDict.from_dict [FromDict.DIndep GraphLit.KParam;
                        FromDict.DLinked (FromDict.CPlain [FromDict.mkParam 0 FromDict.PosOrKw false])] = FromDict.FErr FromDict.FSignature.
Proof. reflexivity. Qed.
