(** Composition [from_dict] -> C02: the theorems of C02 that need the graph hypothesis only (Compose/RevertBuilt.v), with
    the graph obtained from the definitions WITH THEIR FUNCTION SIGNATURES; the only hypothesis on the graph side is that
    the modelled [from_dict] accepted them.  Proofs; no axioms. *)
From Coq Require Import List Arith Bool.
From Leaspy Require Dag.DagModel Dag.FromDict.
From Leaspy Require Import State.StateModel State.StateProofs State.Revert State.RevertProofs
                           Sampler.RevertScript Sampler.RevertScriptProofs.
From Leaspy Require Import Compose.DagState Compose.DagStateProofs Compose.RevertBuilt
                           Compose.FromDictState Compose.FromDictStateProofs.
Import ListNotations.

Section RevertFromDefinitions.
Variables V M IX : Type.
Variable hv : nat -> V.
Variable ax : nat -> bool.
Variable fs : nat -> list V -> V.
Variable ds : list FromDict.vdef.
Variable r : DagModel.dag.
Variable v0 : V.
Variable sm : sem V M IX.
Variables fx chk : bool.
Hypothesis Hfd : FromDict.from_dict ds = FromDict.FOk r.
Hypothesis Hf : fx = true \/ chk = true.

Notation g := (graph_from_definitions V hv ax fs ds r v0).
Let Hb := from_dict_build V hv ax fs ds r Hfd.

Theorem full_revert_from_definitions :
  forall (st : state V) (i : nat) (o : option V) (reads : list nat),
    Good g st -> mode st <> None -> i < gn g -> settable g i = true ->
    let st1 := fst (set_state g fx st i o) in
    let st2 := gets g st1 reads in
    let st3 := fst (revert_state st2) in
    snd (revert_state st2) = Done /\
    (forall j w, values st j = Some w -> values st3 j = Some w) /\
    (forall j, In j (i :: desc g i) -> values st3 j = values st j) /\
    (forall j, linked g j = false -> values st3 j = values st j) /\
    fork st3 = None /\ mode st3 = mode st /\ Good g st3 /\
    (forall j, snd (get g (values st3) j) = snd (get g (values st) j)).
Proof. exact (full_revert_built V (sdefs V hv ax fs ds) r v0 fx chk Hb Hf). Qed.

Theorem pop_step_from_definitions :
  forall decide x reads blks (st st' : state V), sim g st st' -> mode st <> None ->
    (forall a, In a (snd (pop_step g sm fx decide x reads st blks)) -> a <> None) ->
    sim g (fst (pop_step g sm fx decide x reads st blks))
          (pop_accepted g sm fx x st' blks (snd (pop_step g sm fx decide x reads st blks))).
Proof. exact (pop_step_built V M IX (sdefs V hv ax fs ds) r v0 sm fx chk Hb Hf). Qed.
End RevertFromDefinitions.
