(** C07 x C17 — the oracle functions of the generated personalisation chain DEFINED by the C07 graph evaluation
    (definitions only; proofs in ChainGraphProofs.v).

    Api/PersonalizeChain.v takes `nll_attach_ind`, `nll_regul_<v>_ind`, `nll_regul_ind_sum_ind` as functions
    [att], [regv v], [regsum] of the values of the individual latent variables, and Compose/ChainLocality.v states the
    locality of the chain under the hypothesis [row_local] on these three functions.  Here the functions are no longer
    arbitrary: they are what the from-scratch evaluation [AxisTypes.eval] of a graph [G] returns for the nodes the
    sampler reads, when
    - every independent node that is NOT an individual latent variable holds a fixed input [base] (data, model
      parameters, hyper-parameters, population variables: no statement of the run can assign them), and
    - the individual latent variable at position v of the chain's state ([lat] = the graph indices of the individual
      latent variables in sorted-name order, [Shipped.sg_ind_latents]) holds the current tensor of the chain, one row per
      individual ([inputs_of]).
    Entry j of an oracle is a function [h] of row j of the nodes [xs] it reads ([graph_oracle]); the three shipped
    oracles read ONE node each and take its single scalar ([scalar_entry]); the mixture model's per-row soft-max reads
    several nodes, still row by row.  Anything of the wrong shape gives the empty vector, on which the sampler step of
    the chain fails explicitly ([StepFailed]). *)
From Coq Require Import ZArith QArith List Bool Arith.
From Leaspy Require Import Sampler.SamplerModel Api.PersonalizeChain Locality.AxisTypes Locality.Shipped.
Import ListNotations.

Fixpoint pos_of (i : nat) (l : list nat) : option nat :=
  match l with
  | [] => None
  | x :: r => if Nat.eqb x i then Some 0%nat else option_map S (pos_of i r)
  end.

Fixpoint collect {X} (l : list (option X)) : option (list X) :=
  match l with
  | [] => Some []
  | Some x :: r => match collect r with Some xs => Some (x :: xs) | None => None end
  | None :: _ => None
  end.

Section GraphOracle.
  Variable A : Type.
  Variable add : A -> A -> A.
  Variable G : graph.
  Variable fs : nat -> nodefun A.
  Variable lat : list nat.

  (** the inputs of the graph evaluation when the chain is in state [st] *)
  Definition inputs_of (base : nat -> value A) (st : istate A) : nat -> value A :=
    fun i => match pos_of i lat with
             | Some v => match nth_error st v with
                         | Some (Nd rows) => VInd (map (@flat A) rows)
                         | _ => base i
                         end
             | None => base i
             end.

  (** entry j = [h] of row j of the nodes [xs], for a cohort of [n] individuals *)
  Definition graph_oracle (base : nat -> value A) (n : nat) (xs : list nat) (h : list (row A) -> option A)
             (st : istate A) : list A :=
    match gather (eval A add G fs (inputs_of base st) n) xs with
    | Some vs => match collect (map (fun j => h (map (vrow A j) vs)) (seq 0 n)) with
                 | Some l => l
                 | None => []
                 end
    | None => []
    end.

  (** a node holding one scalar per individual (`nll_attach_ind`, `nll_regul_<v>_ind`, `nll_regul_ind_sum_ind`) *)
  Definition scalar_entry (rs : list (row A)) : option A := match rs with [[a]] => Some a | _ => None end.
  Definition node_oracle (base : nat -> value A) (n : nat) (x : nat) : istate A -> list A :=
    graph_oracle base n [x] scalar_entry.
End GraphOracle.

(** what the run needs of one shipped literal: the nodes `sample` reads for its individual latent variables, as resolved by
    the translator ([rs] = the entry of [shipped_reads] for this graph: attachment first, summed regularity last, one
    `nll_regul_<v>_ind` per individual latent variable in between) *)
Definition reads_att (rs : list nat) : nat := hd 0%nat rs.
Definition reads_sum (rs : list nat) : nat := last rs 0%nat.
Definition reads_reg (rs : list nat) (v : nat) : nat := nth (S v) rs (last rs 0%nat).
