(** Non-vacuity of the composition C15 -> C01: a concrete set of definitions whose name order is NOT a
    topological order, accepted by the modelled constructor; the State model run on the built graph;
    a history with a rejected proposal; the reads are the by-name from-scratch values. *)
From Coq Require Import List Arith Bool ZArith Lia.
From Leaspy Require Dag.DagModel.
From Leaspy Require Import State.StateModel State.StateNow Compose.DagState Compose.DagStateProofs.
Import ListNotations.
Local Open Scope Z_scope.

(** names in sorted order: 0 "d" = x2 - x1, 1 "x1", 2 "x2", 3 "e" = 2 d, 4 "h" = 7 (hyper-parameter), 5 "s" = h + e *)
Definition ex_defs : list (vdef Z) :=
  [ DLinked false [2; 1]%nat (fun a => match a with [x2; x1] => x2 - x1 | _ => 0 end);
    DIndep false; DIndep false;
    DLinked false [0]%nat (fun a => match a with [d] => 2 * d | _ => 0 end);
    DHyper 7;
    DLinked false [4; 3]%nat (fun a => match a with [h; e] => h + e | _ => 0 end) ].

Definition ex_r : DagModel.dag :=
  match DagModel.build (dag_of_defs ex_defs) with
  | DagModel.Ok r => r
  | DagModel.Err _ => DagModel.mkDag [] [] [] []
  end.

Example ex_accepted : DagModel.build (dag_of_defs ex_defs) = DagModel.Ok ex_r /\ DagModel.order ex_r = [1; 2; 4; 0; 3; 5]%nat.
Proof. split; vm_compute; reflexivity. Qed.

Definition ex_g : graph Z := graph_of_build ex_defs ex_r 0.
Definition ex_sem : sem Z unit unit := mkSem (fun _ v _ old => Some (old + v)) (fun _ _ _ => None).

Example ex_wf : WF ex_g.
Proof. exact (built_graph_WF Z ex_defs ex_r 0 (proj1 ex_accepted)). Qed.

(** State node of a name *)
Definition ex_pos (x : nat) : nat := index_of x (DagModel.order ex_r).

(** fork on; x1 := 10; x2 := 3; read s; propose x1 := 100; read s; reject *)
Definition ex_ops : list (op Z unit unit) :=
  [ SetMode 0 (Some COPY); Set_ 0 (ex_pos 1) (Some 10); Set_ 0 (ex_pos 2) (Some 3); Get 0 (ex_pos 5);
    Set_ 0 (ex_pos 1) (Some 100); Get 0 (ex_pos 5); Revert 0 ].

Example ex_history :
  forallb (@no_partial_revert Z unit unit) ex_ops = true /\
  snd (run_now ex_g ex_sem (init_store ex_g) ex_ops) = [Done; Done; Done; Ok (-7); Done; Ok (-187); Done] /\
  snd (step_now ex_g ex_sem (fst (run_now ex_g ex_sem (init_store ex_g) ex_ops)) (Get 0 (ex_pos 5))) = Ok (-7).
Proof. split; [vm_compute; reflexivity | split; vm_compute; reflexivity]. Qed.

(** ... hence, by the composed theorem, -7 is the by-name from-scratch value of "s" for the independent values the
    state holds after the rejection (x1 = 10 again). *)
Example ex_by_name : exists st,
  nth_error (fst (run_now ex_g ex_sem (init_store ex_g) ex_ops)) 0 = Some st /\
  by_name Z ex_r (values st) 1%nat = Some 10 /\
  Eval ex_defs (by_name Z ex_r (values st)) 5%nat (-7).
Proof.
  destruct (nth_error (fst (run_now ex_g ex_sem (init_store ex_g) ex_ops)) 0) as [st|] eqn:E; [|vm_compute in E; discriminate].
  exists st. split; [reflexivity|]. split.
  - vm_compute in E. injection E as <-. reflexivity.
  - assert (Hx : (5 < length ex_defs)%nat) by (simpl; lia).
    destruct (read_by_name_full_reverts_built Z unit unit ex_defs ex_r 0 ex_sem (proj1 ex_accepted) ex_ops
                (proj1 ex_history) 0%nat 5%nat st Hx E) as [H _].
    apply H. exact (proj2 (proj2 ex_history)).
Qed.
