(** Composition C01 -> C12: the five store-interface hypotheses of Io/EndOfFitProofs.v PROVED for the real State model
    (from [get_is_scratch], [scratch_ext], [get_props], ...), then C12_self_consistent with them discharged, and the same
    for the script as the code runs it (the reads of the prior's parameters fill the cache before each assignment). *)
From Coq Require Import List String Bool Arith Lia.
From Leaspy Require Import State.StateModel State.StateProofs State.StateNow Io.EndOfFit Io.EndOfFitProofs
                           Compose.StateApi Compose.StateApiProofs Compose.StateApiRunProofs Compose.StateEndOfFit.
Import ListNotations.
Open Scope string_scope.
Open Scope list_scope.

Section Proofs.
Variable V : Type.
Variable g : graph V.
Hypothesis wf : WF g.
Variable names : list string.
Hypothesis names_nodup : NoDup names.
Hypothesis names_length : List.length names = gn g.
Notation idx := (idx names).
Notation name_of := (name_of names).
Notation gstate := (gstate V g).
Notation s_get := (s_get V g names).
Notation s_touch := (s_touch V g wf names).
Notation s_set := (s_set V g wf names).
Notation s_clone := (s_clone V g).
Notation s_vals := (s_vals V g names).
Notation s_eval := (s_eval V g names).
Notation s_indep := (s_indep V g names).

(** ** names <-> indices *)
Lemma index_of_spec nm : forall l i, index_of nm l = Some i -> nth_error l i = Some nm.
Proof.
  induction l as [|x r IH]; intros i H; cbn in H; [discriminate|].
  destruct (String.eqb nm x) eqn:E.
  - injection H as <-. apply String.eqb_eq in E. now subst.
  - destruct (index_of nm r) as [j|]; cbn in H; [|discriminate]. injection H as <-. now apply IH.
Qed.

Lemma index_of_nth : forall l i, NoDup l -> i < List.length l -> index_of (nth i l "") l = Some i.
Proof.
  induction l as [|x r IH]; intros i ND Hi; cbn in Hi; [lia|]. inversion ND as [|? ? Hx NDr]; subst.
  destruct i as [|i]; cbn; [now rewrite String.eqb_refl|].
  assert (Hi' : i < List.length r) by lia. destruct (String.eqb (nth i r "") x) eqn:E.
  - apply String.eqb_eq in E. exfalso. apply Hx. rewrite <- E. now apply nth_In.
  - now rewrite IH.
Qed.

Lemma idx_bound nm i : idx nm = Some i -> i < gn g.
Proof. intros H. apply index_of_spec in H. rewrite <- names_length. apply nth_error_Some. congruence. Qed.

Lemma idx_name nm i : idx nm = Some i -> name_of i = nm.
Proof. intros H. apply index_of_spec in H. unfold StateEndOfFit.name_of. now apply nth_error_nth. Qed.

Lemma name_idx i : i < gn g -> idx (name_of i) = Some i.
Proof. intros Hi. apply index_of_nth; [exact names_nodup | now rewrite names_length]. Qed.

Lemma idx_inj nm nm' i : idx nm = Some i -> idx nm' = Some i -> nm = nm'.
Proof. intros H H'. rewrite <- (idx_name nm i H). now apply idx_name. Qed.

(** ** the five hypotheses *)

Lemma s_get_scratch (s : gstate) nm i : idx nm = Some i -> s_get s nm = scratch g (values (proj1_sig s)) i.
Proof.
  intros E. unfold StateEndOfFit.s_get. rewrite E. destruct s as [s (HI & HB & HF)]. cbn [proj1_sig].
  destruct (get_state_values V g s i) as [_ E2]. rewrite E2, (get_is_scratch V g wf (values s) i HI HB).
  unfold read_spec. now destruct (scratch g (values s) i).
Qed.

(** reads are never stale: a read is the from-scratch evaluation of the non-derived values the State holds (C01) *)
Theorem s_fresh_reads (s : gstate) nm : s_get s nm = s_eval (s_vals s) nm.
Proof.
  unfold StateEndOfFit.s_eval. destruct (idx nm) as [i|] eqn:E; [|unfold StateEndOfFit.s_get; now rewrite E].
  rewrite (s_get_scratch s nm i E). pose proof (idx_bound nm i E) as Hi.
  apply (scratch_local V g wf); [exact Hi|]. intros j Hj Lj.
  assert (Hjn : j < gn g). { destruct Hj as [->|Hj]; [exact Hi|]. pose proof (anc_lt V g wf i j Hi Hj). lia. }
  unfold StateEndOfFit.s_vals. now rewrite (name_idx j Hjn), Lj.
Qed.

Lemma s_indep_spec nm : s_indep nm = true -> exists i, idx nm = Some i /\ i < gn g /\ settable g i = true /\ linked g i = false.
Proof.
  unfold StateEndOfFit.s_indep. destruct (idx nm) as [i|] eqn:E; [|discriminate]. intros S. exists i.
  pose proof (idx_bound nm i E) as Hi. split; [reflexivity|]. split; [exact Hi|]. split; [exact S|].
  exact (wf_settable_indep wf i Hi S).
Qed.

Theorem s_set_vals (s : gstate) nm v m : s_indep nm = true -> s_vals (s_set nm v s) m = EndOfFitProofs.upd (option V) (s_vals s) nm v m.
Proof.
  intros Hn. destruct (s_indep_spec nm Hn) as (i & E & Hi & Si & Li).
  unfold StateEndOfFit.s_vals, StateEndOfFit.s_set, EndOfFitProofs.upd. rewrite E. cbn [proj1_sig].
  rewrite set_values. assert (Ei : r_indep V g i = true) by (unfold r_indep; apply Nat.ltb_lt in Hi; now rewrite Hi, Si).
  rewrite Ei. destruct (idx m) as [j|] eqn:Em.
  - destruct (String.eqb m nm) eqn:Emn.
    + apply String.eqb_eq in Emn. subst m. assert (j = i) by congruence. subst j. rewrite Li.
      rewrite reset_out; [apply StateProofs.upd_same|]. intros Hin. pose proof (desc_linked V g wf i i Hi Hin). congruence.
    + assert (Hji : j <> i). { intros ->. rewrite (idx_inj m nm i Em E), String.eqb_refl in Emn. discriminate. }
      destruct (linked g j) eqn:Lj; [reflexivity|]. rewrite reset_out; [now apply upd_other|].
      intros Hin. pose proof (desc_linked V g wf i j Hi Hin). congruence.
  - destruct (String.eqb m nm) eqn:Emn; [|reflexivity]. apply String.eqb_eq in Emn. subst m. congruence.
Qed.

Theorem s_clone_vals (s : gstate) m : s_vals (s_clone s) m = s_vals s m.
Proof. reflexivity. Qed.

Theorem s_eval_indep (a : string -> option V) nm : s_indep nm = true -> s_eval a nm = a nm.
Proof.
  intros Hn. destruct (s_indep_spec nm Hn) as (i & E & Hi & Si & Li). unfold StateEndOfFit.s_eval. rewrite E.
  rewrite (scratch_unfold V g wf) by exact Hi. now rewrite Li, (idx_name nm i E).
Qed.

Theorem s_eval_ext (a a' : string -> option V) nm : (forall m, a m = a' m) -> s_eval a nm = s_eval a' nm.
Proof.
  intros H. unfold StateEndOfFit.s_eval. destruct (idx nm) as [i|]; [|reflexivity].
  apply (scratch_ext V g wf). intros j _. apply H.
Qed.

(** a read changes no non-derived value (C01_get_transparent) *)
Theorem s_touch_vals (s : gstate) nm m : s_vals (s_touch s nm) m = s_vals s m.
Proof.
  unfold StateEndOfFit.s_touch. destruct (idx nm) as [i|]; [|reflexivity].
  unfold StateEndOfFit.s_vals. destruct (idx m) as [j|]; [|reflexivity]. cbn [proj1_sig].
  destruct (linked g j) eqn:Lj; [reflexivity|]. destruct s as [s (HI & HB & HF)]. cbn [proj1_sig].
  destruct (get_state_values V g s i) as [E _]. rewrite E.
  destruct (get_props V g wf (values s) i HI HB) as (_ & _ & HE & _). exact (extends_indep V g _ _ _ HE j Lj).
Qed.

(** the five hypotheses of Io/EndOfFitProofs.v, together *)
Theorem store_interface :
  (forall s n, s_get s n = s_eval (s_vals s) n) /\
  (forall s n v m, s_indep n = true -> s_vals (s_set n v s) m = EndOfFitProofs.upd (option V) (s_vals s) n v m) /\
  (forall s m, s_vals (s_clone s) m = s_vals s m) /\
  (forall a n, s_indep n = true -> s_eval a n = a n) /\
  (forall a a' n, (forall m, a m = a' m) -> s_eval a n = s_eval a' n).
Proof. exact (conj s_fresh_reads (conj s_set_vals (conj s_clone_vals (conj s_eval_indep s_eval_ext)))). Qed.

(** ** C12_self_consistent on the real State model *)
Section Script.
Variable stat : prior_stat -> string -> (string -> option V) -> option V.
Variable prior_params : string -> list string.
Variable pops : list string.
Hypothesis pops_nodup : NoDup pops.
Hypothesis pops_indep : forall pp, In pp pops -> s_indep pp = true.
Hypothesis stat_local : forall k pp f f', (forall q, In q (prior_params pp) -> f q = f' q) -> stat k pp f = stat k pp f'.
Hypothesis prior_params_ok : forall pp q, In pp pops -> In q (prior_params pp) -> s_indep q = true /\ ~ In q pops.

Notation target := (target (option V) gstate s_get stat s_vals).

Theorem self_consistent_state (s : gstate) :
  exists s', end_of_fit (option V) gstate s_get s_set s_clone stat pops s = Some s' /\
    (forall pp, In pp pops -> s_get s' pp = stat UseMode pp (s_get s)) /\
    (forall q, s_indep q = true -> ~ In q pops -> s_get s' q = s_get s q) /\
    (forall nm, s_get s' nm = s_eval (target UseMode s pops) nm).
Proof.
  exact (self_consistent (option V) gstate s_get s_set s_clone stat s_vals s_eval s_indep prior_params
           s_fresh_reads s_set_vals s_clone_vals s_eval_indep s_eval_ext pops pops_nodup pops_indep stat_local prior_params_ok s).
Qed.

(** *** the script as the code runs it: reads of the prior's parameters fill the cache before every assignment *)

Lemma touches_vals l : forall (s : gstate) m, s_vals (fold_left s_touch l s) m = s_vals s m.
Proof. induction l as [|q r IH]; intros s m; cbn; [reflexivity|]. now rewrite IH, s_touch_vals. Qed.

Lemma get_of_vals (s s' : gstate) : (forall m, s_vals s m = s_vals s' m) -> forall nm, s_get s nm = s_get s' nm.
Proof. intros H nm. rewrite !s_fresh_reads. now apply s_eval_ext. Qed.

Lemma put_population_cached_vals route i l : forall (s s' : gstate), (forall pp, In pp l -> In pp pops) ->
  (forall m, s_vals s m = s_vals s' m) ->
  forall m, s_vals (put_population_cached V g wf names stat prior_params route i l s) m =
            s_vals (put_population (option V) gstate s_get s_set stat route i l s') m.
Proof.
  induction l as [|pp r IH]; intros s s' Hl H m; cbn; [apply H|].
  apply IH; [intros x Hx; apply Hl; now right|]. intros m'.
  rewrite !s_set_vals by (apply pops_indep, Hl; now left). unfold EndOfFitProofs.upd.
  destruct (String.eqb m' pp); [|now rewrite touches_vals].
  apply stat_local. intros q _. now apply get_of_vals.
Qed.

(** the State object installed by the script as run has the same non-derived values, hence the same reads, as the one of
    the abstract script; so it satisfies the statement of the property *)
Theorem self_consistent_cached (s : gstate) :
  let s' := end_of_fit_cached V g wf names stat prior_params pops s in
  (forall pp, In pp pops -> s_get s' pp = stat UseMode pp (s_get s)) /\
  (forall q, s_indep q = true -> ~ In q pops -> s_get s' q = s_get s q) /\
  (forall nm, s_get s' nm = s_eval (target UseMode s pops) nm).
Proof.
  destruct (self_consistent_state s) as (s1 & E & H1 & H2 & H3). cbv zeta.
  assert (Hs1 : s1 = put_population (option V) gstate s_get s_set stat init_route InitMode pops (s_clone s)).
  { unfold end_of_fit, run_ops, end_of_fit_ops in E. cbn in E. now injection E as <-. }
  assert (Hg : forall nm, s_get (end_of_fit_cached V g wf names stat prior_params pops s) nm = s_get s1 nm).
  { apply get_of_vals. intros m. rewrite Hs1. unfold end_of_fit_cached.
    apply put_population_cached_vals; [auto | reflexivity]. }
  split; [intros pp Hp; rewrite Hg; now apply H1|]. split; [intros q Hq Hn; rewrite Hg; now apply H2|].
  intros nm. rewrite Hg. apply H3.
Qed.

End Script.
End Proofs.

(** ** ... for every State object of every store reachable from [init_store] *)
Section Reachable.
Variables V M IX : Type.
Variable g : graph V.
Variable sm : sem V M IX.
Hypothesis wf : WF g.
Hypothesis fmix : F_mix g sm.
Variable names : list string.
Hypothesis names_nodup : NoDup names.
Hypothesis names_length : List.length names = gn g.
Variable stat : prior_stat -> string -> (string -> option V) -> option V.
Variable prior_params : string -> list string.
Variable pops : list string.
Hypothesis pops_nodup : NoDup pops.
Hypothesis pops_indep : forall pp, In pp pops -> s_indep V g names pp = true.
Hypothesis stat_local : forall k pp f f', (forall q, In q (prior_params pp) -> f q = f' q) -> stat k pp f = stat k pp f'.
Hypothesis prior_params_ok : forall pp q, In pp pops -> In q (prior_params pp) -> s_indep V g names q = true /\ ~ In q pops.

Theorem self_consistent_reach (S : StateModel.store V) (k : nat) (s : state V) :
  Reach V g M IX sm S -> nth_error S k = Some s ->
  exists gs : gstate V g, proj1_sig gs = s /\
    let s' := end_of_fit_cached V g wf names stat prior_params pops gs in
    (forall pp, In pp pops -> s_get V g names s' pp = stat UseMode pp (s_get V g names gs)) /\
    (forall q, s_indep V g names q = true -> ~ In q pops -> s_get V g names s' q = s_get V g names gs q) /\
    (forall nm, s_get V g names s' nm =
                s_eval V g names (target (option V) (gstate V g) (s_get V g names) stat (s_vals V g names) UseMode gs pops) nm).
Proof.
  intros HR Hs. exists (exist _ s (proj1 (reach_cache V M IX g sm wf fmix S k s HR Hs))). split; [reflexivity|].
  exact (self_consistent_cached V g wf names names_nodup names_length stat prior_params pops pops_nodup pops_indep
           stat_local prior_params_ok _).
Qed.
End Reachable.
