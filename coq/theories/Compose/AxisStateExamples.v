(** Non-vacuity of the composition C07 + C15 -> C01/C02: a well-typed graph whose name order is not topological, with
    two-parent Pointwise / ReduceOther nodes and an aggregate; accepted by the modelled constructor; a history with a
    per-individual proposal, reads of per-individual terms and a per-individual rejection that respects the documented
    precondition; the reads afterwards are the from-scratch values (rejected rows old, accepted row new). *)
From Coq Require Import List Bool Arith PeanoNat ZArith Lia.
From Leaspy Require Import Locality.AxisTypes Locality.AxisExamples.
From Leaspy Require Dag.DagModel.
From Leaspy Require Import State.StateModel State.StateNow State.Revert.
From Leaspy Require Import Compose.DagState Compose.DagStateProofs Compose.AxisState Compose.AxisStateProofs Compose.AxisEval.
Import ListNotations.

(** ** a decidable form of the precondition of per-individual reverts, for any value type *)
Section DisciplineB.
Variables V M IX : Type.
Variable g : graph V.
Variable sm : sem V M IX.

Definition mask_ok_gb (m : M) (st : state V) : bool :=
  match fork st with
  | None => true
  | Some fk => forallb (fun co => match snd co, values st (fst co) with
                                   | Some o, Some cur => ind_axis g (fst co) && is_some (mix sm m o cur)
                                   | _, _ => true end) fk
  end.

Definition pre_ok_gb (s : store V) (o : op V M IX) : bool :=
  match o with
  | RevertMask k m => match nth_error s k with Some st => mask_ok_gb m st | None => true end
  | _ => true
  end.

Fixpoint mask_disciplined_gb (s : store V) (ops : list (op V M IX)) : bool :=
  match ops with
  | [] => true
  | o :: r => pre_ok_gb s o && mask_disciplined_gb (fst (step_now g sm s o)) r
  end.

Lemma mask_ok_gb_sound m st : mask_ok_gb m st = true -> mask_ok g sm m st.
Proof.
  unfold mask_ok_gb, mask_ok. destruct (fork st) as [fk|]; [|auto]. intros H c o cur Hin Hv.
  rewrite forallb_forall in H. specialize (H (c, Some o) Hin). cbn in H. rewrite Hv in H.
  apply andb_prop in H. destruct H as [H1 H2]. split; [exact H1|]. now destruct (mix sm m o cur).
Qed.

Lemma mask_disciplined_gb_sound ops : forall s, mask_disciplined_gb s ops = true -> MaskDisciplined g sm s ops.
Proof.
  induction ops as [|o r IH]; intros s H; cbn in *; [exact I|].
  apply andb_prop in H. destruct H as [H1 H2]. split; [|now apply IH].
  destruct o; cbn in *; auto. destruct (nth_error s k); [now apply mask_ok_gb_sound | auto].
Qed.
End DisciplineB.

Local Open Scope Z_scope.

(** names in sorted order: 0 nll = sum_j nll_ind[j], 1 nll_ind = sum_visits (y - model)^2, 2 model = g + xi,
    3 g (population), 4 xi (individual), 5 y (individual) — the graph [AxisExamples.toy] under another naming *)
Definition toy2 : AxisTypes.graph := AxisTypes.mkGraph
  [ mkNode Pop (Linked ReduceInd) [1%nat];
    mkNode Ind (Linked ReduceOther) [5%nat; 2%nat];
    mkNode Ind (Linked Pointwise) [3%nat; 4%nat];
    mkNode Pop Indep []; mkNode Ind Indep []; mkNode Ind Indep [] ]
  [3%nat; 4%nat; 5%nat; 2%nat; 1%nat; 0%nat].

Definition toy2_fs (i : nat) : nodefun Z :=
  match i with
  | 2%nat => toy_fs 3%nat
  | 1%nat => toy_fs 4%nat
  | 0%nat => toy_fs 5%nat
  | _ => toy_fs 0%nat
  end.

Definition toy2_defs := defs_of_axis Z Z.add toy2 toy2_fs 3%nat.

Definition toy2_r : DagModel.dag :=
  match DagModel.build (dag_of_defs toy2_defs) with
  | DagModel.Ok r => r
  | DagModel.Err _ => DagModel.mkDag [] [] [] []
  end.

Example toy2_accepted :
  well_typed toy2 = true /\
  DagModel.build (dag_of_defs toy2_defs) = DagModel.Ok toy2_r /\
  DagModel.order toy2_r = g_order toy2.
Proof. split; [vm_compute; reflexivity | split; vm_compute; reflexivity]. Qed.

Definition toy2_g : StateModel.graph (aval Z) := graph_of_build toy2_defs toy2_r None.
Definition toy2_sem : sem (aval Z) (list bool) unit := axis_sem Z unit (fun _ _ _ _ => None).
Definition p2 (x : nat) : nat := index_of x (DagModel.order toy2_r).

(** fork on; g, xi, y assigned; read nll_ind and nll; propose xi; read nll_ind (a per-individual term);
    reject individuals 0 and 2 *)
Definition toy2_ops : list (op (aval Z) (list bool) unit) :=
  [ SetMode 0 (Some COPY);
    Set_ 0 (p2 3) (Some (Some (VPop [10]))); Set_ 0 (p2 4) (Some (Some (VInd [[1]; [2]; [3]])));
    Set_ 0 (p2 5) (Some (Some (VInd ys1)));
    Get 0 (p2 1); Get 0 (p2 0);
    Set_ 0 (p2 4) (Some (Some (VInd [[2]; [3]; [0]])));
    Get 0 (p2 1);
    RevertMask 0 [true; false; true] ].

Example toy2_history :
  mask_disciplined_gb _ _ _ toy2_g toy2_sem (init_store toy2_g) toy2_ops = true /\
  snd (run_now toy2_g toy2_sem (init_store toy2_g) toy2_ops) =
    [Done; Done; Done; Done; Ok (Some (VInd [[1]; [10]; [58]])); Ok (Some (VPop [69])); Done;
     Ok (Some (VInd [[1]; [4]; [100]])); Done] /\
  snd (step_now toy2_g toy2_sem (fst (run_now toy2_g toy2_sem (init_store toy2_g) toy2_ops)) (Get 0 (p2 1))) =
    Ok (Some (VInd [[1]; [4]; [58]])).
Proof. split; [vm_compute; reflexivity | split; vm_compute; reflexivity]. Qed.

(** xi holds the old rows for the rejected individuals 0 and 2 and the proposed row for individual 1; the total is recomputed *)
Example toy2_after :
  map (fun x => snd (step_now toy2_g toy2_sem (fst (run_now toy2_g toy2_sem (init_store toy2_g) toy2_ops)) (Get 0 (p2 x))))
      [4%nat; 0%nat] = [Ok (Some (VInd [[1]; [3]; [3]])); Ok (Some (VPop [63]))].
Proof. vm_compute; reflexivity. Qed.

(** the composed theorem applies: the read of nll_ind after the rejection IS the from-scratch value *)
Example toy2_fresh : exists st,
  nth_error (fst (run_now toy2_g toy2_sem (init_store toy2_g) toy2_ops)) 0 = Some st /\
  scratch toy2_g (values st) (p2 1) = Some (Some (VInd [[1]; [4]; [58]])).
Proof.
  destruct (nth_error (fst (run_now toy2_g toy2_sem (init_store toy2_g) toy2_ops)) 0) as [st|] eqn:E; [|vm_compute in E; discriminate].
  exists st. split; [reflexivity|].
  apply (never_stale_axis Z Z.add unit (fun _ _ _ _ => None) toy2 toy2_fs 3%nat toy2_r None
           (proj1 (proj2 toy2_accepted)) toy2_ops
           (mask_disciplined_gb_sound _ _ _ toy2_g toy2_sem toy2_ops _ (proj1 toy2_history)) 0%nat (p2 1) st _ E).
  exact (proj2 (proj2 toy2_history)).
Qed.

(** the hypotheses of the composed partial-revert theorem are met: xi is a settable per-individual variable, nll_ind a
    per-individual term, and the closure condition follows (while it FAILS for the aggregate nll, as it must) *)
Example toy2_contract :
  settable toy2_g (p2 4) = true /\ ind_axis toy2_g (p2 4) = true /\ ind_axis toy2_g (p2 1) = true /\
  axis_read_ok toy2_g (p2 4) (p2 1) /\ ~ axis_read_ok toy2_g (p2 4) (p2 0).
Proof.
  split; [reflexivity|]. split; [reflexivity|]. split; [reflexivity|]. split.
  - apply (well_typed_axis_closed Z Z.add toy2 toy2_fs 3%nat toy2_r None (proj1 toy2_accepted) (proj1 (proj2 toy2_accepted)));
      try reflexivity; vm_compute; lia.
  - intros H. specialize (H (p2 0)). vm_compute in H. assert (false = true) by (apply H; tauto). discriminate.
Qed.

(** the state after the history holds the inputs g = 10, xi = [1; 3; 3] (rows 0, 2 old, row 1 proposed), y = ys1, and what
    it reads is C07's from-scratch evaluation of these inputs *)
Definition toy2_inp (i : nat) : value Z :=
  match i with
  | 3%nat => VPop [10]
  | 4%nat => VInd [[1]; [3]; [3]]
  | 5%nat => VInd ys1
  | _ => VPop []
  end.

Example toy2_reads_eval : exists st,
  nth_error (fst (run_now toy2_g toy2_sem (init_store toy2_g) toy2_ops)) 0 = Some st /\
  holds_inputs Z Z.add toy2 toy2_fs 3%nat toy2_r toy2_inp (values st) /\
  eval Z Z.add toy2 toy2_fs toy2_inp 3%nat 1%nat = Some (VInd [[1]; [4]; [58]]).
Proof.
  destruct (nth_error (fst (run_now toy2_g toy2_sem (init_store toy2_g) toy2_ops)) 0) as [st|] eqn:E; [|vm_compute in E; discriminate].
  exists st. split; [reflexivity|]. split; [|vm_compute; reflexivity].
  vm_compute in E. injection E as <-.
  intros x nd En K.
  do 6 (destruct x as [|x]; [simpl in En; injection En as <-; try discriminate K; vm_compute; reflexivity|]).
  destruct x; discriminate En.
Qed.
