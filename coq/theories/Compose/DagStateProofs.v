(** Composition C15 -> C01/C02, proofs: the graph the [State] model receives from the modelled DAG
    constructor is well-formed — [WF (graph_of_build defs r v0)] follows from [build (dag_of_defs defs) = Ok r]
    through the theorems of C15 ([build_topological], [build_exact]) alone. *)
From Coq Require Import List Arith Bool PeanoNat Lia Permutation Relations.
From Leaspy Require Dag.DagModel Dag.DagProofs.
From Leaspy Require Import State.StateModel State.StateProofs State.StateNow State.StateNowProofs.
From Leaspy Require Import Compose.DagState.
Import ListNotations.

(** * Lists: positions *)
Lemma index_of_nth l : NoDup l -> forall k, k < length l -> index_of (nth k l 0) l = k.
Proof.
  induction l as [|y l IH]; simpl; intros Hnd k Hk; [lia|].
  apply NoDup_cons_iff in Hnd as [Hy Hnd]. destruct k as [|k].
  - now rewrite Nat.eqb_refl.
  - destruct (Nat.eqb_spec (nth k l 0) y) as [E|_].
    + exfalso. apply Hy. rewrite <- E. apply nth_In. lia.
    + f_equal. apply IH; [exact Hnd | lia].
Qed.

Lemma index_of_In l x : In x l -> index_of x l < length l /\ nth (index_of x l) l 0 = x.
Proof.
  induction l as [|y l IH]; simpl; intros H; [contradiction|].
  destruct (Nat.eqb_spec x y) as [->|Hne].
  - split; [lia | reflexivity].
  - destruct H as [->|H]; [congruence|]. destruct (IH H). split; [lia | assumption].
Qed.

Lemma index_of_inj l x y : In x l -> In y l -> index_of x l = index_of y l -> x = y.
Proof.
  intros Hx Hy E. destruct (index_of_In l x Hx) as [_ <-]. destruct (index_of_In l y Hy) as [_ <-]. now rewrite E.
Qed.

Lemma before_index l a b : NoDup l -> DagModel.before l a b -> index_of a l < index_of b l.
Proof.
  intros Hnd (l1 & l2 & l3 & ->).
  assert (Ha : ~ In a l1 /\ ~ In a (l2 ++ b :: l3)) by (now apply DagProofs.NoDup_mid_notin).
  assert (Hb : ~ In b (l1 ++ a :: l2) /\ ~ In b l3).
  { apply DagProofs.NoDup_mid_notin. now rewrite <- app_assoc. }
  destruct Ha as [Ha1 Ha2]. destruct Hb as [Hb1 _].
  assert (P : forall (pre : list nat) (x : nat) (post : list nat), ~ In x pre -> index_of x (pre ++ x :: post) = length pre).
  { induction pre as [|z pre IH]; simpl; intros x post Hn.
    - now rewrite Nat.eqb_refl.
    - destruct (Nat.eqb_spec x z) as [->|_]; [exfalso; apply Hn; now left|]. f_equal. apply IH. intros Hi. apply Hn. now right. }
  rewrite (P l1 a _ Ha1).
  replace (l1 ++ a :: l2 ++ b :: l3) with ((l1 ++ a :: l2) ++ b :: l3) by (now rewrite <- app_assoc).
  rewrite (P _ b _ Hb1). rewrite app_length. simpl. lia.
Qed.

(** * [increasing] *)
Lemma increasing_cons_all a l : increasing l -> (forall x, In x l -> a < x) -> increasing (a :: l).
Proof. intros H Ha. simpl. split; [|exact H]. destruct l as [|b l]; [exact I|]. apply Ha. now left. Qed.

Lemma increasing_snoc_all l : forall a, increasing l -> (forall x, In x l -> x < a) -> increasing (l ++ [a]).
Proof.
  induction l as [|b l IH]; intros a H Ha; simpl; [auto|].
  destruct H as [Hb H]. split.
  - destruct l as [|c l]; simpl; [apply Ha; now left | exact Hb].
  - apply IH; [exact H|]. intros x Hx. apply Ha. now right.
Qed.

Lemma increasing_map_S l : increasing l -> increasing (map S l).
Proof.
  induction l as [|a l IH]; simpl; [auto|]. intros [Ha H]. split; [|now apply IH].
  destruct l as [|b l]; simpl; [exact I | lia].
Qed.

Lemma increasing_positions (f : nat -> bool) l : NoDup l ->
  increasing (map (fun x => index_of x l) (filter f l)).
Proof.
  induction l as [|y l IH]; intros Hnd; [exact I|].
  apply NoDup_cons_iff in Hnd as [Hy Hnd].
  assert (E : map (fun x => index_of x (y :: l)) (filter f l) = map S (map (fun x => index_of x l) (filter f l))).
  { rewrite map_map. apply map_ext_in. intros x Hx. apply filter_In in Hx as [Hx _]. simpl.
    destruct (Nat.eqb_spec x y) as [->|_]; [contradiction | reflexivity]. }
  cbn [filter]. destruct (f y).
  - cbn [map]. rewrite E. simpl index_of. rewrite Nat.eqb_refl.
    apply increasing_cons_all; [apply increasing_map_S, IH, Hnd|].
    intros x Hx. apply in_map_iff in Hx as (z & <- & _). lia.
  - rewrite E. apply increasing_map_S, IH, Hnd.
Qed.

(** * association lists *)
Lemma alookup_In (al : list (nat * list nat)) x :
  In x (map fst al) -> In (x, alookup x al) al.
Proof.
  unfold alookup. induction al as [|[k v] al IH]; simpl; intros H; [contradiction|].
  destruct (Nat.eqb_spec k x) as [->|Hne]; simpl.
  - now left.
  - destruct H as [H|H]; [congruence|]. right. now apply IH.
Qed.

(** * paths *)
Lemma reach_first g k j : DagModel.reach g k j <-> exists i, DagModel.edge g k i /\ (i = j \/ DagModel.reach g i j).
Proof.
  unfold DagModel.reach. split.
  - intros H. apply clos_trans_t1n in H. inversion H as [E | i ? E H']; subst.
    + exists j. auto.
    + exists i. split; auto. right. now apply clos_t1n_trans.
  - intros (i & E & [-> | H]).
    + now apply t_step.
    + eapply t_trans; eauto. now apply t_step.
Qed.

Scheme Eval_mind := Minimality for Eval Sort Prop
  with EvalL_mind := Minimality for EvalL Sort Prop.

(** * The bridge *)
Section Bridge.
Variable V : Type.
Variable defs : list (vdef V).
Variable r : DagModel.dag.
Variable v0 : V.
Hypothesis Hb : DagModel.build (dag_of_defs defs) = DagModel.Ok r.

Let g := dag_of_defs defs.
Let ord := DagModel.order r.
Let n := length defs.
Let nm := fun k => nth k ord 0.
Let pos := fun x => index_of x ord.
Let gS := graph_of_build defs r v0.

Lemma nnodes_g : DagModel.nnodes g = n.
Proof. unfold g, dag_of_defs, DagModel.nnodes, n. apply map_length. Qed.

Lemma ord_perm : Permutation ord (seq 0 n).
Proof. rewrite <- nnodes_g. apply (proj1 (DagProofs.build_topological g r Hb)). Qed.

Lemma ord_nodup : NoDup ord.
Proof. eapply Permutation_NoDup; [apply Permutation_sym, ord_perm | apply seq_NoDup]. Qed.

Lemma ord_len : length ord = n.
Proof. rewrite (Permutation_length ord_perm). apply seq_length. Qed.

Lemma ord_In x : In x ord <-> x < n.
Proof.
  split; intros H.
  - apply (Permutation_in _ ord_perm) in H. apply in_seq in H. lia.
  - apply (Permutation_in _ (Permutation_sym ord_perm)). apply in_seq. lia.
Qed.

Lemma gn_gS : gn gS = n.
Proof. exact ord_len. Qed.

Lemma nm_lt k : k < n -> nm k < n.
Proof. intros H. apply ord_In. apply nth_In. now rewrite ord_len. Qed.

Lemma pos_nm k : k < n -> pos (nm k) = k.
Proof. intros H. apply index_of_nth; [apply ord_nodup | now rewrite ord_len]. Qed.

Lemma nm_pos x : x < n -> pos x < n /\ nm (pos x) = x.
Proof. intros H. apply ord_In in H. destruct (index_of_In ord x H). rewrite <- ord_len. auto. Qed.

Lemma pos_inj x y : x < n -> y < n -> pos x = pos y -> x = y.
Proof. intros Hx Hy. apply index_of_inj; now apply ord_In. Qed.

Lemma g_wf : DagProofs.gwf g.
Proof. exact (proj1 (DagProofs.build_ok g r Hb)). Qed.

Lemma dag_parents c : DagModel.parents g c = d_params (nth c defs d_default).
Proof. unfold DagModel.parents, g, dag_of_defs. exact (map_nth d_params defs d_default c). Qed.

Lemma edge_lt p c : DagModel.edge g p c -> p < n /\ c < n.
Proof.
  intros E. rewrite <- nnodes_g. split; [eapply (proj1 g_wf); eauto | eapply DagProofs.edge_child_lt; eauto].
Qed.

Lemma reach_lt a b : DagModel.reach g a b -> a < n /\ b < n.
Proof. intros H. rewrite <- nnodes_g. apply DagProofs.reach_lt; [exact g_wf | exact H]. Qed.

Lemma reach_pos a b : DagModel.reach g a b -> pos a < pos b.
Proof.
  intros H. apply before_index; [apply ord_nodup|].
  apply (proj2 (DagProofs.build_topological g r Hb)). exact H.
Qed.

Lemma desc_eq i : desc gS i = map pos (alookup (nm i) (DagModel.sorted_children r)).
Proof. reflexivity. Qed.
Lemma anc_eq i : anc gS i = map pos (alookup (nm i) (DagModel.sorted_ancestors r)).
Proof. reflexivity. Qed.
Lemma parents_eq k : parents gS k = map pos (d_params (nth (nm k) defs d_default)).
Proof. reflexivity. Qed.

(** [parents] of the State graph = the direct ancestors, re-indexed *)
Lemma parents_iff k p : k < n ->
  (In p (parents gS k) <-> exists q, DagModel.edge g q (nm k) /\ p = pos q).
Proof.
  intros Hk. rewrite parents_eq, in_map_iff.
  unfold DagModel.edge. rewrite dag_parents. split.
  - intros (q & <- & Hq). exists q. auto.
  - intros (q & Hq & ->). exists q. auto.
Qed.

Lemma children_entry x : x < n -> exists f,
  alookup x (DagModel.sorted_children r) = filter f ord /\
  forall j, In j (alookup x (DagModel.sorted_children r)) <-> DagModel.reach g x j.
Proof.
  intros Hx. destruct (DagProofs.build_exact g r Hb) as (E1 & _ & H & _).
  assert (Hin : In (x, alookup x (DagModel.sorted_children r)) (DagModel.sorted_children r)).
  { apply alookup_In. rewrite E1. now apply ord_In. }
  destruct (H _ _ Hin) as [[f Hf] Hr]. exists f. split; [exact Hf | exact Hr].
Qed.

Lemma ancestors_entry x : x < n -> exists f,
  alookup x (DagModel.sorted_ancestors r) = filter f ord /\
  forall j, In j (alookup x (DagModel.sorted_ancestors r)) <-> DagModel.reach g j x.
Proof.
  intros Hx. destruct (DagProofs.build_exact g r Hb) as (_ & E2 & _ & H).
  assert (Hin : In (x, alookup x (DagModel.sorted_ancestors r)) (DagModel.sorted_ancestors r)).
  { apply alookup_In. rewrite E2. now apply ord_In. }
  destruct (H _ _ Hin) as [[f Hf] Hr]. exists f. split; [exact Hf | exact Hr].
Qed.

(** [desc] / [anc] of the State graph = the nodes reachable from / reaching the node, re-indexed *)
Lemma desc_iff i c : i < n -> (In c (desc gS i) <-> exists y, DagModel.reach g (nm i) y /\ c = pos y).
Proof.
  intros Hi. destruct (children_entry (nm i) (nm_lt i Hi)) as (f & _ & Hr).
  rewrite desc_eq, in_map_iff. split.
  - intros (y & <- & Hy). exists y. split; [now apply Hr | reflexivity].
  - intros (y & Hy & ->). exists y. split; [reflexivity | now apply Hr].
Qed.

Lemma anc_iff i a : i < n -> (In a (anc gS i) <-> exists y, DagModel.reach g y (nm i) /\ a = pos y).
Proof.
  intros Hi. destruct (ancestors_entry (nm i) (nm_lt i Hi)) as (f & _ & Hr).
  rewrite anc_eq, in_map_iff. split.
  - intros (y & <- & Hy). exists y. split; [now apply Hr | reflexivity].
  - intros (y & Hy & ->). exists y. split; [reflexivity | now apply Hr].
Qed.

Lemma desc_increasing i : i < n -> increasing (desc gS i).
Proof.
  intros Hi. destruct (children_entry (nm i) (nm_lt i Hi)) as (f & Hf & _).
  rewrite desc_eq, Hf.
  apply increasing_positions, ord_nodup.
Qed.

Lemma anc_increasing i : i < n -> increasing (anc gS i).
Proof.
  intros Hi. destruct (ancestors_entry (nm i) (nm_lt i Hi)) as (f & Hf & _).
  rewrite anc_eq, Hf.
  apply increasing_positions, ord_nodup.
Qed.

(** ** C15 discharges the graph hypothesis of C01 / C02 *)
Theorem built_graph_WF : WF gS.
Proof.
  constructor; rewrite ?gn_gS.
  - (* parents are smaller *)
    intros k p Hk Hp. apply (parents_iff k p Hk) in Hp as (q & E & ->).
    assert (H : pos q < pos (nm k)) by (apply reach_pos; now apply t_step). now rewrite (pos_nm k Hk) in H.
  - (* independent variables have no parents *)
    intros k Hk. unfold gS, graph_of_build. cbn [linked parents].
    destruct (nth (nth k (DagModel.order r) 0) defs d_default); simpl; [reflexivity | reflexivity | discriminate].
  - intros k Hk. unfold gS, graph_of_build. cbn [linked settable].
    destruct (nth (nth k (DagModel.order r) 0) defs d_default); simpl; auto; discriminate.
  - intros k Hk. unfold gS, graph_of_build. cbn [linked settable hyper].
    destruct (nth (nth k (DagModel.order r) 0) defs d_default); simpl; auto; intros H; now elim H.
  - (* desc: increasing, after the node itself *)
    intros i Hi. apply increasing_cons_all; [now apply desc_increasing|].
    intros x Hx. apply (desc_iff i x Hi) in Hx as (y & R & ->).
    pose proof (reach_pos _ _ R) as H. now rewrite (pos_nm i Hi) in H.
  - intros i k Hi Hk. apply (desc_iff i k Hi) in Hk as (y & R & ->).
    apply nm_pos. apply (reach_lt _ _ R).
  - (* desc is closed under "child of" *)
    intros i k p Hi Hk Hp Hd. apply (parents_iff k p Hk) in Hp as (q & E & ->).
    apply (desc_iff i k Hi). exists (nm k). split; [|now rewrite pos_nm].
    destruct Hd as [Hd|Hd].
    + assert (q = nm i) as ->.
      { apply pos_inj; [apply (edge_lt _ _ E) | now apply nm_lt | now rewrite pos_nm]. }
      now apply t_step.
    + apply (desc_iff i _ Hi) in Hd as (y & R & Ey).
      assert (q = y) as -> by (apply pos_inj; [apply (edge_lt _ _ E) | apply (reach_lt _ _ R) | exact Ey]).
      apply t_trans with y; [exact R | apply t_step; exact E].
  - (* every member of desc has a parent that is the node or in desc *)
    intros i k Hi Hk. apply (desc_iff i k Hi) in Hk as (y & R & ->).
    apply DagProofs.reach_last in R as (q & E & Hq).
    destruct (nm_pos y (proj2 (edge_lt _ _ E))) as [Hy Ey].
    exists (pos q). split.
    + apply (parents_iff _ _ Hy). exists q. split; [now rewrite Ey | reflexivity].
    + destruct Hq as [<-|Hq]; [left; now apply pos_nm | right].
      apply (desc_iff i _ Hi). eauto.
  - (* anc: increasing, before the node itself *)
    intros i Hi. apply increasing_snoc_all; [now apply anc_increasing|].
    intros x Hx. apply (anc_iff i x Hi) in Hx as (y & R & ->).
    pose proof (reach_pos _ _ R) as H. now rewrite (pos_nm i Hi) in H.
  - intros i p Hi Hp. apply (parents_iff i p Hi) in Hp as (q & E & ->).
    apply (anc_iff i _ Hi). exists q. split; [now apply t_step | reflexivity].
  - intros i a p Hi Ha Hp. apply (anc_iff i a Hi) in Ha as (y & R & ->).
    destruct (nm_pos y (proj1 (reach_lt _ _ R))) as [Hy Ey].
    apply (parents_iff _ p Hy) in Hp as (q & E & ->). rewrite Ey in E.
    apply (anc_iff i _ Hi). exists q. split; [|reflexivity].
    apply t_trans with y; [apply t_step; exact E | exact R].
  - intros i a Hi Ha. apply (anc_iff i a Hi) in Ha as (y & R & ->).
    apply reach_first in R as (c & E & Hc). destruct Hc as [->|Hc].
    + left. apply (parents_iff i _ Hi). eauto.
    + right. exists (pos c). split.
      * apply (anc_iff i _ Hi). eauto.
      * destruct (nm_pos c (proj2 (edge_lt _ _ E))) as [Hcn Ec].
        apply (parents_iff _ _ Hcn). exists y. split; [now rewrite Ec | reflexivity].
Qed.

(** * The from-scratch value, by name: [scratch] on the built graph is the order-free relation [Eval]
    on the definitions. *)
(** the independent values a table of the State holds, by name *)
Definition by_name (vs : vals V) : nat -> option V := fun x => vs (pos x).

Lemma def_at x : x < n -> nth_error defs x = Some (nth x defs d_default).
Proof. intros H. now apply nth_error_nth'. Qed.

Lemma linked_eq k : linked gS k = d_linked (nth (nm k) defs d_default).
Proof. reflexivity. Qed.
Lemma F_eq k : F gS k = d_fun v0 (nth (nm k) defs d_default).
Proof. reflexivity. Qed.

Lemma params_lt x p : In p (d_params (nth x defs d_default)) -> p < n /\ x < n.
Proof.
  intros H. apply edge_lt. unfold DagModel.edge. now rewrite dag_parents.
Qed.

Theorem scratch_sound_by_name (vs : vals V) : forall k v, k < n ->
  scratch gS vs k = Some v -> Eval defs (by_name vs) (nm k) v.
Proof.
  intros k. induction k as [k IH] using lt_wf_ind. intros v Hk Hs.
  assert (Hkg : k < gn gS) by (now rewrite gn_gS).
  rewrite (scratch_unfold V gS built_graph_WF vs k Hkg) in Hs.
  pose proof (nm_lt k Hk) as Hx.
  rewrite linked_eq, F_eq, parents_eq in Hs.
  destruct (nth (nm k) defs d_default) as [hv|a|a ps f] eqn:Ed; simpl d_linked in Hs; simpl d_fun in Hs; simpl d_params in Hs.
  - eapply EvIndep; [rewrite (def_at _ Hx), Ed; reflexivity | reflexivity|].
    unfold by_name. fold ord. change (index_of (nm k) ord) with (pos (nm k)). now rewrite (pos_nm k Hk).
  - eapply EvIndep; [rewrite (def_at _ Hx), Ed; reflexivity | reflexivity|].
    unfold by_name. fold ord. change (index_of (nm k) ord) with (pos (nm k)). now rewrite (pos_nm k Hk).
  - destruct (mapM (scratch gS vs) (map pos ps)) as [args|] eqn:Hm; [|discriminate].
    injection Hs as <-.
    eapply EvLinked; [rewrite (def_at _ Hx), Ed; reflexivity|].
    assert (Hps : forall p, In p ps -> p < n /\ pos p < k).
    { intros p Hp. assert (Hpn : p < n) by (apply (params_lt (nm k) p); now rewrite Ed).
      split; [exact Hpn|]. apply (wf_parents_lt built_graph_WF k (pos p) Hkg).
      rewrite parents_eq. fold nm. rewrite Ed. cbn [d_params]. now apply in_map. }
    clear Ed. apply (mapM_some V) in Hm.
    revert args Hm. induction ps as [|p ps IHp]; intros args Hm; inversion Hm as [|? w ? ws Ew Ews]; subst.
    + constructor.
    + destruct (Hps p (or_introl eq_refl)) as [Hpn Hpk]. constructor.
      * rewrite <- (proj2 (nm_pos p Hpn)). apply IH; [exact Hpk | apply (nm_pos p Hpn) | exact Ew].
      * apply IHp; [intros q Hq; apply Hps; now right | exact Ews].
Qed.

Theorem scratch_complete_by_name (vs : vals V) : forall x v,
  Eval defs (by_name vs) x v -> x < n -> scratch gS vs (pos x) = Some v.
Proof.
  apply (Eval_mind V defs (by_name vs)
           (fun x v => x < n -> scratch gS vs (pos x) = Some v)
           (fun ps args => (forall p, In p ps -> p < n) -> mapM (scratch gS vs) (map pos ps) = Some args)).
  - intros x d v Hd Hl Hv Hx.
    destruct (nm_pos x Hx) as [Hp Ex].
    rewrite (scratch_unfold V gS built_graph_WF vs (pos x)) by (now rewrite gn_gS).
    rewrite linked_eq. fold pos in Ex. unfold nm. unfold nm in Ex. rewrite Ex.
    rewrite (def_at x Hx) in Hd. injection Hd as ->. rewrite Hl. exact Hv.
  - intros x a ps f args Hd _ IHl Hx.
    destruct (nm_pos x Hx) as [Hp Ex].
    rewrite (scratch_unfold V gS built_graph_WF vs (pos x)) by (now rewrite gn_gS).
    rewrite linked_eq, F_eq, parents_eq. unfold nm. unfold nm in Ex. fold pos in Ex. rewrite Ex.
    rewrite (def_at x Hx) in Hd. injection Hd as Ed. rewrite Ed. cbn [d_linked d_params d_fun].
    rewrite IHl; [reflexivity|]. intros p Hp'. apply (params_lt x p). rewrite Ed. exact Hp'.
  - intros _. reflexivity.
  - intros p ps v vs' _ IHp _ IHl Hall. cbn [map mapM].
    rewrite IHp by (apply Hall; now left). rewrite IHl by (intros q Hq; apply Hall; now right). reflexivity.
Qed.

Theorem scratch_by_name (vs : vals V) k v : k < n ->
  (scratch gS vs k = Some v <-> Eval defs (by_name vs) (nm k) v).
Proof.
  intros Hk. split; [now apply scratch_sound_by_name|].
  intros H. rewrite <- (pos_nm k Hk). apply scratch_complete_by_name; [exact H | now apply (nm_lt )].
Qed.

(** the relation is a partial function *)
Corollary Eval_deterministic ind : forall x v w, x < n -> Eval defs ind x v -> Eval defs ind x w -> v = w.
Proof.
  intros x v w Hx H1 H2.
  set (vs := fun k => ind (nm k) : option V).
  assert (E : forall y u, Eval defs ind y u -> Eval defs (by_name vs) y u).
  { apply (Eval_mind V defs ind (fun y u => Eval defs (by_name vs) y u) (fun ps args => EvalL defs (by_name vs) ps args)).
    - intros y d u Hd Hl Hu. eapply EvIndep; eauto. unfold by_name, vs.
      assert (Hy : y < n) by (apply nth_error_Some; congruence).
      fold ord. change (index_of y ord) with (pos y). now rewrite (proj2 (nm_pos y Hy)).
    - intros y a ps f args Hd _ IHl. eapply EvLinked; eauto.
    - constructor.
    - intros p ps u us _ Hp _ Hl. now constructor. }
  apply E in H1. apply E in H2.
  apply scratch_complete_by_name in H1; [|exact Hx]. apply scratch_complete_by_name in H2; [|exact Hx]. congruence.
Qed.
End Bridge.

(** * Histories without per-individual reverts need no hypothesis on the node functions at all.
    [F_mix] is only used by the [RevertMask] case of the invariant; a history that contains none runs identically
    under the semantic record whose [mix] always refuses, for which [F_mix] holds vacuously. *)
Section NoMix.
Variables V M IX : Type.
Variable g : graph V.
Variable sm : sem V M IX.
Hypothesis wf : WF g.

Definition sem_nomix : sem V M IX := mkSem (put_val sm) (fun _ _ _ => None).

Lemma F_mix_nomix : F_mix g sem_nomix.
Proof. intros k m sel olds curs news x _ _ _ _ _ _ H. discriminate H. Qed.

Lemma step_nomix s o : no_partial_revert o = true -> step g sm true s o = step g sem_nomix true s o.
Proof. destruct o; intros H; try reflexivity. discriminate H. Qed.

Lemma run_nomix ops : forallb (@no_partial_revert V M IX) ops = true ->
  forall s, run g sm true s ops = run g sem_nomix true s ops.
Proof.
  induction ops as [|o ops IH]; intros H s; [reflexivity|].
  cbn [forallb] in H. apply andb_true_iff in H as [Ho H]. cbn [run].
  rewrite (step_nomix s o Ho). destruct (step g sem_nomix true s o) as [s' x]. now rewrite (IH H s').
Qed.

Theorem read_full_reverts_nomix ops : forallb (@no_partial_revert V M IX) ops = true ->
  forall k i st,
    nth_error (fst (run_now g sm (init_store g) ops)) k = Some st ->
    snd (step_now g sm (fst (run_now g sm (init_store g) ops)) (Get k i)) =
      match scratch g (values st) i with Some v => Ok v | None => Err InputError end.
Proof.
  intros H k i st. unfold run_now, step_now. rewrite (run_nomix ops H).
  rewrite (step_nomix _ (Get k i) eq_refl).
  apply (read_after_history_now V M IX g sem_nomix wf ops F_mix_nomix).
  now apply MaskDisciplined_no_partial.
Qed.

Theorem never_stale_full_reverts_nomix ops : forallb (@no_partial_revert V M IX) ops = true ->
  forall k i st v,
    nth_error (fst (run_now g sm (init_store g) ops)) k = Some st ->
    snd (step_now g sm (fst (run_now g sm (init_store g) ops)) (Get k i)) = Ok v ->
    scratch g (values st) i = Some v.
Proof.
  intros H k i st v Hst Hv. rewrite (read_full_reverts_nomix ops H k i st Hst) in Hv.
  destruct (scratch g (values st) i); [now injection Hv as -> | discriminate].
Qed.
End NoMix.


(** * End to end: definitions accepted by the modelled constructor, any history, every read.
    No hypothesis on the graph is left; [F_mix] (node functions, not graph) stays only where the history
    contains per-individual reverts. *)
Section EndToEnd.
Variables V M IX : Type.
Variable defs : list (vdef V).
Variable r : DagModel.dag.
Variable v0 : V.
Variable sm : sem V M IX.
Hypothesis Hb : DagModel.build (dag_of_defs defs) = DagModel.Ok r.

Local Notation g := (graph_of_build defs r v0).
Let W : WF g := built_graph_WF V defs r v0 Hb.

Theorem never_stale_built : F_mix g sm ->
  forall ops, MaskDisciplined g sm (init_store g) ops ->
  forall k i st v,
    nth_error (fst (run_now g sm (init_store g) ops)) k = Some st ->
    snd (step_now g sm (fst (run_now g sm (init_store g) ops)) (Get k i)) = Ok v ->
    scratch g (values st) i = Some v.
Proof. intros Fm ops. exact (never_stale_now V M IX g sm W ops Fm). Qed.

Theorem read_is_scratch_built : F_mix g sm ->
  forall ops, MaskDisciplined g sm (init_store g) ops ->
  forall k i st,
    nth_error (fst (run_now g sm (init_store g) ops)) k = Some st ->
    snd (step_now g sm (fst (run_now g sm (init_store g) ops)) (Get k i)) =
      match scratch g (values st) i with Some v => Ok v | None => Err InputError end.
Proof. intros Fm ops. exact (read_after_history_now V M IX g sm W ops Fm). Qed.

Theorem unset_is_error_built : F_mix g sm ->
  forall ops, MaskDisciplined g sm (init_store g) ops ->
  forall k i st,
    nth_error (fst (run_now g sm (init_store g) ops)) k = Some st ->
    let res := snd (step_now g sm (fst (run_now g sm (init_store g) ops)) (Get k i)) in
    (res = Err InputError <-> scratch g (values st) i = None) /\ (forall e, res = Err e -> e = InputError).
Proof. intros Fm ops. exact (unset_is_error_now V M IX g sm W ops Fm). Qed.

Theorem never_stale_full_reverts_built :
  forall ops, forallb (@no_partial_revert V M IX) ops = true ->
  forall k i st v,
    nth_error (fst (run_now g sm (init_store g) ops)) k = Some st ->
    snd (step_now g sm (fst (run_now g sm (init_store g) ops)) (Get k i)) = Ok v ->
    scratch g (values st) i = Some v.
Proof. exact (never_stale_full_reverts_nomix V M IX g sm W). Qed.

(** what a read of the variable NAMED [x] returns, in terms of the definitions only *)
Lemma read_by_name_of_scratch (res : out V) (vs : vals V) x : x < length defs ->
  res = match scratch g vs (index_of x (DagModel.order r)) with Some v => Ok v | None => Err InputError end ->
  (forall v, res = Ok v <-> Eval defs (by_name V r vs) x v) /\
  (res = Err InputError <-> forall v, ~ Eval defs (by_name V r vs) x v) /\
  (forall e, res = Err e -> e = InputError).
Proof.
  intros Hx ->.
  destruct (nm_pos V defs r Hb x Hx) as [Hp Ex].
  assert (S : forall v, scratch g vs (index_of x (DagModel.order r)) = Some v <-> Eval defs (by_name V r vs) x v).
  { intros v. rewrite (scratch_by_name V defs r v0 Hb vs _ v Hp). now rewrite Ex. }
  destruct (scratch g vs (index_of x (DagModel.order r))) as [w|].
  - split; [|split].
    + intros v. rewrite <- S. split; [now intros [= ->] | now intros [= ->]].
    + split; [discriminate|]. intros H. exfalso. apply (H w). now apply S.
    + discriminate.
  - split; [|split].
    + intros v. rewrite <- S. split; discriminate.
    + split; [|reflexivity]. intros _ v H. apply S in H. discriminate.
    + now intros e [= <-].
Qed.

Theorem read_by_name_built : F_mix g sm ->
  forall ops, MaskDisciplined g sm (init_store g) ops ->
  forall k x st, x < length defs ->
    nth_error (fst (run_now g sm (init_store g) ops)) k = Some st ->
    let res := snd (step_now g sm (fst (run_now g sm (init_store g) ops)) (Get k (index_of x (DagModel.order r)))) in
    (forall v, res = Ok v <-> Eval defs (by_name V r (values st)) x v) /\
    (res = Err InputError <-> forall v, ~ Eval defs (by_name V r (values st)) x v) /\
    (forall e, res = Err e -> e = InputError).
Proof.
  intros Fm ops HD k x st Hx Hst res. apply read_by_name_of_scratch; [exact Hx|].
  exact (read_after_history_now V M IX g sm W ops Fm HD k _ st Hst).
Qed.

Theorem read_by_name_full_reverts_built :
  forall ops, forallb (@no_partial_revert V M IX) ops = true ->
  forall k x st, x < length defs ->
    nth_error (fst (run_now g sm (init_store g) ops)) k = Some st ->
    let res := snd (step_now g sm (fst (run_now g sm (init_store g) ops)) (Get k (index_of x (DagModel.order r)))) in
    (forall v, res = Ok v <-> Eval defs (by_name V r (values st)) x v) /\
    (res = Err InputError <-> forall v, ~ Eval defs (by_name V r (values st)) x v) /\
    (forall e, res = Err e -> e = InputError).
Proof.
  intros ops Hn k x st Hx Hst res. apply read_by_name_of_scratch; [exact Hx|].
  exact (read_full_reverts_nomix V M IX g sm W ops Hn k _ st Hst).
Qed.
End EndToEnd.

(** Acceptance side (C15_accepts): definitions without cycle, self reference, unknown reference or isolated
    variable ARE accepted, so the theorems above are about all of them. *)
Theorem accepted_defs_have_WF_graph (V : Type) (defs : list (vdef V)) (v0 : V) :
  ~ DagModel.cyclic (dag_of_defs defs) -> ~ DagModel.self_loop (dag_of_defs defs) ->
  ~ DagModel.unknown_ref (dag_of_defs defs) -> ~ DagModel.isolated (dag_of_defs defs) ->
  exists r, DagModel.build (dag_of_defs defs) = DagModel.Ok r /\ WF (graph_of_build defs r v0).
Proof.
  intros H1 H2 H3 H4. destruct (DagProofs.build_accepts _ H1 H2 H3 H4) as [r Hr].
  exists r. split; [exact Hr | now apply built_graph_WF].
Qed.
