(** Composition C15 (extension 4: [from_dict]) -> C01/C02: the graph the [State] model works on, starting from
    FUNCTION SIGNATURES.  Definitions only; proofs in FromDictStateProofs.v.

    Compose/DagState.v starts from definitions [DLinked axis params f] whose parameter list is GIVEN, and from
    [dag_of_defs defs] = the [direct_ancestors] mapping "the constructor receives".  Dag/FromDict.v models the step
    before: a definition is [FromDict.DLinked c] with [c] what [inspect.signature] reports of the function (or a
    [NamedInputFunction]); [FromDict.direct_ancestors] DERIVES the mapping with [get_named_parameters], and
    [FromDict.from_dict] hands it to [DagModel.build] after the key-set check.

    This file attaches to a list of [FromDict.vdef] (signatures) what the [State] model also needs and the DAG never
    looks at — by name-sorted node [i]: [hv i] the fixed value of a hyper-parameter, [ax i] the axis flag,
    [fs i] the node function (taking the values of its named parameters in the order [get_named_parameters] lists
    them) — and produces the [DagState.vdef]s with the parameter list COMPUTED from the signature.  Nothing else is
    new: the graph is [DagState.graph_of_build] of these definitions. *)
From Coq Require Import List Arith Bool PeanoNat.
From Leaspy Require Dag.DagModel Dag.GraphLit Dag.FromDict.
From Leaspy Require Import State.StateModel State.StateNow Compose.DagState.
Import ListNotations.

Section Defs.
Variable V : Type.
Variable hv : nat -> V.                 (* value of hyper-parameter [i] *)
Variable ax : nat -> bool.              (* axis flag of variable [i] *)
Variable fs : nat -> list V -> V.       (* function of linked variable [i] *)

(** [LinkedVariable.parameters] as the ordered names [get_named_parameters] returns; [[]] for a refused signature
    (never reached below: such definitions are refused by [from_dict] with [FSignature]) *)
Definition names_of (c : FromDict.callable) : list nat :=
  match FromDict.get_named_parameters c with
  | FromDict.GnpOk ps => ps
  | FromDict.GnpValueError _ => []
  end.

(** the State-level definition of variable [i] from its signature-level definition *)
Definition sdef_of (i : nat) (d : FromDict.vdef) : vdef V :=
  match d with
  | FromDict.DIndep GraphLit.KHyper => DHyper (hv i)
  | FromDict.DIndep _ => DIndep (ax i)
  | FromDict.DLinked c => DLinked (ax i) (names_of c) (fs i)
  end.

Fixpoint sdefs_from (i : nat) (ds : list FromDict.vdef) : list (vdef V) :=
  match ds with
  | [] => []
  | d :: r => sdef_of i d :: sdefs_from (S i) r
  end.

Definition sdefs (ds : list FromDict.vdef) : list (vdef V) := sdefs_from 0 ds.

(** the graph the [State] model works on, from the signatures: [r] is what [from_dict ds] returned *)
Definition graph_from_definitions (ds : list FromDict.vdef) (r : DagModel.dag) (v0 : V) : graph V :=
  graph_of_build (sdefs ds) r v0.

End Defs.

Arguments names_of c : assert.

(** * What "the State model is sound on the graph obtained from these definitions" means — for every value type,
      every attachment of hyper-parameter values / axis flags / node functions, every semantic record:
      the graph is well formed, has one node per definition, the parents of a node are exactly the named parameters of
      its function; after ANY history without per-individual revert — and after any history respecting the documented
      precondition when the node functions satisfy [F_mix] — a successful read is the from-scratch value. *)
Definition state_sound_from_definitions (ds : list FromDict.vdef) (r : DagModel.dag) : Prop :=
  forall (V M IX : Type) (hv : nat -> V) (ax : nat -> bool) (fs : nat -> list V -> V) (v0 : V) (sm : sem V M IX),
    let g := graph_from_definitions V hv ax fs ds r v0 in
    WF g /\ gn g = length ds /\
    (forall k p, k < length ds ->
       (In p (parents g k) <->
        exists q, FromDict.is_param_of ds q (nth k (DagModel.order r) 0) /\ p = index_of q (DagModel.order r))) /\
    (forall ops, forallb (@no_partial_revert V M IX) ops = true ->
     forall k i st v,
       nth_error (fst (run_now g sm (init_store g) ops)) k = Some st ->
       snd (step_now g sm (fst (run_now g sm (init_store g) ops)) (Get k i)) = Ok v ->
       scratch g (values st) i = Some v) /\
    (F_mix g sm ->
     forall ops, MaskDisciplined g sm (init_store g) ops ->
     forall k i st v,
       nth_error (fst (run_now g sm (init_store g) ops)) k = Some st ->
       snd (step_now g sm (fst (run_now g sm (init_store g) ops)) (Get k i)) = Ok v ->
       scratch g (values st) i = Some v).

(** executable acceptance test, for lists of definitions regenerated from the running code *)
Definition accepted_b (ds : list FromDict.vdef) : bool :=
  match FromDict.from_dict ds with FromDict.FOk _ => true | FromDict.FErr _ => false end.

(** executable "this read succeeded" *)
Definition is_ok {V} (o : out V) : bool := match o with Ok _ => true | _ => false end.

