(** C01 — values read from the lazily cached variable graph are never stale.
    Property theorems only; every statement is over the model of State/StateModel.v at the code as it is
    (State/StateNow.v: [step_now] / [run_now] = [step] / [run] with [State.__setitem__] as it is since commit 27ac519,
    i.e. an assignment made while [auto_fork_type is None] also forgets [_last_fork]; the harness checks on every
    run that the tree under test has this rule and reports the history of finding F1 as a violation otherwise):
      [g]   any variable graph, [WF g] = what dag.py must deliver (C15's subject; computed by [wf_b] on every graph of the tie),
      [sm]  what torch does on values ([put_val], [mix]); [F_mix g sm] = per-individual node functions commute with the
            row-wise selection of a partial revert (only used when the history contains a partial revert); the executable
            instance of the tie and of the examples is [xsem_where], the [torch.where] selection of State.revert(subset)
            since commit fe0cadd (recognised by the harness on every run, like the fork rule),
      [MaskDisciplined g sm s ops] = the documented precondition of partial reverts, and nothing else: every
            [RevertMask] of the history is applied while each doubly cached node of the forked sub-graph carries the
            individual axis.  Histories are otherwise arbitrary (in particular assignments with auto-fork switched off
            while a fork is pending, followed by reverts — the shape of the former finding F1). *)
From Coq Require Import List Arith Bool ZArith.
From Leaspy Require Import State.StateModel State.StateProofs State.StateExec State.StateExecProofs
                           State.StateNow State.StateNowProofs.
Import ListNotations.

(** Every read that returns a value returns the from-scratch value of the state's current independent values:
    for every value type, every well-formed graph, every history of every operation on any number of states. *)
Theorem C01_never_stale :
  forall (V M IX : Type) (g : graph V) (sm : sem V M IX),
    WF g -> F_mix g sm ->
    forall ops, MaskDisciplined g sm (init_store g) ops ->
    forall k i st v,
      nth_error (fst (run_now g sm (init_store g) ops)) k = Some st ->
      snd (step_now g sm (fst (run_now g sm (init_store g) ops)) (Get k i)) = Ok v ->
      scratch g (values st) i = Some v.
Proof. intros V M IX g sm W Fm ops. exact (never_stale_now V M IX g sm W ops Fm). Qed.
Print Assumptions C01_never_stale.

(** Histories without per-individual reverts (full reverts, clones, mode switches, ... in any order): no hypothesis on
    the history at all. *)
Theorem C01_never_stale_full_reverts :
  forall (V M IX : Type) (g : graph V) (sm : sem V M IX),
    WF g -> F_mix g sm ->
    forall ops, forallb (@no_partial_revert V M IX) ops = true ->
    forall k i st v,
      nth_error (fst (run_now g sm (init_store g) ops)) k = Some st ->
      snd (step_now g sm (fst (run_now g sm (init_store g) ops)) (Get k i)) = Ok v ->
      scratch g (values st) i = Some v.
Proof. intros V M IX g sm W Fm ops. exact (never_stale_full_reverts V M IX g sm W ops Fm). Qed.
Print Assumptions C01_never_stale_full_reverts.

(** A read fails with an input error exactly when the from-scratch evaluation needs an unset independent value;
    it never fails otherwise (no node function is ever called on None) and, by [C01_never_stale], never answers
    with a default or an old value. *)
Theorem C01_unset_is_error :
  forall (V M IX : Type) (g : graph V) (sm : sem V M IX),
    WF g -> F_mix g sm ->
    forall ops, MaskDisciplined g sm (init_store g) ops ->
    forall k i st,
      nth_error (fst (run_now g sm (init_store g) ops)) k = Some st ->
      let r := snd (step_now g sm (fst (run_now g sm (init_store g) ops)) (Get k i)) in
      (r = Err InputError <-> scratch g (values st) i = None) /\ (forall e, r = Err e -> e = InputError).
Proof. intros V M IX g sm W Fm ops. exact (unset_is_error_now V M IX g sm W ops Fm). Qed.
Print Assumptions C01_unset_is_error.

(** Both directions at once: the result of a read IS the from-scratch evaluation. *)
Theorem C01_read_is_scratch :
  forall (V M IX : Type) (g : graph V) (sm : sem V M IX),
    WF g -> F_mix g sm ->
    forall ops, MaskDisciplined g sm (init_store g) ops ->
    forall k i st,
      nth_error (fst (run_now g sm (init_store g) ops)) k = Some st ->
      snd (step_now g sm (fst (run_now g sm (init_store g) ops)) (Get k i)) =
        match scratch g (values st) i with Some v => Ok v | None => Err InputError end.
Proof. intros V M IX g sm W Fm ops. exact (read_after_history_now V M IX g sm W ops Fm). Qed.
Print Assumptions C01_read_is_scratch.

(** What makes the full statement hold (the repair of finding F1): an assignment made with auto-fork switched off
    leaves no undo log behind, so a revert after it — full or per-individual — is refused with the input error
    "no fork to revert from" and changes nothing; it can no longer write values derived from older independent
    values back into the cache. *)
Theorem C01_unforked_set_drops_fork :
  forall (V M IX : Type) (g : graph V) (sm : sem V M IX) (st : state V) (i : nat) (o : option V),
    i < gn g -> settable g i = true -> mode st = None ->
    let st' := fst (set_now g st i o) in
    fork st' = None /\ revert_state st' = (st', Err InputError) /\
    (forall m, revert_mask_state sm st' m = (st', Err InputError)).
Proof. intros V M IX g sm st i o. exact (unforked_set_drops_fork V M IX g sm st i o). Qed.
Print Assumptions C01_unforked_set_drops_fork.

(** A read is transparent: in any consistent state it changes no independent value, neither the undo log nor the
    fork mode, and no later read result. *)
Theorem C01_get_transparent :
  forall (V : Type) (g : graph V), WF g ->
    forall (st : state V) (i : nat), Good g st ->
    let st' := fst (get_state g st i) in
    (forall j, linked g j = false -> values st' j = values st j) /\ fork st' = fork st /\ mode st' = mode st /\
    (forall j, snd (get g (values st') j) = snd (get g (values st) j)).
Proof. intros V g W st i. exact (get_transparent V g W st i). Qed.
Print Assumptions C01_get_transparent.

(** States do not interfere: a history that never addresses state [k] leaves it untouched (values, undo log, mode),
    whatever it does to the other states and to clones of [k]; and a clone starts with exactly the values of its source. *)
Theorem C01_clone_isolated :
  forall (V M IX : Type) (g : graph V) (sm : sem V M IX) (ops : list (op V M IX)) (s : store V) (k : nat),
    k < length s -> (forall o, In o ops -> op_state o <> k) ->
    nth_error (fst (run_now g sm s ops)) k = nth_error s k.
Proof. intros V M IX g sm ops. exact (clone_isolated V M IX g sm true ops). Qed.
Print Assumptions C01_clone_isolated.

Theorem C01_clone_copies :
  forall (V M IX : Type) (g : graph V) (sm : sem V M IX) (s : store V) (k : nat) (d kp : bool) (st : state V),
    nth_error s k = Some st ->
    nth_error (fst (step_now g sm s (Clone k d kp))) (length s) = Some (clone_state st d kp) /\
    values (clone_state st d kp) = values st.
Proof. intros V M IX g sm s k d kp st. exact (clone_copy V M IX g sm true s k d kp st). Qed.
Print Assumptions C01_clone_copies.

(** Non-vacuity: the graph of tests/unit_tests/variables/test_state.py, a diamond and the graph of F1 are well-formed;
    a 21-operation history on the diamond (forked assignments, reads, a partial revert that mixes rows, an un-forked
    assignment over a pending fork followed by a full and a partial revert — both refused —, a clone, an accepted
    revert on the clone) meets the precondition and its reads are the fresh values; the history of the former
    finding F1 meets the precondition, its revert is refused and its last read is the fresh 2 + 20; a per-individual
    revert whose discarded side is NaN (y = log2 x, x = [-1, 4] rejected for individual 0) leaves the fresh y = [0, 2]. *)
Theorem C01_examples :
  WF (mk_graph test_state_nodes) /\ WF (mk_graph diamond_nodes) /\ WF (mk_graph f1_nodes) /\
  (MaskDisciplined (mk_graph diamond_nodes) xsem_where (init_store (mk_graph diamond_nodes)) (now_ops ++ [Get 1 3; Revert 1]) /\
   nth_error (outs_of (mk_graph diamond_nodes) now_ops) 6 = Some Done /\
   nth_error (outs_of (mk_graph diamond_nodes) now_ops) 13 = Some (Err InputError) /\
   nth_error (outs_of (mk_graph diamond_nodes) now_ops) 14 = Some (Err InputError) /\
   read_of (mk_graph diamond_nodes) xsem_where true now_ops 0 3 = Ok (XS (AFin 213)) /\
   fresh_of (mk_graph diamond_nodes) xsem_where true now_ops 0 3 = Some (Some (XS (AFin 213))) /\
   read_of (mk_graph diamond_nodes) xsem_where true (now_ops ++ [Get 1 3; Revert 1]) 1 3 = Ok (XS (AFin 213))) /\
  (MaskDisciplined (mk_graph f1_nodes) xsem_where (init_store (mk_graph f1_nodes)) f1_ops /\
   nth_error (outs_of (mk_graph f1_nodes) f1_ops) 7 = Some (Err InputError) /\
   read_of (mk_graph f1_nodes) xsem_where true f1_ops 0 2 = Ok (XS (AFin 22)) /\
   fresh_of (mk_graph f1_nodes) xsem_where true f1_ops 0 2 = Some (Some (XS (AFin 22)))) /\
  (WF (mk_graph nf_nodes) /\
   MaskDisciplined (mk_graph nf_nodes) xsem_where (init_store (mk_graph nf_nodes)) nf_ops /\
   nth_error (outs_of (mk_graph nf_nodes) nf_ops) 4 = Some (Ok (XP [ANaN; AFin 2])) /\
   nth_error (outs_of (mk_graph nf_nodes) nf_ops) 5 = Some Done /\
   read_of (mk_graph nf_nodes) xsem_where true nf_ops 0 1 = Ok (XP [AFin 0; AFin 2]) /\
   fresh_of (mk_graph nf_nodes) xsem_where true nf_ops 0 1 = Some (Some (XP [AFin 0; AFin 2]))).
Proof. split; [exact test_state_wf | split; [exact diamond_wf | split; [exact f1_wf | split; [exact now_disciplined | split; [exact f1_now | exact nonfinite_now]]]]]. Qed.
Print Assumptions C01_examples.

(** * Composition with C15 and C07 (Compose/DagState.v, Compose/AxisState.v; docs/Compose.md).

    The graph hypothesis [WF g] above is what dag.py must deliver.  Below it is no longer assumed: the graph is BUILT —
    [DagModel.build] is the line-by-line model of [VariablesDAG.__post_init__] (C15), [defs] a set of variable definitions
    ([DHyper] / [DIndep] / [DLinked parameters f], indexed by name-sorted node as in C15), [dag_of_defs defs] the
    [direct_ancestors] mapping the constructor receives, and [graph_of_build defs r v0] the graph the [State] model works on:
    nodes re-indexed in the order [order r] that the constructor delivered, [anc] / [desc] looked up by name in its
    [sorted_ancestors] / [sorted_children] dictionaries, [parents] = the parameters of the node function in positional
    order.  ([v0] is the result of the function of a node that has none; it is never called.) *)
From Leaspy Require Dag.DagModel Locality.AxisTypes.
From Leaspy Require Import Compose.DagState Compose.DagStateProofs Compose.DagStateExamples
                           Compose.AxisState Compose.AxisStateProofs Compose.AxisStateExamples.

(** C15 discharges C01's graph hypothesis: for EVERY set of definitions the modelled constructor accepts. *)
Theorem C01_built_graph_wf :
  forall (V : Type) (defs : list (vdef V)) (r : DagModel.dag) (v0 : V),
    DagModel.build (dag_of_defs defs) = DagModel.Ok r -> WF (graph_of_build defs r v0).
Proof. exact built_graph_WF. Qed.
Print Assumptions C01_built_graph_wf.

(** ... and the constructor accepts every set of definitions without cycle, self reference, unknown reference or isolated
    variable (C15_accepts), so the statements below are about all of them. *)
Theorem C01_accepted_defs_have_wf_graph :
  forall (V : Type) (defs : list (vdef V)) (v0 : V),
    ~ DagModel.cyclic (dag_of_defs defs) -> ~ DagModel.self_loop (dag_of_defs defs) ->
    ~ DagModel.unknown_ref (dag_of_defs defs) -> ~ DagModel.isolated (dag_of_defs defs) ->
    exists r, DagModel.build (dag_of_defs defs) = DagModel.Ok r /\ WF (graph_of_build defs r v0).
Proof. exact accepted_defs_have_WF_graph. Qed.
Print Assumptions C01_accepted_defs_have_wf_graph.

(** [C01_never_stale] with NO graph hypothesis: every set of definitions accepted by the constructor, every history, every read. *)
Theorem C01_never_stale_built :
  forall (V M IX : Type) (defs : list (vdef V)) (r : DagModel.dag) (v0 : V) (sm : sem V M IX),
    DagModel.build (dag_of_defs defs) = DagModel.Ok r ->
    F_mix (graph_of_build defs r v0) sm ->
    forall ops, MaskDisciplined (graph_of_build defs r v0) sm (init_store (graph_of_build defs r v0)) ops ->
    forall k i st v,
      nth_error (fst (run_now (graph_of_build defs r v0) sm (init_store (graph_of_build defs r v0)) ops)) k = Some st ->
      snd (step_now (graph_of_build defs r v0) sm
             (fst (run_now (graph_of_build defs r v0) sm (init_store (graph_of_build defs r v0)) ops)) (Get k i)) = Ok v ->
      scratch (graph_of_build defs r v0) (values st) i = Some v.
Proof. exact never_stale_built. Qed.
Print Assumptions C01_never_stale_built.

(** Histories without per-individual reverts: NO hypothesis at all besides acceptance by the constructor — neither on the
    graph nor on the node functions ([F_mix] is only used by the partial revert; such a history runs identically under a
    [mix] that always refuses, for which [F_mix] is vacuous). *)
Theorem C01_never_stale_full_reverts_built :
  forall (V M IX : Type) (defs : list (vdef V)) (r : DagModel.dag) (v0 : V) (sm : sem V M IX),
    DagModel.build (dag_of_defs defs) = DagModel.Ok r ->
    forall ops, forallb (@no_partial_revert V M IX) ops = true ->
    forall k i st v,
      nth_error (fst (run_now (graph_of_build defs r v0) sm (init_store (graph_of_build defs r v0)) ops)) k = Some st ->
      snd (step_now (graph_of_build defs r v0) sm
             (fst (run_now (graph_of_build defs r v0) sm (init_store (graph_of_build defs r v0)) ops)) (Get k i)) = Ok v ->
      scratch (graph_of_build defs r v0) (values st) i = Some v.
Proof. exact never_stale_full_reverts_built. Qed.
Print Assumptions C01_never_stale_full_reverts_built.

(** The same for any well-formed graph: [C01_never_stale_full_reverts] does not need [F_mix]. *)
Theorem C01_never_stale_full_reverts_nomix :
  forall (V M IX : Type) (g : graph V) (sm : sem V M IX), WF g ->
    forall ops, forallb (@no_partial_revert V M IX) ops = true ->
    forall k i st v,
      nth_error (fst (run_now g sm (init_store g) ops)) k = Some st ->
      snd (step_now g sm (fst (run_now g sm (init_store g) ops)) (Get k i)) = Ok v ->
      scratch g (values st) i = Some v.
Proof. exact never_stale_full_reverts_nomix. Qed.
Print Assumptions C01_never_stale_full_reverts_nomix.

(** The specification itself no longer depends on the constructor: on a built graph, [scratch] — a fold along [order r] —
    is the order-free relation [Eval defs ind] on the definitions BY NAME (least relation: an independent variable has the
    value it holds; a linked variable is its function of the values of its parameters); [by_name r vs] reads the table [vs]
    of the State at the node of a name. *)
Theorem C01_scratch_is_by_name :
  forall (V : Type) (defs : list (vdef V)) (r : DagModel.dag) (v0 : V),
    DagModel.build (dag_of_defs defs) = DagModel.Ok r ->
    forall (vs : vals V) (k : nat) (v : V), k < length defs ->
      (scratch (graph_of_build defs r v0) vs k = Some v <-> Eval defs (by_name V r vs) (nth k (DagModel.order r) 0) v).
Proof. exact scratch_by_name. Qed.
Print Assumptions C01_scratch_is_by_name.

(** End to end, by name: after any history, reading the variable NAMED [x] returns [v] iff [v] is the value the definitions
    give to [x] from the independent values the state holds; it fails — always with the input error — iff they give none. *)
Theorem C01_read_by_name_built :
  forall (V M IX : Type) (defs : list (vdef V)) (r : DagModel.dag) (v0 : V) (sm : sem V M IX),
    DagModel.build (dag_of_defs defs) = DagModel.Ok r ->
    F_mix (graph_of_build defs r v0) sm ->
    forall ops, MaskDisciplined (graph_of_build defs r v0) sm (init_store (graph_of_build defs r v0)) ops ->
    forall k x st, x < length defs ->
      nth_error (fst (run_now (graph_of_build defs r v0) sm (init_store (graph_of_build defs r v0)) ops)) k = Some st ->
      let res := snd (step_now (graph_of_build defs r v0) sm
                        (fst (run_now (graph_of_build defs r v0) sm (init_store (graph_of_build defs r v0)) ops))
                        (Get k (index_of x (DagModel.order r)))) in
      (forall v, res = Ok v <-> Eval defs (by_name V r (values st)) x v) /\
      (res = Err InputError <-> forall v, ~ Eval defs (by_name V r (values st)) x v) /\
      (forall e, res = Err e -> e = InputError).
Proof. exact read_by_name_built. Qed.
Print Assumptions C01_read_by_name_built.

Theorem C01_read_by_name_full_reverts_built :
  forall (V M IX : Type) (defs : list (vdef V)) (r : DagModel.dag) (v0 : V) (sm : sem V M IX),
    DagModel.build (dag_of_defs defs) = DagModel.Ok r ->
    forall ops, forallb (@no_partial_revert V M IX) ops = true ->
    forall k x st, x < length defs ->
      nth_error (fst (run_now (graph_of_build defs r v0) sm (init_store (graph_of_build defs r v0)) ops)) k = Some st ->
      let res := snd (step_now (graph_of_build defs r v0) sm
                        (fst (run_now (graph_of_build defs r v0) sm (init_store (graph_of_build defs r v0)) ops))
                        (Get k (index_of x (DagModel.order r)))) in
      (forall v, res = Ok v <-> Eval defs (by_name V r (values st)) x v) /\
      (res = Err InputError <-> forall v, ~ Eval defs (by_name V r (values st)) x v) /\
      (forall e, res = Err e -> e = InputError).
Proof. exact read_by_name_full_reverts_built. Qed.
Print Assumptions C01_read_by_name_full_reverts_built.

(** C07 discharges [F_mix] as well.  [G] any graph of the individual-axis type system (Locality/AxisTypes.v), [fs] any node
    functions of the form their op-kind dictates, [n] individuals; [defs_of_axis] turns the nodes into definitions whose
    functions are the op-kind semantics of AxisTypes.v ([axis_fun] = the [Linked] branch of [eval_node]); [axis_sem] is the
    row-wise selection of [State.revert(subset)] on per-individual values (it refuses a value without the individual axis —
    the misuse the documented precondition excludes).  Pointwise / BroadcastPop / RowMatMul / ReduceOther / ReduceInd /
    Opaque nodes with any number of parents.  What is left: acceptance by the constructor and the documented precondition
    of per-individual reverts. *)
Theorem C01_never_stale_opkinds_built :
  forall (A : Type) (add : A -> A -> A) (IX : Type) (put : option IX -> aval A -> bool -> aval A -> option (aval A))
         (G : AxisTypes.graph) (fs : nat -> AxisTypes.nodefun A) (n : nat) (r : DagModel.dag) (v0 : aval A),
    DagModel.build (dag_of_defs (defs_of_axis A add G fs n)) = DagModel.Ok r ->
    forall ops,
      MaskDisciplined (graph_of_build (defs_of_axis A add G fs n) r v0) (axis_sem A IX put)
                      (init_store (graph_of_build (defs_of_axis A add G fs n) r v0)) ops ->
    forall k i st v,
      nth_error (fst (run_now (graph_of_build (defs_of_axis A add G fs n) r v0) (axis_sem A IX put)
                        (init_store (graph_of_build (defs_of_axis A add G fs n) r v0)) ops)) k = Some st ->
      snd (step_now (graph_of_build (defs_of_axis A add G fs n) r v0) (axis_sem A IX put)
             (fst (run_now (graph_of_build (defs_of_axis A add G fs n) r v0) (axis_sem A IX put)
                     (init_store (graph_of_build (defs_of_axis A add G fs n) r v0)) ops)) (Get k i)) = Ok v ->
      scratch (graph_of_build (defs_of_axis A add G fs n) r v0) (values st) i = Some v.
Proof. exact never_stale_axis. Qed.
Print Assumptions C01_never_stale_opkinds_built.

(** Non-vacuity: definitions whose name order is not topological are accepted; a history with a rejected proposal runs on the
    built graph and its last read is the by-name from-scratch value; on a well-typed graph with two-parent Pointwise /
    ReduceOther nodes and an aggregate a history with a per-individual rejection meets the precondition and the read of
    the per-individual term afterwards is the from-scratch value (rows 0, 2 old, row 1 from the proposal). *)
Theorem C01_compose_examples :
  (DagModel.build (dag_of_defs ex_defs) = DagModel.Ok ex_r /\ DagModel.order ex_r = [1; 2; 4; 0; 3; 5]) /\
  (exists st, nth_error (fst (run_now ex_g ex_sem (init_store ex_g) ex_ops)) 0 = Some st /\
              by_name Z ex_r (values st) 1 = Some 10%Z /\ Eval ex_defs (by_name Z ex_r (values st)) 5 (-7)%Z) /\
  (AxisTypes.well_typed toy2 = true /\ DagModel.build (dag_of_defs toy2_defs) = DagModel.Ok toy2_r /\
   DagModel.order toy2_r = AxisTypes.g_order toy2) /\
  (exists st, nth_error (fst (run_now toy2_g toy2_sem (init_store toy2_g) toy2_ops)) 0 = Some st /\
              scratch toy2_g (values st) (p2 1) = Some (Some (AxisTypes.VInd [[1]; [4]; [58]]%Z))).
Proof. split; [exact ex_accepted | split; [exact ex_by_name | split; [exact toy2_accepted | exact toy2_fresh]]]. Qed.
Print Assumptions C01_compose_examples.

(** * From the variable definitions WITH THEIR FUNCTION SIGNATURES (Compose/FromDictState.v; docs/Compose.md).

    Above, a definition [DLinked axis params f] GIVES the parameter list and [dag_of_defs] is "the mapping the constructor
    receives".  Below the parameter list is COMPUTED: [ds] is a list of [FromDict.vdef] — a [LinkedVariable] is described by
    what [inspect.signature] reports of its function (or by the names assigned by a [NamedInputFunction], possibly through
    [.then]) —, [FromDict.from_dict] is the model of [VariablesDAG.from_dict] (C15: [get_named_parameters], then the
    constructor), and [graph_from_definitions V hv ax fs ds r v0] = [graph_of_build (sdefs V hv ax fs ds) r v0] where [sdefs]
    attaches to each definition what the DAG never looks at ([hv i] hyper-parameter value, [ax i] axis flag, [fs i] node
    function) and takes as parameters the names [get_named_parameters] returns.  The only hypothesis on the graph side is
    [from_dict ds = FOk r]. *)
From Leaspy Require Dag.FromDict.
From Leaspy Require Import Compose.FromDictState Compose.FromDictStateProofs Compose.FromDictStateExamples.

(** The graph is well formed, has one node per definition, and the parents of a node are exactly the named parameters of
    the function defining it (names re-indexed by the order the constructor delivered).   Example: [sx_wf], [sx_parents]. *)
Theorem C01_graph_from_definitions_wf :
  forall (V : Type) (hv : nat -> V) (ax : nat -> bool) (fs : nat -> list V -> V) (ds : list FromDict.vdef)
         (r : DagModel.dag) (v0 : V),
    FromDict.from_dict ds = FromDict.FOk r ->
    WF (graph_from_definitions V hv ax fs ds r v0) /\
    gn (graph_from_definitions V hv ax fs ds r v0) = length ds /\
    forall k p, k < length ds ->
      (In p (parents (graph_from_definitions V hv ax fs ds r v0) k) <->
       exists q, FromDict.is_param_of ds q (nth k (DagModel.order r) 0) /\ p = index_of q (DagModel.order r)).
Proof. exact graph_from_definitions_wf_parents. Qed.
Print Assumptions C01_graph_from_definitions_wf.

(** ... and [from_dict] accepts every list of definitions whose functions have keyword-only parameters only and that has
    no unknown / self / isolated / cyclic dependency (C15_from_dict_accepts_iff): the statements below are about all of them. *)
Theorem C01_accepted_definitions_have_wf_graph :
  forall (V : Type) (hv : nat -> V) (ax : nat -> bool) (fs : nat -> list V -> V) (ds : list FromDict.vdef) (v0 : V),
    ~ FromDict.bad_signature ds -> ~ FromDict.unknown_param ds -> ~ FromDict.self_param ds ->
    ~ FromDict.isolated_def ds -> ~ FromDict.cyclic_defs ds ->
    exists r, FromDict.from_dict ds = FromDict.FOk r /\ WF (graph_from_definitions V hv ax fs ds r v0).
Proof. exact accepted_definitions_have_WF_graph. Qed.
Print Assumptions C01_accepted_definitions_have_wf_graph.

(** [C01_never_stale_built] with hypotheses on the DEFINITIONS only.   Example: [sx_by_name]. *)
Theorem C01_never_stale_from_definitions :
  forall (V M IX : Type) (hv : nat -> V) (ax : nat -> bool) (fs : nat -> list V -> V) (ds : list FromDict.vdef)
         (r : DagModel.dag) (v0 : V) (sm : sem V M IX),
    FromDict.from_dict ds = FromDict.FOk r ->
    F_mix (graph_from_definitions V hv ax fs ds r v0) sm ->
    forall ops, MaskDisciplined (graph_from_definitions V hv ax fs ds r v0) sm
                  (init_store (graph_from_definitions V hv ax fs ds r v0)) ops ->
    forall k i st v,
      nth_error (fst (run_now (graph_from_definitions V hv ax fs ds r v0) sm
                        (init_store (graph_from_definitions V hv ax fs ds r v0)) ops)) k = Some st ->
      snd (step_now (graph_from_definitions V hv ax fs ds r v0) sm
             (fst (run_now (graph_from_definitions V hv ax fs ds r v0) sm
                     (init_store (graph_from_definitions V hv ax fs ds r v0)) ops)) (Get k i)) = Ok v ->
      scratch (graph_from_definitions V hv ax fs ds r v0) (values st) i = Some v.
Proof. exact never_stale_from_definitions. Qed.
Print Assumptions C01_never_stale_from_definitions.

(** Histories without per-individual reverts: nothing but acceptance by [from_dict]. *)
Theorem C01_never_stale_full_reverts_from_definitions :
  forall (V M IX : Type) (hv : nat -> V) (ax : nat -> bool) (fs : nat -> list V -> V) (ds : list FromDict.vdef)
         (r : DagModel.dag) (v0 : V) (sm : sem V M IX),
    FromDict.from_dict ds = FromDict.FOk r ->
    forall ops, forallb (@no_partial_revert V M IX) ops = true ->
    forall k i st v,
      nth_error (fst (run_now (graph_from_definitions V hv ax fs ds r v0) sm
                        (init_store (graph_from_definitions V hv ax fs ds r v0)) ops)) k = Some st ->
      snd (step_now (graph_from_definitions V hv ax fs ds r v0) sm
             (fst (run_now (graph_from_definitions V hv ax fs ds r v0) sm
                     (init_store (graph_from_definitions V hv ax fs ds r v0)) ops)) (Get k i)) = Ok v ->
      scratch (graph_from_definitions V hv ax fs ds r v0) (values st) i = Some v.
Proof. exact never_stale_full_reverts_from_definitions. Qed.
Print Assumptions C01_never_stale_full_reverts_from_definitions.

(** Reads by NAME: what the read of the variable named [x] returns is the from-scratch value of the definitions ([Eval]: no
    order, no graph construction), every linked definition taking the values of the named parameters of its signature. *)
Theorem C01_read_by_name_from_definitions :
  forall (V M IX : Type) (hv : nat -> V) (ax : nat -> bool) (fs : nat -> list V -> V) (ds : list FromDict.vdef)
         (r : DagModel.dag) (v0 : V) (sm : sem V M IX),
    FromDict.from_dict ds = FromDict.FOk r ->
    F_mix (graph_from_definitions V hv ax fs ds r v0) sm ->
    forall ops, MaskDisciplined (graph_from_definitions V hv ax fs ds r v0) sm
                  (init_store (graph_from_definitions V hv ax fs ds r v0)) ops ->
    forall k x st, x < length ds ->
      nth_error (fst (run_now (graph_from_definitions V hv ax fs ds r v0) sm
                        (init_store (graph_from_definitions V hv ax fs ds r v0)) ops)) k = Some st ->
      let res := snd (step_now (graph_from_definitions V hv ax fs ds r v0) sm
                        (fst (run_now (graph_from_definitions V hv ax fs ds r v0) sm
                                (init_store (graph_from_definitions V hv ax fs ds r v0)) ops))
                        (Get k (index_of x (DagModel.order r)))) in
      (forall v, res = Ok v <-> Eval (sdefs V hv ax fs ds) (by_name V r (values st)) x v) /\
      (res = Err InputError <-> forall v, ~ Eval (sdefs V hv ax fs ds) (by_name V r (values st)) x v) /\
      (forall e, res = Err e -> e = InputError).
Proof. exact read_by_name_from_definitions. Qed.
Print Assumptions C01_read_by_name_from_definitions.

(** Non-vacuity: definitions given by signatures (a lambda with keyword-only parameters one of which has a default, a
    NamedInputFunction through [.then] whose outer function has a parameter named like another variable, a [Sum]) are
    accepted; the parameter lists computed from the signatures are the hand-written ones of [C01_compose_examples]; after a
    rejected proposal the read of "s" is the from-scratch value; a positional-or-keyword parameter is refused. *)
Theorem C01_from_definitions_examples :
  (FromDict.from_dict sx_ds = FromDict.FOk sx_r /\ DagModel.order sx_r = [1; 2; 4; 0; 3; 5]) /\
  map (@d_params Z) (sdefs Z sx_hv sx_ax sx_fs sx_ds) = map (@d_params Z) ex_defs /\
  (exists st, nth_error (fst (run_now sx_g ex_sem (init_store sx_g) sx_ops)) 0 = Some st /\
              by_name Z sx_r (values st) 1 = Some 10%Z /\ scratch sx_g (values st) (sx_pos 5) = Some (-7)%Z) /\
  (parents sx_g 3 = [1; 0] /\ FromDict.is_param_of sx_ds 1 0).
Proof. split; [exact sx_accepted | split; [exact sx_params | split; [exact sx_by_name | exact sx_parents]]]. Qed.
Print Assumptions C01_from_definitions_examples.

(** * C01 and C07 speak about the same values (Compose/AxisEval.v).
    On a well-typed graph accepted by the constructor, what the State reads after ANY history respecting the documented
    precondition is [AxisTypes.eval] — the from-scratch evaluation the theorems of C07 are about — of the inputs the state
    holds ([holds_inputs]: each independent variable holds the shape-checked input).  [eval] walks the checker's order,
    [scratch] the constructor's; they are tied by the fixed-point property of [eval] (C07_consistent). *)
From Leaspy Require Locality.AxisProofs.
From Leaspy Require Import Compose.AxisEval.

Theorem C01_reads_are_C07_eval :
  forall (A : Type) (add : A -> A -> A) (G : AxisTypes.graph) (fs : nat -> AxisTypes.nodefun A) (n : nat)
         (r : DagModel.dag) (v0 : aval A),
    AxisTypes.well_typed G = true ->
    DagModel.build (dag_of_defs (defs_of_axis A add G fs n)) = DagModel.Ok r ->
  forall (IX : Type) (put : option IX -> aval A -> bool -> aval A -> option (aval A))
         (ops : list (op (aval A) (list bool) IX)),
    MaskDisciplined (graph_of_build (defs_of_axis A add G fs n) r v0) (axis_sem A IX put)
                    (init_store (graph_of_build (defs_of_axis A add G fs n) r v0)) ops ->
  forall k x st (inp : nat -> AxisTypes.value A), x < length (AxisTypes.g_nodes G) ->
    nth_error (fst (run_now (graph_of_build (defs_of_axis A add G fs n) r v0) (axis_sem A IX put)
                      (init_store (graph_of_build (defs_of_axis A add G fs n) r v0)) ops)) k = Some st ->
    holds_inputs A add G fs n r inp (values st) ->
    snd (step_now (graph_of_build (defs_of_axis A add G fs n) r v0) (axis_sem A IX put)
           (fst (run_now (graph_of_build (defs_of_axis A add G fs n) r v0) (axis_sem A IX put)
                   (init_store (graph_of_build (defs_of_axis A add G fs n) r v0)) ops))
           (Get k (index_of x (DagModel.order r)))) = Ok (AxisTypes.eval A add G fs inp n x).
Proof. exact read_is_eval. Qed.
Print Assumptions C01_reads_are_C07_eval.

(** Hence C07_locality is a statement about what the State READS: two cohorts, two arbitrary histories, states holding inputs
    that agree on the population values and on one individual's row — every read of a per-individual variable returns the
    same row for that individual. *)
Theorem C01_reads_row_local :
  forall (A : Type) (add : A -> A -> A) (G : AxisTypes.graph) (fs : nat -> AxisTypes.nodefun A)
         (IX : Type) (put : option IX -> aval A -> bool -> aval A -> option (aval A))
         (n1 n2 : nat) (r1 r2 : DagModel.dag) (v0 : aval A),
  AxisTypes.well_typed G = true ->
  DagModel.build (dag_of_defs (defs_of_axis A add G fs n1)) = DagModel.Ok r1 ->
  DagModel.build (dag_of_defs (defs_of_axis A add G fs n2)) = DagModel.Ok r2 ->
  forall ops1 ops2 k1 k2 st1 st2 (inp1 inp2 : nat -> AxisTypes.value A) j1 j2,
    MaskDisciplined (graph_of_build (defs_of_axis A add G fs n1) r1 v0) (axis_sem A IX put)
                    (init_store (graph_of_build (defs_of_axis A add G fs n1) r1 v0)) ops1 ->
    MaskDisciplined (graph_of_build (defs_of_axis A add G fs n2) r2 v0) (axis_sem A IX put)
                    (init_store (graph_of_build (defs_of_axis A add G fs n2) r2 v0)) ops2 ->
    nth_error (fst (run_now (graph_of_build (defs_of_axis A add G fs n1) r1 v0) (axis_sem A IX put)
                      (init_store (graph_of_build (defs_of_axis A add G fs n1) r1 v0)) ops1)) k1 = Some st1 ->
    nth_error (fst (run_now (graph_of_build (defs_of_axis A add G fs n2) r2 v0) (axis_sem A IX put)
                      (init_store (graph_of_build (defs_of_axis A add G fs n2) r2 v0)) ops2)) k2 = Some st2 ->
    holds_inputs A add G fs n1 r1 inp1 (values st1) -> holds_inputs A add G fs n2 r2 inp2 (values st2) ->
    j1 < n1 -> j2 < n2 ->
    AxisProofs.indep_inputs_related A G (fun v1 v2 => AxisTypes.reindex A [j1] v1 = AxisTypes.reindex A [j2] v2) inp1 inp2 ->
    forall x nd, nth_error (AxisTypes.g_nodes G) x = Some nd -> AxisTypes.n_sig nd = AxisTypes.Ind ->
    forall w1 w2,
      snd (step_now (graph_of_build (defs_of_axis A add G fs n1) r1 v0) (axis_sem A IX put)
             (fst (run_now (graph_of_build (defs_of_axis A add G fs n1) r1 v0) (axis_sem A IX put)
                     (init_store (graph_of_build (defs_of_axis A add G fs n1) r1 v0)) ops1))
             (Get k1 (index_of x (DagModel.order r1)))) = Ok (Some w1) ->
      snd (step_now (graph_of_build (defs_of_axis A add G fs n2) r2 v0) (axis_sem A IX put)
             (fst (run_now (graph_of_build (defs_of_axis A add G fs n2) r2 v0) (axis_sem A IX put)
                     (init_store (graph_of_build (defs_of_axis A add G fs n2) r2 v0)) ops2))
             (Get k2 (index_of x (DagModel.order r2)))) = Ok (Some w2) ->
      AxisTypes.vrow A j1 w1 = AxisTypes.vrow A j2 w2.
Proof. exact reads_row_local. Qed.
Print Assumptions C01_reads_row_local.

(** Non-vacuity of [holds_inputs]: the state reached by the history of [C01_compose_examples] holds g = 10,
    xi = [1; 3; 3], y = ys1, and the value it reads for nll_ind is C07's evaluation of these inputs. *)
Theorem C01_reads_eval_example : exists st,
  nth_error (fst (run_now toy2_g toy2_sem (init_store toy2_g) toy2_ops)) 0 = Some st /\
  holds_inputs Z Z.add toy2 toy2_fs 3 toy2_r toy2_inp (values st) /\
  AxisTypes.eval Z Z.add toy2 toy2_fs toy2_inp 3 1 = Some (AxisTypes.VInd [[1]; [4]; [58]]%Z).
Proof. exact toy2_reads_eval. Qed.
Print Assumptions C01_reads_eval_example.
(** * Histories with scoped fork-mode switches — [with state.auto_fork(m): ...] (State/StateScoped.v)
    [SScoped k m body] sets the mode of state [k] to [m], runs [body] until the first operation that returns an error (the
    exception leaves the block and every enclosing one, and is caught by the caller) and ALWAYS puts the previous mode back.
    [srun_now] executes such a history with the [step]s of the model above and returns the trace (every primitive event with
    the store it was executed in); [visits] = every store the execution goes through; [hflat] = the plain history it amounts to. *)
From Leaspy Require Import State.Revert State.StateScoped State.StateScopedProofs State.StateScopedExec State.StateScopedExecProofs.

(** Never stale, at every point of the execution: inside blocks, after an exception has left a block, after the history. *)
Theorem C01_never_stale_scoped :
  forall (V M IX : Type) (g : graph V) (sm : sem V M IX),
    WF g -> F_mix g sm ->
    forall h, SMaskDisciplined g sm (init_store g) h ->
    forall s', In s' (visits g sm true (init_store g) h) ->
    forall k i st v, nth_error s' k = Some st ->
      snd (step_now g sm s' (Get k i)) = Ok v -> scratch g (values st) i = Some v.
Proof. intros V M IX g sm W Fm h. exact (scoped_never_stale_now V M IX g sm W h Fm). Qed.
Print Assumptions C01_never_stale_scoped.

(** ... in particular every read that the history executed returned the from-scratch evaluation (or the input error). *)
Theorem C01_scoped_reads_are_scratch :
  forall (V M IX : Type) (g : graph V) (sm : sem V M IX),
    WF g -> F_mix g sm ->
    forall h, SMaskDisciplined g sm (init_store g) h ->
    forall e, In e (snd (srun_now g sm (init_store g) h)) ->
    forall k i st, snd e = EOp (Get k i) -> nth_error (fst e) k = Some st ->
      obs_of g sm true e = OOut (Get k i) (match scratch g (values st) i with Some v => Ok v | None => Err InputError end).
Proof. intros V M IX g sm W Fm h. exact (scoped_executed_reads_now V M IX g sm W h Fm). Qed.
Print Assumptions C01_scoped_reads_are_scratch.

(** A history with scoped blocks is a plain history: same final store, same precondition (so every theorem above applies to it). *)
Theorem C01_scoped_is_history :
  forall (V M IX : Type) (g : graph V) (sm : sem V M IX) (s : store V) (h : list (sop V M IX)),
    fst (srun_now g sm s h) = fst (run_now g sm s (hflat g sm true s h)) /\
    (SMaskDisciplined g sm s h <-> MaskDisciplined g sm s (hflat g sm true s h)).
Proof. exact scoped_is_history_now. Qed.
Print Assumptions C01_scoped_is_history.

(** The contract of the context manager: the body runs with the requested mode (values and undo log untouched by the
    entry); whatever the body does — including raising — the state has its previous mode again after the block, and
    leaving the block changes nothing else. *)
Theorem C01_scoped_restores_mode :
  forall (V M IX : Type) (g : graph V) (sm : sem V M IX) (fx : bool) (s : store V) (k : nat) (m : option fork_type)
         (b : sblock V M IX) (st : state V),
    nth_error s k = Some st ->
    let r := sexec g sm fx s (SScoped k m b) in
    let inner := bexec g sm fx (set_mode g sm fx s k m) b in
    (exists st0, nth_error (set_mode g sm fx s k m) k = Some st0 /\ mode st0 = m /\ values st0 = values st /\ fork st0 = fork st) /\
    snd r = snd inner /\
    exists st1, nth_error (fst (fst inner)) k = Some st1 /\
                nth_error (fst (fst r)) k = Some (mkState (values st1) (fork st1) (mode st)).
Proof. exact scoped_restores_mode. Qed.
Print Assumptions C01_scoped_restores_mode.

(** The "later history" simulation of C02 ([C02_later_history]) for histories with scoped blocks: pairwise equivalent
    stores stay equivalent and return the same results ([obs_agree]: equal except where an operation inspects the cache). *)
Theorem C01_scoped_later_history :
  forall (V M IX : Type) (g : graph V) (sm : sem V M IX) (fx chk : bool), WF g -> fx = true \/ chk = true ->
  forall (h : list (sop V M IX)), F_mix g sm ->
  forall s1 s2 : store V, sim_store g s1 s2 ->
    SDisciplinedWith g sm fx (op_ok g sm chk) s1 h -> SDisciplinedWith g sm fx (op_ok g sm chk) s2 h ->
    sim_store g (fst (srun g sm fx s1 h)) (fst (srun g sm fx s2 h)) /\
    Forall2 (obs_agree g) (map (obs_of g sm fx) (snd (srun g sm fx s1 h))) (map (obs_of g sm fx) (snd (srun g sm fx s2 h))).
Proof. intros V M IX g sm fx chk W H h. exact (scoped_later_history V M IX g sm fx chk W H h). Qed.
Print Assumptions C01_scoped_later_history.

(** Non-vacuity: c = a + b with a fork pending; an exception leaves [with auto_fork(None)]; the mode is REF again, the next
    assignment is forked, its revert is accepted and the read is the fresh 12 — whereas the same operations with the mode left
    at None (no [finally]) refuse the revert and read 22; two nested blocks on two states left by one exception. *)
Theorem C01_scoped_examples :
  (SMaskDisciplined (mk_graph f1_nodes) xsem_where (init_store (mk_graph f1_nodes)) sc_ops /\
   nth_error (sobs_of (mk_graph f1_nodes) sc_ops) 7 = Some (OOut (Set_ 0 2 (Some (XS (AFin 5)))) (Err InputError)) /\
   nth_error (sobs_of (mk_graph f1_nodes) sc_ops) 9 = Some (OSeen 0 (Some REF) (Some [(0, Some (XS (AFin 1))); (2, Some (XS (AFin 11)))])) /\
   nth_error (sobs_of (mk_graph f1_nodes) sc_ops) 12 = Some (OOut (Revert 0) Done) /\
   nth_error (sobs_of (mk_graph f1_nodes) sc_ops) 13 = Some (OOut (Get 0 2) (Ok (XS (AFin 12))))) /\
  (nth_error (outs_of (mk_graph f1_nodes) (firstn 8 (hflat (mk_graph f1_nodes) xsem_where true (init_store (mk_graph f1_nodes)) sc_ops)
                                            ++ [Set_ 0 1 (Some (XS (AFin 20))); Get 0 2; Revert 0; Get 0 2])) 10 = Some (Err InputError) /\
   nth_error (outs_of (mk_graph f1_nodes) (firstn 8 (hflat (mk_graph f1_nodes) xsem_where true (init_store (mk_graph f1_nodes)) sc_ops)
                                            ++ [Set_ 0 1 (Some (XS (AFin 20))); Get 0 2; Revert 0; Get 0 2])) 11 = Some (Ok (XS (AFin 22)))) /\
  (SMaskDisciplined (mk_graph f1_nodes) xsem_where (init_store (mk_graph f1_nodes)) nested_ops /\
   nth_error (sobs_of (mk_graph f1_nodes) nested_ops) 8 = Some (OSeen 1 (Some REF) None) /\
   nth_error (sobs_of (mk_graph f1_nodes) nested_ops) 9 = Some (OSeen 0 (Some REF) (Some [(1, None); (2, None)]))) /\
  check_scase_with xsem_where true (f1_nodes, sc_ops, sc_expected (Some REF)) = true /\
  check_scase_with xsem_where true (f1_nodes, sc_ops, sc_expected None) = false.
Proof. exact scoped_examples. Qed.
Print Assumptions C01_scoped_examples.

(** * Weighted values (State/StateWExec.v): a node function may compute the WEIGHT of a [WeightedTensor] from its inputs

    Added after a seeded defect was missed: [_select] — the helper of [State.revert(subset)] — selecting only [.value] row by
    row and keeping the weight of one side for all rows.  The theorems above are generic in the value type and in [sm.mix]
    (hypothesis [F_mix]); below they are instantiated at the value domain with weighted values, where [mix] = [wwhere] =
    what [_select] does: [torch.where] on the value AND on the weight. *)
From Leaspy Require Import State.StateWExec State.StateWExecProofs.

(** [_select] on weighted values: the value and the weight of every row come from the SAME side — the forked one for the
    rows of the mask (rejected individuals), the current one elsewhere. *)
Theorem C01_weighted_select_rows :
  forall m ov ow cv cw rv rw, wwhere m (WWt ov ow) (WWt cv cw) = Some (WWt rv rw) ->
    length rv = length m /\ length rw = length m /\
    forall j b, nth_error m j = Some b ->
      nth_error rv j = (if b then nth_error ov j else nth_error cv j) /\
      nth_error rw j = (if b then nth_error ow j else nth_error cw j).
Proof. exact wwhere_rows. Qed.
Print Assumptions C01_weighted_select_rows.

(** [F_mix] PROVED for the weighted toy vocabulary: graphs whose per-individual derived nodes have one parent and an entry-wise
    function — one-parent affine / log2, a weighted value whose weight is computed from the parent ([x >= thr]), a map of a
    weighted value, the weighted value and the weight of a weighted parent. *)
Theorem C01_F_mix_weighted :
  forall l : list wspec, wunary_axis_b l = true -> F_mix (mk_wgraph l) wsem_where.
Proof. exact F_mix_wunary. Qed.
Print Assumptions C01_F_mix_weighted.

(** Never stale on every such graph (aggregates of weighted values and of weights included), for every history of every
    operation that meets the documented precondition of partial reverts: the result of a read IS the from-scratch evaluation
    — values and weights.  No hypothesis on node functions is left; the graph hypothesis is the boolean check run on
    every graph of the tie. *)
Theorem C01_never_stale_weighted :
  forall l : list wspec,
  wwf_b (mk_wgraph l) = true -> wunary_axis_b l = true ->
  forall ops, MaskDisciplined (mk_wgraph l) wsem_where (init_store (mk_wgraph l)) ops ->
  forall k i st,
    nth_error (fst (run_now (mk_wgraph l) wsem_where (init_store (mk_wgraph l)) ops)) k = Some st ->
    snd (step_now (mk_wgraph l) wsem_where (fst (run_now (mk_wgraph l) wsem_where (init_store (mk_wgraph l)) ops)) (Get k i)) =
      match scratch (mk_wgraph l) (values st) i with Some v => Ok v | None => Err InputError end.
Proof. exact never_stale_weighted. Qed.
Print Assumptions C01_never_stale_weighted.

(** Non-vacuity and discrimination, on the graph of the seeded defect (x per individual; w = WeightedTensor(x, weight = (x >= 3));
    v = w.weighted_value; n = w.weight.sum(); s = w.weighted_value.sum()): the history "x = [1,5,2,7]; read v; x += [4,-4,4,-4]
    (every weight flips); read v; reject individuals 1 and 2" meets the precondition and every read afterwards is fresh (w has the
    weights [1,1,0,1], n = 3, s = 13).  Under a rule that selects the values but keeps the FORKED weight for all rows the same
    history reads w with weights [0,1,0,1], n = 2 and s = 8; under the rule that keeps the CURRENT weight, weights [1,0,1,1]:
    stale.  [F_mix] is false for both rules (the theorems do not speak about such a tree), and the checker of the tie rejects
    an observation whose weight is the forked one. *)
Theorem C01_weighted_examples :
  (WF (mk_wgraph onset_nodes) /\ F_mix (mk_wgraph onset_nodes) wsem_where) /\
  (MaskDisciplined (mk_wgraph onset_nodes) wsem_where (init_store (mk_wgraph onset_nodes)) onset_ops /\
   wread_of (mk_wgraph onset_nodes) wsem_where true onset_ops 0 0 = Ok (WPlain (XP [AFin 5; AFin 5; AFin 2; AFin 3]%Z)) /\
   wread_of (mk_wgraph onset_nodes) wsem_where true onset_ops 0 1 = Ok (WWt [AFin 5; AFin 5; AFin 2; AFin 3]%Z [true; true; false; true]) /\
   wfresh_of (mk_wgraph onset_nodes) wsem_where true onset_ops 0 1 = Some (Some (WWt [AFin 5; AFin 5; AFin 2; AFin 3]%Z [true; true; false; true])) /\
   wread_of (mk_wgraph onset_nodes) wsem_where true onset_ops 0 2 = Ok (WPlain (XP [AFin 5; AFin 5; AFin 0; AFin 3]%Z)) /\
   wread_of (mk_wgraph onset_nodes) wsem_where true onset_ops 0 3 = Ok (WPlain (XS (AFin 3))) /\
   wfresh_of (mk_wgraph onset_nodes) wsem_where true onset_ops 0 3 = Some (Some (WPlain (XS (AFin 3)))) /\
   wread_of (mk_wgraph onset_nodes) wsem_where true onset_ops 0 4 = Ok (WPlain (XS (AFin 13))) /\
   wfresh_of (mk_wgraph onset_nodes) wsem_where true onset_ops 0 4 = Some (Some (WPlain (XS (AFin 13))))) /\
  (wread_of (mk_wgraph onset_nodes) wsem_old_weight true onset_ops 0 0 = Ok (WPlain (XP [AFin 5; AFin 5; AFin 2; AFin 3]%Z)) /\
   wread_of (mk_wgraph onset_nodes) wsem_old_weight true onset_ops 0 1 = Ok (WWt [AFin 5; AFin 5; AFin 2; AFin 3]%Z [false; true; false; true]) /\
   wfresh_of (mk_wgraph onset_nodes) wsem_old_weight true onset_ops 0 1 = Some (Some (WWt [AFin 5; AFin 5; AFin 2; AFin 3]%Z [true; true; false; true])) /\
   wread_of (mk_wgraph onset_nodes) wsem_old_weight true onset_ops 0 3 = Ok (WPlain (XS (AFin 2))) /\
   wread_of (mk_wgraph onset_nodes) wsem_old_weight true onset_ops 0 4 = Ok (WPlain (XS (AFin 8))) /\
   wfresh_of (mk_wgraph onset_nodes) wsem_old_weight true onset_ops 0 4 = Some (Some (WPlain (XS (AFin 13))))) /\
  (wread_of (mk_wgraph onset_nodes) wsem_new_weight true onset_ops 0 1 = Ok (WWt [AFin 5; AFin 5; AFin 2; AFin 3]%Z [true; false; true; true]) /\
   wfresh_of (mk_wgraph onset_nodes) wsem_new_weight true onset_ops 0 1 = Some (Some (WWt [AFin 5; AFin 5; AFin 2; AFin 3]%Z [true; true; false; true]))) /\
  ~ F_mix (mk_wgraph onset_nodes) wsem_old_weight /\ ~ F_mix (mk_wgraph onset_nodes) wsem_new_weight.
Proof.
  split; [split; [exact onset_wf | exact onset_fmix]|]. split; [exact onset_now|]. split; [exact onset_old_weight_stale|].
  split; [exact onset_new_weight_stale|]. split; [exact F_mix_fails_old_weight | exact F_mix_fails_new_weight].
Qed.
Print Assumptions C01_weighted_examples.

(** * n-d values: per-individual values with a trailing shape, [revert(subset, right_broadcasting)] both ways, multi-parent
      entry-wise functions of plain and of WEIGHTED parents (State/StateNdExec.v, StateNdFmixProofs.v)

    [nval] = nested lists of exact atoms, plain or weighted (any non-negative weights, [weight=None]); [nsem] = [State.put] +
    [_select] restricted to the documented contract (one mask entry per index of the axis the mask is aligned on).  Tie: the toy
    histories on graphs whose per-individual variables have shape (n, 2), (n, 3), (n, 1), (n, 2, 2) — scoped blocks included —
    are run through [step] at [nsem] inside Coq on every run ([check_ncase_with], [check_nscase_with]). *)
From Leaspy Require Import State.StateNdExec State.StateNdExecProofs State.StateNdFmixProofs.

(** [F_mix] PROVED for every toy graph whose per-individual derived nodes are entry-wise: affine maps of ANY number of parents,
    log2, the weighted one-parent maps, the two-parent map of weighted parents — for both alignments of the mask and any
    trailing shape.  No hypothesis on node functions is left for the toy vocabulary. *)
Theorem C01_F_mix_nd :
  forall l : list dspec, entrywise_axis_b l = true -> F_mix (mk_ngraph l) nsem.
Proof. exact F_mix_entrywise_nd. Qed.
Print Assumptions C01_F_mix_nd.

Theorem C01_never_stale_nd :
  forall l : list dspec,
  gwf_b (mk_ngraph l) = true -> entrywise_axis_b l = true ->
  forall ops, MaskDisciplined (mk_ngraph l) nsem (init_store (mk_ngraph l)) ops ->
  forall k i st,
    nth_error (fst (run_now (mk_ngraph l) nsem (init_store (mk_ngraph l)) ops)) k = Some st ->
    snd (step_now (mk_ngraph l) nsem (fst (run_now (mk_ngraph l) nsem (init_store (mk_ngraph l)) ops)) (Get k i)) =
      match scratch (mk_ngraph l) (values st) i with Some v => Ok v | None => Err InputError end.
Proof. exact never_stale_nd. Qed.
Print Assumptions C01_never_stale_nd.

(** non-vacuity: (3, 2) values, a weight computed from the variable, a two-parent function of weighted parents, a two-parent affine
    map; individuals 1 and 2 rejected, then column 0 rejected ([right_broadcasting=False]): both histories meet the precondition and
    every read afterwards is the from-scratch value; with the weight of one side kept for all rows the same history reads stale
    values; the mask aligned on the wrong side reverts individuals where the code refuses the call *)
Local Open Scope Z_scope.
Theorem C01_nd_examples :
  gwf_b (mk_ngraph nd_nodes) = true /\ entrywise_axis_b nd_nodes = true /\
  (* individuals 1 and 2 rejected (right-broadcasting), then columns: column 0 rejected (right_broadcasting=False) *)
  MaskDisciplined (mk_ngraph nd_nodes) nsem (init_store (mk_ngraph nd_nodes)) (nd_ops (true, [false; true; true])) /\
  MaskDisciplined (mk_ngraph nd_nodes) nsem (init_store (mk_ngraph nd_nodes)) (nd_ops (false, [true; false])) /\
  nread_of (mk_ngraph nd_nodes) nsem true (nd_ops (true, [false; true; true])) 0 1
    = Ok (NW (mat [[5;1];[2;7];[4;0]]) (Some (mat [[1;0];[0;1];[1;0]]))) /\
  nread_of (mk_ngraph nd_nodes) nsem true (nd_ops (false, [true; false])) 0 1
    = Ok (NW (mat [[1;1];[2;3];[4;3]]) (Some (mat [[0;0];[0;1];[1;1]]))) /\
  all_fresh nsem (nd_ops (true, [false; true; true])) = true /\ all_fresh nsem (nd_ops (false, [true; false])) = true /\
  (* the two rules that are NOT the code leave stale reads on the same histories *)
  all_fresh nsem_old_weight (nd_ops (true, [false; true; true])) = false /\
  nread_of (mk_ngraph nd_nodes) nsem_old_weight true (nd_ops (true, [false; true; true])) 0 1
    = Ok (NW (mat [[5;1];[2;7];[4;0]]) (Some (mat [[0;1];[0;1];[1;0]]))) /\
  (* a mask of length 3 with right_broadcasting=False against (3, 2) values: refused (x keeps the proposal); the rule that aligns the
     mask on the wrong side accepts it and reverts individuals 0 and 2 *)
  nread_of (mk_ngraph nd_nodes) nsem true (nd_ops (false, [true; false; true])) 0 0 = Ok (NP (mat [[5;1];[6;3];[4;3]])) /\
  nread_of (mk_ngraph nd_nodes) nsem_wrong_side true (nd_ops (false, [true; false; true])) 0 0 = Ok (NP (mat [[1;5];[6;3];[4;0]])).
Proof. exact nd_examples. Qed.
Local Close Scope Z_scope.
Print Assumptions C01_nd_examples.

(** histories with scoped blocks on n-d graphs of the entry-wise class: in every store the execution goes through (inside a block, after an
    exception left a block, at the end) a read that returns a value returns the from-scratch evaluation — no hypothesis on node functions *)
Theorem C01_never_stale_scoped_nd :
  forall l : list dspec,
  gwf_b (mk_ngraph l) = true -> entrywise_axis_b l = true ->
  forall h, SMaskDisciplined (mk_ngraph l) nsem (init_store (mk_ngraph l)) h ->
  forall s', In s' (visits (mk_ngraph l) nsem true (init_store (mk_ngraph l)) h) ->
  forall k i st v, nth_error s' k = Some st ->
    snd (step_now (mk_ngraph l) nsem s' (Get k i)) = Ok v -> scratch (mk_ngraph l) (values st) i = Some v.
Proof. exact never_stale_scoped_nd. Qed.
Print Assumptions C01_never_stale_scoped_nd.

(** non-vacuity: (3, 2) values; a fork pending; [with auto_fork(None)]: a read, the assignment of a non-settable variable raises and leaves
    the block (the next assignment is skipped); REF again: a forked proposal, a read, individuals 1 and 2 rejected — the history meets the
    precondition, flattens to the plain history shown and every read after it is the from-scratch value *)
Local Open Scope Z_scope.
Theorem C01_nd_scoped_example :
  SMaskDisciplined (mk_ngraph nd_nodes) nsem (init_store (mk_ngraph nd_nodes)) nd_scoped_ops /\
  hflat (mk_ngraph nd_nodes) nsem true (init_store (mk_ngraph nd_nodes)) nd_scoped_ops =
    [ SetMode 0 (Some REF); Set_ 0 0 (Some (NP (mat [[1;5];[2;7];[4;0]]))); Get 0 5;
      SetMode 0 None; Get 0 6; Set_ 0 5 (Some (NP (T0 (AFin 1)))); SetMode 0 (Some REF);
      Put 0 0 None (NP (mat [[4;-4];[4;-4];[0;3]])) true; Get 0 5; RevertMask 0 (true, [false; true; true]) ] /\
  all_fresh nsem (hflat (mk_ngraph nd_nodes) nsem true (init_store (mk_ngraph nd_nodes)) nd_scoped_ops) = true.
Proof. exact nd_scoped_example. Qed.
Local Close Scope Z_scope.
Print Assumptions C01_nd_scoped_example.
