(** C01 — values read from the lazily cached variable graph are never stale.
    Property theorems only; every statement is over the model of State/StateModel.v:
      [g]   any variable graph, [WF g] = what dag.py must deliver (C15's subject; computed by [wf_b] on every graph of the tie),
      [sm]  what torch does on values ([put_val], [mix]); [F_mix g sm] = per-individual node functions commute with the
            row-wise selection of a partial revert (only used when the history contains a partial revert),
      [fx]  false = the code as it is, true = the code with the one-line repair of finding F1,
      [chk] whether the discipline additionally forbids an un-forked assignment while a fork is pending (F1's trigger),
      [Disciplined .. chk ..] = the documented precondition of partial reverts (+ the extra clause when [chk = true]). *)
From Coq Require Import List Arith Bool ZArith.
From Leaspy Require Import State.StateModel State.StateProofs State.StateExec State.StateExecProofs.
Import ListNotations.

(** Every read that returns a value returns the from-scratch value of the state's current independent values:
    for every value type, every well-formed graph, every history of every operation on any number of states. *)
Theorem C01_never_stale :
  forall (V M IX : Type) (g : graph V) (sm : sem V M IX) (fx chk : bool),
    WF g -> F_mix g sm -> fx = true \/ chk = true ->
    forall ops, Disciplined g sm fx chk (init_store g) ops ->
    forall k i st v,
      nth_error (fst (run g sm fx (init_store g) ops)) k = Some st ->
      snd (step g sm fx (fst (run g sm fx (init_store g) ops)) (Get k i)) = Ok v ->
      scratch g (values st) i = Some v.
Proof. intros V M IX g sm fx chk W Fm D ops. exact (never_stale V M IX g sm fx chk W D ops Fm). Qed.
Print Assumptions C01_never_stale.

(** The code as it is ([fx = false]): proved under the extra clause (no un-forked assignment while a fork is pending).
    What is missing w.r.t. the property text: histories that switch auto-fork off between a forked assignment and its
    revert — see [C01_fork_mode_switch_refuted]. *)
Theorem C01_never_stale_partial :
  forall (V M IX : Type) (g : graph V) (sm : sem V M IX),
    WF g -> F_mix g sm ->
    forall ops, Disciplined g sm false true (init_store g) ops ->
    forall k i st v,
      nth_error (fst (run g sm false (init_store g) ops)) k = Some st ->
      snd (step g sm false (fst (run g sm false (init_store g) ops)) (Get k i)) = Ok v ->
      scratch g (values st) i = Some v.
Proof. intros V M IX g sm W Fm ops. exact (never_stale V M IX g sm false true W (or_intror eq_refl) ops Fm). Qed.
Print Assumptions C01_never_stale_partial.

(** The repaired code ([fx = true]): the full statement — only the documented precondition of partial reverts remains. *)
Theorem C01_never_stale_repaired :
  forall (V M IX : Type) (g : graph V) (sm : sem V M IX),
    WF g -> F_mix g sm ->
    forall ops, Disciplined g sm true false (init_store g) ops ->
    forall k i st v,
      nth_error (fst (run g sm true (init_store g) ops)) k = Some st ->
      snd (step g sm true (fst (run g sm true (init_store g) ops)) (Get k i)) = Ok v ->
      scratch g (values st) i = Some v.
Proof. intros V M IX g sm W Fm ops. exact (never_stale V M IX g sm true false W (or_introl eq_refl) ops Fm). Qed.
Print Assumptions C01_never_stale_repaired.

(** The faithful model violates the full statement: finding F1 (c = a + b; fork REF; a=1, b=10; read c; a=2;
    auto_fork_type=None; b=20; revert(); read c gives 11, the current independent values give 21). *)
Theorem C01_fork_mode_switch_refuted :
  exists (g : graph xval) (ops : list xop) (k i : nat),
    WF g /\ F_mix g xsem /\ Disciplined g xsem false false (init_store g) ops /\
    read_of g xsem false ops k i = Ok (XS (AFin 11)) /\
    fresh_of g xsem false ops k i = Some (Some (XS (AFin 21))).
Proof. exact fork_mode_switch_refuted. Qed.
Print Assumptions C01_fork_mode_switch_refuted.

(** A read fails with an input error exactly when the from-scratch evaluation needs an unset independent value;
    it never fails otherwise (no node function is ever called on None) and, by [C01_never_stale], never answers
    with a default or an old value. *)
Theorem C01_unset_is_error :
  forall (V M IX : Type) (g : graph V) (sm : sem V M IX) (fx chk : bool),
    WF g -> F_mix g sm -> fx = true \/ chk = true ->
    forall ops, Disciplined g sm fx chk (init_store g) ops ->
    forall k i st,
      nth_error (fst (run g sm fx (init_store g) ops)) k = Some st ->
      let r := snd (step g sm fx (fst (run g sm fx (init_store g) ops)) (Get k i)) in
      (r = Err InputError <-> scratch g (values st) i = None) /\ (forall e, r = Err e -> e = InputError).
Proof. intros V M IX g sm fx chk W Fm D ops. exact (unset_is_error V M IX g sm fx chk W D ops Fm). Qed.
Print Assumptions C01_unset_is_error.

(** Both directions at once: the result of a read IS the from-scratch evaluation. *)
Theorem C01_read_is_scratch :
  forall (V M IX : Type) (g : graph V) (sm : sem V M IX) (fx chk : bool),
    WF g -> F_mix g sm -> fx = true \/ chk = true ->
    forall ops, Disciplined g sm fx chk (init_store g) ops ->
    forall k i st,
      nth_error (fst (run g sm fx (init_store g) ops)) k = Some st ->
      snd (step g sm fx (fst (run g sm fx (init_store g) ops)) (Get k i)) =
        match scratch g (values st) i with Some v => Ok v | None => Err InputError end.
Proof. intros V M IX g sm fx chk W Fm D ops. exact (read_after_history V M IX g sm fx chk W D ops Fm). Qed.
Print Assumptions C01_read_is_scratch.

(** A read is transparent: in any consistent state it changes no independent value, neither the undo log nor the
    fork mode, and no later read result. *)
Theorem C01_get_transparent :
  forall (V : Type) (g : graph V), WF g ->
    forall (st : state V) (i : nat), Good g st ->
    let st' := fst (get_state g st i) in
    (forall j, linked g j = false -> values st' j = values st j) /\ fork st' = fork st /\ mode st' = mode st /\
    (forall j, snd (get g (values st') j) = snd (get g (values st) j)).
Proof. intros V g W st i. exact (get_transparent V g W st i). Qed.
Print Assumptions C01_get_transparent.

(** States do not interfere: a history that never addresses state [k] leaves it untouched (values, undo log, mode),
    whatever it does to the other states and to clones of [k]; and a clone starts with exactly the values of its source. *)
Theorem C01_clone_isolated :
  forall (V M IX : Type) (g : graph V) (sm : sem V M IX) (fx : bool) (ops : list (op V M IX)) (s : store V) (k : nat),
    k < length s -> (forall o, In o ops -> op_state o <> k) ->
    nth_error (fst (run g sm fx s ops)) k = nth_error s k.
Proof. intros V M IX g sm fx ops. exact (clone_isolated V M IX g sm fx ops). Qed.
Print Assumptions C01_clone_isolated.

Theorem C01_clone_copies :
  forall (V M IX : Type) (g : graph V) (sm : sem V M IX) (fx : bool) (s : store V) (k : nat) (d kp : bool) (st : state V),
    nth_error s k = Some st ->
    nth_error (fst (step g sm fx s (Clone k d kp))) (length s) = Some (clone_state st d kp) /\
    values (clone_state st d kp) = values st.
Proof. intros V M IX g sm fx s k d kp st. exact (clone_copy V M IX g sm fx s k d kp st). Qed.
Print Assumptions C01_clone_copies.

(** Non-vacuity: the graph of tests/unit_tests/variables/test_state.py, a diamond and the graph of F1 are
    well-formed; a 14-operation history with forked assignments, reads, a partial and a full revert, a clone and a
    mode switch is disciplined in the strict sense and its last read is the fresh value. *)
Theorem C01_examples :
  WF (mk_graph test_state_nodes) /\ WF (mk_graph diamond_nodes) /\ WF (mk_graph f1_nodes) /\
  disciplined_b (mk_graph diamond_nodes) xsem false true (init_store (mk_graph diamond_nodes)) demo_ops = true /\
  read_of (mk_graph diamond_nodes) xsem false demo_ops 1 3 = Ok (XS (AFin 58)).
Proof. split; [exact test_state_wf | split; [exact diamond_wf | split; [exact f1_wf | split; apply demo_disciplined]]]. Qed.
Print Assumptions C01_examples.
