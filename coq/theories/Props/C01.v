(** C01 — values read from the lazily cached variable graph are never stale.
    Property theorems only; every statement is over the model of State/StateModel.v at the code as it is
    (State/StateNow.v: [step_now] / [run_now] = [step] / [run] with [State.__setitem__] as it is since commit 27ac519,
    i.e. an assignment made while [auto_fork_type is None] also forgets [_last_fork]; the harness checks on every
    run that the tree under test has this rule and reports the history of finding F1 as a violation otherwise):
      [g]   any variable graph, [WF g] = what dag.py must deliver (C15's subject; computed by [wf_b] on every graph of the tie),
      [sm]  what torch does on values ([put_val], [mix]); [F_mix g sm] = per-individual node functions commute with the
            row-wise selection of a partial revert (only used when the history contains a partial revert); the executable
            instance of the tie and of the examples is [xsem_where], the [torch.where] selection of State.revert(subset)
            since commit fe0cadd (recognised by the harness on every run, like the fork rule),
      [MaskDisciplined g sm s ops] = the documented precondition of partial reverts, and nothing else: every
            [RevertMask] of the history is applied while each doubly cached node of the forked sub-graph carries the
            individual axis.  Histories are otherwise arbitrary (in particular assignments with auto-fork switched off
            while a fork is pending, followed by reverts — the shape of the former finding F1). *)
From Coq Require Import List Arith Bool ZArith.
From Leaspy Require Import State.StateModel State.StateProofs State.StateExec State.StateExecProofs
                           State.StateNow State.StateNowProofs.
Import ListNotations.

(** Every read that returns a value returns the from-scratch value of the state's current independent values:
    for every value type, every well-formed graph, every history of every operation on any number of states. *)
Theorem C01_never_stale :
  forall (V M IX : Type) (g : graph V) (sm : sem V M IX),
    WF g -> F_mix g sm ->
    forall ops, MaskDisciplined g sm (init_store g) ops ->
    forall k i st v,
      nth_error (fst (run_now g sm (init_store g) ops)) k = Some st ->
      snd (step_now g sm (fst (run_now g sm (init_store g) ops)) (Get k i)) = Ok v ->
      scratch g (values st) i = Some v.
Proof. intros V M IX g sm W Fm ops. exact (never_stale_now V M IX g sm W ops Fm). Qed.
Print Assumptions C01_never_stale.

(** Histories without per-individual reverts (full reverts, clones, mode switches, ... in any order): no hypothesis on
    the history at all. *)
Theorem C01_never_stale_full_reverts :
  forall (V M IX : Type) (g : graph V) (sm : sem V M IX),
    WF g -> F_mix g sm ->
    forall ops, forallb (@no_partial_revert V M IX) ops = true ->
    forall k i st v,
      nth_error (fst (run_now g sm (init_store g) ops)) k = Some st ->
      snd (step_now g sm (fst (run_now g sm (init_store g) ops)) (Get k i)) = Ok v ->
      scratch g (values st) i = Some v.
Proof. intros V M IX g sm W Fm ops. exact (never_stale_full_reverts V M IX g sm W ops Fm). Qed.
Print Assumptions C01_never_stale_full_reverts.

(** A read fails with an input error exactly when the from-scratch evaluation needs an unset independent value;
    it never fails otherwise (no node function is ever called on None) and, by [C01_never_stale], never answers
    with a default or an old value. *)
Theorem C01_unset_is_error :
  forall (V M IX : Type) (g : graph V) (sm : sem V M IX),
    WF g -> F_mix g sm ->
    forall ops, MaskDisciplined g sm (init_store g) ops ->
    forall k i st,
      nth_error (fst (run_now g sm (init_store g) ops)) k = Some st ->
      let r := snd (step_now g sm (fst (run_now g sm (init_store g) ops)) (Get k i)) in
      (r = Err InputError <-> scratch g (values st) i = None) /\ (forall e, r = Err e -> e = InputError).
Proof. intros V M IX g sm W Fm ops. exact (unset_is_error_now V M IX g sm W ops Fm). Qed.
Print Assumptions C01_unset_is_error.

(** Both directions at once: the result of a read IS the from-scratch evaluation. *)
Theorem C01_read_is_scratch :
  forall (V M IX : Type) (g : graph V) (sm : sem V M IX),
    WF g -> F_mix g sm ->
    forall ops, MaskDisciplined g sm (init_store g) ops ->
    forall k i st,
      nth_error (fst (run_now g sm (init_store g) ops)) k = Some st ->
      snd (step_now g sm (fst (run_now g sm (init_store g) ops)) (Get k i)) =
        match scratch g (values st) i with Some v => Ok v | None => Err InputError end.
Proof. intros V M IX g sm W Fm ops. exact (read_after_history_now V M IX g sm W ops Fm). Qed.
Print Assumptions C01_read_is_scratch.

(** What makes the full statement hold (the repair of finding F1): an assignment made with auto-fork switched off
    leaves no undo log behind, so a revert after it — full or per-individual — is refused with the input error
    "no fork to revert from" and changes nothing; it can no longer write values derived from older independent
    values back into the cache. *)
Theorem C01_unforked_set_drops_fork :
  forall (V M IX : Type) (g : graph V) (sm : sem V M IX) (st : state V) (i : nat) (o : option V),
    i < gn g -> settable g i = true -> mode st = None ->
    let st' := fst (set_now g st i o) in
    fork st' = None /\ revert_state st' = (st', Err InputError) /\
    (forall m, revert_mask_state sm st' m = (st', Err InputError)).
Proof. intros V M IX g sm st i o. exact (unforked_set_drops_fork V M IX g sm st i o). Qed.
Print Assumptions C01_unforked_set_drops_fork.

(** A read is transparent: in any consistent state it changes no independent value, neither the undo log nor the
    fork mode, and no later read result. *)
Theorem C01_get_transparent :
  forall (V : Type) (g : graph V), WF g ->
    forall (st : state V) (i : nat), Good g st ->
    let st' := fst (get_state g st i) in
    (forall j, linked g j = false -> values st' j = values st j) /\ fork st' = fork st /\ mode st' = mode st /\
    (forall j, snd (get g (values st') j) = snd (get g (values st) j)).
Proof. intros V g W st i. exact (get_transparent V g W st i). Qed.
Print Assumptions C01_get_transparent.

(** States do not interfere: a history that never addresses state [k] leaves it untouched (values, undo log, mode),
    whatever it does to the other states and to clones of [k]; and a clone starts with exactly the values of its source. *)
Theorem C01_clone_isolated :
  forall (V M IX : Type) (g : graph V) (sm : sem V M IX) (ops : list (op V M IX)) (s : store V) (k : nat),
    k < length s -> (forall o, In o ops -> op_state o <> k) ->
    nth_error (fst (run_now g sm s ops)) k = nth_error s k.
Proof. intros V M IX g sm ops. exact (clone_isolated V M IX g sm true ops). Qed.
Print Assumptions C01_clone_isolated.

Theorem C01_clone_copies :
  forall (V M IX : Type) (g : graph V) (sm : sem V M IX) (s : store V) (k : nat) (d kp : bool) (st : state V),
    nth_error s k = Some st ->
    nth_error (fst (step_now g sm s (Clone k d kp))) (length s) = Some (clone_state st d kp) /\
    values (clone_state st d kp) = values st.
Proof. intros V M IX g sm s k d kp st. exact (clone_copy V M IX g sm true s k d kp st). Qed.
Print Assumptions C01_clone_copies.

(** Non-vacuity: the graph of tests/unit_tests/variables/test_state.py, a diamond and the graph of F1 are well-formed;
    a 21-operation history on the diamond (forked assignments, reads, a partial revert that mixes rows, an un-forked
    assignment over a pending fork followed by a full and a partial revert — both refused —, a clone, an accepted
    revert on the clone) meets the precondition and its reads are the fresh values; the history of the former
    finding F1 meets the precondition, its revert is refused and its last read is the fresh 2 + 20; a per-individual
    revert whose discarded side is NaN (y = log2 x, x = [-1, 4] rejected for individual 0) leaves the fresh y = [0, 2]. *)
Theorem C01_examples :
  WF (mk_graph test_state_nodes) /\ WF (mk_graph diamond_nodes) /\ WF (mk_graph f1_nodes) /\
  (MaskDisciplined (mk_graph diamond_nodes) xsem_where (init_store (mk_graph diamond_nodes)) (now_ops ++ [Get 1 3; Revert 1]) /\
   nth_error (outs_of (mk_graph diamond_nodes) now_ops) 6 = Some Done /\
   nth_error (outs_of (mk_graph diamond_nodes) now_ops) 13 = Some (Err InputError) /\
   nth_error (outs_of (mk_graph diamond_nodes) now_ops) 14 = Some (Err InputError) /\
   read_of (mk_graph diamond_nodes) xsem_where true now_ops 0 3 = Ok (XS (AFin 213)) /\
   fresh_of (mk_graph diamond_nodes) xsem_where true now_ops 0 3 = Some (Some (XS (AFin 213))) /\
   read_of (mk_graph diamond_nodes) xsem_where true (now_ops ++ [Get 1 3; Revert 1]) 1 3 = Ok (XS (AFin 213))) /\
  (MaskDisciplined (mk_graph f1_nodes) xsem_where (init_store (mk_graph f1_nodes)) f1_ops /\
   nth_error (outs_of (mk_graph f1_nodes) f1_ops) 7 = Some (Err InputError) /\
   read_of (mk_graph f1_nodes) xsem_where true f1_ops 0 2 = Ok (XS (AFin 22)) /\
   fresh_of (mk_graph f1_nodes) xsem_where true f1_ops 0 2 = Some (Some (XS (AFin 22)))) /\
  (WF (mk_graph nf_nodes) /\
   MaskDisciplined (mk_graph nf_nodes) xsem_where (init_store (mk_graph nf_nodes)) nf_ops /\
   nth_error (outs_of (mk_graph nf_nodes) nf_ops) 4 = Some (Ok (XP [ANaN; AFin 2])) /\
   nth_error (outs_of (mk_graph nf_nodes) nf_ops) 5 = Some Done /\
   read_of (mk_graph nf_nodes) xsem_where true nf_ops 0 1 = Ok (XP [AFin 0; AFin 2]) /\
   fresh_of (mk_graph nf_nodes) xsem_where true nf_ops 0 1 = Some (Some (XP [AFin 0; AFin 2]))).
Proof. split; [exact test_state_wf | split; [exact diamond_wf | split; [exact f1_wf | split; [exact now_disciplined | split; [exact f1_now | exact nonfinite_now]]]]]. Qed.
Print Assumptions C01_examples.

(** * Histories with scoped fork-mode switches — [with state.auto_fork(m): ...] (State/StateScoped.v)
    [SScoped k m body] sets the mode of state [k] to [m], runs [body] until the first operation that returns an error (the
    exception leaves the block and every enclosing one, and is caught by the caller) and ALWAYS puts the previous mode back.
    [srun_now] executes such a history with the [step]s of the model above and returns the trace (every primitive event with
    the store it was executed in); [visits] = every store the execution goes through; [hflat] = the plain history it amounts to. *)
From Leaspy Require Import State.Revert State.StateScoped State.StateScopedProofs State.StateScopedExec State.StateScopedExecProofs.

(** Never stale, at every point of the execution: inside blocks, after an exception has left a block, after the history. *)
Theorem C01_never_stale_scoped :
  forall (V M IX : Type) (g : graph V) (sm : sem V M IX),
    WF g -> F_mix g sm ->
    forall h, SMaskDisciplined g sm (init_store g) h ->
    forall s', In s' (visits g sm true (init_store g) h) ->
    forall k i st v, nth_error s' k = Some st ->
      snd (step_now g sm s' (Get k i)) = Ok v -> scratch g (values st) i = Some v.
Proof. intros V M IX g sm W Fm h. exact (scoped_never_stale_now V M IX g sm W h Fm). Qed.
Print Assumptions C01_never_stale_scoped.

(** ... in particular every read that the history executed returned the from-scratch evaluation (or the input error). *)
Theorem C01_scoped_reads_are_scratch :
  forall (V M IX : Type) (g : graph V) (sm : sem V M IX),
    WF g -> F_mix g sm ->
    forall h, SMaskDisciplined g sm (init_store g) h ->
    forall e, In e (snd (srun_now g sm (init_store g) h)) ->
    forall k i st, snd e = EOp (Get k i) -> nth_error (fst e) k = Some st ->
      obs_of g sm true e = OOut (Get k i) (match scratch g (values st) i with Some v => Ok v | None => Err InputError end).
Proof. intros V M IX g sm W Fm h. exact (scoped_executed_reads_now V M IX g sm W h Fm). Qed.
Print Assumptions C01_scoped_reads_are_scratch.

(** A history with scoped blocks is a plain history: same final store, same precondition (so every theorem above applies to it). *)
Theorem C01_scoped_is_history :
  forall (V M IX : Type) (g : graph V) (sm : sem V M IX) (s : store V) (h : list (sop V M IX)),
    fst (srun_now g sm s h) = fst (run_now g sm s (hflat g sm true s h)) /\
    (SMaskDisciplined g sm s h <-> MaskDisciplined g sm s (hflat g sm true s h)).
Proof. exact scoped_is_history_now. Qed.
Print Assumptions C01_scoped_is_history.

(** The contract of the context manager: the body runs with the requested mode (values and undo log untouched by the
    entry); whatever the body does — including raising — the state has its previous mode again after the block, and
    leaving the block changes nothing else. *)
Theorem C01_scoped_restores_mode :
  forall (V M IX : Type) (g : graph V) (sm : sem V M IX) (fx : bool) (s : store V) (k : nat) (m : option fork_type)
         (b : sblock V M IX) (st : state V),
    nth_error s k = Some st ->
    let r := sexec g sm fx s (SScoped k m b) in
    let inner := bexec g sm fx (set_mode g sm fx s k m) b in
    (exists st0, nth_error (set_mode g sm fx s k m) k = Some st0 /\ mode st0 = m /\ values st0 = values st /\ fork st0 = fork st) /\
    snd r = snd inner /\
    exists st1, nth_error (fst (fst inner)) k = Some st1 /\
                nth_error (fst (fst r)) k = Some (mkState (values st1) (fork st1) (mode st)).
Proof. exact scoped_restores_mode. Qed.
Print Assumptions C01_scoped_restores_mode.

(** The "later history" simulation of C02 ([C02_later_history]) for histories with scoped blocks: pairwise equivalent
    stores stay equivalent and return the same results ([obs_agree]: equal except where an operation inspects the cache). *)
Theorem C01_scoped_later_history :
  forall (V M IX : Type) (g : graph V) (sm : sem V M IX) (fx chk : bool), WF g -> fx = true \/ chk = true ->
  forall (h : list (sop V M IX)), F_mix g sm ->
  forall s1 s2 : store V, sim_store g s1 s2 ->
    SDisciplinedWith g sm fx (op_ok g sm chk) s1 h -> SDisciplinedWith g sm fx (op_ok g sm chk) s2 h ->
    sim_store g (fst (srun g sm fx s1 h)) (fst (srun g sm fx s2 h)) /\
    Forall2 (obs_agree g) (map (obs_of g sm fx) (snd (srun g sm fx s1 h))) (map (obs_of g sm fx) (snd (srun g sm fx s2 h))).
Proof. intros V M IX g sm fx chk W H h. exact (scoped_later_history V M IX g sm fx chk W H h). Qed.
Print Assumptions C01_scoped_later_history.

(** Non-vacuity: c = a + b with a fork pending; an exception leaves [with auto_fork(None)]; the mode is REF again, the next
    assignment is forked, its revert is accepted and the read is the fresh 12 — whereas the same operations with the mode left
    at None (no [finally]) refuse the revert and read 22; two nested blocks on two states left by one exception. *)
Theorem C01_scoped_examples :
  (SMaskDisciplined (mk_graph f1_nodes) xsem_where (init_store (mk_graph f1_nodes)) sc_ops /\
   nth_error (sobs_of (mk_graph f1_nodes) sc_ops) 7 = Some (OOut (Set_ 0 2 (Some (XS (AFin 5)))) (Err InputError)) /\
   nth_error (sobs_of (mk_graph f1_nodes) sc_ops) 9 = Some (OSeen 0 (Some REF) (Some [(0, Some (XS (AFin 1))); (2, Some (XS (AFin 11)))])) /\
   nth_error (sobs_of (mk_graph f1_nodes) sc_ops) 12 = Some (OOut (Revert 0) Done) /\
   nth_error (sobs_of (mk_graph f1_nodes) sc_ops) 13 = Some (OOut (Get 0 2) (Ok (XS (AFin 12))))) /\
  (nth_error (outs_of (mk_graph f1_nodes) (firstn 8 (hflat (mk_graph f1_nodes) xsem_where true (init_store (mk_graph f1_nodes)) sc_ops)
                                            ++ [Set_ 0 1 (Some (XS (AFin 20))); Get 0 2; Revert 0; Get 0 2])) 10 = Some (Err InputError) /\
   nth_error (outs_of (mk_graph f1_nodes) (firstn 8 (hflat (mk_graph f1_nodes) xsem_where true (init_store (mk_graph f1_nodes)) sc_ops)
                                            ++ [Set_ 0 1 (Some (XS (AFin 20))); Get 0 2; Revert 0; Get 0 2])) 11 = Some (Ok (XS (AFin 22)))) /\
  (SMaskDisciplined (mk_graph f1_nodes) xsem_where (init_store (mk_graph f1_nodes)) nested_ops /\
   nth_error (sobs_of (mk_graph f1_nodes) nested_ops) 8 = Some (OSeen 1 (Some REF) None) /\
   nth_error (sobs_of (mk_graph f1_nodes) nested_ops) 9 = Some (OSeen 0 (Some REF) (Some [(1, None); (2, None)]))) /\
  check_scase_with xsem_where true (f1_nodes, sc_ops, sc_expected (Some REF)) = true /\
  check_scase_with xsem_where true (f1_nodes, sc_ops, sc_expected None) = false.
Proof. exact scoped_examples. Qed.
Print Assumptions C01_scoped_examples.
