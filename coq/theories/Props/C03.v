(** C03 — every sampler step is a Metropolis–Hastings transition for the documented target.
    Property theorems only: statements in full, each closed by [exact] of a lemma proved elsewhere.
    [gen_*] are regenerated on every run from the running `sample` methods of /repo (gen/GenC03.v). *)
From Coq Require Import Reals List String Bool Arith.
From Leaspy Require Import Base.RAux Sampler.SamplerModel Sampler.SamplerProofs Sampler.MixtureProofs Sampler.SamplerTie Sampler.ExtremeProofs Sampler.DetailedBalance.
From LeaspyGen Require Import GenC03.
Import ListNotations.
Local Open Scope R_scope.

(** The acceptance threshold the two `sample` methods compute is exp(-D), D = change of attachment plus
    inverse-temperature-weighted change of regularity, of the values READ before and after the proposal. *)
Theorem C03_rule : forall pa na pr nr tinv : R,
  gen_alpha_pop pa na pr nr tinv = exp (- ((na - pa) + tinv * (nr - pr))) /\
  gen_alpha_ind pa na pr nr tinv = exp (- ((na - pa) + tinv * (nr - pr))).
Proof. intros. split; [rewrite tie_alpha_pop | rewrite tie_alpha_ind]; apply alpha_eq. Qed.
Print Assumptions C03_rule.

(** What the rule is for.  With the symmetric proposal of the step (density q of proposing one state from the other, the same in
    both directions) and a uniform draw, "accept iff u < threshold" accepts with probability min(1, threshold); for the REGENERATED
    thresholds of both `sample` methods that probability satisfies the point-wise detailed-balance identity for the tempered target
    exp(-(attachment + tinv * regularity)): the step is a Metropolis-Hastings transition for the documented target (the move from
    (pa, pr) to (na, nr) against the reverse move, whose threshold is the same generated expression with the roles swapped). *)
Theorem C03_detailed_balance : forall pa na pr nr tinv q : R,
  target tinv pa pr * q * acc_prob (gen_alpha_pop pa na pr nr tinv) = target tinv na nr * q * acc_prob (gen_alpha_pop na pa nr pr tinv) /\
  target tinv pa pr * q * acc_prob (gen_alpha_ind pa na pr nr tinv) = target tinv na nr * q * acc_prob (gen_alpha_ind na pa nr pr tinv) /\
  0 < acc_prob (gen_alpha_pop pa na pr nr tinv) <= 1 /\
  ((na - pa) + tinv * (nr - pr) <= 0 -> acc_prob (gen_alpha_pop pa na pr nr tinv) = 1 /\ acc_prob (gen_alpha_ind pa na pr nr tinv) = 1).
Proof.
  intros pa na pr nr tinv q.
  destruct (C03_rule pa na pr nr tinv) as [Ep Ei]. destruct (C03_rule na pa nr pr tinv) as [Ep' Ei'].
  rewrite Ep, Ei, Ep', Ei'.
  split; [apply detailed_balance|]. split; [apply detailed_balance|]. split; [apply acc_prob_range|].
  intros H. split; apply acc_prob_exp_ge; exact H.
Qed.
Print Assumptions C03_detailed_balance.

(** Mixture model (per-cluster prior terms): the threshold the individual step computes — traced with 2 and with 3
    clusters — is exp(-D) with the regularity of EACH state weighted by the responsibilities
    softmax_k(max(-S_k, -100)) of THAT state (S = nll_regul_ind_sum_ind row before / after the proposal). *)
Theorem C03_rule_mixture :
  (forall pa na s00 s01 r00 r01 s10 s11 r10 r11 tinv : R,
     gen_alpha_ind_mix2 pa na s00 s01 r00 r01 s10 s11 r10 r11 tinv
     = exp (- ((na - pa) + tinv * (cluster_weighted [s10; s11] [r10; r11] - cluster_weighted [s00; s01] [r00; r01])))) /\
  (forall pa na s00 s01 s02 r00 r01 r02 s10 s11 s12 r10 r11 r12 tinv : R,
     gen_alpha_ind_mix3 pa na s00 s01 s02 r00 r01 r02 s10 s11 s12 r10 r11 r12 tinv
     = exp (- ((na - pa) + tinv * (cluster_weighted [s10; s11; s12] [r10; r11; r12] - cluster_weighted [s00; s01; s02] [r00; r01; r02])))) /\
  gen_ind_resp_node = "nll_regul_ind_sum_ind"%string.
Proof. split; [|split]; intros; [rewrite tie_alpha_ind_mix2 | rewrite tie_alpha_ind_mix3 | exact tie_resp_node]; apply alpha_mix_eq. Qed.
Print Assumptions C03_rule_mixture.

(** The responsibilities are positive and sum to one, so the regularity read is a convex combination of the per-cluster
    prior terms (between the smallest and the largest); with a single cluster it is the plain prior term. *)
Theorem C03_mixture_weights : forall S, S <> [] ->
  List.length (resp_weights S) = List.length S /\ Forall (fun w => 0 < w) (resp_weights S) /\ sum_R (resp_weights S) = 1 /\
  (forall Rk lo hi, List.length S = List.length Rk -> Forall (fun x => lo <= x <= hi) Rk -> lo <= cluster_weighted S Rk <= hi) /\
  (forall s r, cluster_weighted [s] [r] = r).
Proof. exact mixture_weights. Qed.
Print Assumptions C03_mixture_weights.

(** The individual step of the mixture model: one proposal for all rows; decision j compares u_j with exp(-D_j), the
    regularity before weighted by the responsibilities of the current state, the one after by those of the proposed state. *)
Theorem C03_ind_decision_mixture : forall (attach_ind : tens R -> list R) (Ssum Rvar : tens R -> list (list R)) tinv sds x tp y tp' acc,
  ind_step attach_ind (regul_mix Ssum Rvar) tinv sds x tp = Some (y, tp', acc) ->
  exists rows rows',
    x = Nd rows /\
    add_noise_rows Rplus Rmult sds rows (normals tp) = Some (rows', normals tp') /\
    y = Nd (mix_rows acc rows rows') /\
    List.length acc = List.length rows /\
    uniforms tp' = skipn (List.length rows) (uniforms tp) /\ normals tp' = skipn (size x) (normals tp) /\
    (forall j u a b S0 R0 S1 R1,
        nth_error (uniforms tp) j = Some u ->
        nth_error (attach_ind x) j = Some a -> nth_error (attach_ind (Nd rows')) j = Some b ->
        nth_error (Ssum x) j = Some S0 -> nth_error (Rvar x) j = Some R0 ->
        nth_error (Ssum (Nd rows')) j = Some S1 -> nth_error (Rvar (Nd rows')) j = Some R1 ->
        exists d, nth_error acc j = Some d /\
          (d = true <-> u < exp (- ((b - a) + tinv * (cluster_weighted S1 R1 - cluster_weighted S0 R0))))).
Proof. exact ind_step_mixture_sound. Qed.
Print Assumptions C03_ind_decision_mixture.

(** Accepted exactly when the uniform draw is strictly below exp(-D) (both comparisons as the code writes them,
    and the model's boolean). *)
Theorem C03_accept_iff : forall u pa na pr nr tinv : R,
  (gen_accept_pop u (gen_alpha_pop pa na pr nr tinv) <-> u < exp (- ((na - pa) + tinv * (nr - pr)))) /\
  (gen_accept_ind u (gen_alpha_ind pa na pr nr tinv) <-> u < exp (- ((na - pa) + tinv * (nr - pr)))) /\
  (acceptb u (alpha pa na pr nr tinv) = true <-> u < exp (- ((na - pa) + tinv * (nr - pr)))).
Proof.
  intros. split; [|split].
  - rewrite tie_accept_pop, tie_alpha_pop. reflexivity.
  - rewrite tie_accept_ind, tie_alpha_ind. reflexivity.
  - apply acceptb_true_iff.
Qed.
Print Assumptions C03_accept_iff.

(** Extreme decisions.  A proposal that does not worsen D is accepted by EVERY draw of [0, 1), however large exp(-D) is (its
    float evaluation overflows to +inf below D = -88.7 in single precision: still above every draw), a proposal with
    exp(-D) <= u is rejected; and in the step of one block the uniform is consumed in both cases, the result being the
    proposal in the first and the previous value in the second. *)
Theorem C03_extreme_decisions :
  (forall u pa na pr nr tinv : R, (na - pa) + tinv * (nr - pr) <= 0 -> u < 1 ->
     gen_accept_pop u (gen_alpha_pop pa na pr nr tinv) /\ gen_accept_ind u (gen_alpha_ind pa na pr nr tinv) /\
     acceptb u (alpha pa na pr nr tinv) = true) /\
  (forall u pa na pr nr tinv : R, 0 < u -> - ln u <= (na - pa) + tinv * (nr - pr) ->
     ~ gen_accept_pop u (gen_alpha_pop pa na pr nr tinv) /\ ~ gen_accept_ind u (gen_alpha_ind pa na pr nr tinv) /\
     acceptb u (alpha pa na pr nr tinv) = false) /\
  (forall (attach regul : tens R -> R) tinv std idx x tp y tp' acc,
     block_step attach regul tinv std idx x tp = Some (y, tp', acc) ->
     exists sd x' u,
       put_noise Rplus Rmult x idx sd (normals tp) = Some (x', normals tp') /\
       uniforms tp = u :: uniforms tp' /\
       ((attach x' - attach x) + tinv * (regul x' - regul x) <= 0 -> u < 1 -> acc = true /\ y = x') /\
       (0 < u -> - ln u <= (attach x' - attach x) + tinv * (regul x' - regul x) -> acc = false /\ y = x)).
Proof. split; [exact improvement_accepted | split; [exact hopeless_rejected | exact block_step_extreme]]. Qed.
Print Assumptions C03_extreme_decisions.

(** Round 3.  The rule written as a product  likelihood ratio x tempered prior ratio  is the same real number, hence the same
    decision for every draw (exp a * exp b = exp (a + b)); the generated expressions above are tied to exp(-D) by equality
    over R, whatever their syntactic form.  What differs is the FLOAT evaluation of the factors (each overflows / underflows
    beyond the range of exp although exp(-D) is ordinary): outside this statement, covered by the directed decisions. *)
Theorem C03_rule_factored : forall pa na pr nr tinv : R,
  exp (pa - na) * exp ((pr - nr) * tinv) = exp (- ((na - pa) + tinv * (nr - pr))) /\
  (forall u, u < exp (pa - na) * exp ((pr - nr) * tinv) <-> acceptb u (alpha pa na pr nr tinv) = true).
Proof. exact rule_factored. Qed.
Print Assumptions C03_rule_factored.

(** What is read: the attachment node that sums all observation models and the variable's own prior term. *)
Theorem C03_reads :
  gen_pop_attach_node = "nll_attach"%string /\ gen_pop_regul_node = "nll_regul_VAR"%string /\
  gen_ind_attach_node = "nll_attach_ind"%string /\ gen_ind_regul_node = "nll_regul_VAR_ind"%string.
Proof. exact tie_reads. Qed.
Print Assumptions C03_reads.

(** One loop iteration of a population sampler: the proposal is the index-put of std[idx]*z on block idx,
    the decision compares the next uniform with exp(-D) for the FRESH values at the current and the proposed
    state, the result is the proposal when accepted and the previous value otherwise. *)
Theorem C03_pop_decision : forall (attach regul : tens R -> R) (tinv : R) (std : tens R) idx x tp y tp' acc,
  block_step attach regul tinv std idx x tp = Some (y, tp', acc) ->
  exists sd sub x' u,
    tget std idx = Some (Sc sd) /\
    uniforms tp = u :: uniforms tp' /\
    put_noise Rplus Rmult x idx sd (normals tp) = Some (x', normals tp') /\
    tget x idx = Some sub /\ (size sub <= List.length (normals tp))%nat /\
    normals tp' = skipn (size sub) (normals tp) /\
    (acc = true <-> u < exp (- ((attach x' - attach x) + tinv * (regul x' - regul x)))) /\
    y = (if acc then x' else x).
Proof. exact block_step_sound. Qed.
Print Assumptions C03_pop_decision.

(** The individual sampler: one proposal for all rows, one decision per row. *)
Theorem C03_ind_decision : forall (attach_ind regul_ind : tens R -> list R) (tinv : R) sds x tp y tp' acc,
  ind_step attach_ind regul_ind tinv sds x tp = Some (y, tp', acc) ->
  exists rows rows',
    x = Nd rows /\
    add_noise_rows Rplus Rmult sds rows (normals tp) = Some (rows', normals tp') /\
    y = Nd (mix_rows acc rows rows') /\
    List.length acc = List.length rows /\ List.length rows' = List.length rows /\
    List.length (attach_ind x) = List.length rows /\ List.length (attach_ind (Nd rows')) = List.length rows /\
    List.length (regul_ind x) = List.length rows /\ List.length (regul_ind (Nd rows')) = List.length rows /\
    (List.length rows <= List.length (uniforms tp))%nat /\ uniforms tp' = skipn (List.length rows) (uniforms tp) /\
    (size x <= List.length (normals tp))%nat /\ normals tp' = skipn (size x) (normals tp) /\
    (forall j u a b c d,
        nth_error (uniforms tp) j = Some u ->
        nth_error (attach_ind x) j = Some a -> nth_error (attach_ind (Nd rows')) j = Some b ->
        nth_error (regul_ind x) j = Some c -> nth_error (regul_ind (Nd rows')) j = Some d ->
        nth_error acc j = Some (acceptb u (alpha a b c d tinv))).
Proof. exact ind_step_sound. Qed.
Print Assumptions C03_ind_decision.

(** Decision j is a function of row j of the four vectors read and of u_j only: two runs that agree on
    row j (whatever the other rows, the other draws, even the number of individuals) decide alike. *)
Theorem C03_own_row : forall tinv pa na pr nr us al bs r pa' na' pr' nr' us' al' bs' r' j,
  alphas tinv pa na pr nr = Some al -> group_accept al us = Some (bs, r) ->
  alphas tinv pa' na' pr' nr' = Some al' -> group_accept al' us' = Some (bs', r') ->
  (j < List.length pa)%nat -> (j < List.length pa')%nat ->
  nth_error pa j = nth_error pa' j -> nth_error na j = nth_error na' j ->
  nth_error pr j = nth_error pr' j -> nth_error nr j = nth_error nr' j ->
  nth_error us j = nth_error us' j ->
  nth_error bs j = nth_error bs' j.
Proof. exact own_row. Qed.
Print Assumptions C03_own_row.

(** index-put-accumulate of std*randn on a block: the block (sub-tensor at idx) receives std*z entry by
    entry in row-major order, |block| normals are consumed, every entry outside the block is unchanged,
    the shape is kept — for tensors of any nesting depth over any carrier. *)
Theorem C03_block_only : forall (A : Type) (add mul : A -> A -> A) sd idx (t : tens A) zs t' zs',
  put_noise add mul t idx sd zs = Some (t', zs') ->
  exists sub sub',
    tget t idx = Some sub /\ tget t' idx = Some sub' /\
    (size sub <= List.length zs)%nat /\ zs' = skipn (size sub) zs /\
    flat sub' = noise_flat add mul sd (flat sub) (firstn (size sub) zs) /\
    (forall p, diverge idx p = true -> tget t' p = tget t p) /\
    (forall p v, tget t p = Some (Sc v) -> prefixb idx p = false -> tget t' p = Some (Sc v)) /\
    (forall s, has_shape s t -> has_shape s t').
Proof. intros A add mul. exact (put_noise_block_only add mul). Qed.
Print Assumptions C03_block_only.

(** the individual proposal: row j receives std_j * (its own segment of the normals), nothing else. *)
Theorem C03_rows_only : forall (A : Type) (add mul : A -> A -> A) sds rows zs rows' zs',
  add_noise_rows add mul sds rows zs = Some (rows', zs') ->
  List.length sds = List.length rows /\ List.length rows' = List.length rows /\
  (size (Nd rows) <= List.length zs)%nat /\ zs' = skipn (size (Nd rows)) zs /\
  forall j row, nth_error rows j = Some row ->
    exists sd row', nth_error sds j = Some sd /\ nth_error rows' j = Some row' /\
      (forall s, has_shape s row -> has_shape s row') /\
      flat row' = noise_flat add mul sd (flat row)
                    (firstn (size row) (skipn (size (Nd (firstn j rows))) zs)).
Proof. intros A add mul. exact (add_noise_rows_rows_only add mul). Qed.
Print Assumptions C03_rows_only.

(** Draws consumed by a population step: one uniform per decision, |block| normals per proposal — a function
    of the block list and the shape alone; in particular the tape left is the same whatever the likelihood,
    the temperature, the proposal scale, the current value and the outcomes. *)
Theorem C03_draws : forall shape order tp,
  (forall attach regul tinv std x y tp' accs,
     has_shape shape x ->
     pop_step attach regul tinv std order x tp = Some (y, tp', accs) ->
     has_shape shape y /\ List.length accs = List.length order /\
     (List.length order <= List.length (uniforms tp))%nat /\
     uniforms tp' = skipn (List.length order) (uniforms tp) /\
     (sumn (map (block_size shape) order) <= List.length (normals tp))%nat /\
     normals tp' = skipn (sumn (map (block_size shape) order)) (normals tp)) /\
  (forall attach1 regul1 tinv1 std1 x1 y1 tp1 accs1 attach2 regul2 tinv2 std2 x2 y2 tp2 accs2,
     has_shape shape x1 -> has_shape shape x2 ->
     pop_step attach1 regul1 tinv1 std1 order x1 tp = Some (y1, tp1, accs1) ->
     pop_step attach2 regul2 tinv2 std2 order x2 tp = Some (y2, tp2, accs2) ->
     uniforms tp1 = uniforms tp2 /\ normals tp1 = normals tp2).
Proof.
  intros shape order tp. split.
  - intros attach regul tinv std x y tp' accs Hs H. exact (pop_step_draws attach regul tinv std shape order x tp y tp' accs Hs H).
  - intros attach1 regul1 tinv1 std1 x1 y1 tp1 accs1 attach2 regul2 tinv2 std2 x2 y2 tp2 accs2 H1 H2 E1 E2.
    exact (pop_step_tape_indep shape order tp _ _ _ _ _ _ _ _ _ _ _ _ _ _ _ _ H1 H2 E1 E2).
Qed.
Print Assumptions C03_draws.

(** Draws consumed by an individual step: one uniform per individual, one normal per coordinate. *)
Theorem C03_draws_ind : forall attach_ind regul_ind tinv sds x tp y tp' acc,
  ind_step attach_ind regul_ind tinv sds x tp = Some (y, tp', acc) ->
  exists rows, x = Nd rows /\ List.length acc = List.length rows /\
    uniforms tp' = skipn (List.length rows) (uniforms tp) /\ normals tp' = skipn (size x) (normals tp).
Proof.
  intros until acc. intros H.
  destruct (ind_step_sound _ _ _ _ _ _ _ _ _ H) as (rows & rows' & Hx & _ & _ & La & _ & _ & _ & _ & _ & _ & Hu & _ & Hn & _).
  exists rows. auto.
Qed.
Print Assumptions C03_draws_ind.

(** ... and with that many draws available (and valid block indices) the step does run. *)
Theorem C03_draws_total : forall attach regul tinv std shape order x tp,
  has_shape shape x ->
  Forall (valid_idx shape) order ->
  Forall (fun idx => exists sd, tget std idx = Some (Sc sd)) order ->
  (List.length order <= List.length (uniforms tp))%nat ->
  (sumn (map (block_size shape) order) <= List.length (normals tp))%nat ->
  exists y tp' accs, pop_step attach regul tinv std order x tp = Some (y, tp', accs).
Proof. exact pop_step_total. Qed.
Print Assumptions C03_draws_total.

(** The blocks of each sampler kind partition the coordinates of the variable: valid, pairwise diverging,
    of equal size, sizes summing to the number of coordinates; a full sweep draws one uniform per entry of
    the std tensor and one normal per coordinate. *)
Theorem C03_blocks_partition : forall k shape,
  pop_draws k shape = (prodn (std_shape k shape), prodn shape) /\
  NoDup (blocks k shape) /\
  (forall idx, In idx (blocks k shape) ->
     valid_idx shape idx /\ List.length idx = List.length (std_shape k shape) /\
     block_size shape idx = prodn (skipn (std_depth k shape) shape)) /\
  (forall idx idx', In idx (blocks k shape) -> In idx' (blocks k shape) -> idx <> idx' -> diverge idx idx' = true).
Proof. exact blocks_partition. Qed.
Print Assumptions C03_blocks_partition.

(** For every latent variable of every shipped model kind: no prior term of another latent variable depends on
    it, every attachment-type node depending on it is collected by the node the sampler reads, and that node
    collects all observation models (joint model: longitudinal and event). *)
Theorem C03_dependents :
  forallb (graph_ok gen_pop_attach_node gen_ind_attach_node) gen_graphs = true /\
  forallb (fun k => existsb (fun g => String.prefix k (g_kind g)) gen_graphs) shipped_kinds = true.
Proof. exact graphs_ok. Qed.
Print Assumptions C03_dependents.

(** The block lists the running samplers loop over are the model's. *)
Theorem C03_tie_blocks :
  blocks Gibbs [2; 2]%nat = gen_blocks_gibbs_2x2 /\ blocks Gibbs [3]%nat = gen_blocks_gibbs_3 /\
  blocks FastGibbs [2; 2]%nat = gen_blocks_fastgibbs_2x2 /\ blocks FastGibbs [3]%nat = gen_blocks_fastgibbs_3 /\
  blocks MH [2; 2]%nat = gen_blocks_mh_2x2 /\ blocks MH [3]%nat = gen_blocks_mh_3.
Proof. exact tie_blocks. Qed.
Print Assumptions C03_tie_blocks.
