(** C04 — the maximisation step is the closed-form maximiser of the sufficient statistics.
    Property theorems only: statements in full, each closed by a lemma proved in Saem/MStepProofs.v. *)
From Coq Require Import ZArith QArith Qreals Reals Bool List.
From Leaspy Require Import Base.QAux Saem.MStep Saem.MStepProofs.
Import ListNotations.
Local Open Scope Q_scope.

(** Prior standard deviation of an individual variable, after burn-in: fed with the statistics of one
    iteration ([S1 = x], [S2 = x^2] per individual) the variance rule [mean S2 - 2 old_mean mean S1 + old_mean^2]
    is the mean squared deviation of the individual values around the PRE-step mean — every cohort size,
    every value; the guard raises exactly when that dispersion is below the tolerance, and the stored
    parameter is its square root. *)
Theorem C04_std_is_dispersion : forall (tol old_mean : Q) (xs : list Q),
  xs <> [] ->
  let d := mean (map (fun x => sqr (x - old_mean)) xs) in
  ind_var_saem old_mean xs (map sqr xs) == d /\
  0 <= d /\
  (d < tol -> ind_std_rule tol old_mean xs (map sqr xs) = Collapse) /\
  (tol <= d -> exists v, ind_std_rule tol old_mean xs (map sqr xs) = Ok v /\ v == d /\
                         std_of (Ok v) = Ok (sqrt (Q2R d))).
Proof.
  intros tol mu xs Hne d. split; [now apply ind_var_saem_dispersion|].
  split; [apply dispersion_nonneg|].
  destruct (ind_std_rule_spec tol mu xs Hne) as [H1 H2]. split; [exact H1|].
  intros Hd. destruct (H2 Hd) as [v [E1 E2]]. exists v. split; [exact E1|]. split; [exact E2|].
  now apply (ind_std_rule_sqrt tol mu xs v).
Qed.
Print Assumptions C04_std_is_dispersion.
