(** C04 — the maximisation step is the closed-form maximiser of the sufficient statistics.
    Property theorems only: statements in full, each closed by lemmas proved in Saem/MStepProofs.v (model)
    and Saem/MStepTie.v (regenerated rules = model). *)
From Coq Require Import ZArith QArith Qreals Reals Bool List.
From Leaspy Require Import Base.QAux Saem.MStep Saem.MStepProofs Saem.MStepTie Saem.Resp Saem.RespProofs Saem.RespTie.
From LeaspyGen Require Import GenC04 GenC04Resp.
Import ListNotations.
Local Open Scope Q_scope.

(** ** Prior standard deviation of an individual variable, after burn-in.
    Fed with the statistics of one iteration ([S1 = x], [S2 = x^2] per individual) the variance rule
    [mean S2 - 2 old_mean mean S1 + old_mean^2] is the mean squared deviation of the individual values around
    the PRE-step mean — every cohort size, every value; the guard raises exactly when that dispersion is below
    the tolerance, and the stored parameter is its square root. *)
Theorem C04_std_is_dispersion : forall (tol old_mean : Q) (xs : list Q),
  xs <> [] ->
  let d := mean (map (fun x => sqr (x - old_mean)) xs) in
  ind_var_saem old_mean xs (map sqr xs) == d /\
  0 <= d /\
  (d < tol -> ind_std_rule tol old_mean xs (map sqr xs) = Collapse) /\
  (tol <= d -> exists v, ind_std_rule tol old_mean xs (map sqr xs) = Ok v /\ v == d /\
                         std_of (Ok v) = Ok (sqrt (Q2R d))).
Proof.
  intros tol mu xs Hne d. split; [now apply ind_var_saem_dispersion|].
  split; [apply dispersion_nonneg|].
  destruct (ind_std_rule_spec tol mu xs Hne) as [H1 H2]. split; [exact H1|].
  intros Hd. destruct (H2 Hd) as [v [E1 E2]]. exists v. split; [exact E1|]. split; [exact E2|].
  now apply (ind_std_rule_sqrt tol mu xs v).
Qed.
Print Assumptions C04_std_is_dispersion.

(** With ANY statistics in force (averaged over iterations or not): the rule is the mean over individuals of
    [S2_i - 2 old_mean S1_i + old_mean^2], old_mean being the value held before the step. *)
Theorem C04_std_general : forall (old_mean : Q) (S1 S2 : list Q),
  S1 <> [] -> length S1 = length S2 ->
  ind_var_saem old_mean S1 S2 == mean (zip_with (fun s1 s2 => s2 - 2 * old_mean * s1 + old_mean * old_mean) S1 S2).
Proof. exact ind_var_saem_general. Qed.
Print Assumptions C04_std_general.

(** "around the pre-step mean" is a real choice: around the freshly updated mean the dispersion would be
    smaller by exactly (new_mean - old_mean)^2. *)
Theorem C04_std_not_around_new_mean : forall (old_mean : Q) (xs : list Q),
  xs <> [] ->
  mean (map (fun x => sqr (x - old_mean)) xs)
  == mean (map (fun x => sqr (x - mean xs)) xs) + sqr (mean xs - old_mean).
Proof. exact dispersion_shift. Qed.
Print Assumptions C04_std_not_around_new_mean.

(** Prior mean of an individual variable: the mean over individuals of the statistic in force. *)
Theorem C04_mean : forall S1 : list Q,
  S1 <> [] -> exists v, ind_mean_rule S1 = Ok v /\ v * lenQ S1 == sumQ S1.
Proof. exact ind_mean_rule_spec. Qed.
Print Assumptions C04_mean.

(** Prior mean of a population variable: the statistic in force, unchanged. *)
Theorem C04_pop_identity : forall stat : list Q, pop_rule stat = stat.
Proof. reflexivity. Qed.
Print Assumptions C04_pop_identity.

(** Burn-in: Bessel-corrected (n-1) dispersion around the CURRENT mean, no guard; undefined for n <= 1. *)
Theorem C04_std_burn_in : forall l : list Q,
  ((2 <= length l)%nat ->
     ind_std_burn_rule 1 l = Ok (var_burn_in 1 l) /\
     var_burn_in 1 l * (lenQ l - 1) == sumQ (map (fun x => sqr (x - mean l)) l)) /\
  ((length l <= 1)%nat -> ind_std_burn_rule 1 l = Undefined).
Proof.
  intros l. split.
  - intros H. split; [now apply ind_std_burn_rule_spec | now apply var_burn_in_spec].
  - apply ind_std_burn_rule_undefined.
Qed.
Print Assumptions C04_std_burn_in.

(** ** Noise.  Diagonal rule: for the cells of one feature — observed or not, whatever the products hold under
    the mask ([junk]) — the variance is the residual sum of squares over OBSERVED entries divided by their
    number; and the rule as a whole returns exactly these per-feature values, each at least [tol]. *)
Theorem C04_noise_diag :
  (forall l : list (option Q * Q * Q),
     noise_ft_var (map cell_of l) == rss l / n_observed l /\ n_obs (map cell_of l) = n_observed l /\ 0 <= rss l) /\
  (forall tol nft rows vs, noise_diag_rule tol nft rows = Ok vs ->
     Forall2 (fun f v => ~ n_obs (column f rows) == 0 /\ v = noise_ft_var (column f rows) /\ tol <= v) (seq 0 nft) vs).
Proof.
  split.
  - intros l. split; [apply noise_ft_var_spec|]. split; [apply n_obs_cell_of | apply rss_nonneg].
  - exact noise_diag_rule_spec.
Qed.
Print Assumptions C04_noise_diag.

(** Scalar rule: the same statement over the cells of ALL features.  For any observations, model values and values
    held under the mask ([junk]; the model value of an unobserved cell): the variance is the residual sum of squares
    over OBSERVED entries divided by their number; the rule is undefined exactly when nothing is observed, raises
    exactly when that quantity is below [tol], and otherwise returns it — the stored parameter is its square root,
    the RMS residual over observed entries.  (Until leaspy commit 3d244df the code summed model^2 over unobserved
    entries of real visits as well: docs/C04.md, known_findings.jsonl.) *)
Theorem C04_noise_scalar : forall (tol : Q) (l : list (option Q * Q * Q)),
  let d := rss l / n_observed l in
  noise_scalar_var (map cell_of l) == d /\
  n_obs (map cell_of l) = n_observed l /\
  (n_observed l == 0 <-> noise_scalar_rule tol (map cell_of l) = Undefined) /\
  (0 < n_observed l -> 0 <= d) /\
  (0 < n_observed l -> d < tol -> noise_scalar_rule tol (map cell_of l) = Collapse) /\
  (0 < n_observed l -> tol <= d ->
     exists v, noise_scalar_rule tol (map cell_of l) = Ok v /\ v == d /\ std_of (Ok v) = Ok (sqrt (Q2R d))).
Proof. intros tol l. split; [apply noise_scalar_var_spec|]. split; [apply n_obs_cell_of | apply noise_scalar_rule_spec]. Qed.
Print Assumptions C04_noise_scalar.

(** With ANY statistics in force (averaged over iterations or not): what the rule returns is the single masked sum
    [(y_L2 + sum_observed (-2 s_ym + s_mm)) / n_obs] — the per-feature quantity taken over every feature's cells —
    and it is at least [tol]. *)
Theorem C04_noise_scalar_general : forall (tol : Q) (cells : list cell) (v : Q),
  noise_scalar_rule tol cells = Ok v ->
  ~ n_obs cells == 0 /\ v = noise_scalar_var cells /\ tol <= v /\ noise_scalar_var cells = noise_ft_var cells.
Proof.
  intros tol cells v H. destruct (noise_scalar_rule_ok tol cells v H) as [H1 [H2 H3]].
  split; [exact H1|]. split; [exact H2|]. split; [exact H3 | apply noise_scalar_is_ft_var].
Qed.
Print Assumptions C04_noise_scalar_general.

(** Non-vacuity: 2 individuals x 1 visit x 2 features, one entry missing in a real visit (model = 1/2 there): the rule
    returns the observed-entry quantity 1/48 whatever the product holds under the mask (0 or 7), raises for a larger
    threshold, is undefined when nothing is observed. *)
Theorem C04_noise_scalar_example :
  n_observed (scalar_example 0) == 3 /\ rss (scalar_example 0) / n_observed (scalar_example 0) == 1 # 48 /\
  noise_scalar_rule (1 # 100000) (map cell_of (scalar_example 0)) = noise_scalar_rule (1 # 100000) (map cell_of (scalar_example 7)) /\
  (exists v, noise_scalar_rule (1 # 100000) (map cell_of (scalar_example 7)) = Ok v /\ v == 1 # 48) /\
  noise_scalar_rule (1 # 10) (map cell_of (scalar_example 7)) = Collapse /\
  noise_scalar_rule (1 # 100000) (map cell_of [(None, 1#2, 7)]) = Undefined.
Proof. exact noise_scalar_example. Qed.
Print Assumptions C04_noise_scalar_example.

(** ** Mixture.  Responsibilities: any matrix with non-negative rows summing to one. *)
Theorem C04_probs_sum_one : forall (nc : nat) (Rm : list (list Q)),
  Rm <> [] -> Forall (stochastic_row nc) Rm ->
  length (probs_update nc Rm) = nc /\ Forall (fun p => 0 <= p) (probs_update nc Rm) /\ sumQ (probs_update nc Rm) == 1.
Proof. exact probs_update_spec. Qed.
Print Assumptions C04_probs_sum_one.

Theorem C04_mixture_mean : forall w x : list Q,
  Forall (fun a => 0 <= a) w -> ~ sumQ w == 0 ->
  exists v, wmean w x = Ok v /\
            v == dotQ (map (fun a => a / sumQ w) w) x /\
            Forall (fun a => 0 <= a) (map (fun a => a / sumQ w) w) /\
            sumQ (map (fun a => a / sumQ w) w) == 1.
Proof. exact wmean_spec. Qed.
Print Assumptions C04_mixture_mean.

(** The mixture std rules weight by the responsibilities a quantity already reduced over individuals:
    the weights cancel, each cluster gets the plain (un-weighted) rule around ITS old mean. *)
Theorem C04_mixture_std_collapse : forall (w : list Q) (s : R), ~ sumQ w == 0 -> mix_spread w s = s.
Proof. exact mix_spread_collapse. Qed.
Print Assumptions C04_mixture_std_collapse.

(** The mixture std rule of one cluster ([mix_var_rule], the variance whose square root is stored) on the statistics of
    one iteration: always the mean squared deviation around THAT cluster's pre-step mean — "prior standard deviations
    their dispersion" — and it never raises. *)
Theorem C04_mixture_std_dispersion : forall (mu : Q) (xs : list Q),
  xs <> [] ->
  exists v, mix_var_rule mu xs (map sqr xs) = Ok v /\ v == mean (map (fun x => sqr (x - mu)) xs) /\ 0 <= v.
Proof. exact mix_var_rule_dispersion. Qed.
Print Assumptions C04_mixture_std_dispersion.

(** PARTIAL (missing: the guard).  Wherever the plain rule returns a value the mixture rule returns the same, >= tol;
    wherever the plain rule raises LeaspyConvergenceError (dispersion below tol) the mixture rule stores the collapsed
    variance instead. *)
Theorem C04_mixture_std_partial : forall (tol mu : Q) (S1 S2 : list Q) (v : Q),
  0 <= tol -> ind_std_rule tol mu S1 S2 = Ok v -> mix_var_rule mu S1 S2 = Ok v /\ tol <= v.
Proof. exact mix_var_rule_partial. Qed.
Print Assumptions C04_mixture_std_partial.

Theorem C04_mixture_std_collapse_stored : forall (tol mu : Q) (xs : list Q),
  xs <> [] -> mean (map (fun x => sqr (x - mu)) xs) < tol ->
  ind_std_rule tol mu xs (map sqr xs) = Collapse /\
  exists v, mix_var_rule mu xs (map sqr xs) = Ok v /\ 0 <= v < tol.
Proof. exact mix_var_rule_collapse_stored. Qed.
Print Assumptions C04_mixture_std_collapse_stored.

(** REFUTED: "a mixture std update leaves a std the next iteration can standardise by" (which the plain rule ensures by
    raising below tol).  Witness = the state met on the implementation (finding mixture-std:collapse-unguarded): 7
    individuals all at the cluster's pre-step mean 0 — the plain rule raises, the mixture rule stores std = sqrt 0 = 0,
    and [(x - m) / 0] of MixtureNormalFamily._nll is undefined for every individual and cluster: from the next M-step on
    every mixture parameter (probs included: they no longer sum to one) is nan. *)
Theorem C04_mixture_std_positive_refuted :
  exists (tol mu : Q) (xs : list Q),
    0 < tol /\ xs <> [] /\
    ind_std_rule tol mu xs (map sqr xs) = Collapse /\
    (exists v, mix_var_rule mu xs (map sqr xs) = Ok v /\ v == 0 /\ std_of (Ok v) = Ok 0%R) /\
    (forall x m, standardised x m 0 = Undefined).
Proof. exact mix_var_rule_refuted. Qed.
Print Assumptions C04_mixture_std_positive_refuted.

(** ** All parameters are updated together from the pre-step state. *)
Theorem C04_batched : forall (V Stats : Type) (ps : list (mparam V Stats)) (burn : bool) (suff : Stats) (s : pstate V) (j : nat),
  update_parameters V Stats ps burn s suff j =
  match nth_error ps j with
  | Some p => compute_update V Stats p burn s suff
  | None => s j
  end.
Proof. exact update_parameters_batched. Qed.
Print Assumptions C04_batched.

Theorem C04_sequential_differs :
  update_parameters Q unit ex_params false ex_state tt 1%nat = 1 /\
  run_trace Q unit ex_params false tt (sequential_trace 2) ex_state (fun _ => None) 1%nat = 5.
Proof. exact sequential_differs. Qed.
Print Assumptions C04_sequential_differs.

(** ** The rules regenerated from the running code are the model's rules. *)
Theorem C04_tie_ind_var : forall (old_mean : Q) (S1 S2 : list Q),
  gen_ind_var (Q2R old_mean) (Q2R (mean S1)) (Q2R (mean S2)) = Q2R (ind_var_saem old_mean S1 S2).
Proof. exact tie_ind_var. Qed.
Print Assumptions C04_tie_ind_var.

Theorem C04_tie_guard :
  (forall tol v : Q, guard tol v = if gen_guard_collapses v tol then Collapse else Ok v) /\
  Qabs.Qabs (gen_ind_std_tol - (1 # 100000)) <= 1 # 100000000000000000000 /\ gen_noise_tol == gen_ind_std_tol.
Proof. split; [exact tie_guard | exact tie_tol_value]. Qed.
Print Assumptions C04_tie_guard.

Theorem C04_tie_burn_in_correction : gen_burn_in_correction = 1%Z.
Proof. exact tie_burn_in_correction. Qed.
Print Assumptions C04_tie_burn_in_correction.

Theorem C04_tie_noise_scalar : forall cells : list cell,
  ~ n_obs cells == 0 ->
  gen_scalar_sum_masks = [true] /\
  gen_noise_scalar_var (Q2R (y_L2 cells)) (Q2R (sumQ (map (masked c_ym) cells)))
                       (Q2R (sumQ (map (masked c_mm) cells))) (Q2R (n_obs cells))
  = Q2R (noise_scalar_var cells).
Proof. intros cells H. split; [exact tie_scalar_sum_masks | now apply tie_noise_scalar_var]. Qed.
Print Assumptions C04_tie_noise_scalar.

Theorem C04_tie_noise_diag : forall cells : list cell,
  ~ n_obs cells == 0 ->
  gen_diag_masked = true /\
  gen_noise_diag_var (Q2R (y_L2 cells)) (Q2R (sumQ (map (masked c_ym) cells)))
                     (Q2R (sumQ (map (masked c_mm) cells))) (Q2R (n_obs cells))
  = Q2R (noise_ft_var cells).
Proof. intros cells H. split; [exact tie_diag_masked | now apply tie_noise_diag_var]. Qed.
Print Assumptions C04_tie_noise_diag.

Theorem C04_tie_statistics : forall x y m : Q,
  gen_stat_sqr (Q2R x) = Q2R (sqr x) /\ gen_stat_ym (Q2R y) (Q2R m) = Q2R (y * m) /\ gen_stat_mm (Q2R m) = Q2R (m * m) /\
  (forall stat : R, gen_pop_rule stat = stat).
Proof. intros x y m. split; [apply tie_stat_sqr|]. split; [apply tie_stat_ym|]. split; [apply tie_stat_mm | exact tie_pop_rule]. Qed.
Print Assumptions C04_tie_statistics.

Theorem C04_tie_compute_update : forall burn has : bool, gen_uses_burn_rule burn has = burn && has.
Proof. exact tie_uses_burn_rule. Qed.
Print Assumptions C04_tie_compute_update.

Theorem C04_tie_update_trace :
  gen_update_trace_0 = batched_trace 0 /\ gen_update_trace_1 = batched_trace 1 /\
  gen_update_trace_2 = batched_trace 2 /\ gen_update_trace_3 = batched_trace 3 /\
  gen_update_trace_4 = batched_trace 4.
Proof. exact tie_update_trace. Qed.
Print Assumptions C04_tie_update_trace.

(** the mixture std rules of the running code do not call the guard (probed with zero-dispersion statistics) *)
Theorem C04_tie_mix_std_unguarded : gen_mix_std_guarded = false /\ gen_mix_std_burn_guarded = false.
Proof. exact tie_mix_std_unguarded. Qed.
Print Assumptions C04_tie_mix_std_unguarded.

(** * Extension: the cluster RESPONSIBILITIES inside the model (Saem/Resp.v, RespProofs.v, RespTie.v). *)
Local Close Scope Q_scope.
Local Open Scope R_scope.

(** ** Each row of responsibilities — softmax over clusters of the per-cluster terms negated and clamped at -100 — is a
    probability vector with strictly positive entries, whatever the (finite) terms. *)
Theorem C04_resp_row_probability : forall terms : list R,
  terms <> [] ->
  length (resp_row terms) = length terms /\ Forall (fun p => 0 < p <= 1) (resp_row terms) /\ sumR (resp_row terms) = 1.
Proof. exact resp_row_prob_vector. Qed.
Print Assumptions C04_resp_row_probability.

(** what the clamp buys: when no cluster's log-density [-t] exceeds [U], every responsibility is at least
    [exp (-100 - U) / n_clusters], however unlikely the other clusters are *)
Theorem C04_resp_floor : forall (terms : list R) (U : R),
  terms <> [] -> clamp_min <= U -> Forall (fun t => - t <= U) terms ->
  Forall (fun p => exp (clamp_min - U) / lenR terms <= p) (resp_row terms).
Proof. exact resp_row_floor. Qed.
Print Assumptions C04_resp_floor.

Theorem C04_resp_example :
  resp_row [0; 0] = [1 / 2; 1 / 2] /\ prob_vector 2 (resp_row [0; 0]) /\
  Forall (fun p => exp (clamp_min - 0) / lenR [0; 800] <= p) (resp_row [0; 800]).
Proof. exact resp_example. Qed.
Print Assumptions C04_resp_example.

(** ** Tie: the expression each of the five softmax sites of the running code is fed, the axis it normalises over, and
    the row-wise reading of the traced expression *)
Theorem C04_tie_resp :
  (forall t : R, gen_resp_logit_probs t = logit t /\ gen_resp_logit_mean t = logit t /\ gen_resp_logit_mean_src t = logit t /\
  gen_resp_logit_std t = logit t /\ gen_resp_logit_std_burn t = logit t) /\
  gen_resp_softmax_axes = [AxCluster; AxCluster; AxCluster; AxCluster; AxCluster] /\
  (forall terms : list R,
     map (fun a => exp a / sumR (map exp (map gen_resp_logit_probs terms))) (map gen_resp_logit_probs terms) = resp_row terms).
Proof. split; [exact tie_resp_logit | split; [exact tie_resp_axes | exact tie_resp_row]]. Qed.
Print Assumptions C04_tie_resp.

(** the traced mixture rules are the model's: probs = column sums / number of individuals; the mean (and its `sources`
    branch) = sum of r * x over the sum of r; the std rules average r * s with s constant over individuals, s = the bare
    square root of the plain rule's variance around the cluster's old mean (no guard) or the Bessel std of the state values *)
Theorem C04_tie_mixture_rules :
  (forall (nc : nat) (Rm : list (list R)),
     probs_updateR nc Rm = map (fun c => gen_probs_rule (sumR (colR c Rm)) (lenR Rm)) (seq 0 nc)) /\
  (forall w x : list R, sumR w <> 0 ->
     wmeanR w x = Ok (gen_mix_mean_rule (sumR (map (fun p => gen_mix_mean_summand (fst p) (snd p)) (combine w x))) (sumR w)) /\
  wmeanR w x = Ok (gen_mix_mean_src_rule (sumR (map (fun p => gen_mix_mean_src_summand (fst p) (snd p)) (combine w x))) (sumR w))) /\
  (forall (r : R) (old_mean : Q) (S1 S2 : list Q),
     gen_mix_std_summand r (Q2R old_mean) (Q2R (mean S1)) (Q2R (mean S2)) = r * sqrt (Q2R (ind_var_saem old_mean S1 S2))) /\
  (forall (w : list R) (s : R), sumR w <> 0 ->
     gen_mix_std_rule (sumR (map (fun r => r * s) w)) (sumR w) = s /\
  gen_mix_std_burn_rule (sumR (map (fun r => gen_mix_std_burn_summand r s) w)) (sumR w) = s) /\
  gen_mix_std_burn_correction = gen_burn_in_correction.
Proof.
  split; [exact tie_probs_rule|]. split; [exact tie_mix_mean|]. split; [exact tie_mix_std_summand|].
  split; [exact tie_mix_std_rule | exact tie_mix_std_burn_correction].
Qed.
Print Assumptions C04_tie_mixture_rules.

(** ** [probs] computed from ANY finite per-cluster terms is a probability vector (the mean of the responsibilities). *)
Theorem C04_probs_from_terms : forall (nc : nat) (T : list (list R)),
  (0 < nc)%nat -> T <> [] -> Forall (fun row => length row = nc) T ->
  mix_probs nc T = probs_updateR nc (resp T) /\
  length (mix_probs nc T) = nc /\ Forall (fun p => 0 < p <= 1) (mix_probs nc T) /\ sumR (mix_probs nc T) = 1.
Proof. intros nc T H1 H2 H3. split; [reflexivity | now apply mix_probs_spec]. Qed.
Print Assumptions C04_probs_from_terms.

(** ** No cluster is ever empty (over the reals): the mixture mean is always defined — the hypothesis [~ sumQ w == 0] of
    C04_mixture_mean is met by every matrix of responsibilities — and the weights of the std rules always cancel. *)
Theorem C04_mixture_never_empty : forall (nc : nat) (T : list (list R)) (c : nat) (x : list R) (s : R),
  (c < nc)%nat -> T <> [] -> Forall (fun row => length row = nc) T ->
  0 < sumR (colR c (resp T)) /\
  mix_mean c T x = Ok (dotR (colR c (resp T)) x / sumR (colR c (resp T))) /\
  sumR (map (fun r => r * s) (colR c (resp T))) / sumR (colR c (resp T)) = s.
Proof.
  intros nc T c x s H1 H2 H3. split; [now apply (resp_col_pos nc)|].
  split; [now apply (mix_mean_defined nc) | now apply (mix_std_spread_resp nc)].
Qed.
Print Assumptions C04_mixture_never_empty.

(** ** ONE cluster: every responsibility is 1, [probs = [1]], the mixture mean rule is the plain mean rule
    ([ind_mean_rule], C04_mean) and the std rule returns its [s] (the plain rule's value, C04_mixture_std_partial). *)
Theorem C04_one_cluster_reduces : forall (ts : list R) (xq : list Q) (s : R),
  ts <> [] -> length ts = length xq ->
  let T := map (fun t => [t]) ts in
  resp T = map (fun _ => [1]) ts /\
  mix_probs 1 T = [1] /\
  mix_mean 0 T (map Q2R xq) = res_map Q2R (ind_mean_rule xq) /\
  sumR (map (fun r => r * s) (colR 0 (resp T))) / sumR (colR 0 (resp T)) = s.
Proof. exact one_cluster_rules. Qed.
Print Assumptions C04_one_cluster_reduces.

Theorem C04_one_cluster_example :
  mix_probs 1 [[3]; [5]] = [1] /\ mix_mean 0 [[3]; [5]] (map Q2R [1%Q; 2%Q]) = res_map Q2R (ind_mean_rule [1%Q; 2%Q]).
Proof. exact one_cluster_example. Qed.
Print Assumptions C04_one_cluster_example.

(** ** The mixture mean is the closed-form maximiser: [dwss] is the derivative of the responsibility-weighted sum of
    squares, it vanishes exactly at the weighted mean, that point is the (unique) minimum, hence the maximum in the mean of
    the weighted Gaussian log-likelihood for every std; and [wmeanR] returns it. *)
Theorem C04_mixture_mean_is_maximiser : forall w x : list R,
  (forall m, derivable_pt_lim (wss w x) m (dwss w x m)) /\
  (sumw w x <> 0 -> forall m, dwss w x m = 0 <-> m = dotR w x / sumw w x) /\
  (0 < sumw w x -> forall m,
     wss w x (dotR w x / sumw w x) <= wss w x m /\ (wss w x m = wss w x (dotR w x / sumw w x) -> m = dotR w x / sumw w x)) /\
  (length w = length x -> 0 < sumR w ->
   exists v, wmeanR w x = Ok v /\ v = dotR w x / sumw w x /\ dwss w x v = 0 /\
             (forall m, wss w x v <= wss w x m) /\ (forall m s, 0 < s -> wloglik w x m s <= wloglik w x v s)).
Proof.
  intros w x. split; [intros m; apply dwss_is_derivative|]. split; [intros H m; now apply wss_foc|].
  split; [intros H m; now apply wss_min | apply wmeanR_is_maximiser].
Qed.
Print Assumptions C04_mixture_mean_is_maximiser.

Theorem C04_mixture_mean_maximiser_example :
  wmeanR [3 / 4; 1 / 4] [0; 1] = Ok (((3 / 4) * 0 + ((1 / 4) * 1 + 0)) / (3 / 4 + (1 / 4 + 0))) /\
  dwss [3 / 4; 1 / 4] [0; 1] (1 / 4) = 0 /\ dwss [3 / 4; 1 / 4] [0; 1] (1 / 2) <> 0.
Proof. exact maximiser_example. Qed.
Print Assumptions C04_mixture_mean_maximiser_example.

(** ** PARTIAL (std): the maximiser in the std of the same log-likelihood is the square root of the responsibility-WEIGHTED
    dispersion [wvar]; the code's rule stores the UNWEIGHTED dispersion (C04_mixture_std_collapse: the weights cancel).  The
    two coincide when the responsibilities of the cluster are all equal (in particular with one cluster); otherwise not. *)
Theorem C04_mixture_std_weighted_partial :
  (forall (w x : list R) (m s : R), 0 < s -> 0 < sumw w x -> 0 < wss w x m ->
     wloglik w x m s <= wloglik w x m (sqrt (wvar w x m))) /\
  (forall (a : R) (ts x : list R) (m : R), a <> 0 -> ts <> [] -> length ts = length x ->
     wvar (map (fun _ => a) ts) x m = sumR (map (fun b => (b - m) * (b - m)) x) / lenR x) /\
  (wvar [3 / 4; 1 / 4] [0; 1] 0 = 1 / 4 /\ sumR (map (fun b => (b - 0) * (b - 0)) [0; 1]) / lenR [0; 1] = 1 / 2).
Proof. split; [exact wloglik_std_max | split; [exact mix_std_is_weighted_dispersion_partial | exact mix_std_not_weighted_dispersion]]. Qed.
Print Assumptions C04_mixture_std_weighted_partial.

(** ** The real-valued mean rule is the rational rule of C04_mixture_mean on rational weights (nothing is forked). *)
Theorem C04_mixture_rules_on_rationals : forall w x : list Q,
  wmeanR (map Q2R w) (map Q2R x) = res_map Q2R (wmean w x).
Proof. exact wmeanR_Q2R. Qed.
Print Assumptions C04_mixture_rules_on_rationals.

(** ** Non-finite per-cluster terms and statistics, where the code's behaviour is determinate: a row of responsibilities exists
    iff no term is -inf / nan (a +inf term is absorbed by the clamp) and is then a probability vector; finite terms give
    [resp_row]; the [probs] / mean updates are nan in every entry iff some individual has a -inf / nan term — no mixture rule
    raises; [compute_std_from_variance] RETURNS nan and +inf, raises on -inf and below the threshold. *)
Theorem C04_nonfinite_terms :
  (forall ts : list xr,
     ((exists r, xresp_row ts = Some r) <-> Forall (fun t => t <> NInf /\ t <> NaN) ts) /\
     (forall r, ts <> [] -> xresp_row ts = Some r -> prob_vector (length ts) r)) /\
  (forall ts : list R, xresp_row (map Fin ts) = Some (resp_row ts)) /\
  (forall (nc : nat) (T : list (list xr)),
     (xmix_probs nc T = None <-> exists row, In row T /\ exists t, In t row /\ (t = NInf \/ t = NaN)) /\
     (forall x c, xmix_mean c T x = None <-> xmix_probs nc T = None)) /\
  (forall tol : Q,
     xguard tol NaNQ = Returns NaNQ /\ xguard tol PInfQ = Returns PInfQ /\ xguard tol NInfQ = Raises /\
     (forall q, xguard tol (FinQ q) = if Qlt_bool q tol then Raises else Returns (FinQ q))).
Proof. split; [exact xresp_row_spec | split; [exact xresp_row_fin | split; [exact xmix_probs_spec | exact xguard_spec]]]. Qed.
Print Assumptions C04_nonfinite_terms.

Theorem C04_nonfinite_example :
  (exists r, xresp_row [Fin 0; PInf] = Some r /\ prob_vector 2 r) /\
  xresp_row [Fin 0; NInf] = None /\ xresp_row [Fin 0; NaN] = None /\
  xmix_probs 2 [[Fin 0; Fin 1]; [Fin 0; NaN]] = None /\ (exists p, xmix_probs 2 [[Fin 0; Fin 1]; [Fin 0; PInf]] = Some p).
Proof. exact nonfinite_example. Qed.
Print Assumptions C04_nonfinite_example.
