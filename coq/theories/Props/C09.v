(** C09 — individual trajectories follow the documented closed form.
    Property theorems only: statements in full, each closed by [exact] of a lemma proved elsewhere.

    [gen_*] are REGENERATED on every run by tracing the running code (gen/GenC09.v):
    - [gen_time_reparam], [gen_logistic_metric], [gen_logistic_model], [gen_linear_*], [gen_shared_*]: the static node
      functions of time_reparametrized.py / logistic.py / linear.py / shared_speed_logistic.py;
    - [gen_*_traj] / [gen_*_traj_w]: what reading [state["model"]] computes along the model's own DAG as a function of the
      independent variables (population variables log_g / g, log_v0, deltas; individual variables xi, tau; the age t), for
      graphs without sources and — [_w] — with sources, the space shift of the feature being the variable [w] (the DAG is
      cut at the matmul [sources @ mixing_matrix], which the harness compares separately);
    - [gen_shared_traj_first] is feature 0 of the shared-speed model (delta_1 = 0), [gen_shared_traj_other] any other
      feature, [deltas] being its entry of the [deltas] vector.
    [doc_*] are the documented forms (Formulas/Trajectory.v, written from docs/models.md). *)
From Coq Require Import Reals List Bool String QArith.
From Leaspy Require Import Base.RAux Formulas.Trajectory Formulas.TrajectoryProofs Formulas.TrajectoryTie.
From Leaspy Require Import Io.Estimate Io.EstimateProofs Io.EstimateExec Io.EstimateExecProofs.
From LeaspyGen Require Import GenC09.
Import ListNotations.
Local Open Scope R_scope.

(** ---- time reparametrization: rt = exp(xi) (t - tau), as the DAG computes it and as the node function computes it *)
Theorem C09_time_reparam : forall xi tau t : R,
  gen_rt xi tau t = exp xi * (t - tau) /\ gen_rt xi tau t = gen_time_reparam t (gen_alpha xi) tau /\ gen_alpha xi = exp xi.
Proof. intros. split; [apply tie_rt | split; [apply tie_rt_static | apply tie_alpha]]. Qed.
Print Assumptions C09_time_reparam.

Theorem C09_time_reparam_static : forall xi t tau : R, gen_time_reparam t (exp xi) tau = exp xi * (t - tau).
Proof. exact tie_time_reparam_static. Qed.
Print Assumptions C09_time_reparam_static.

(** ---- logistic: the code's trajectory is the documented closed form (pins the metric (1+g)^2/g, its place in front of
    BOTH the time term and the space shift, the sign of the exponent and the -ln g offset) *)
Theorem C09_logistic_closed_form : forall log_g log_v0 xi tau t : R,
  gen_logistic_traj log_g log_v0 xi tau t =
  / (1 + exp log_g * exp (- ((1 + exp log_g) ^ 2 / exp log_g * (exp log_v0 * (exp xi * (t - tau)) + 0)))).
Proof. exact tie_logistic_traj. Qed.
Print Assumptions C09_logistic_closed_form.

Theorem C09_logistic_closed_form_sources : forall log_g log_v0 xi tau w t : R,
  gen_logistic_traj_w log_g log_v0 xi tau w t =
  / (1 + exp log_g * exp (- ((1 + exp log_g) ^ 2 / exp log_g * (exp log_v0 * (exp xi * (t - tau)) + w)))).
Proof. exact tie_logistic_traj_w. Qed.
Print Assumptions C09_logistic_closed_form_sources.

(** the same for the node functions composed by hand, for every admissible g (and the DAG composition is that one) *)
Theorem C09_logistic_static : forall g v0 xi tau w t : R, 0 < g ->
  gen_logistic_model (gen_time_reparam t (exp xi) tau) w (gen_logistic_metric g) v0 g = doc_logistic g v0 xi tau w t
  /\ gen_logistic_model_no_sources (gen_time_reparam t (exp xi) tau) (gen_logistic_metric g) v0 g = doc_logistic g v0 xi tau 0 t.
Proof.
  intros g v0 xi tau w t Hg. split; [now apply tie_logistic_static|].
  rewrite tie_logistic_no_sources_static. now apply tie_logistic_static.
Qed.
Print Assumptions C09_logistic_static.

(** ---- range: real-valued, strictly inside ]0,1[ for all parameters (float32 saturates to exactly 0 / 1 in far
    extrapolation, hence the closed interval of the property text) *)
Theorem C09_range : forall log_g log_v0 xi tau w t : R,
  0 < gen_logistic_traj_w log_g log_v0 xi tau w t < 1 /\ 0 < gen_logistic_traj log_g log_v0 xi tau t < 1.
Proof. intros. split; [apply gen_logistic_range | apply gen_logistic_range0]. Qed.
Print Assumptions C09_range.

(** ---- non-decreasing with age, for every space shift *)
Theorem C09_monotone : forall log_g log_v0 xi tau w t1 t2 : R, t1 <= t2 ->
  gen_logistic_traj_w log_g log_v0 xi tau w t1 <= gen_logistic_traj_w log_g log_v0 xi tau w t2 /\
  gen_logistic_traj log_g log_v0 xi tau t1 <= gen_logistic_traj log_g log_v0 xi tau t2.
Proof. intros. split; [now apply gen_logistic_monotone | now apply gen_logistic_monotone0]. Qed.
Print Assumptions C09_monotone.

Theorem C09_monotone_static : forall g v0 xi tau w t1 t2 : R, 0 < g -> 0 < v0 -> t1 <= t2 ->
  gen_logistic_model (gen_time_reparam t1 (exp xi) tau) w (gen_logistic_metric g) v0 g <=
  gen_logistic_model (gen_time_reparam t2 (exp xi) tau) w (gen_logistic_metric g) v0 g.
Proof. exact gen_logistic_monotone_static. Qed.
Print Assumptions C09_monotone_static.

(** ---- an unshifted individual at its reference time sits at 1/(1+g) *)
Theorem C09_at_reference : forall log_g log_v0 xi tau : R,
  gen_logistic_traj log_g log_v0 xi tau tau = / (1 + exp log_g).
Proof. exact gen_logistic_at_reference. Qed.
Print Assumptions C09_at_reference.

Theorem C09_at_reference_sources : forall log_g log_v0 xi tau : R,
  gen_logistic_traj_w log_g log_v0 xi tau 0 tau = / (1 + exp log_g).
Proof. exact gen_logistic_at_reference_w. Qed.
Print Assumptions C09_at_reference_sources.

(** ---- linear *)
Theorem C09_linear : forall g log_v0 xi tau t : R,
  gen_linear_traj g log_v0 xi tau t = g + exp log_v0 * (exp xi * (t - tau)) + 0.
Proof. exact tie_linear_traj. Qed.
Print Assumptions C09_linear.

Theorem C09_linear_sources : forall g log_v0 xi tau w t : R,
  gen_linear_traj_w g log_v0 xi tau w t = g + exp log_v0 * (exp xi * (t - tau)) + w.
Proof. exact tie_linear_traj_w. Qed.
Print Assumptions C09_linear_sources.

Theorem C09_linear_static : forall g v0 xi tau w t : R,
  gen_linear_model (gen_time_reparam t (exp xi) tau) w (gen_linear_metric g) v0 g = doc_linear g v0 xi tau w t.
Proof. exact tie_linear_static. Qed.
Print Assumptions C09_linear_static.

(** ---- shared-speed logistic: feature with shift delta follows the logistic curve of position g e^{-delta},
    advanced at unit pace in reparametrized time, the space shift entering through the metric of that position *)
Theorem C09_shared_speed : forall log_g delta xi tau t : R,
  gen_shared_traj_other log_g delta xi tau t =
  / (1 + exp log_g * exp (- delta) *
         exp (- (exp xi * (t - tau) + (1 + exp log_g * exp (- delta)) ^ 2 / (exp log_g * exp (- delta)) * 0))).
Proof. exact tie_shared_other. Qed.
Print Assumptions C09_shared_speed.

Theorem C09_shared_speed_sources : forall log_g delta xi tau w t : R,
  gen_shared_traj_other_w log_g delta xi tau w t =
  / (1 + exp log_g * exp (- delta) *
         exp (- (exp xi * (t - tau) + (1 + exp log_g * exp (- delta)) ^ 2 / (exp log_g * exp (- delta)) * w)))
  /\ gen_shared_traj_other_w log_g delta xi tau w t =
     doc_logistic (exp log_g * exp (- delta)) (/ doc_metric (exp log_g * exp (- delta))) xi tau w t.
Proof.
  intros. split; [apply tie_shared_other_w|].
  rewrite tie_shared_other_w. apply doc_shared_is_logistic, exp_pos.
Qed.
Print Assumptions C09_shared_speed_sources.

(** the first feature is the case delta = 0 ("delta_1 is set to zero") *)
Theorem C09_shared_speed_first : forall log_g xi tau w t : R,
  gen_shared_traj_first_w log_g xi tau w t = doc_shared (exp log_g) 0 xi tau w t /\
  gen_shared_traj_first log_g xi tau t = doc_shared (exp log_g) 0 xi tau 0 t /\
  (forall deltas, gen_shared_pad_first deltas = 0 /\ gen_shared_pad_other deltas = deltas).
Proof. intros. split; [apply tie_shared_first_w | split; [apply tie_shared_first | apply tie_shared_pad]]. Qed.
Print Assumptions C09_shared_speed_first.

Theorem C09_shared_speed_static : forall log_g delta xi tau w t : R,
  gen_shared_model (gen_time_reparam t (exp xi) tau) w
    (gen_shared_metric (gen_shared_g_deltas_exp (exp log_g) (gen_shared_deltas_exp delta))) delta log_g
  = doc_shared (exp log_g) delta xi tau w t.
Proof. exact tie_shared_static. Qed.
Print Assumptions C09_shared_speed_static.

(** "logistic curves are only time-shifted": feature curves differ by a shift of delta e^{-xi} in age *)
Theorem C09_shared_speed_time_shift : forall log_g delta xi tau t : R,
  gen_shared_traj_other log_g delta xi tau t = gen_shared_traj_first log_g xi tau (t + delta * exp (- xi)).
Proof. exact gen_shared_time_shift. Qed.
Print Assumptions C09_shared_speed_time_shift.

Theorem C09_shared_speed_range : forall log_g delta xi tau w t : R,
  0 < gen_shared_traj_other_w log_g delta xi tau w t < 1 /\ 0 < gen_shared_traj_first_w log_g xi tau w t < 1.
Proof. exact gen_shared_range. Qed.
Print Assumptions C09_shared_speed_range.

Theorem C09_shared_speed_monotone : forall log_g delta xi tau w t1 t2 : R, t1 <= t2 ->
  gen_shared_traj_other_w log_g delta xi tau w t1 <= gen_shared_traj_other_w log_g delta xi tau w t2 /\
  gen_shared_traj_first_w log_g xi tau w t1 <= gen_shared_traj_first_w log_g xi tau w t2.
Proof. exact gen_shared_monotone. Qed.
Print Assumptions C09_shared_speed_monotone.

Theorem C09_shared_speed_at_reference : forall log_g delta xi tau : R,
  gen_shared_traj_other log_g delta xi tau tau = / (1 + exp log_g * exp (- delta)) /\
  gen_shared_traj_first log_g xi tau tau = / (1 + exp log_g).
Proof. exact gen_shared_at_reference. Qed.
Print Assumptions C09_shared_speed_at_reference.

(** ---- the mixture model (own copy of the node functions) and the joint model (longitudinal part) follow the same
    documented logistic curve, hence its range, monotonicity and reference value ([doc_logistic_range/_monotone/_at_reference]) *)
Theorem C09_mixture_logistic : forall log_g log_v0 xi tau w t : R,
  gen_mixture_traj_w log_g log_v0 xi tau w t = doc_logistic (exp log_g) (exp log_v0) xi tau w t.
Proof. exact tie_mixture_traj_w. Qed.
Print Assumptions C09_mixture_logistic.

Theorem C09_joint_longitudinal : forall log_g log_v0 xi tau w t : R,
  gen_joint_traj_w log_g log_v0 xi tau w t = doc_logistic (exp log_g) (exp log_v0) xi tau w t /\
  gen_joint_traj log_g log_v0 xi tau t = doc_logistic (exp log_g) (exp log_v0) xi tau 0 t.
Proof. intros. split; [apply tie_joint_traj_w | apply tie_joint_traj]. Qed.
Print Assumptions C09_joint_longitudinal.

(** ---- estimate: layout.  [f i t] is the row of individual i at age t (what the theorems above describe);
    [pointwise f] computes the ages it is given age by age (a unique age = the list of that age), which is how the
    closed forms act on the age tensor. *)
Section EstimateLayout.
  Variables ID T V : Type.
  Variable id_eqb id_leb : ID -> ID -> bool.
  Variable t_eqb : T -> T -> bool.
  Hypothesis id_eqb_spec : forall a b, id_eqb a b = true <-> a = b.
  Hypothesis t_eqb_spec : forall a b, t_eqb a b = true <-> a = b.
  Variable f : ID -> T -> V.
  Let est := estimate ID T V id_eqb id_leb t_eqb (pointwise ID T V f).

  (** dict request (each value "a unique time-point or a list of time-points"): same keys, same order, and for each key
      one row per requested age in the requested order (ages unsorted, repeated, single or scalar alike) *)
  Theorem C09_estimate_dict : forall (req : request ID T) (to_dataframe : option bool),
    to_dataframe = None \/ to_dataframe = Some false ->
    est (InDict req) to_dataframe = OutDict (map (fun r => (fst r, map (f (fst r)) (atleast_1d T (snd r)))) req).
  Proof. exact (estimate_dict ID T V id_eqb id_leb t_eqb f). Qed.

  Theorem C09_estimate_dict_frame : forall req : request ID T,
    est (InDict req) (Some true) =
    OutFrame (flat_map (fun r => map (fun t => (fst r, t, Some (f (fst r) t))) (atleast_1d T (snd r))) req).
  Proof. exact (estimate_dict_frame ID T V id_eqb id_leb t_eqb f). Qed.

  (** a unique age is accepted wherever a list is, with every output form, and means the list of that age *)
  Theorem C09_estimate_dict_scalar : forall (req1 : request ID T) (i : ID) (t : T) (req2 : request ID T)
                                            (to_dataframe : option bool),
    est (InDict (req1 ++ (i, One t) :: req2)) to_dataframe = est (InDict (req1 ++ (i, Many [t]) :: req2)) to_dataframe
    /\ est (InDict [(i, One t)]) (Some true) = OutFrame [(i, t, Some (f i t))]
    /\ est (InDict [(i, One t)]) None = OutDict [(i, [f i t])].
  Proof. exact (estimate_dict_scalar_full ID T V id_eqb id_leb t_eqb f). Qed.

  (** MultiIndex request — EVERY request, repeated (ID, TIME) pairs, interleaved individuals and unsorted ages included:
      exactly the requested rows, in the requested order, one per requested row, each holding the value of its own
      (ID, TIME) *)
  Theorem C09_estimate_index : forall (ix : index ID T) (to_dataframe : option bool),
    to_dataframe = None \/ to_dataframe = Some true ->
    est (InIndex ix) to_dataframe = OutFrame (map (fun k => (fst k, snd k, Some (f (fst k) (snd k)))) ix).
  Proof. exact (estimate_index ID T V id_eqb id_leb t_eqb id_eqb_spec t_eqb_spec f). Qed.

  (** the same read row by row *)
  Theorem C09_estimate_index_rowwise : forall (ix : index ID T) (to_dataframe : option bool),
    to_dataframe = None \/ to_dataframe = Some true ->
    exists rows, est (InIndex ix) to_dataframe = OutFrame rows /\ List.length rows = List.length ix /\
      forall n i t, nth_error ix n = Some (i, t) -> nth_error rows n = Some (i, t, Some (f i t)).
  Proof. exact (estimate_index_rowwise ID T V id_eqb id_leb t_eqb id_eqb_spec t_eqb_spec f). Qed.

  (** MultiIndex request, dict output: the requested individuals (each once, in pandas' sorted group order), each with
      its requested ages in the requested order *)
  Theorem C09_estimate_index_dict : forall ix : index ID T,
    est (InIndex ix) (Some false) =
      OutDict (map (fun i => (i, map (f i) (ages_of ID T id_eqb i ix))) (group_keys ID T id_eqb id_leb ix))
    /\ NoDup (group_keys ID T id_eqb id_leb ix)
    /\ (forall i, In i (group_keys ID T id_eqb id_leb ix) <-> In i (map fst ix)).
  Proof. exact (estimate_index_dict ID T V id_eqb id_leb t_eqb id_eqb_spec f). Qed.
End EstimateLayout.
Print Assumptions C09_estimate_dict.
Print Assumptions C09_estimate_dict_frame.
Print Assumptions C09_estimate_dict_scalar.
Print Assumptions C09_estimate_index.
Print Assumptions C09_estimate_index_rowwise.
Print Assumptions C09_estimate_index_dict.
