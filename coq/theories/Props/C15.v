(** C15 — dependency-graph construction is exact.

    Property theorems only.  [build] (Dag/DagModel.v) is the line-by-line model of
    [VariablesDAG.__post_init__]; a graph is the list, indexed by node in name-sorted order, of each node's
    direct ancestors.  [edge g p c] = "p is a direct ancestor of c"; [reach g] = its transitive closure
    (non-empty paths), defined with [Relations.clos_trans], independently of the algorithm.
    Every statement is for ALL graphs of ALL sizes.  Non-vacuity examples: Dag/DagExamples.v. *)
From Coq Require Import List Bool Arith Permutation Relations.
From Leaspy Require Import Dag.DagModel Dag.DagProofs Dag.DagExamples Dag.GraphLit.
From Leaspy Require Import Dag.FromDict Dag.FromDictProofs Dag.FromDictExamples Dag.FromDictSrc Dag.FromDictTie.
From LeaspyGen Require Import GenGraphs GenC15FromDict GenC15Defs.
Import ListNotations.

(** An accepted graph is listed so that every node appears exactly once and strictly after everything it
    (transitively) depends on.   Example: [ex_build_ok], [ex_reach]. *)
Theorem C15_topological : forall (g : graph) (r : dag), build g = Ok r ->
  Permutation (order r) (seq 0 (nnodes g)) /\
  forall i j, reach g i j -> before (order r) i j.
Proof. exact build_topological. Qed.
Print Assumptions C15_topological.

(** [sorted_children] / [sorted_ancestors] have one entry per node, in the order of [order r]; the entry of [i]
    is a sub-list of [order r] (same relative order: it is [filter f (order r)]) whose members are exactly the nodes
    reachable from [i] by a non-empty path / exactly the nodes from which [i] is reachable. *)
Theorem C15_exact : forall (g : graph) (r : dag), build g = Ok r ->
  map fst (sorted_children r) = order r /\
  map fst (sorted_ancestors r) = order r /\
  (forall i l, In (i, l) (sorted_children r) ->
      (exists f, l = filter f (order r)) /\ forall j, In j l <-> reach g i j) /\
  (forall i l, In (i, l) (sorted_ancestors r) ->
      (exists f, l = filter f (order r)) /\ forall j, In j l <-> reach g j i).
Proof. exact build_exact. Qed.
Print Assumptions C15_exact.

(** Cyclic, self-referential, unknown-reference and isolated-node definitions are refused.
    Examples: [ex_cyclic] (a cycle no root leads to), [ex_self_loop], [ex_unknown_ref], [ex_isolated]. *)
Theorem C15_refuses : forall g : graph,
  cyclic g \/ self_loop g \/ unknown_ref g \/ isolated g -> exists e, build g = Err e.
Proof. exact build_refuses. Qed.
Print Assumptions C15_refuses.

(** Completeness of Kahn's algorithm as implemented: everything else is accepted.  Example: [ex_accept_hyps]. *)
Theorem C15_accepts : forall g : graph,
  ~ cyclic g -> ~ self_loop g -> ~ unknown_ref g -> ~ isolated g -> exists r, build g = Ok r.
Proof. exact build_accepts. Qed.
Print Assumptions C15_accepts.

(** Which check fires means what it says (constructively: a refusal with "not a DAG" exhibits a cycle). *)
Theorem C15_error_meaning : forall (g : graph) (e : err), build g = Err e ->
  (e = EUnknownRef /\ unknown_ref g) \/ (e = ESelfLoop /\ self_loop g) \/
  (e = EIsolated /\ isolated g) \/ (e = ENotDag /\ cyclic g).
Proof. exact build_err_meaning. Qed.
Print Assumptions C15_error_meaning.

(** The loop always stops within its fuel (number of nodes + 1), and the strict-upper-triangular test of
    dag.py:425 can never fail once the "all nodes sorted" test of dag.py:420 has passed. *)
Theorem C15_no_model_artefact : forall (g : graph) (e : err), build g = Err e -> e <> EFuel /\ e <> ENotTriangular.
Proof. exact build_no_artefact. Qed.
Print Assumptions C15_no_model_artefact.

(** The result is a function of the definitions ... *)
Theorem C15_deterministic : forall g r1 r2, build g = r1 -> build g = r2 -> r1 = r2.
Proof. intros g r1 r2 H1 H2. now rewrite <- H1, <- H2. Qed.
Print Assumptions C15_deterministic.

(** ... and only of the *sets* of direct ancestors: listing them in another order, or with repetitions, changes
    nothing (the model-side meaning of "independent of frozenset iteration order").  Example: [ex_graph_equiv]. *)
Theorem C15_set_order_irrelevant : forall g1 g2 : graph,
  length g1 = length g2 -> (forall i x, In x (parents g1 i) <-> In x (parents g2 i)) -> build g1 = build g2.
Proof. intros g1 g2 H1 H2. apply build_set_order_irrelevant. split; [exact H1 | exact H2]. Qed.
Print Assumptions C15_set_order_irrelevant.

(** [direct_children] is the exact inverse of the ancestor map, without repetitions. *)
Theorem C15_direct_children : forall (g : graph) (r : dag), build g = Ok r ->
  length (dchildren r) = nnodes g /\
  forall i, i < nnodes g ->
    NoDup (nth i (dchildren r) []) /\ forall c, In c (nth i (dchildren r) []) <-> edge g i c.
Proof. exact build_direct_children. Qed.
Print Assumptions C15_direct_children.

(** Computed on the literals regenerated from the running code (coq/gen/GenGraphs.v): every graph the shipped
    models build today is accepted by the model, with exactly the order the implementation computed. *)
Theorem C15_shipped_graphs :
  forallb (fun sg => match build (sg_parents sg) with
                     | Ok r => nat_list_eqb (order r) (sg_order sg)
                     | Err _ => false
                     end) shipped = true.
Proof. vm_compute. reflexivity. Qed.
Print Assumptions C15_shipped_graphs.

(** * Extension 4: from the variable DEFINITIONS to the graph ([VariablesDAG.from_dict], Dag/FromDict.v)

    [from_dict ds] models [VariablesDAG.from_dict]: the direct ancestors of a variable are the named parameters of the
    function defining it ([get_named_parameters]: [NamedInputFunction.parameters], or ALL the parameters of a function whose
    parameters are all keyword-only), independent variables have none; then the key-set check, then [build].
    [is_param_of ds p v], [named_param], [bad_signature], [depends ds := clos_trans (is_param_of ds)] are the specification
    vocabulary.  Non-vacuity: Dag/FromDictExamples.v. *)

(** Which callables are accepted and what their named parameters are: all keyword-only (a default changes nothing) -> every
    name, in order; any other kind -> ValueError listing the offending names; a NamedInputFunction -> its assigned names. *)
Theorem C15_named_parameters :
  (forall s ps, get_named_parameters (CPlain s) = GnpOk ps <->
       (forall prm, In prm s -> p_kind prm = KwOnly) /\ ps = map p_name s) /\
  (forall s, (exists bad, get_named_parameters (CPlain s) = GnpValueError bad) <-> exists prm, In prm s /\ p_kind prm <> KwOnly) /\
  (forall n, get_named_parameters (CNamed n) = GnpOk (nif_parameters n)) /\
  (forall f ps kws, get_named_parameters (CNamed (bound_to f ps kws)) = GnpOk ps).
Proof. split; [exact gnp_plain_ok|]. split; [exact gnp_plain_refused|]. split; [exact gnp_named | exact bound_to_parameters]. Qed.
Print Assumptions C15_named_parameters.

(** The graph built from accepted definitions has exactly the edges (p -> v) for p a named parameter of v's function: none
    dropped, none invented; [direct_children] is its exact inverse.   Example: [ex_from_dict_ok], [ex_default_is_parent]. *)
Theorem C15_from_dict_edges : forall (ds : list vdef) (r : dag), from_dict ds = FOk r ->
  exists g, direct_ancestors ds = Some g /\ nnodes g = length ds /\ build g = Ok r /\
    (forall p v, edge g p v <-> is_param_of ds p v) /\
    length (dchildren r) = length ds /\
    (forall p, p < length ds -> NoDup (nth p (dchildren r) []) /\
        forall v, In v (nth p (dchildren r) []) <-> is_param_of ds p v).
Proof. exact from_dict_edges_exact. Qed.
Print Assumptions C15_from_dict_edges.

(** A function with a parameter that is not keyword-only is refused when the definition is constructed (no graph is ever
    built), and only then.   Example: [ex_bad_signature], [ex_bad_signature_refused]. *)
Theorem C15_from_dict_refuses_signature : forall ds, bad_signature ds <-> from_dict ds = FErr FSignature.
Proof. exact from_dict_refuses_signature. Qed.
Print Assumptions C15_from_dict_refuses_signature.

(** A definition whose function has a parameter that is no variable is refused as an unknown node — the FIRST check of
    [build], before any ordering is attempted — and that error means exactly this.   Example: [ex_unknown_hyps], [ex_unknown_refused]. *)
Theorem C15_from_dict_refuses_unknown : forall ds, from_dict ds = FErr (FDag EUnknownRef) <->
  ~ bad_signature ds /\ exists p v, is_param_of ds p v /\ length ds <= p.
Proof. exact from_dict_unknown_iff. Qed.
Print Assumptions C15_from_dict_refuses_unknown.

(** Composition [f.then(g, **g_kws)] keeps the parameters (and fixed keywords) of the INNER function whatever [g] is, so
    replacing a definition's function by its composition changes nothing.   Example: [ex_outer_is_not_parent]. *)
Theorem C15_then_keeps_parents : forall n g gk,
  (get_named_parameters (CNamed (nif_then n g gk)) = get_named_parameters (CNamed n) /\ nif_kws (nif_then n g gk) = nif_kws n) /\
  forall ds1 ds2, from_dict (ds1 ++ DLinked (CNamed (nif_then n g gk)) :: ds2) = from_dict (ds1 ++ DLinked (CNamed n) :: ds2).
Proof. intros n g gk. split; [apply then_keeps_parameters | intros; apply from_dict_then]. Qed.
Print Assumptions C15_then_keeps_parents.

(** [C15_topological] + [C15_exact] for the graph built FROM THE DEFINITIONS: every variable is listed after everything it
    (transitively) takes as a named parameter, and [sorted_children] / [sorted_ancestors] are exactly the transitive
    dependents / dependencies w.r.t. "is a named parameter of", in that order.   Example: [ex_depends]. *)
Theorem C15_from_dict_closures : forall (ds : list vdef) (r : dag), from_dict ds = FOk r ->
  Permutation (order r) (seq 0 (length ds)) /\
  (forall i j, depends ds i j -> before (order r) i j) /\
  map fst (sorted_children r) = order r /\
  map fst (sorted_ancestors r) = order r /\
  (forall i l, In (i, l) (sorted_children r) ->
      (exists f, l = filter f (order r)) /\ forall j, In j l <-> depends ds i j) /\
  (forall i l, In (i, l) (sorted_ancestors r) ->
      (exists f, l = filter f (order r)) /\ forall j, In j l <-> depends ds j i).
Proof. exact from_dict_closures. Qed.
Print Assumptions C15_from_dict_closures.

(** The outcome depends only on WHICH names are parameters of which definition: not on their order in the signatures, not
    on defaults, not on the way the function is written (plain / named / bound / composed).   Example: [ex_params_only_hyps]. *)
Theorem C15_from_dict_params_only : forall ds1 ds2,
  length ds1 = length ds2 -> (bad_signature ds1 <-> bad_signature ds2) ->
  (forall p v, is_param_of ds1 p v <-> is_param_of ds2 p v) -> from_dict ds1 = from_dict ds2.
Proof. exact from_dict_params_only. Qed.
Print Assumptions C15_from_dict_params_only.

(** Exactly which definitions are accepted: those with only keyword-only functions, no parameter that is no variable, no
    variable that is its own parameter, no variable unrelated to every other, no cycle of "is a named parameter of" — the
    property's four refusals and their converse, on the definitions.   Example: [ex_accept_defs_hyps]. *)
Theorem C15_from_dict_accepts_iff : forall ds,
  (exists r, from_dict ds = FOk r) <->
  ~ bad_signature ds /\ ~ unknown_param ds /\ ~ self_param ds /\ ~ isolated_def ds /\ ~ cyclic_defs ds.
Proof. exact from_dict_accepts_iff. Qed.
Print Assumptions C15_from_dict_accepts_iff.

(** Every refusal names a defect of the definitions; never the key-set check, never a model artefact.   Example: [ex_cyclic_defs]. *)
Theorem C15_from_dict_error_meaning : forall ds e, from_dict ds = FErr e ->
  (e = FSignature /\ bad_signature ds) \/ (e = FDag EUnknownRef /\ unknown_param ds) \/ (e = FDag ESelfLoop /\ self_param ds) \/
  (e = FDag EIsolated /\ isolated_def ds) \/ (e = FDag ENotDag /\ cyclic_defs ds).
Proof. exact from_dict_error_meaning. Qed.
Print Assumptions C15_from_dict_error_meaning.

(** The key-set check: the constructor refuses (before looking at any edge) exactly when [variables.keys()] and
    [direct_ancestors.keys()] differ — a name that is only a key of one of them is never silently added or dropped —
    and [from_dict] can never trip it.   Example: [ex_ctor_keys_missing], [ex_ctor_keys_extra], [ex_ctor_keys_ok]. *)
Theorem C15_key_set_check :
  (forall vk g, ctor vk g = FErr FKeys <-> ~ (forall x, In x vk <-> x < nnodes g)) /\
  (forall vk g, (forall x, In x vk <-> x < nnodes g) -> ctor vk g = lift (build g)) /\
  (forall ds, from_dict ds <> FErr FKeys).
Proof. split; [exact ctor_keys|]. split; [exact ctor_keys_ok | exact from_dict_never_keys]. Qed.
Print Assumptions C15_key_set_check.

(** T1: the facts read from /repo on this run (accepted parameter kinds, what [then] / [bound_to] copy, which classes
    provide [get_ancestors_names] and what they return, [from_dict], the consistency check) are the ones modelled. *)
Theorem C15_from_dict_source : gen_source = model_source.
Proof. exact fromdict_source_tie. Qed.
Print Assumptions C15_from_dict_source.

(** Computed on the definitions regenerated from the running code (coq/gen/GenC15Defs.v: every variable of every shipped
    configuration's [get_variables_specs()], a NamedInputFunction by its assigned names, any other function by its signature):
    the classes, the direct ancestors and the order of the graph literals of GenGraphs.v — the graph hypotheses other
    properties compute with — are exactly what [from_dict] derives from those signatures. *)
Theorem C15_shipped_definitions :
  map fst shipped_defs = map sg_label shipped /\
  forallb (fun p => defs_match (snd p) (snd (fst p))) (combine shipped_defs shipped) = true.
Proof. split; vm_compute; reflexivity. Qed.
Print Assumptions C15_shipped_definitions.

(** * From the definitions to the graph the [State] model of C01 / C02 works on (Compose/FromDictState.v; docs/Compose.md).

    Compose/DagState.v starts from definitions whose parameter lists are GIVEN ([DagState.DLinked axis params f]) and calls
    [DagState.dag_of_defs] "the mapping the constructor receives".  [FromDictState.sdefs V hv ax fs ds] are those definitions
    obtained from the signature-level definitions [ds] of this file (parameters := what [get_named_parameters] returns;
    [hv] / [ax] / [fs] = the hyper-parameter values, axis flags and node functions the DAG never looks at).
    Qualified names: [DagState.vdef] is not the [vdef] of this file. *)
From Leaspy Require State.StateModel State.StateNow Compose.DagState Compose.FromDictState Compose.FromDictStateProofs Compose.FromDictStateExamples
                    Compose.FromDictStateShipped.

(** The [direct_ancestors] mapping [from_dict] derives from the signatures IS [dag_of_defs] of the State-level definitions,
    and [from_dict] accepts exactly when no signature is refused and the constructor model accepts that mapping, with the same
    result: the hypothesis [build (dag_of_defs defs) = Ok r] of every [_built] theorem of C01 / C02 is [from_dict ds = FOk r].
    Example: [FromDictStateExamples.sx_accepted], [sx_params]. *)
Theorem C15_from_dict_is_build_of_state_definitions :
  forall (V : Type) (hv : nat -> V) (ax : nat -> bool) (fs : nat -> list V -> V) (ds : list vdef),
    (forall g, direct_ancestors ds = Some g -> DagState.dag_of_defs (FromDictState.sdefs V hv ax fs ds) = g) /\
    (~ bad_signature ds -> direct_ancestors ds = Some (DagState.dag_of_defs (FromDictState.sdefs V hv ax fs ds))) /\
    (forall r, from_dict ds = FOk r <->
               ~ bad_signature ds /\ build (DagState.dag_of_defs (FromDictState.sdefs V hv ax fs ds)) = Ok r).
Proof. exact FromDictStateProofs.from_dict_is_build_of_state_definitions. Qed.
Print Assumptions C15_from_dict_is_build_of_state_definitions.

(** Computed on the definitions regenerated from the running code (coq/gen/GenC15Defs.v): [from_dict] accepts the definitions
    of every shipped configuration, hence ([FromDictState.state_sound_from_definitions]) for each of them, whatever the value
    type, the hyper-parameter values, the node functions and the history: the State graph obtained from the SIGNATURES is well
    formed, has one node per variable, its parents are exactly the named parameters, and every successful read after a
    history without per-individual revert (with [F_mix]: after any history respecting the documented precondition) is the
    from-scratch value. *)
Theorem C15_shipped_definitions_state :
  shipped_defs <> [] /\
  forall lbl ds, In (lbl, ds) shipped_defs ->
    exists r, from_dict ds = FOk r /\ FromDictState.state_sound_from_definitions ds r.
Proof. exact FromDictStateShipped.shipped_definitions_state_sound. Qed.
Print Assumptions C15_shipped_definitions_state.

(** Non-vacuity of the conclusion, on the FIRST regenerated shipped definition list ([FromDictStateShipped.sh_ds]; integer
    values, hyper-parameters = 1, node [i] = [i] + the sum of its arguments): it is accepted, has linked and settable variables;
    after "fork on; every settable variable := 2" EVERY variable reads [Ok v], and [v] is the from-scratch value
    ([C01_never_stale_full_reverts_from_definitions] applied).  The statement mentions no value: it survives regeneration. *)
Theorem C15_shipped_first_history :
  from_dict FromDictStateShipped.sh_ds = FOk FromDictStateShipped.sh_r /\
  (0 <? StateModel.gn FromDictStateShipped.sh_g)
    && existsb (StateModel.linked FromDictStateShipped.sh_g) (seq 0 (StateModel.gn FromDictStateShipped.sh_g))
    && existsb (StateModel.settable FromDictStateShipped.sh_g) (seq 0 (StateModel.gn FromDictStateShipped.sh_g)) = true /\
  exists st,
    nth_error (fst (StateNow.run_now FromDictStateShipped.sh_g FromDictStateShipped.sh_sem
                      (StateModel.init_store FromDictStateShipped.sh_g) FromDictStateShipped.sh_ops)) 0 = Some st /\
    forall i, i < StateModel.gn FromDictStateShipped.sh_g -> exists v,
      snd (StateNow.step_now FromDictStateShipped.sh_g FromDictStateShipped.sh_sem
             (fst (StateNow.run_now FromDictStateShipped.sh_g FromDictStateShipped.sh_sem
                     (StateModel.init_store FromDictStateShipped.sh_g) FromDictStateShipped.sh_ops))
             (StateModel.Get 0 i)) = StateModel.Ok v /\
      StateModel.scratch FromDictStateShipped.sh_g (StateModel.values st) i = Some v.
Proof. exact FromDictStateShipped.shipped_first_history. Qed.
Print Assumptions C15_shipped_first_history.
