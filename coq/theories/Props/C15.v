(** C15 — dependency-graph construction is exact.  Property theorems only. *)
From Coq Require Import List Bool Arith Permutation.
From Leaspy Require Import Dag.DagModel Dag.GraphLit.
From LeaspyGen Require Import GenGraphs.
Import ListNotations.

Theorem C15_deterministic : forall g r1 r2, build g = r1 -> build g = r2 -> r1 = r2.
Proof. intros g r1 r2 H1 H2. now rewrite <- H1, <- H2. Qed.
Print Assumptions C15_deterministic.

(** Every graph the shipped models build today is accepted by the model, with the order the implementation computed. *)
Theorem C15_shipped_graphs :
  forallb (fun sg => match build (sg_parents sg) with Ok r => nat_list_eqb (order r) (sg_order sg) | Err _ => false end) shipped = true.
Proof. vm_compute. reflexivity. Qed.
Print Assumptions C15_shipped_graphs.
