(** C15 — dependency-graph construction is exact.

    Property theorems only.  [build] (Dag/DagModel.v) is the line-by-line model of
    [VariablesDAG.__post_init__]; a graph is the list, indexed by node in name-sorted order, of each node's
    direct ancestors.  [edge g p c] = "p is a direct ancestor of c"; [reach g] = its transitive closure
    (non-empty paths), defined with [Relations.clos_trans], independently of the algorithm.
    Every statement is for ALL graphs of ALL sizes.  Non-vacuity examples: Dag/DagExamples.v. *)
From Coq Require Import List Bool Arith Permutation Relations.
From Leaspy Require Import Dag.DagModel Dag.DagProofs Dag.DagExamples Dag.GraphLit.
From LeaspyGen Require Import GenGraphs.
Import ListNotations.

(** An accepted graph is listed so that every node appears exactly once and strictly after everything it
    (transitively) depends on.   Example: [ex_build_ok], [ex_reach]. *)
Theorem C15_topological : forall (g : graph) (r : dag), build g = Ok r ->
  Permutation (order r) (seq 0 (nnodes g)) /\
  forall i j, reach g i j -> before (order r) i j.
Proof. exact build_topological. Qed.
Print Assumptions C15_topological.

(** [sorted_children] / [sorted_ancestors] have one entry per node, in the order of [order r]; the entry of [i]
    is a sub-list of [order r] (same relative order: it is [filter f (order r)]) whose members are exactly the nodes
    reachable from [i] by a non-empty path / exactly the nodes from which [i] is reachable. *)
Theorem C15_exact : forall (g : graph) (r : dag), build g = Ok r ->
  map fst (sorted_children r) = order r /\
  map fst (sorted_ancestors r) = order r /\
  (forall i l, In (i, l) (sorted_children r) ->
      (exists f, l = filter f (order r)) /\ forall j, In j l <-> reach g i j) /\
  (forall i l, In (i, l) (sorted_ancestors r) ->
      (exists f, l = filter f (order r)) /\ forall j, In j l <-> reach g j i).
Proof. exact build_exact. Qed.
Print Assumptions C15_exact.

(** Cyclic, self-referential, unknown-reference and isolated-node definitions are refused.
    Examples: [ex_cyclic] (a cycle no root leads to), [ex_self_loop], [ex_unknown_ref], [ex_isolated]. *)
Theorem C15_refuses : forall g : graph,
  cyclic g \/ self_loop g \/ unknown_ref g \/ isolated g -> exists e, build g = Err e.
Proof. exact build_refuses. Qed.
Print Assumptions C15_refuses.

(** Completeness of Kahn's algorithm as implemented: everything else is accepted.  Example: [ex_accept_hyps]. *)
Theorem C15_accepts : forall g : graph,
  ~ cyclic g -> ~ self_loop g -> ~ unknown_ref g -> ~ isolated g -> exists r, build g = Ok r.
Proof. exact build_accepts. Qed.
Print Assumptions C15_accepts.

(** Which check fires means what it says (constructively: a refusal with "not a DAG" exhibits a cycle). *)
Theorem C15_error_meaning : forall (g : graph) (e : err), build g = Err e ->
  (e = EUnknownRef /\ unknown_ref g) \/ (e = ESelfLoop /\ self_loop g) \/
  (e = EIsolated /\ isolated g) \/ (e = ENotDag /\ cyclic g).
Proof. exact build_err_meaning. Qed.
Print Assumptions C15_error_meaning.

(** The loop always stops within its fuel (number of nodes + 1), and the strict-upper-triangular test of
    dag.py:425 can never fail once the "all nodes sorted" test of dag.py:420 has passed. *)
Theorem C15_no_model_artefact : forall (g : graph) (e : err), build g = Err e -> e <> EFuel /\ e <> ENotTriangular.
Proof. exact build_no_artefact. Qed.
Print Assumptions C15_no_model_artefact.

(** The result is a function of the definitions ... *)
Theorem C15_deterministic : forall g r1 r2, build g = r1 -> build g = r2 -> r1 = r2.
Proof. intros g r1 r2 H1 H2. now rewrite <- H1, <- H2. Qed.
Print Assumptions C15_deterministic.

(** ... and only of the *sets* of direct ancestors: listing them in another order, or with repetitions, changes
    nothing (the model-side meaning of "independent of frozenset iteration order").  Example: [ex_graph_equiv]. *)
Theorem C15_set_order_irrelevant : forall g1 g2 : graph,
  length g1 = length g2 -> (forall i x, In x (parents g1 i) <-> In x (parents g2 i)) -> build g1 = build g2.
Proof. intros g1 g2 H1 H2. apply build_set_order_irrelevant. split; [exact H1 | exact H2]. Qed.
Print Assumptions C15_set_order_irrelevant.

(** [direct_children] is the exact inverse of the ancestor map, without repetitions. *)
Theorem C15_direct_children : forall (g : graph) (r : dag), build g = Ok r ->
  length (dchildren r) = nnodes g /\
  forall i, i < nnodes g ->
    NoDup (nth i (dchildren r) []) /\ forall c, In c (nth i (dchildren r) []) <-> edge g i c.
Proof. exact build_direct_children. Qed.
Print Assumptions C15_direct_children.

(** Computed on the literals regenerated from the running code (coq/gen/GenGraphs.v): every graph the shipped
    models build today is accepted by the model, with exactly the order the implementation computed. *)
Theorem C15_shipped_graphs :
  forallb (fun sg => match build (sg_parents sg) with
                     | Ok r => nat_list_eqb (order r) (sg_order sg)
                     | Err _ => false
                     end) shipped = true.
Proof. vm_compute. reflexivity. Qed.
Print Assumptions C15_shipped_graphs.
