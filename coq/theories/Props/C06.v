(** C06 — missing and padded observations never influence any result.
    Property theorems only; models in Masked/Weighted.v, Masked/Pipeline.v, vocabulary in Masked/Observed.v,
    memory phase of MCMC-SAEM on the noise statistics in Masked/Saem.v,
    proofs in Masked/*Proofs.v, non-vacuity examples in Masked/Examples.v, Masked/SaemExamples.v. *)
From Coq Require Import List NArith ZArith Bool Arith QArith.
From Leaspy Require Import Base.Atoms Masked.Weighted Masked.Observed Masked.Pipeline
     Masked.WeightedProofs Masked.ClosedProofs Masked.PipelineProofs Masked.Saem Masked.SaemProofs
     Masked.Source Masked.SourceProofs Masked.SourceTie Masked.NoiseStd Masked.NoiseStdProofs Masked.NoiseStdTie Masked.SourceExamples.
From LeaspyGen Require Import GenC06.
Import ListNotations.
Local Close Scope Q_scope.
Local Open Scope nat_scope.

(** Two weighted tensors with the same weights that agree wherever the weight is not 0 (ANY atoms under the
    mask: finite, huge, NaN, +-inf) have the same weighted sums and the same sums of weights, for every set of
    summed axes and every fill value of empty aggregates. *)
Theorem C06_wsum_ignores_masked : forall fill R t1 t2,
    wagree t1 t2 -> pair_teq (wsum_mask fill R t1) (wsum_mask fill R t2).
Proof. exact wsum_mask_ignores_masked. Qed.
Print Assumptions C06_wsum_ignores_masked.

(** the same through the argument handling of wsum_dim (dim / but_dim, negative axes, errors: identical) *)
Theorem C06_wsum_dim_ignores_masked : forall fill d t1 t2,
    wagree t1 t2 -> ragree pair_teq (wsum_dim fill d t1) (wsum_dim fill d t2).
Proof. exact wsum_dim_ignores_masked. Qed.
Print Assumptions C06_wsum_dim_ignores_masked.

(** and through sum_dim (WeightedTensor or plain tensor) *)
Theorem C06_sum_dim_ignores_masked : forall fill d x1 x2,
    oagree x1 x2 -> ragree teq (sum_dim fill d x1) (sum_dim fill d x2).
Proof. exact sum_dim_ignores_masked. Qed.
Print Assumptions C06_sum_dim_ignores_masked.

(** Appending k weight-0 entries with ANY values along a summed axis changes no weighted sum, no count. *)
Theorem C06_padding : forall fill R p k garbage t w,
    wf t -> weight t = Some w -> p < ndim t -> nth p R false = true ->
    pair_teq (wsum_mask fill R (wpad p k garbage t)) (wsum_mask fill R t).
Proof. exact wsum_mask_padding. Qed.
Print Assumptions C06_padding.

(** a plain tensor that is 0 in the padding (the form in which [model] reaches the sums) *)
Theorem C06_padding_plain : forall R p k (v : tensor atom),
    p < length (shape v) -> nth p R false = true ->
    teq (reduce aadd azero R (tpad p k (fun _ => azero) v)) (reduce aadd azero R v).
Proof. exact reduce_zero_padding. Qed.
Print Assumptions C06_padding_plain.

(** For EVERY tree of API operations (binary operations with weight propagation / expansion and the error on
    differing weights, neg, abs, pow, map with a point-wise function and any fill value, index_put, view,
    expand): if the leaves agree on observed positions, the evaluations fail identically or give results with
    the same weights that agree on every observed position. *)
Theorem C06_observed_closed : forall e env1 env2,
    (forall i, ragree oagree (env1 i) (env2 i)) ->
    ragree oagree (eval env1 e) (eval env2 e).
Proof. exact eval_agree. Qed.
Print Assumptions C06_observed_closed.

(** For any point-wise nll the per-individual attachment is independent of y under the mask and of the model
    values at entries where y is masked ... *)
Theorem C06_attach : forall f y y' model model',
    wagree y y' ->
    (forall m, inr (shape (value y)) m -> observed y m -> at_ model m = at_ model' m) ->
    ragree teq (nll_attach_ind f y model) (nll_attach_ind f y' model').
Proof. exact attach_agree. Qed.
Print Assumptions C06_attach.

(** ... and of the amount and content of padding along the visit axis. *)
Theorem C06_attach_padding : forall f y w model k gy gm,
    wf y -> weight y = Some w -> length (shape (value y)) = 3 -> shape model = shape (value y) ->
    ragree teq (nll_attach_ind f (wpad VISIT_POS k gy y) (tpad VISIT_POS k gm model))
               (nll_attach_ind f y model).
Proof. exact attach_padding. Qed.
Print Assumptions C06_attach_padding.

(** With a 0/1 mask every sum of weights (n_obs, n_obs_per_ft, per-individual counts) is the number of
    weight-1 positions of the aggregate, and it does not look at the values. *)
Theorem C06_counts : forall fill R t w o,
    weight t = Some w -> inr (out_shape (shape w) R) o ->
    (forall m, inr (shape w) m -> at_ w m = 0%N \/ at_ w m = 1%N) ->
    at_ (snd (wsum_mask fill R t)) o =
    N.of_nat (length (filter (fun m => negb (N.eqb (at_ w m) 0)) (fiber (shape w) R o))).
Proof. exact counts_are_numbers_of_observed. Qed.
Print Assumptions C06_counts.

Theorem C06_counts_ignore_values : forall fill R v1 v2 w,
    snd (wsum_mask fill R (mkW v1 (Some w))) = snd (wsum_mask fill R (mkW v2 (Some w))).
Proof. exact counts_ignore_values. Qed.
Print Assumptions C06_counts_ignore_values.

(** The model tensor (weighted_value of any expression tree over t and plain parameters) is exactly 0 wherever
    its weight is 0, whatever was computed there, and depends on observed positions of its leaves only. *)
Theorem C06_model_zero_on_padding : forall t w m, weight t = Some w -> at_ w m = 0%N ->
    at_ (weighted_value t) m = azero.
Proof. exact weighted_value_zero. Qed.
Print Assumptions C06_model_zero_on_padding.

Theorem C06_model_ignores_masked_times : forall e env1 env2,
    (forall i, ragree oagree (env1 i) (env2 i)) ->
    ragree teq (model_of env1 e) (model_of env2 e).
Proof. exact model_of_agree. Qed.
Print Assumptions C06_model_ignores_masked_times.

(** Noise estimates use observed entries only — BOTH update rules (scalar_noise_std_update and
    diagonal_noise_std_update, as the variance before the positivity check and the square root): if y changes under
    the mask (ANY atoms there: NaN, +-inf, huge) and the model tensor changes at entries where y is not observed,
    the updated variance is the same, or the rule fails with the same error. *)
Theorem C06_noise_observed_only : forall y y' model model',
    wagree y y' ->
    shape model = shape (value y) -> shape model' = shape model ->
    (forall m, inr (shape model) m -> observed y m -> at_ model m = at_ model' m) ->
    ragree teq (noise_var_scalar y model) (noise_var_scalar y' model') /\
    ragree teq (noise_var_diagonal y model) (noise_var_diagonal y' model').
Proof. exact noise_observed_only. Qed.
Print Assumptions C06_noise_observed_only.

(** ... and so do the statistics the rules read from the state: y_L2_per_ft / n_obs_per_ft, y_L2 / n_obs, and
    y_x_model on observed positions. *)
Theorem C06_noise_ingredients_observed_only : forall y y' model model',
    wagree y y' ->
    shape model = shape (value y) -> shape model' = shape model ->
    (forall m, inr (shape model) m -> observed y m -> at_ model m = at_ model' m) ->
    ragree pair_teq (y_L2_n_obs_per_ft y) (y_L2_n_obs_per_ft y') /\
    ragree pair_teq (y_L2_n_obs y) (y_L2_n_obs y') /\
    ragree wagree (y_x_model y model) (y_x_model y' model').
Proof. exact noise_ingredients_observed_only. Qed.
Print Assumptions C06_noise_ingredients_observed_only.

(** ... and padded visits only: k more visits of weight 0 along the visit axis, with ANY y values and ANY model
    values in them, change the variance of neither rule. *)
Theorem C06_noise_padding : forall y w model k gy gm,
    wf y -> weight y = Some w -> length (shape (value y)) = 3 -> shape model = shape (value y) ->
    ragree teq (noise_var_scalar (wpad VISIT_POS k gy y) (tpad VISIT_POS k gm model)) (noise_var_scalar y model) /\
    ragree teq (noise_var_diagonal (wpad VISIT_POS k gy y) (tpad VISIT_POS k gm model)) (noise_var_diagonal y model).
Proof. exact noise_padding. Qed.
Print Assumptions C06_noise_padding.

(** Noise estimates use observed entries only AFTER BURN-IN too.  `_maximization_step` hands to the update rules the
    statistics stored by the last memory-less step and then blended, at each of [length steps] iterations with memory, with
    the statistics of the current model tensor: v * (1.0 - e) + e * new — on y_x_model a blend of two WeightedTensors.
    For EVERY number of memory iterations and every coefficients: if y changes under the mask (ANY atoms) and, at every
    iteration, the model tensor changes at entries where y is not observed, both rules hand the same variance to
    compute_std_from_variance (or the step fails with the same error). *)
Theorem C06_noise_observed_only_after_burn_in : forall y y' m0 m0' steps steps',
    wagree y y' -> magree y m0 m0' -> steps_agree y steps steps' ->
    ragree teq (noise_var_scalar_saem y m0 steps) (noise_var_scalar_saem y' m0' steps') /\
    ragree teq (noise_var_diagonal_saem y m0 steps) (noise_var_diagonal_saem y' m0' steps').
Proof. exact noise_saem_observed_only. Qed.
Print Assumptions C06_noise_observed_only_after_burn_in.

(** ... because the averaged y_x_model still CARRIES the weights of y (and both statistics keep the shape of y),
    whatever the number of memory iterations. *)
Theorem C06_saem_statistics_carry_weights : forall y m0 steps s,
    wf y -> shape m0 = shape (value y) -> Forall (fun st => shape (snd st) = shape (value y)) steps ->
    saem_stats y m0 steps = Ok s ->
    weight (s_yxm s) = weight y /\ shape (value (s_yxm s)) = shape (value y) /\ shape (s_mxm s) = shape (value y).
Proof. exact saem_stats_carry_weights. Qed.
Print Assumptions C06_saem_statistics_carry_weights.

(** With no memory iteration these are the rules of C06_noise_observed_only / C06_noise_padding. *)
Theorem C06_noise_saem_no_memory : forall y m0,
    noise_var_scalar_saem y m0 [] = noise_var_scalar y m0 /\
    noise_var_diagonal_saem y m0 [] = noise_var_diagonal y m0.
Proof. exact noise_var_saem_nil. Qed.
Print Assumptions C06_noise_saem_no_memory.

(* ------------------------------------------------------------------ source-level tie (T1): the REGENERATED function bodies *)

(** coq/gen/GenC06.v is rewritten from the current python source on every run (harness/translate/c06_weighted.py).
    The binary dispatch as translated — the case table on (b weighted?, a.weight None?, b.weight None?, weights equal?,
    reverse?) with the operand order of the value, the operand whose weight is kept, the expansion to the result shape
    and the refusal — computes exactly [apply_operation], for all operands, operators and both orders. *)
Theorem C06_src_apply_operation : forall op a b rev,
    call op src_apply_operation [VWT a; sval_of_operand b; VOpName; VBool rev]
    = of_res (rmap VWT (apply_operation a b op rev)).
Proof. exact gen_apply_operation. Qed.
Print Assumptions C06_src_apply_operation.

(** filled, weighted_value, wsum (fill with 0 BEFORE weighting, weighting before summing, fill of empty aggregates AFTER
    summing), sum, get_filled_value_and_weight as translated = the model's functions. *)
Theorem C06_src_readings : tie_readings.
Proof. exact gen_tie_readings. Qed.
Print Assumptions C06_src_readings.

(** valued, map, map_both, index_put, view, expand as translated: which of (value, weight) goes through the function. *)
Theorem C06_src_maps : tie_maps.
Proof. exact gen_tie_maps. Qed.
Print Assumptions C06_src_maps.

(** _get_dim, sum_dim, wsum_dim and its two projections, unsqueeze_right as translated. *)
Theorem C06_src_utils : tie_utils.
Proof. exact gen_tie_utils. Qed.
Print Assumptions C06_src_utils.

(** default arguments and the dunder -> (operator, reverse) table as translated = what the model / the T2 harness assume. *)
Theorem C06_src_signatures : tie_signatures.
Proof. exact gen_tie_signatures. Qed.
Print Assumptions C06_src_signatures.

(** C06 over the translated source: for every tree of operations and every masked reading, both EXECUTED through the
    regenerated bodies: leaves that agree on observed positions (anything under weight 0) give the same error or the same
    tensors read. *)
Theorem C06_src_tree_ignores_masked : forall e q env1 env2,
    (forall i, ragree oagree (env1 i) (env2 i)) ->
    ragree reading_agree (run_with gen_impl env1 e q) (run_with gen_impl env2 e q).
Proof. exact gen_run_ignores_masked. Qed.
Print Assumptions C06_src_tree_ignores_masked.

Theorem C06_src_observed_closed : forall e env1 env2,
    (forall i, ragree oagree (env1 i) (env2 i)) ->
    ragree oagree (eval_with gen_impl env1 e) (eval_with gen_impl env2 e).
Proof. exact gen_eval_agree. Qed.
Print Assumptions C06_src_observed_closed.

(** compute_std_from_variance as translated: LeaspyConvergenceError exactly when some entry is < tol (IEEE comparison);
    otherwise the square root of the very tensor handed in; nothing else can happen. *)
Theorem C06_src_std_guard : forall tol v,
    (gen_std tol v = SExc exc_convergence <-> exists x, In x (to_flat v) /\ alt x tol = true) /\
    (forall r, gen_std tol v = SOk r -> r = VSqrtOf v /\ forall x, In x (to_flat v) -> alt x tol = false) /\
    (gen_std tol v = SExc exc_convergence \/ gen_std tol v = SOk (VSqrtOf v)).
Proof. exact gen_std_spec. Qed.
Print Assumptions C06_src_std_guard.

(** with a finite tol >= 0 every accepted entry that is not NaN is >= tol and has a square root
    (no square root of a negative number, of -inf, of a variance below the tolerance) *)
Theorem C06_src_std_sqrt_defined : forall q v r,
    (0 <= q)%Q -> gen_std (Fin q) v = SOk r ->
    r = VSqrtOf v /\ forall x, In x (to_flat v) -> is_nan x = false -> ale (Fin q) x = true /\ sqrt_defined x.
Proof. exact gen_std_sqrt_defined. Qed.
Print Assumptions C06_src_std_sqrt_defined.

(** "never NaN" does NOT hold without the hypothesis [is_nan x = false]: the guard is a comparison and comparisons with
    NaN are false, so a NaN variance is accepted (and its square root is NaN) — the code behaves the same (T2). *)
Theorem C06_src_std_nan_not_refused : forall tol, exists v, gen_std tol v = SOk (VSqrtOf v) /\ In NaN (to_flat v).
Proof. exact gen_std_nan_not_refused. Qed.
Print Assumptions C06_src_std_nan_not_refused.

(** neg, abs, pow (value transformed, weight kept) and the function returned by factory_weighted_tensor_unary_operator
    (on a WeightedTensor: f on filled(fill_value), weights kept; on a plain tensor: f) as translated. *)
Theorem C06_src_unary : tie_unary.
Proof. exact gen_tie_unary. Qed.
Print Assumptions C06_src_unary.

(** The noise estimate finally ADOPTED — the variance of either update rule handed to compute_std_from_variance with any
    tolerance — uses observed entries only: under the hypotheses of C06_noise_observed_only both runs are refused
    (LeaspyConvergenceError) together or adopt the square root of equal variances ... *)
Theorem C06_noise_std_observed_only : forall tol y y' model model',
    wagree y y' ->
    shape model = shape (value y) -> shape model' = shape model ->
    (forall m, inr (shape model) m -> observed y m -> at_ model m = at_ model' m) ->
    ragree std_agree (noise_std_scalar tol y model) (noise_std_scalar tol y' model') /\
    ragree std_agree (noise_std_diagonal tol y model) (noise_std_diagonal tol y' model').
Proof. exact noise_std_observed_only. Qed.
Print Assumptions C06_noise_std_observed_only.

(** ... and the same after burn-in (statistics averaged by the memory phase), for every number of iterations. *)
Theorem C06_noise_std_observed_only_after_burn_in : forall tol y y' m0 m0' steps steps',
    wagree y y' -> magree y m0 m0' -> steps_agree y steps steps' ->
    ragree std_agree (noise_std_scalar_saem tol y m0 steps) (noise_std_scalar_saem tol y' m0' steps') /\
    ragree std_agree (noise_std_diagonal_saem tol y m0 steps) (noise_std_diagonal_saem tol y' m0' steps').
Proof. exact noise_std_saem_observed_only. Qed.
Print Assumptions C06_noise_std_observed_only_after_burn_in.

(** The two noise update rules of _gaussian.py AS TRANSLATED from the current source compute [noise_rule]: on any state
    statistics (y_L2, n_obs | y_L2_per_ft, n_obs_per_ft) and any collected statistics,
    compute_std_from_variance((y_l2 + sum_dim(-2 * y_x_model + model_x_model[, but_dim=LVL_FT])) / n_obs.float(), tol=1e-5). *)
Theorem C06_src_noise_rules : tie_noise_rules.
Proof. exact gen_tie_noise_rules. Qed.
Print Assumptions C06_src_noise_rules.

(** ... and the adopted estimates of C06_noise_std_observed_only(_after_burn_in) ARE that rule body applied to the state
    statistics of y and to the collected (resp. averaged) statistics. *)
Theorem C06_noise_std_is_rule : forall tol y model,
    noise_std_scalar tol y model = bind (y_L2_n_obs y) (fun p => bind (collect y model) (noise_rule DimDefault tol p)) /\
    noise_std_diagonal tol y model = bind (y_L2_n_obs_per_ft y) (fun p => bind (collect y model) (noise_rule (ButDim [LVL_FT]) tol p)).
Proof. exact noise_std_is_rule. Qed.
Print Assumptions C06_noise_std_is_rule.

Theorem C06_noise_std_saem_is_rule : forall tol y m0 steps,
    noise_std_scalar_saem tol y m0 steps
    = bind (y_L2_n_obs y) (fun p => bind (saem_stats y m0 steps) (noise_rule DimDefault tol p)) /\
    noise_std_diagonal_saem tol y m0 steps
    = bind (y_L2_n_obs_per_ft y) (fun p => bind (saem_stats y m0 steps) (noise_rule (ButDim [LVL_FT]) tol p)).
Proof. exact noise_std_saem_is_rule. Qed.
Print Assumptions C06_noise_std_saem_is_rule.
