(** C07 — individuals are conditionally independent and order-equivariant.
    Property theorems only: statements in full, each closed by [exact] of a lemma proved elsewhere.
    [A] is ANY scalar type (in particular the statements that carry no algebraic hypothesis hold for IEEE floats with
    torch's deterministic element-wise functions); [fs] are ANY node functions of the form their op-kind dictates. *)
From Coq Require Import ZArith QArith List Bool Arith PeanoNat Permutation.
From Leaspy Require Import Sampler.SamplerModel Saem.Anneal Sampler.AdaptiveStd Api.Personalize Api.PersonalizeChain Api.PersonalizeChainProofs
  Compose.ChainLocality Compose.ChainLocalityProofs Compose.ChainLocalityExamples
  Compose.ChainGraph Compose.ChainGraphProofs Compose.ChainGraphShipped.
From Leaspy Require Import Locality.AxisTypes Locality.AxisProofs Locality.SamplerRows Locality.SamplerRowsProofs
  Locality.Shipped Locality.AxisExamples Locality.SamplerReadsTie.
From LeaspyGen Require Import GenC07 GenC07Reads.
Import ListNotations.
Close Scope Q_scope.

(** Core: re-indexing the individual axis of the inputs by any list [p] of valid positions (a permutation, one
    individual alone, a sub-cohort, duplicates) re-indexes every node that is not an aggregate over individuals;
    aggregates are unchanged when [p] is a permutation and the addition commutative and associative. *)
Theorem C07_reindexing : forall (A : Type) (add : A -> A -> A) (G : graph) (fs : nat -> nodefun A)
    (p : list nat) (n : nat) (inp inp' : nat -> value A),
  (forall k, In k p -> k < n) ->
  indep_inputs_related A G (fun v v' => v' = reindex A p v) inp inp' ->
  forall i l, level_at G i = Some l -> (l = LAgg -> AggOK A add p n) ->
  forall v, eval A add G fs inp n i = Some v ->
            eval A add G fs inp' (length p) i = Some (reindex A p v).
Proof. exact reindex_thm. Qed.
Print Assumptions C07_reindexing.

(** Locality: in a well-typed graph, row j of the from-scratch value of every per-individual node depends only on
    row j of the per-individual inputs and on the population inputs — whatever the other individuals' data and
    latent values are, whatever the two cohort sizes and the positions j1, j2 of the individual in them. *)
Theorem C07_locality : forall (A : Type) (add : A -> A -> A) (G : graph) (fs : nat -> nodefun A),
  well_typed G = true ->
  forall n1 n2 j1 j2 (inp1 inp2 : nat -> value A), j1 < n1 -> j2 < n2 ->
  indep_inputs_related A G (fun v1 v2 => reindex A [j1] v1 = reindex A [j2] v2) inp1 inp2 ->
  forall i nd, nth_error (g_nodes G) i = Some nd -> n_sig nd = Ind ->
  forall v1 v2, eval A add G fs inp1 n1 i = Some v1 -> eval A add G fs inp2 n2 i = Some v2 ->
    vrow A j1 v1 = vrow A j2 v2.
Proof. exact locality_ind. Qed.
Print Assumptions C07_locality.

(** The individual alone: its terms are exactly row j of the batch evaluation (in exact arithmetic). *)
Theorem C07_alone : forall (A : Type) (add : A -> A -> A) (G : graph) (fs : nat -> nodefun A),
  well_typed G = true ->
  forall n j (inp inp1 : nat -> value A), j < n ->
  indep_inputs_related A G (fun v v' => v' = reindex A [j] v) inp inp1 ->
  forall i nd, nth_error (g_nodes G) i = Some nd -> n_sig nd = Ind ->
  forall v, eval A add G fs inp n i = Some v -> eval A add G fs inp1 1 i = Some (reindex A [j] v).
Proof. exact alone_ind. Qed.
Print Assumptions C07_alone.

(** Permuting the individuals permutes every per-individual node — exactly, no algebraic assumption. *)
Theorem C07_equivariance : forall (A : Type) (add : A -> A -> A) (G : graph) (fs : nat -> nodefun A),
  well_typed G = true ->
  forall p n (inp inp' : nat -> value A), Permutation p (seq 0 n) ->
  indep_inputs_related A G (fun v v' => v' = reindex A p v) inp inp' ->
  forall i nd, nth_error (g_nodes G) i = Some nd -> n_sig nd = Ind ->
  forall v, eval A add G fs inp n i = Some v -> eval A add G fs inp' n i = Some (reindex A p v).
Proof. exact equivariance_ind. Qed.
Print Assumptions C07_equivariance.

(** ... and leaves every population node (totals included) unchanged when sums do not depend on the order. *)
Theorem C07_equivariance_totals : forall (A : Type) (add : A -> A -> A) (G : graph) (fs : nat -> nodefun A),
  well_typed G = true ->
  forall p n (inp inp' : nat -> value A), Permutation p (seq 0 n) ->
  (forall x y, add x y = add y x) -> (forall x y z, add x (add y z) = add (add x y) z) ->
  indep_inputs_related A G (fun v v' => v' = reindex A p v) inp inp' ->
  forall i nd, nth_error (g_nodes G) i = Some nd ->
  forall v, eval A add G fs inp n i = Some v ->
    match n_sig nd with
    | Ind => eval A add G fs inp' n i = Some (reindex A p v)
    | Pop => eval A add G fs inp' n i = Some v
    end.
Proof. exact equivariance_all. Qed.
Print Assumptions C07_equivariance_totals.

(** Non-vacuity of the above: on well-formed inputs every node of a well-typed graph evaluates, to a value of the
    shape its signature announces. *)
Theorem C07_evaluates : forall (A : Type) (add : A -> A -> A) (G : graph) (fs : nat -> nodefun A),
  well_typed G = true ->
  forall (inp : nat -> value A) n, inputs_wf A (g_nodes G) inp n ->
  forall i nd, nth_error (g_nodes G) i = Some nd ->
    exists v, eval A add G fs inp n i = Some v /\
      match n_sig nd with
      | Ind => exists rows, v = VInd rows /\ length rows = n
      | Pop => exists r, v = VPop r
      end.
Proof. exact progress_thm. Qed.
Print Assumptions C07_evaluates.

(** The from-scratch evaluation is consistent: every node holds its function of its parents' final values. *)
Theorem C07_consistent : forall (A : Type) (add : A -> A -> A) (G : graph) (fs : nat -> nodefun A),
  well_typed G = true ->
  forall (inp : nat -> value A) n i, i < length (g_nodes G) ->
    eval A add G fs inp n i = eval_node A add (g_nodes G) fs inp n (eval A add G fs inp n) i.
Proof. exact fixpoint_thm. Qed.
Print Assumptions C07_consistent.

(** Totals: a [ReduceInd] node is the sum over the individuals of a per-row term ... *)
Theorem C07_totals : forall (A : Type) (add : A -> A -> A) (G : graph) (fs : nat -> nodefun A),
  well_typed G = true ->
  forall (inp : nat -> value A) n i nd vs, nth_error (g_nodes G) i = Some nd -> n_kind nd = Linked ReduceInd ->
  gather (eval A add G fs inp n) (n_parents nd) = Some vs ->
  eval A add G fs inp n i =
    Some (VPop (vsum A add (map (fun j => frow (fs i) (pops_of A vs) (slice A j (inds_of A vs))) (seq 0 n)))).
Proof. exact totals_thm. Qed.
Print Assumptions C07_totals.

(** ... and when nothing else is left to reduce (nll_attach = SumDim(nll_attach_ind)) it is the sum of the rows of
    its operand: nll_attach = sum_j nll_attach_ind[j]. *)
Theorem C07_totals_rows : forall (A : Type) (add : A -> A -> A) (G : graph) (fs : nat -> nodefun A),
  well_typed G = true ->
  forall (inp : nat -> value A) n i nd q rows, nth_error (g_nodes G) i = Some nd -> n_kind nd = Linked ReduceInd ->
  n_parents nd = [q] -> eval A add G fs inp n q = Some (VInd rows) -> length rows = n ->
  (forall r, frow (fs i) [] [r] = r) ->
  eval A add G fs inp n i = Some (VPop (vsum A add rows)).
Proof. exact totals_rows_thm. Qed.
Print Assumptions C07_totals_rows.

(** The individual sampler: decision, resulting row, adapted std and acceptance history of the individual at position
    j are functions of its own row of the data and latent values, the population inputs, and the entries at position j
    of the std vector, of the history and of the random tape — for any proposal, decision and adaptation arithmetic. *)
Theorem C07_sampler_rows : forall (A : Type) (add : A -> A -> A) (zero : A)
    (propose : A -> row A -> row A -> row A) (decide : list (row A) -> list (row A) -> A -> A -> bool)
    (adapt : A -> list bool -> A) (G : graph) (fs : nat -> nodefun A)
    n1 n2 j1 j2 (inp1 inp2 : nat -> value A) var reads std1 std2 hist1 hist2 tp1 tp2 tinv trigger r1 r2,
  j1 < n1 -> j2 < n2 ->
  indep_inputs_related A G (fun v1 v2 => reindex A [j1] v1 = reindex A [j2] v2) inp1 inp2 ->
  (exists nd, nth_error (g_nodes G) var = Some nd /\ n_kind nd = Indep) ->
  (forall q, In q reads -> exists l, level_at G q = Some l /\ l <> LAgg) ->
  nth j1 std1 zero = nth j2 std2 zero ->
  nth j1 hist1 [] = nth j2 hist2 [] ->
  nth j1 (t_eps tp1) [] = nth j2 (t_eps tp2) [] ->
  nth j1 (t_u tp1) zero = nth j2 (t_u tp2) zero ->
  sample_step A add zero propose decide adapt G fs inp1 n1 var reads std1 hist1 tp1 tinv trigger = Some r1 ->
  sample_step A add zero propose decide adapt G fs inp2 n2 var reads std2 hist2 tp2 tinv trigger = Some r2 ->
  nth j1 (r_acc r1) false = nth j2 (r_acc r2) false /\
  nth j1 (r_rows r1) [] = nth j2 (r_rows r2) [] /\
  nth j1 (r_std r1) zero = nth j2 (r_std r2) zero /\
  nth j1 (r_hist r1) [] = nth j2 (r_hist r2) [].
Proof. exact sampler_rows_thm. Qed.
Print Assumptions C07_sampler_rows.

(** What the step computes at position j, written with position-j entries only (this is the form the harness compares
    with the recorded draws, decisions, rows, histories and stds of the real sampler). *)
Theorem C07_sampler_row_form : forall (A : Type) (add : A -> A -> A) (zero : A)
    (propose : A -> row A -> row A -> row A) (decide : list (row A) -> list (row A) -> A -> A -> bool)
    (adapt : A -> list bool -> A) (G : graph) (fs : nat -> nodefun A)
    n j (inp : nat -> value A) var reads std hist tp tinv trigger r xs,
  j < n -> inp var = VInd xs ->
  sample_step A add zero propose decide adapt G fs inp n var reads std hist tp tinv trigger = Some r ->
  (exists before after,
      gather (eval A add G fs inp n) reads = Some before /\
      gather (eval A add G fs (set_input A inp var (VInd (proposal_rows A zero propose n std xs tp))) n) reads = Some after /\
      nth j (r_acc r) false = decide (map (vrow A j) before) (map (vrow A j) after) tinv (nth j (t_u tp) zero)) /\
  nth j (r_rows r) [] = (if nth j (r_acc r) false
                         then propose (nth j std zero) (nth j xs []) (nth j (t_eps tp) []) else nth j xs []) /\
  nth j (r_hist r) [] = (tl (nth j hist []) ++ [nth j (r_acc r) false]) /\
  nth j (r_std r) zero = (if trigger then adapt (nth j std zero) (nth j (r_hist r) []) else nth j std zero).
Proof. exact sampler_row_form_thm. Qed.
Print Assumptions C07_sampler_row_form.

(** Every shipped model kind (graph literals regenerated from the running code): well typed; the per-individual terms
    read by the samplers and by the personalisation algorithms are per-individual nodes; the individual latent
    variables are per-individual inputs; each listed total is a [ReduceInd] of its per-individual operand. *)
Theorem C07_shipped_well_typed :
  forallb shipped_ok shipped = true /\ length shipped = shipped_expected.
Proof. split; vm_compute; reflexivity. Qed.
Print Assumptions C07_shipped_well_typed.

(** Hence locality for the graphs the code builds today. *)
Theorem C07_shipped_locality : forall s, In s shipped ->
  forall (A : Type) (add : A -> A -> A) (fs : nat -> nodefun A)
    n1 n2 j1 j2 (inp1 inp2 : nat -> value A), j1 < n1 -> j2 < n2 ->
  indep_inputs_related A (sg_graph s) (fun v1 v2 => reindex A [j1] v1 = reindex A [j2] v2) inp1 inp2 ->
  forall i nd, nth_error (g_nodes (sg_graph s)) i = Some nd -> n_sig nd = Ind ->
  forall v1 v2, eval A add (sg_graph s) fs inp1 n1 i = Some v1 -> eval A add (sg_graph s) fs inp2 n2 i = Some v2 ->
    vrow A j1 v1 = vrow A j2 v2.
Proof.
  intros s Hs A add fs. apply locality_ind.
  pose proof (proj1 C07_shipped_well_typed) as H. rewrite forallb_forall in H. specialize (H s Hs).
  unfold shipped_ok in H. repeat (apply andb_true_iff in H; destruct H as [H _]). exact H.
Qed.
Print Assumptions C07_shipped_locality.

(** The checker is not decorative: the graph in which a per-individual node reads a batch total is rejected, and on
    it the row of individual 0 does change when only individual 1's observations change. *)
Theorem C07_illtyped_rejected_and_not_local :
  well_typed toy = true /\ well_typed toy_bad = false /\
  vrow Z 0 (match eval Z Z.add toy_bad toy_fs (toy_inp ys1) 3 6 with Some v => v | None => VPop [] end) <>
  vrow Z 0 (match eval Z Z.add toy_bad toy_fs (toy_inp ys2) 3 6 with Some v => v | None => VPop [] end).
Proof. split; [exact toy_well_typed | split; [exact toy_bad_rejected | exact toy_bad_not_local]]. Qed.
Print Assumptions C07_illtyped_rejected_and_not_local.

(** Extension — which nodes [IndividualGibbsSampler.sample] reads is no longer taken from the source by hand: every use of
    `state` in that method, the decision expression of `_group_metropolis_step`, the std update and the shapes of the
    adapted std / acceptance window, regenerated with python `ast`, ARE the header of Locality/SamplerRows.v. *)
Theorem C07_sample_reads_tie :
  gen_sample_reads = sample_reads /\ gen_sample_writes = sample_writes /\ gen_group_decision = group_decision /\
  gen_std_update = std_update /\ gen_acceptation_update = acceptation_update /\
  gen_shape_adapted_std = shape_adapted_std /\ gen_shape_acceptation = shape_acceptation.
Proof. exact sample_reads_tie. Qed.
Print Assumptions C07_sample_reads_tie.

(** ... and in every shipped graph, for every individual latent variable, each of these nodes carries the individual axis
    and is not an aggregate over individuals (the hypothesis of [C07_sampler_rows] on [reads]). *)
Theorem C07_sample_reads_local : sample_reads_local shipped shipped_reads = true /\ length shipped_reads = shipped_expected.
Proof. split; vm_compute; reflexivity. Qed.
Print Assumptions C07_sample_reads_local.

(** Extension — the GENERATED personalisation chain (C17's [personalize_run]: C03's individual step iterated at the C19
    temperatures and proposal scales on a tape of draws) is row-local.  Two cohorts of any sizes; the individual sits at position
    j1 of the first and j2 of the second; it owns the same rows of the initial values and of every position-indexed draw
    ([own_draws]: row j of every normal draw, entry j of every uniform draw); its attachment / regularity entries agree whenever
    its own rows agree ([row_local], i.e. [C07_locality] read on the individual variables).  What a cohort SHARES is common to
    the two runs: sampler settings, annealing settings, burn-in, the order of the variables at each iteration ([orders]: ONE
    `random.shuffle` per iteration for everybody), the sampler scales.  Then: its whole chain ([o_all]), what is appended to the
    histories for it, at every sampler call the proposal scale std[j] and the decision accepted[j], its final values, the
    counter / std[j] / acceptance column j of every sampler, and the annealing state are IDENTICAL — whatever the data, the
    initial values and the draws of the other individuals are. *)
Theorem C07_chain_local : forall (A : Type) (add mul : A -> A -> A) (ofQ : Q -> A) (decide : A -> A -> A -> A -> A -> A -> bool)
    (att1 att2 : istate A -> list A) (regv1 regv2 : nat -> istate A -> list A) (regsum1 regsum2 : istate A -> list A)
    (scf : scfg) (acf : Anneal.cfg) (nb : Z) (random_order : bool) (n1 n2 j1 j2 : nat) (sizes : list nat),
  (j1 < n1)%nat -> (j2 < n2)%nat ->
  row_local n1 n2 j1 j2 sizes att1 att2 -> (forall v, row_local n1 n2 j1 j2 sizes (regv1 v) (regv2 v)) ->
  row_local n1 n2 j1 j2 sizes regsum1 regsum2 ->
  forall orders init1 init2 scales T1 T2 o1 o2,
  shaped n1 sizes init1 -> shaped n2 sizes init2 -> own j1 init1 = own j2 init2 ->
  tape_fits n1 sizes random_order (length init1) orders T1 -> tape_fits n2 sizes random_order (length init2) orders T2 ->
  own_draws j1 T1 = own_draws j2 T2 ->
  personalize_run A add mul ofQ decide att1 regv1 regsum1 scf acf nb random_order n1 orders init1 scales (flat_tape (concat T1)) = Done o1 ->
  personalize_run A add mul ofQ decide att2 regv2 regsum2 scf acf nb random_order n2 orders init2 scales (flat_tape (concat T2)) = Done o2 ->
  own_col j1 (o_all o1) = own_col j2 (o_all o2) /\ own_col j1 (o_hist o1) = own_col j2 (o_hist o2) /\
  own_trace j1 (o_trace o1) = own_trace j2 (o_trace o2) /\
  own j1 (r_vals (o_rs o1)) = own j2 (r_vals (o_rs o2)) /\
  map (own_samp j1) (r_samp (o_rs o1)) = map (own_samp j2) (r_samp (o_rs o2)) /\ o_ast o1 = o_ast o2.
Proof. exact chain_local. Qed.
Print Assumptions C07_chain_local.

(** ... hence, on a rational run, the same mode estimate ([mode_row]: first kept draw of lowest loss) and the same mean
    estimate (every coordinate) by the EXISTING estimators of C17 applied to the generated chains. *)
Theorem C07_chain_estimates : forall add mul ofQ decide att1 att2 regv1 regv2 regsum1 regsum2 scf acf nb random_order n1 n2 j1 j2 sizes
    orders init1 init2 scales T1 T2 o1 o2,
  (j1 < n1)%nat -> (j2 < n2)%nat ->
  row_local n1 n2 j1 j2 sizes att1 att2 -> (forall v, row_local n1 n2 j1 j2 sizes (regv1 v) (regv2 v)) ->
  row_local n1 n2 j1 j2 sizes regsum1 regsum2 ->
  shaped n1 sizes init1 -> shaped n2 sizes init2 -> own j1 init1 = own j2 init2 ->
  tape_fits n1 sizes random_order (length init1) orders T1 -> tape_fits n2 sizes random_order (length init2) orders T2 ->
  own_draws j1 T1 = own_draws j2 T2 ->
  personalize_run Q add mul ofQ decide att1 regv1 regsum1 scf acf nb random_order n1 orders init1 scales (flat_tape (concat T1)) = Done o1 ->
  personalize_run Q add mul ofQ decide att2 regv2 regsum2 scf acf nb random_order n2 orders init2 scales (flat_tape (concat T2)) = Done o2 ->
  let N := Z.of_nat (length orders) in
  mode_row (history (chain_q (o_all o1)) N nb) j1 = mode_row (history (chain_q (o_all o2)) N nb) j2 /\
  forall c, mean_coord (history (chain_q (o_all o1)) N nb) j1 c = mean_coord (history (chain_q (o_all o2)) N nb) j2 c.
Proof. exact chain_estimates_local. Qed.
Print Assumptions C07_chain_estimates.

(** (b) permuting the individuals (initial values, draws, oracles) permutes the chains, the decisions and the sampler states *)
Theorem C07_chain_equivariance : forall A add mul ofQ decide att1 att2 regv1 regv2 regsum1 regsum2 scf acf nb random_order n (p : nat -> nat) sizes
    orders init1 init2 scales T1 T2 o1 o2,
  (forall i, (i < n)%nat -> (p i < n)%nat) ->
  (forall i, (i < n)%nat -> row_local n n (p i) i sizes att1 att2) ->
  (forall i, (i < n)%nat -> forall v, row_local n n (p i) i sizes (regv1 v) (regv2 v)) ->
  (forall i, (i < n)%nat -> row_local n n (p i) i sizes regsum1 regsum2) ->
  shaped n sizes init1 -> shaped n sizes init2 -> (forall i, (i < n)%nat -> own (p i) init1 = own i init2) ->
  tape_fits n sizes random_order (length init1) orders T1 -> tape_fits n sizes random_order (length init2) orders T2 ->
  (forall i, (i < n)%nat -> own_draws (p i) T1 = own_draws i T2) ->
  personalize_run A add mul ofQ decide att1 regv1 regsum1 scf acf nb random_order n orders init1 scales (flat_tape (concat T1)) = Done o1 ->
  personalize_run A add mul ofQ decide att2 regv2 regsum2 scf acf nb random_order n orders init2 scales (flat_tape (concat T2)) = Done o2 ->
  forall i, (i < n)%nat ->
    own_col (p i) (o_all o1) = own_col i (o_all o2) /\ own_col (p i) (o_hist o1) = own_col i (o_hist o2) /\
    own_trace (p i) (o_trace o1) = own_trace i (o_trace o2) /\
    map (own_samp (p i)) (r_samp (o_rs o1)) = map (own_samp i) (r_samp (o_rs o2)).
Proof. exact chain_equivariant. Qed.
Print Assumptions C07_chain_equivariance.

(** (c) personalising individual j ALONE (cohort of one) on its own rows of the tape gives its chain in the batch *)
Theorem C07_chain_alone : forall A add mul ofQ decide att att1 regv regv1 regsum regsum1 scf acf nb random_order n j sizes
    orders init init1 scales T T1 o o1,
  (j < n)%nat ->
  row_local n 1 j 0 sizes att att1 -> (forall v, row_local n 1 j 0 sizes (regv v) (regv1 v)) -> row_local n 1 j 0 sizes regsum regsum1 ->
  shaped n sizes init -> shaped 1 sizes init1 -> own j init = own 0 init1 ->
  tape_fits n sizes random_order (length init) orders T -> tape_fits 1 sizes random_order (length init1) orders T1 ->
  own_draws j T = own_draws 0 T1 ->
  personalize_run A add mul ofQ decide att regv regsum scf acf nb random_order n orders init scales (flat_tape (concat T)) = Done o ->
  personalize_run A add mul ofQ decide att1 regv1 regsum1 scf acf nb random_order 1 orders init1 scales (flat_tape (concat T1)) = Done o1 ->
  own_col j (o_all o) = own_col 0 (o_all o1) /\ own_col j (o_hist o) = own_col 0 (o_hist o1) /\
  own_trace j (o_trace o) = own_trace 0 (o_trace o1) /\
  map (own_samp j) (r_samp (o_rs o)) = map (own_samp 0) (r_samp (o_rs o1)).
Proof. exact chain_alone. Qed.
Print Assumptions C07_chain_alone.

(** Non-vacuity: a batch of two individuals and individual 1 alone on its own rows of the tape (3 shuffled iterations, annealing,
    std adaptation): every hypothesis above holds, both runs succeed, individual 1 accepts some proposals and refuses others,
    and decides differently from individual 0. *)
Theorem C07_chain_example :
  flat_tape (concat exl_T) = PersonalizeChainProofs.ex_tape /\
  shaped 2 exl_sizes PersonalizeChainProofs.ex_init /\ shaped 1 exl_sizes (reindex_state [1%nat] PersonalizeChainProofs.ex_init) /\
  own 1 PersonalizeChainProofs.ex_init = own 0 (reindex_state [1%nat] PersonalizeChainProofs.ex_init) /\
  tape_fits 2 exl_sizes true (length PersonalizeChainProofs.ex_init) PersonalizeChainProofs.ex_orders exl_T /\
  tape_fits 1 exl_sizes true (length (reindex_state [1%nat] PersonalizeChainProofs.ex_init)) PersonalizeChainProofs.ex_orders (reindex_draws [1%nat] exl_T) /\
  own_draws 1 exl_T = own_draws 0 (reindex_draws [1%nat] exl_T) /\
  exists o o1, exl_batch = Done o /\ exl_alone = Done o1 /\
    own_col 1 (o_all o) = own_col 0 (o_all o1) /\
    map (fun kl => map (fun r => nth_error (sr_acc r) 1) (snd kl)) (o_trace o)
      = map (fun kl => map (fun r => nth_error (sr_acc r) 0) (snd kl)) (o_trace o1) /\
    existsb (fun kl => existsb (fun r => nth 1 (sr_acc r) false) (snd kl)) (o_trace o) = true /\
    existsb (fun kl => existsb (fun r => negb (nth 1 (sr_acc r) true)) (snd kl)) (o_trace o) = true /\
    existsb (fun kl => existsb (fun r => negb (Bool.eqb (nth 0 (sr_acc r) false) (nth 1 (sr_acc r) false))) (snd kl)) (o_trace o) = true.
Proof. exact chain_local_example. Qed.
Print Assumptions C07_chain_example.

(** Extension 4 — the oracle hypotheses of [C07_chain_local] discharged.  An oracle DEFINED by the graph evaluation — entry j = a
    function [h] of row j of the nodes [xs] in [eval G fs (inputs_of lat base st) n], where the individual latent variable at
    position v of the chain's state is the input of node [nth v lat] and every other independent node holds the fixed [base] —
    is [row_local] as soon as the checker types the nodes [xs] as [LInd] and the two cohorts hold the same population inputs and
    the same data rows for the individual. *)
Theorem C07_oracle_row_local : forall (A : Type) (add : A -> A -> A) (G : graph) (fs : nat -> nodefun A) (lat : list nat)
    (n1 n2 j1 j2 : nat), (j1 < n1)%nat -> (j2 < n2)%nat -> forall (sizes : list nat) (base1 base2 : nat -> value A),
  indep_inputs_related A G (fun v1 v2 => reindex A [j1] v1 = reindex A [j2] v2) base1 base2 ->
  forall xs h, forallb (level_is G LInd) xs = true ->
  row_local n1 n2 j1 j2 sizes (graph_oracle A add G fs lat base1 n1 xs h) (graph_oracle A add G fs lat base2 n2 xs h).
Proof. exact row_local_of_graph. Qed.
Print Assumptions C07_oracle_row_local.

(** ... hence [C07_chain_local] with NO hypothesis on the oracles: attachment, per-variable regularity and summed regularity are
    the evaluation of [LInd] nodes ([xa], [xr v], [xs]; any row-wise read-outs) of the graph. *)
Theorem C07_chain_local_graph : forall (A : Type) (add mul : A -> A -> A) (ofQ : Q -> A) (decide : A -> A -> A -> A -> A -> A -> bool)
    (gadd : A -> A -> A) (G : graph) (fs : nat -> nodefun A) (lat : list nat) (base1 base2 : nat -> value A)
    (xa : list nat) (xr : nat -> list nat) (xs : list nat) (ha : list (row A) -> option A) (hr : nat -> list (row A) -> option A)
    (hs : list (row A) -> option A)
    (scf : scfg) (acf : Anneal.cfg) (nb : Z) (random_order : bool) (n1 n2 j1 j2 : nat) (sizes : list nat),
  forallb (level_is G LInd) xa = true -> (forall v, forallb (level_is G LInd) (xr v) = true) -> forallb (level_is G LInd) xs = true ->
  (j1 < n1)%nat -> (j2 < n2)%nat ->
  indep_inputs_related A G (fun v1 v2 => reindex A [j1] v1 = reindex A [j2] v2) base1 base2 ->
  forall orders init1 init2 scales T1 T2 o1 o2,
  shaped n1 sizes init1 -> shaped n2 sizes init2 -> own j1 init1 = own j2 init2 ->
  tape_fits n1 sizes random_order (length init1) orders T1 -> tape_fits n2 sizes random_order (length init2) orders T2 ->
  own_draws j1 T1 = own_draws j2 T2 ->
  personalize_run A add mul ofQ decide
    (graph_oracle A gadd G fs lat base1 n1 xa ha) (fun v => graph_oracle A gadd G fs lat base1 n1 (xr v) (hr v))
    (graph_oracle A gadd G fs lat base1 n1 xs hs) scf acf nb random_order n1 orders init1 scales (flat_tape (concat T1)) = Done o1 ->
  personalize_run A add mul ofQ decide
    (graph_oracle A gadd G fs lat base2 n2 xa ha) (fun v => graph_oracle A gadd G fs lat base2 n2 (xr v) (hr v))
    (graph_oracle A gadd G fs lat base2 n2 xs hs) scf acf nb random_order n2 orders init2 scales (flat_tape (concat T2)) = Done o2 ->
  own_col j1 (o_all o1) = own_col j2 (o_all o2) /\ own_col j1 (o_hist o1) = own_col j2 (o_hist o2) /\
  own_trace j1 (o_trace o1) = own_trace j2 (o_trace o2) /\
  own j1 (r_vals (o_rs o1)) = own j2 (r_vals (o_rs o2)) /\
  map (own_samp j1) (r_samp (o_rs o1)) = map (own_samp j2) (r_samp (o_rs o2)) /\ o_ast o1 = o_ast o2.
Proof. exact chain_local_graph. Qed.
Print Assumptions C07_chain_local_graph.

(** ... instantiated on EVERY shipped graph literal with the nodes `sample` reads as the translator resolved them ([shipped_reads]:
    attachment first, one `nll_regul_<v>_ind` per individual latent variable, summed regularity last; each holds one scalar per
    individual): the typing side conditions are computed, none is left. *)
Theorem C07_chain_local_shipped : forall s rs, In (s, rs) (combine shipped shipped_reads) ->
  forall (A : Type) (add mul : A -> A -> A) (ofQ : Q -> A) (decide : A -> A -> A -> A -> A -> A -> bool)
    (gadd : A -> A -> A) (fs : nat -> nodefun A) (base1 base2 : nat -> value A)
    (scf : scfg) (acf : Anneal.cfg) (nb : Z) (random_order : bool) (n1 n2 j1 j2 : nat) (sizes : list nat),
  (j1 < n1)%nat -> (j2 < n2)%nat ->
  indep_inputs_related A (sg_graph s) (fun v1 v2 => reindex A [j1] v1 = reindex A [j2] v2) base1 base2 ->
  forall orders init1 init2 scales T1 T2 o1 o2,
  shaped n1 sizes init1 -> shaped n2 sizes init2 -> own j1 init1 = own j2 init2 ->
  tape_fits n1 sizes random_order (length init1) orders T1 -> tape_fits n2 sizes random_order (length init2) orders T2 ->
  own_draws j1 T1 = own_draws j2 T2 ->
  personalize_run A add mul ofQ decide
    (node_oracle A gadd (sg_graph s) fs (sg_ind_latents s) base1 n1 (reads_att rs))
    (fun v => node_oracle A gadd (sg_graph s) fs (sg_ind_latents s) base1 n1 (reads_reg rs v))
    (node_oracle A gadd (sg_graph s) fs (sg_ind_latents s) base1 n1 (reads_sum rs))
    scf acf nb random_order n1 orders init1 scales (flat_tape (concat T1)) = Done o1 ->
  personalize_run A add mul ofQ decide
    (node_oracle A gadd (sg_graph s) fs (sg_ind_latents s) base2 n2 (reads_att rs))
    (fun v => node_oracle A gadd (sg_graph s) fs (sg_ind_latents s) base2 n2 (reads_reg rs v))
    (node_oracle A gadd (sg_graph s) fs (sg_ind_latents s) base2 n2 (reads_sum rs))
    scf acf nb random_order n2 orders init2 scales (flat_tape (concat T2)) = Done o2 ->
  well_typed (sg_graph s) = true /\
  own_col j1 (o_all o1) = own_col j2 (o_all o2) /\ own_col j1 (o_hist o1) = own_col j2 (o_hist o2) /\
  own_trace j1 (o_trace o1) = own_trace j2 (o_trace o2) /\
  own j1 (r_vals (o_rs o1)) = own j2 (r_vals (o_rs o2)) /\
  map (own_samp j1) (r_samp (o_rs o1)) = map (own_samp j2) (r_samp (o_rs o2)) /\ o_ast o1 = o_ast o2.
Proof. exact chain_local_shipped. Qed.
Print Assumptions C07_chain_local_shipped.

(** [reads_att] / [reads_reg] / [reads_sum] address the right entries: in every shipped graph the resolved reads are, by count,
    attachment + one per-variable regularity for each individual latent variable + the summed regularity (computed). *)
Theorem C07_shipped_reads_shape :
  forallb (fun p => Nat.eqb (length (snd p)) (length (sg_ind_latents (fst p)) + 2)) (combine shipped shipped_reads) = true.
Proof. exact shipped_reads_shape. Qed.
Print Assumptions C07_shipped_reads_shape.

(** Non-vacuity on the first shipped literal: a cohort of two and its second individual alone, oracles = evaluation of the literal
    (node functions of the announced form, one data row per individual), 3 shuffled annealed iterations over all its individual
    latent variables: every hypothesis of [C07_chain_local_shipped] holds ([sx_base_related] is the one on the fixed inputs), both
    runs succeed, the individual accepts some proposals, refuses others, and decides differently from the other individual. *)
Theorem C07_chain_graph_example :
  indep_inputs_related Q sx_G (fun v1 v2 => reindex Q [1%nat] v1 = reindex Q [0%nat] v2) (sx_base [3; 5]%Q) (sx_base [5%Q]) /\
  In sx_pair (combine shipped shipped_reads) /\
  (2 <= sx_m)%nat /\
  shaped 2 sx_sizes (sx_init [3; 5]%Q) /\ shaped 1 sx_sizes (sx_init [5%Q]) /\
  own 1 (sx_init [3; 5]%Q) = own 0 (sx_init [5%Q]) /\
  tape_fits 2 sx_sizes true (length (sx_init [3; 5]%Q)) sx_orders (sx_T [3; 5]%Q) /\
  tape_fits 1 sx_sizes true (length (sx_init [5%Q])) sx_orders (sx_T [5%Q]) /\
  own_draws 1 (sx_T [3; 5]%Q) = own_draws 0 (sx_T [5%Q]) /\
  exists o o1, sx_batch = Done o /\ sx_alone = Done o1 /\
    own_col 1 (o_all o) = own_col 0 (o_all o1) /\
    existsb (fun kl => existsb (fun r => nth 1 (sr_acc r) false) (snd kl)) (o_trace o) = true /\
    existsb (fun kl => existsb (fun r => negb (nth 1 (sr_acc r) true)) (snd kl)) (o_trace o) = true /\
    existsb (fun kl => existsb (fun r => negb (Bool.eqb (nth 0 (sr_acc r) false) (nth 1 (sr_acc r) false))) (snd kl)) (o_trace o) = true.
Proof. split; [exact sx_base_related | exact chain_local_shipped_example]. Qed.
Print Assumptions C07_chain_graph_example.
