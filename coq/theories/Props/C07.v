(** C07 — individuals are conditionally independent and order-equivariant.
    Property theorems only: statements in full, each closed by [exact] of a lemma proved elsewhere.
    [A] is ANY scalar type (in particular the statements that carry no algebraic hypothesis hold for IEEE floats with
    torch's deterministic element-wise functions); [fs] are ANY node functions of the form their op-kind dictates. *)
From Coq Require Import ZArith List Bool Arith PeanoNat Permutation.
From Leaspy Require Import Locality.AxisTypes Locality.AxisProofs Locality.SamplerRows Locality.SamplerRowsProofs
  Locality.Shipped Locality.AxisExamples Locality.SamplerReadsTie.
From LeaspyGen Require Import GenC07 GenC07Reads.
Import ListNotations.

(** Core: re-indexing the individual axis of the inputs by any list [p] of valid positions (a permutation, one
    individual alone, a sub-cohort, duplicates) re-indexes every node that is not an aggregate over individuals;
    aggregates are unchanged when [p] is a permutation and the addition commutative and associative. *)
Theorem C07_reindexing : forall (A : Type) (add : A -> A -> A) (G : graph) (fs : nat -> nodefun A)
    (p : list nat) (n : nat) (inp inp' : nat -> value A),
  (forall k, In k p -> k < n) ->
  indep_inputs_related A G (fun v v' => v' = reindex A p v) inp inp' ->
  forall i l, level_at G i = Some l -> (l = LAgg -> AggOK A add p n) ->
  forall v, eval A add G fs inp n i = Some v ->
            eval A add G fs inp' (length p) i = Some (reindex A p v).
Proof. exact reindex_thm. Qed.
Print Assumptions C07_reindexing.

(** Locality: in a well-typed graph, row j of the from-scratch value of every per-individual node depends only on
    row j of the per-individual inputs and on the population inputs — whatever the other individuals' data and
    latent values are, whatever the two cohort sizes and the positions j1, j2 of the individual in them. *)
Theorem C07_locality : forall (A : Type) (add : A -> A -> A) (G : graph) (fs : nat -> nodefun A),
  well_typed G = true ->
  forall n1 n2 j1 j2 (inp1 inp2 : nat -> value A), j1 < n1 -> j2 < n2 ->
  indep_inputs_related A G (fun v1 v2 => reindex A [j1] v1 = reindex A [j2] v2) inp1 inp2 ->
  forall i nd, nth_error (g_nodes G) i = Some nd -> n_sig nd = Ind ->
  forall v1 v2, eval A add G fs inp1 n1 i = Some v1 -> eval A add G fs inp2 n2 i = Some v2 ->
    vrow A j1 v1 = vrow A j2 v2.
Proof. exact locality_ind. Qed.
Print Assumptions C07_locality.

(** The individual alone: its terms are exactly row j of the batch evaluation (in exact arithmetic). *)
Theorem C07_alone : forall (A : Type) (add : A -> A -> A) (G : graph) (fs : nat -> nodefun A),
  well_typed G = true ->
  forall n j (inp inp1 : nat -> value A), j < n ->
  indep_inputs_related A G (fun v v' => v' = reindex A [j] v) inp inp1 ->
  forall i nd, nth_error (g_nodes G) i = Some nd -> n_sig nd = Ind ->
  forall v, eval A add G fs inp n i = Some v -> eval A add G fs inp1 1 i = Some (reindex A [j] v).
Proof. exact alone_ind. Qed.
Print Assumptions C07_alone.

(** Permuting the individuals permutes every per-individual node — exactly, no algebraic assumption. *)
Theorem C07_equivariance : forall (A : Type) (add : A -> A -> A) (G : graph) (fs : nat -> nodefun A),
  well_typed G = true ->
  forall p n (inp inp' : nat -> value A), Permutation p (seq 0 n) ->
  indep_inputs_related A G (fun v v' => v' = reindex A p v) inp inp' ->
  forall i nd, nth_error (g_nodes G) i = Some nd -> n_sig nd = Ind ->
  forall v, eval A add G fs inp n i = Some v -> eval A add G fs inp' n i = Some (reindex A p v).
Proof. exact equivariance_ind. Qed.
Print Assumptions C07_equivariance.

(** ... and leaves every population node (totals included) unchanged when sums do not depend on the order. *)
Theorem C07_equivariance_totals : forall (A : Type) (add : A -> A -> A) (G : graph) (fs : nat -> nodefun A),
  well_typed G = true ->
  forall p n (inp inp' : nat -> value A), Permutation p (seq 0 n) ->
  (forall x y, add x y = add y x) -> (forall x y z, add x (add y z) = add (add x y) z) ->
  indep_inputs_related A G (fun v v' => v' = reindex A p v) inp inp' ->
  forall i nd, nth_error (g_nodes G) i = Some nd ->
  forall v, eval A add G fs inp n i = Some v ->
    match n_sig nd with
    | Ind => eval A add G fs inp' n i = Some (reindex A p v)
    | Pop => eval A add G fs inp' n i = Some v
    end.
Proof. exact equivariance_all. Qed.
Print Assumptions C07_equivariance_totals.

(** Non-vacuity of the above: on well-formed inputs every node of a well-typed graph evaluates, to a value of the
    shape its signature announces. *)
Theorem C07_evaluates : forall (A : Type) (add : A -> A -> A) (G : graph) (fs : nat -> nodefun A),
  well_typed G = true ->
  forall (inp : nat -> value A) n, inputs_wf A (g_nodes G) inp n ->
  forall i nd, nth_error (g_nodes G) i = Some nd ->
    exists v, eval A add G fs inp n i = Some v /\
      match n_sig nd with
      | Ind => exists rows, v = VInd rows /\ length rows = n
      | Pop => exists r, v = VPop r
      end.
Proof. exact progress_thm. Qed.
Print Assumptions C07_evaluates.

(** The from-scratch evaluation is consistent: every node holds its function of its parents' final values. *)
Theorem C07_consistent : forall (A : Type) (add : A -> A -> A) (G : graph) (fs : nat -> nodefun A),
  well_typed G = true ->
  forall (inp : nat -> value A) n i, i < length (g_nodes G) ->
    eval A add G fs inp n i = eval_node A add (g_nodes G) fs inp n (eval A add G fs inp n) i.
Proof. exact fixpoint_thm. Qed.
Print Assumptions C07_consistent.

(** Totals: a [ReduceInd] node is the sum over the individuals of a per-row term ... *)
Theorem C07_totals : forall (A : Type) (add : A -> A -> A) (G : graph) (fs : nat -> nodefun A),
  well_typed G = true ->
  forall (inp : nat -> value A) n i nd vs, nth_error (g_nodes G) i = Some nd -> n_kind nd = Linked ReduceInd ->
  gather (eval A add G fs inp n) (n_parents nd) = Some vs ->
  eval A add G fs inp n i =
    Some (VPop (vsum A add (map (fun j => frow (fs i) (pops_of A vs) (slice A j (inds_of A vs))) (seq 0 n)))).
Proof. exact totals_thm. Qed.
Print Assumptions C07_totals.

(** ... and when nothing else is left to reduce (nll_attach = SumDim(nll_attach_ind)) it is the sum of the rows of
    its operand: nll_attach = sum_j nll_attach_ind[j]. *)
Theorem C07_totals_rows : forall (A : Type) (add : A -> A -> A) (G : graph) (fs : nat -> nodefun A),
  well_typed G = true ->
  forall (inp : nat -> value A) n i nd q rows, nth_error (g_nodes G) i = Some nd -> n_kind nd = Linked ReduceInd ->
  n_parents nd = [q] -> eval A add G fs inp n q = Some (VInd rows) -> length rows = n ->
  (forall r, frow (fs i) [] [r] = r) ->
  eval A add G fs inp n i = Some (VPop (vsum A add rows)).
Proof. exact totals_rows_thm. Qed.
Print Assumptions C07_totals_rows.

(** The individual sampler: decision, resulting row, adapted std and acceptance history of the individual at position
    j are functions of its own row of the data and latent values, the population inputs, and the entries at position j
    of the std vector, of the history and of the random tape — for any proposal, decision and adaptation arithmetic. *)
Theorem C07_sampler_rows : forall (A : Type) (add : A -> A -> A) (zero : A)
    (propose : A -> row A -> row A -> row A) (decide : list (row A) -> list (row A) -> A -> A -> bool)
    (adapt : A -> list bool -> A) (G : graph) (fs : nat -> nodefun A)
    n1 n2 j1 j2 (inp1 inp2 : nat -> value A) var reads std1 std2 hist1 hist2 tp1 tp2 tinv trigger r1 r2,
  j1 < n1 -> j2 < n2 ->
  indep_inputs_related A G (fun v1 v2 => reindex A [j1] v1 = reindex A [j2] v2) inp1 inp2 ->
  (exists nd, nth_error (g_nodes G) var = Some nd /\ n_kind nd = Indep) ->
  (forall q, In q reads -> exists l, level_at G q = Some l /\ l <> LAgg) ->
  nth j1 std1 zero = nth j2 std2 zero ->
  nth j1 hist1 [] = nth j2 hist2 [] ->
  nth j1 (t_eps tp1) [] = nth j2 (t_eps tp2) [] ->
  nth j1 (t_u tp1) zero = nth j2 (t_u tp2) zero ->
  sample_step A add zero propose decide adapt G fs inp1 n1 var reads std1 hist1 tp1 tinv trigger = Some r1 ->
  sample_step A add zero propose decide adapt G fs inp2 n2 var reads std2 hist2 tp2 tinv trigger = Some r2 ->
  nth j1 (r_acc r1) false = nth j2 (r_acc r2) false /\
  nth j1 (r_rows r1) [] = nth j2 (r_rows r2) [] /\
  nth j1 (r_std r1) zero = nth j2 (r_std r2) zero /\
  nth j1 (r_hist r1) [] = nth j2 (r_hist r2) [].
Proof. exact sampler_rows_thm. Qed.
Print Assumptions C07_sampler_rows.

(** What the step computes at position j, written with position-j entries only (this is the form the harness compares
    with the recorded draws, decisions, rows, histories and stds of the real sampler). *)
Theorem C07_sampler_row_form : forall (A : Type) (add : A -> A -> A) (zero : A)
    (propose : A -> row A -> row A -> row A) (decide : list (row A) -> list (row A) -> A -> A -> bool)
    (adapt : A -> list bool -> A) (G : graph) (fs : nat -> nodefun A)
    n j (inp : nat -> value A) var reads std hist tp tinv trigger r xs,
  j < n -> inp var = VInd xs ->
  sample_step A add zero propose decide adapt G fs inp n var reads std hist tp tinv trigger = Some r ->
  (exists before after,
      gather (eval A add G fs inp n) reads = Some before /\
      gather (eval A add G fs (set_input A inp var (VInd (proposal_rows A zero propose n std xs tp))) n) reads = Some after /\
      nth j (r_acc r) false = decide (map (vrow A j) before) (map (vrow A j) after) tinv (nth j (t_u tp) zero)) /\
  nth j (r_rows r) [] = (if nth j (r_acc r) false
                         then propose (nth j std zero) (nth j xs []) (nth j (t_eps tp) []) else nth j xs []) /\
  nth j (r_hist r) [] = (tl (nth j hist []) ++ [nth j (r_acc r) false]) /\
  nth j (r_std r) zero = (if trigger then adapt (nth j std zero) (nth j (r_hist r) []) else nth j std zero).
Proof. exact sampler_row_form_thm. Qed.
Print Assumptions C07_sampler_row_form.

(** Every shipped model kind (graph literals regenerated from the running code): well typed; the per-individual terms
    read by the samplers and by the personalisation algorithms are per-individual nodes; the individual latent
    variables are per-individual inputs; each listed total is a [ReduceInd] of its per-individual operand. *)
Theorem C07_shipped_well_typed :
  forallb shipped_ok shipped = true /\ length shipped = shipped_expected.
Proof. split; vm_compute; reflexivity. Qed.
Print Assumptions C07_shipped_well_typed.

(** Hence locality for the graphs the code builds today. *)
Theorem C07_shipped_locality : forall s, In s shipped ->
  forall (A : Type) (add : A -> A -> A) (fs : nat -> nodefun A)
    n1 n2 j1 j2 (inp1 inp2 : nat -> value A), j1 < n1 -> j2 < n2 ->
  indep_inputs_related A (sg_graph s) (fun v1 v2 => reindex A [j1] v1 = reindex A [j2] v2) inp1 inp2 ->
  forall i nd, nth_error (g_nodes (sg_graph s)) i = Some nd -> n_sig nd = Ind ->
  forall v1 v2, eval A add (sg_graph s) fs inp1 n1 i = Some v1 -> eval A add (sg_graph s) fs inp2 n2 i = Some v2 ->
    vrow A j1 v1 = vrow A j2 v2.
Proof.
  intros s Hs A add fs. apply locality_ind.
  pose proof (proj1 C07_shipped_well_typed) as H. rewrite forallb_forall in H. specialize (H s Hs).
  unfold shipped_ok in H. repeat (apply andb_true_iff in H; destruct H as [H _]). exact H.
Qed.
Print Assumptions C07_shipped_locality.

(** The checker is not decorative: the graph in which a per-individual node reads a batch total is rejected, and on
    it the row of individual 0 does change when only individual 1's observations change. *)
Theorem C07_illtyped_rejected_and_not_local :
  well_typed toy = true /\ well_typed toy_bad = false /\
  vrow Z 0 (match eval Z Z.add toy_bad toy_fs (toy_inp ys1) 3 6 with Some v => v | None => VPop [] end) <>
  vrow Z 0 (match eval Z Z.add toy_bad toy_fs (toy_inp ys2) 3 6 with Some v => v | None => VPop [] end).
Proof. split; [exact toy_well_typed | split; [exact toy_bad_rejected | exact toy_bad_not_local]]. Qed.
Print Assumptions C07_illtyped_rejected_and_not_local.

(** Extension — which nodes [IndividualGibbsSampler.sample] reads is no longer taken from the source by hand: every use of
    `state` in that method, the decision expression of `_group_metropolis_step`, the std update and the shapes of the
    adapted std / acceptance window, regenerated with python `ast`, ARE the header of Locality/SamplerRows.v. *)
Theorem C07_sample_reads_tie :
  gen_sample_reads = sample_reads /\ gen_sample_writes = sample_writes /\ gen_group_decision = group_decision /\
  gen_std_update = std_update /\ gen_acceptation_update = acceptation_update /\
  gen_shape_adapted_std = shape_adapted_std /\ gen_shape_acceptation = shape_acceptation.
Proof. exact sample_reads_tie. Qed.
Print Assumptions C07_sample_reads_tie.

(** ... and in every shipped graph, for every individual latent variable, each of these nodes carries the individual axis
    and is not an aggregate over individuals (the hypothesis of [C07_sampler_rows] on [reads]). *)
Theorem C07_sample_reads_local : sample_reads_local shipped shipped_reads = true /\ length shipped_reads = shipped_expected.
Proof. split; vm_compute; reflexivity. Qed.
Print Assumptions C07_sample_reads_local.
