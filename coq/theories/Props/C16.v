(** C16 — individual-parameter containers convert losslessly.
    Property theorems only; the model is Io/IndivParams.v (written line by line from
    src/leaspy/io/outputs/individual_parameters.py), the proofs are in Io/IndivParamsProofs.v. *)
From Coq Require Import List String Ascii Bool Arith QArith Permutation.
From Leaspy Require Import Io.IndivParams Io.IndivParamsProofs Io.IndivParamsSrc Io.IndivParamsSrcProofs Io.IndivParamsSrcTie.
From LeaspyGen Require Import GenC16.
Import ListNotations.
Open Scope string_scope.

(* ------------------------------------------------------------------------------------------ additions *)

(** An addition with a non-string ID, an ID already present, a non-dict, a value whose type test fails
    (unsupported scalar type, empty list / array, >= 2-d array, list whose FIRST element is unsupported) or a shape
    dict different from the first entry's is rejected with the input error, and the container is unchanged.
    Partial: "unsupported value type" is the code's test, which looks at the first element of a list only
    (see [C16_add_tail_refuted]). *)
Theorem C16_add_rejects_partial : forall (c : container) (id : pyid) (arg : pyarg),
  id = IdNotStr
  \/ (exists s, id = IdStr s /\ In s (indices c))
  \/ arg = ArgNotDict
  \/ (exists d, arg = ArgDict d /\
        (Exists (fun kv => head_unsupported (snd kv)) d
         \/ exists sh, shapes c = Some sh /\ shapes_eqb sh (pshapes d) = false)) ->
  add c id arg = Rejected InputError /\ after_add c id arg = c.
Proof. exact add_rejects. Qed.
Print Assumptions C16_add_rejects_partial.

(** non-vacuity: each disjunct is met (bool, str, None, empty list, 2-d array, np.float16, junk first element) *)
Example C16_head_unsupported_examples :
  head_unsupported (VAtom ABool) /\ head_unsupported (VAtom AStr) /\ head_unsupported (VAtom ANone) /\
  head_unsupported (VAtom AOther) /\ head_unsupported (VList []) /\ head_unsupported (VArr1 false []) /\
  (forall n, head_unsupported (VArrNd n)) /\ (forall q, head_unsupported (VAtom (ANum KNpOther q))) /\
  (forall a l, atom_valid a = false -> head_unsupported (VList (a :: l))).
Proof. exact head_unsupported_cases. Qed.

Example C16_shape_mismatch_example :
  shapes_eqb [("xi", [1%nat]); ("sources", [2%nat])] (pshapes [("xi", VList [ANum KFloat 1]); ("sources", VList [ANum KFloat 1])]) = false
  /\ shapes_eqb [("xi", [1%nat]); ("sources", [2%nat])] (pshapes [("xi", VList [ANum KFloat 1])]) = false
  /\ shapes_eqb [("xi", [1%nat]); ("sources", [2%nat])]
       (pshapes [("sources", VArr1 false [1; 2]); ("xi", VList [ANum KInt 1])]) = true.   (* key order is irrelevant *)
Proof. repeat split. Qed.

(** The full statement fails: a list whose later elements are not numbers is accepted. *)
Theorem C16_add_tail_refuted :
  exists (c : container) (s : string) (d : list (string * pyval)),
    Exists (fun kv => fully_supported (snd kv) = false) d /\ ~ In s (indices c)
    /\ add c (IdStr s) (ArgDict d) = AcceptedOutsideModel.
Proof.
  exists empty, "a", [("sources", VList [ANum KFloat (1 # 10); AStr])]. split; [|split].
  - constructor. reflexivity.
  - intros [].
  - reflexivity.
Qed.
Print Assumptions C16_add_tail_refuted.

(** A well-formed addition (fresh string ID, every value a number of a supported type or a non-empty list / 1-d array
    of such numbers, shape dict equal to the first entry's) is accepted: the ID is appended, the entry stored with the
    names and shapes given, the shapes of the first entry kept. *)
Theorem C16_add_accepts : forall (c : container) (s : string) (d : list (string * pyval)),
  ~ In s (indices c) ->
  Forall (fun kv => fully_supported (snd kv) = true) d ->
  (forall sh, shapes c = Some sh -> shapes_eqb sh (pshapes d) = true) ->
  exists e, store_all (map (fun kv => (fst kv, tolist (snd kv))) d) = Some e
    /\ entry_shapes e = pshapes d /\ map fst e = map fst d
    /\ add c (IdStr s) (ArgDict d) =
       Added (mkC (indices c ++ [s]) (params c ++ [(s, e)])
                  (Some (match shapes c with None => pshapes d | Some sh => sh end))).
Proof. exact add_accepts. Qed.
Print Assumptions C16_add_accepts.

(** The invariant [wf] (IDs = keys of the parameter dict, no duplicate ID, every entry has exactly the names and shapes of
    the shape dict, no empty vector) holds of the empty container and is kept by every accepted addition of a python dict
    (a dict has no duplicate key).  Every theorem below that assumes [wf c] therefore applies to every container that
    additions can build. *)
Theorem C16_wf_reachable :
  wf empty /\
  forall c id arg c', wf c -> (forall d, arg = ArgDict d -> NoDup (map fst d)) -> add c id arg = Added c' -> wf c'.
Proof. split; [exact wf_empty | exact wf_add]. Qed.
Print Assumptions C16_wf_reachable.

(* ------------------------------------------------------------------------------------------ json *)

(** save(json) / load: exact for every shape (scalar, length-1, length-n) — IDs, their order, names, their order, shapes
    and values come back as they were; the python type of a number too, except that np.float64 comes back as float.
    Hypothesis [json_serialisable]: no np.float32 / np.int32 / np.int64 scalar is stored (see [C16_json_numpy_refuted]). *)
Theorem C16_json_roundtrip : forall (c : container) (sh : shapes_t),
  shapes c = Some sh -> json_serialisable c = true ->
  exists j, to_json c = Ok j
    /\ from_json j = mkC (indices c) (params_map (value_map_kind kind_after_json) (params c)) (Some sh)
    /\ (native c = true -> from_json j = c).
Proof. exact json_roundtrip. Qed.
Print Assumptions C16_json_roundtrip.

Example C16_json_roundtrip_example :
  exists c, add_all empty [(IdStr "007", ArgDict [("xi", VAtom (ANum KFloat (1 # 2))); ("tau", VAtom (ANum KInt 70)); ("sources", VList [ANum KFloat (1 # 4); ANum KFloat (-3 # 4)])])] = Ok c
            /\ shapes c <> None /\ json_serialisable c = true /\ native c = true.
Proof. eexists. split; [vm_compute; reflexivity|]. repeat split. discriminate. Qed.

(** ... and without that hypothesis it fails: np.float32 is an accepted value type that json.dump refuses. *)
Theorem C16_json_numpy_refuted :
  exists c, add_all empty [(IdStr "a", ArgDict [("xi", VAtom (ANum KNpFloat32 (1 # 2)))])] = Ok c
            /\ to_json c = Err Crash.
Proof. eexists. split; vm_compute; reflexivity. Qed.
Print Assumptions C16_json_numpy_refuted.

(* ------------------------------------------------------------------------------------------ tensors *)

(** to_pytorch / from_pytorch, for every container additions can build (scalar, length-1 and length-n parameters alike)
    and every rounding function [rnd] (float32 rounding in the code): to_pytorch succeeds, returns the IDs in order and
    one tensor per parameter in the order of the shape dict, each with one row per ID; reading it back gives the same IDs
    in the same order, every entry with the same names (in shape-dict order), every value the vector of the rounded
    cells: a scalar () comes back as a vector (1,) — the documented "always 2D" — and sizes are otherwise unchanged. *)
Theorem C16_torch_roundtrip : forall (rnd : Q -> Q) (c : container) (sh : shapes_t),
  wf c -> shapes c = Some sh ->
  to_pytorch rnd c = Ok (indices c, torch_dict rnd c sh)
  /\ map fst (torch_dict rnd c sh) = map fst sh
  /\ Forall (fun kt => List.length (snd kt) = List.length (indices c)) (torch_dict rnd c sh)
  /\ from_pytorch (map IdStr (indices c)) (map (fun kt => (fst kt, T2 (snd kt))) (torch_dict rnd c sh))
     = Ok (vec_container rnd c sh).
Proof. exact torch_roundtrip. Qed.
Print Assumptions C16_torch_roundtrip.

(** [vec_container] keeps every name: the names of every entry are a permutation of those of the shape dict *)
Theorem C16_names_kept : forall (sh : shapes_t) (e : entry),
  NoDup (map fst sh) -> entry_wf sh e -> Permutation (map fst sh) (map fst e).
Proof. exact entry_wf_names. Qed.
Print Assumptions C16_names_kept.

Example C16_torch_example :
  exists c, add_all empty [(IdStr "007", ArgDict [("xi", VAtom (ANum KFloat (1 # 2))); ("sources", VList [ANum KInt 3; ANum KFloat (-3 # 4)])]);
                           (IdStr "1e3", ArgDict [("sources", VArr1 false [1 # 4; 5]); ("xi", VAtom (ANum KNpFloat32 2))])] = Ok c
    /\ wf c
    /\ vec_container (fun q => q) c [("xi", []); ("sources", [2%nat])]
       = mkC ["007"; "1e3"]
             [("007", [("xi", Vec [(KFloat, 1 # 2)]); ("sources", Vec [(KFloat, 3); (KFloat, -3 # 4)])]);
              ("1e3", [("xi", Vec [(KFloat, 2)]); ("sources", Vec [(KFloat, 1 # 4); (KFloat, 5)])])]
             (Some [("xi", [1%nat]); ("sources", [2%nat])]).
Proof.
  eexists. split; [vm_compute; reflexivity|]. split; [|vm_compute; reflexivity].
  unfold wf. simpl. repeat split; try discriminate; repeat constructor; simpl; intuition discriminate.
Qed.

(* ------------------------------------------------------------------------------------------ table *)

(** to_dataframe / from_dataframe.  Partial: for names without '_' (and different from the index label "ID") and
    vector-valued parameters only ([table_safe]); then to_dataframe succeeds and reading the table back gives the same IDs
    in the same order, the same names, the same shapes and the same values, every value as a list of floats (a list or a
    1-d array on the way in).  What is missing from the property: scalar parameters ([C16_scalar_refuted]) and names
    with '_' ([C16_underscore_refuted]). *)
Theorem C16_table_roundtrip_partial : forall (c : container) (sh : shapes_t),
  wf c -> shapes c = Some sh -> table_safe sh ->
  to_dataframe c = Ok (table_of c sh)
  /\ from_dataframe (table_of c sh) = Ok (vec_container (fun q => q) c sh)
  /\ map (fun ps => (fst ps, [size_of_shape (snd ps)])) sh = sh.
Proof. exact table_roundtrip. Qed.
Print Assumptions C16_table_roundtrip_partial.

Example C16_table_safe_example :
  table_safe [("xi", [1%nat]); ("tau", [1%nat]); ("sources", [3%nat]); ("source", [1%nat])]
  /\ map colsf [("xi", [1%nat]); ("sources", [2%nat]); ("source", [1%nat])] = [["xi"]; ["sources_0"; "sources_1"]; ["source_0"]].
Proof. split; [|reflexivity]. unfold table_safe, no_underscore. repeat constructor; simpl; discriminate. Qed.

(** F7a: the docstring example of add_individual_parameters cannot be converted to a table. *)
Theorem C16_scalar_refuted :
  exists c, add_all empty [(IdStr "index-1", ArgDict [("xi", VAtom (ANum KFloat (1 # 10))); ("tau", VAtom (ANum KInt 70));
                                                      ("sources", VList [ANum KFloat (1 # 10); ANum KFloat (-3 # 10)])])] = Ok c
            /\ to_dataframe c = Err Crash.
Proof. eexists. split; vm_compute; reflexivity. Qed.
Print Assumptions C16_scalar_refuted.

(** F7b: the LME model's parameter names come back merged into one parameter "random" of length 2. *)
Theorem C16_underscore_refuted :
  exists c t c', add_all empty [(IdStr "a", ArgDict [("random_intercept", VList [ANum KFloat (1 # 2)]);
                                                     ("random_slope_age", VList [ANum KFloat (1 # 4)])])] = Ok c
    /\ to_dataframe c = Ok t /\ from_dataframe t = Ok c'
    /\ shapes c' = Some [("random", [2%nat])].
Proof. do 3 eexists. repeat split; vm_compute; reflexivity. Qed.
Print Assumptions C16_underscore_refuted.

(* ------------------------------------------------------------------------------------------ csv, paths, empty *)

(** save(csv) / load.  Partial: as the table round trip, for non-empty names and IDs that are not one of pandas'
    missing-value tokens ([C16_csv_na_id_refuted]); numeric-looking IDs ("007", "1e3") come back as the same strings. *)
Theorem C16_csv_roundtrip_partial : forall (c : container) (sh : shapes_t),
  wf c -> shapes c = Some sh -> table_safe sh ->
  Forall (fun ps => fst ps <> "") sh -> Forall (fun i => ~ In i na_tokens) (indices c) ->
  csv_roundtrip c = Ok (vec_container (fun q => q) c sh).
Proof. exact csv_roundtrip_ok. Qed.
Print Assumptions C16_csv_roundtrip_partial.

Example C16_csv_example :
  exists c, add_all empty [(IdStr "007", ArgDict [("xi", VList [ANum KFloat (1 # 2)]); ("sources", VList [ANum KInt 3; ANum KFloat (-3 # 4)])]);
                           (IdStr "1e3", ArgDict [("xi", VArr1 false [2]); ("sources", VList [ANum KFloat (1 # 4); ANum KFloat 5])])] = Ok c
    /\ Forall (fun i => ~ In i na_tokens) (indices c)
    /\ csv_roundtrip c = Ok (vec_container (fun q => q) c [("xi", [1%nat]); ("sources", [2%nat])]).
Proof.
  eexists. split; [vm_compute; reflexivity|]. split; [|vm_compute; reflexivity].
  simpl. repeat constructor; simpl; intuition discriminate.
Qed.

(** An ID that pandas reads as a missing value ("NA", "nan", "null", "None", "", ...) does not survive csv. *)
Theorem C16_csv_na_id_refuted :
  exists c c', add_all empty [(IdStr "NA", ArgDict [("xi", VList [ANum KFloat (1 # 2)])])] = Ok c
    /\ (do t <- to_dataframe c; from_dataframe t) = Ok c' /\ indices c' = ["NA"]
    /\ csv_roundtrip c = Err InputError.
Proof. do 2 eexists. repeat split; vm_compute; reflexivity. Qed.
Print Assumptions C16_csv_na_id_refuted.

(** The empty container cannot be converted at all, although both readers produce it. *)
Theorem C16_empty_refuted : forall rnd,
  to_dataframe empty = Err Crash /\ to_pytorch rnd empty = Err Crash
  /\ from_dataframe (mkT [] []) = Ok empty /\ from_pytorch [] [] = Ok empty.
Proof. intros rnd. repeat split. Qed.
Print Assumptions C16_empty_refuted.

(** Extension handling of save / load (os.path.splitext): no extension -> save appends ".csv" but load refuses the same
    path; "csv" / "json" -> the corresponding round trip; anything else (including "" after a trailing dot, "CSV") is
    refused by both with the input error. *)
Theorem C16_save_load_extension : forall (c : container) (p : string),
  shapes c <> None ->
  (get_extension p = None -> save_target c p = Ok (p ++ ".csv", Csv) /\ load_format p = Err InputError)
  /\ (get_extension p = Some "csv" -> save_target c p = Ok (p, Csv) /\ save_load c p p = csv_roundtrip c)
  /\ (get_extension p = Some "json" -> save_target c p = Ok (p, Json) /\ save_load c p p = (do j <- to_json c; Ok (from_json j)))
  /\ (forall e, get_extension p = Some e -> e <> "csv" -> e <> "json" ->
        save_target c p = Err InputError /\ load_format p = Err InputError).
Proof. exact save_load_extension. Qed.
Print Assumptions C16_save_load_extension.

Example C16_extension_examples :
  map get_extension ["foo"; "foo."; "foo.txt"; ".csv"; "a.b/foo"; "foo.tar.csv"; "x/..a.json"; "foo.CSV"]
  = [None; Some ""; Some "txt"; None; None; Some "csv"; Some "json"; Some "CSV"].
Proof. reflexivity. Qed.

(* ------------------------------------------------------------------------------------------ source level (T1) *)

(** From here on the statements are about [gen_*]: the tables REGENERATED on every run from the python source of
    individual_parameters.py (gen/GenC16.v, harness/translate/c16_container.py), run by the interpreter of Io/IndivParamsSrc.v. *)

(** [add_individual_parameters] as the ordered program read from the source, with the type table read from the source, computes
    the hand-written [add] — and, which the hand-written model only asserted, a rejection leaves the three attributes as they
    were ([SRaised e c] carries the object at the moment the exception leaves the method).  [keys_agree] (identifiers = keys of
    the parameter dict, part of [wf]) is needed because [d[index] = ...] would otherwise overwrite. *)
Theorem C16_src_add_is_model : forall (c : container) (id : pyid) (arg : pyarg),
  keys_agree c -> src_add gen_types gen_add c id arg = lift_add c (add c id arg).
Proof. exact gen_add_is_model. Qed.
Print Assumptions C16_src_add_is_model.

Example C16_src_keys_agree_example : keys_agree empty /\ forall c, wf c -> keys_agree c.
Proof. split; [reflexivity | exact wf_keys_agree]. Qed.

(** ... and [keys_agree] is kept by every accepted source-level addition, so every sequence of calls (the way [from_dataframe],
    [from_pytorch], [subset] and every user build a container) computes the model's [add_all]; from the empty object no hypothesis
    is left. *)
Theorem C16_src_add_all_is_model :
  (forall c id arg c', keys_agree c -> src_add gen_types gen_add c id arg = SAdded c' -> keys_agree c')
  /\ (forall c l, keys_agree c -> src_add_all gen_types gen_add c l = add_all c l)
  /\ (forall l, src_add_all gen_types gen_add empty l = add_all empty l).
Proof.
  split; [exact gen_keys_agree_kept|]. split; [exact gen_add_all_is_model | intros l; apply gen_add_all_is_model; reflexivity].
Qed.
Print Assumptions C16_src_add_all_is_model.

(** [C16_add_rejects_partial] over the regenerated program: same four kinds of malformed addition, the input error, and the
    object untouched — without any hypothesis on the container. *)
Theorem C16_src_add_rejects_partial : forall (c : container) (id : pyid) (arg : pyarg),
  id = IdNotStr
  \/ (exists s, id = IdStr s /\ In s (indices c))
  \/ arg = ArgNotDict
  \/ (exists d, arg = ArgDict d /\
        (Exists (fun kv => head_unsupported (snd kv)) d
         \/ exists sh, shapes c = Some sh /\ shapes_eqb sh (pshapes d) = false)) ->
  src_add gen_types gen_add c id arg = SRaised InputError c.
Proof. exact gen_add_rejects. Qed.
Print Assumptions C16_src_add_rejects_partial.

(** [bool] derives from [int]: the source refuses it because its test is [type(v) in [...]] (identity), not [isinstance]. *)
Theorem C16_src_bool_rejected : forall (c : container) (id : pyid) (k : string) (d1 d2 : list (string * pyval)),
  src_add gen_types gen_add c id (ArgDict (d1 ++ (k, VAtom ABool) :: d2)) = SRaised InputError c
  /\ src_type_ok gen_types (VAtom ABool) = false /\ src_type_ok gen_types (VList [ABool]) = false.
Proof. exact gen_add_bool_rejected. Qed.
Print Assumptions C16_src_bool_rejected.

(** ... and the same list under [isinstance] would accept it: the distinction is not vacuous *)
Example C16_src_isinstance_would_accept_bool :
  src_type_ok (mkTT IsInstance (tt_types gen_types) FirstElement) (VAtom ABool) = true
  /\ src_add ref_types dup_after_insert empty (IdStr "a") (ArgDict [("xi", VAtom (ANum KFloat 1))])
     = SRaised InputError (mkC ["a"] [] (Some [("xi", [])])).
Proof. split; reflexivity. Qed.

Theorem C16_src_add_accepts : forall (c : container) (s : string) (d : list (string * pyval)),
  keys_agree c -> ~ In s (indices c) ->
  Forall (fun kv => fully_supported (snd kv) = true) d ->
  (forall sh, shapes c = Some sh -> shapes_eqb sh (pshapes d) = true) ->
  exists e, store_all (map (fun kv => (fst kv, tolist (snd kv))) d) = Some e
    /\ entry_shapes e = pshapes d /\ map fst e = map fst d
    /\ src_add gen_types gen_add c (IdStr s) (ArgDict d) =
       SAdded (mkC (indices c ++ [s]) (params c ++ [(s, e)])
                   (Some (match shapes c with None => pshapes d | Some sh => sh end))).
Proof. exact gen_add_accepts. Qed.
Print Assumptions C16_src_add_accepts.

(** the conversions with the iteration sources, the label rule and the cut rule read from the source are the hand-written ones *)
Theorem C16_src_conversions_are_model :
  (forall c, src_to_dataframe gen_df_rows_from gen_col_rule c = to_dataframe c)
  /\ (forall t, src_from_dataframe gen_types gen_add gen_split_rule t = from_dataframe t)
  /\ (forall ids d, src_from_pytorch gen_types gen_add ids d = from_pytorch ids d)
  /\ (forall rnd c, src_to_pytorch rnd gen_torch_iter c = to_pytorch rnd c)
  /\ (forall c ids, src_subset gen_types gen_add gen_subset_rule c ids = subset c ids)
  /\ (forall p, src_load_format gen_load_dispatch p = load_format p)
  /\ (forall c p, src_save_target gen_save_rule c p = save_target c p)
  /\ (forall c, src_csv_roundtrip gen_types gen_add gen_df_rows_from gen_col_rule gen_split_rule c = csv_roundtrip c).
Proof. exact gen_conversions_are_model. Qed.
Print Assumptions C16_src_conversions_are_model.

(** order preservation and the tensor round trip, for [to_pytorch] iterating what the SOURCE iterates *)
Theorem C16_src_torch_roundtrip : forall (rnd : Q -> Q) (c : container) (sh : shapes_t),
  wf c -> shapes c = Some sh ->
  src_to_pytorch rnd gen_torch_iter c = Ok (indices c, torch_dict rnd c sh)
  /\ map fst (torch_dict rnd c sh) = map fst sh
  /\ Forall (fun kt => List.length (snd kt) = List.length (indices c)) (torch_dict rnd c sh)
  /\ src_from_pytorch gen_types gen_add (map IdStr (indices c)) (map (fun kt => (fst kt, T2 (snd kt))) (torch_dict rnd c sh))
     = Ok (vec_container rnd c sh).
Proof. exact gen_torch_roundtrip. Qed.
Print Assumptions C16_src_torch_roundtrip.

(** iterating the dict instead of the index list is invisible on containers built by additions and visible on others *)
Example C16_src_dict_order_example :
  (forall rnd c, keys_agree c -> src_to_pytorch rnd (mkTI SrcParamKeys SrcIndices) c = to_pytorch rnd c)
  /\ let c := mkC ["b"; "a"] [("a", [("xi", Vec [(KFloat, 1)])]); ("b", [("xi", Vec [(KFloat, 2)])])] (Some [("xi", [1%nat])]) in
     src_to_pytorch (fun q => q) (mkTI SrcParamKeys SrcIndices) c = Ok (["b"; "a"], [("xi", [[1]; [2]])])
     /\ to_pytorch (fun q => q) c = Ok (["b"; "a"], [("xi", [[2]; [1]])]).
Proof. split; [exact src_to_pytorch_dict_order | exact dict_order_differs]. Qed.

Theorem C16_src_table_roundtrip_partial : forall (c : container) (sh : shapes_t),
  wf c -> shapes c = Some sh -> table_safe sh ->
  src_to_dataframe gen_df_rows_from gen_col_rule c = Ok (table_of c sh)
  /\ src_from_dataframe gen_types gen_add gen_split_rule (table_of c sh) = Ok (vec_container (fun q => q) c sh)
  /\ map (fun ps => (fst ps, [size_of_shape (snd ps)])) sh = sh.
Proof. exact gen_table_roundtrip. Qed.
Print Assumptions C16_src_table_roundtrip_partial.

Theorem C16_src_csv_roundtrip_partial : forall (c : container) (sh : shapes_t),
  wf c -> shapes c = Some sh -> table_safe sh ->
  Forall (fun ps => fst ps <> "") sh -> Forall (fun i => ~ In i na_tokens) (indices c) ->
  src_csv_roundtrip gen_types gen_add gen_df_rows_from gen_col_rule gen_split_rule c = Ok (vec_container (fun q => q) c sh).
Proof. exact gen_csv_roundtrip. Qed.
Print Assumptions C16_src_csv_roundtrip_partial.

Theorem C16_src_scalar_refuted :
  exists c, add_all empty [(IdStr "index-1", ArgDict [("xi", VAtom (ANum KFloat (1 # 10))); ("tau", VAtom (ANum KInt 70));
                                                      ("sources", VList [ANum KFloat (1 # 10); ANum KFloat (-3 # 10)])])] = Ok c
            /\ src_to_dataframe gen_df_rows_from gen_col_rule c = Err Crash.
Proof. exact gen_scalar_refuted. Qed.
Print Assumptions C16_src_scalar_refuted.

Theorem C16_src_underscore_refuted :
  exists c t c', add_all empty [(IdStr "a", ArgDict [("random_intercept", VList [ANum KFloat (1 # 2)]);
                                                     ("random_slope_age", VList [ANum KFloat (1 # 4)])])] = Ok c
    /\ src_to_dataframe gen_df_rows_from gen_col_rule c = Ok t /\ src_from_dataframe gen_types gen_add gen_split_rule t = Ok c'
    /\ shapes c' = Some [("random", [2%nat])].
Proof. exact gen_underscore_refuted. Qed.
Print Assumptions C16_src_underscore_refuted.

(** the other cut ([rsplit]) is a different function: it is not what the source does today *)
Example C16_src_rsplit_differs :
  src_group_key (RSplitLast "_") "w_0_1" = "w_0" /\ src_group_key gen_split_rule "w_0_1" = "w".
Proof. split; reflexivity. Qed.

(** save(json) / load over the member table of [_save_json] and the attribute table of [_load_json] read from the source *)
Theorem C16_src_json_roundtrip : forall (c : container) (sh : shapes_t),
  shapes c = Some sh -> json_serialisable c = true ->
  exists file, src_save_json gen_json_members c = Ok file
    /\ src_load_json (fill_of gen_builders) file empty
       = Ok (mkC (indices c) (params_map (value_map_kind kind_after_json) (params c)) (Some sh))
    /\ (native c = true -> src_load_json (fill_of gen_builders) file empty = Ok c).
Proof. exact gen_json_roundtrip. Qed.
Print Assumptions C16_src_json_roundtrip.

(** the attributes of an instance are the model's fields; only [__init__], [add_individual_parameters] and [_load_json] write
    them; [_load_json] assigns all three; every other builder goes through [add_individual_parameters]; what the duplicate test
    reads is an attribute the json reader fills (no private set left empty by a reader) *)
Theorem C16_src_load_fills :
  gen_attributes = ["_indices"; "_individual_parameters"; "_parameters_shape"; "_default_saving_type"]
  /\ gen_writers = ["__init__"; "add_individual_parameters"; "_load_json"]
  /\ (forall f, filled (fill_of gen_builders) f = true)
  /\ (forall m b, In (m, b) gen_builders -> m <> "_load_json" -> b = ViaAdd \/ b = ViaMethod "from_dataframe")
  /\ (forall s, In s (dup_sources gen_add) -> exists f, source_field s = Some f /\ filled (fill_of gen_builders) f = true).
Proof. exact gen_load_fills. Qed.
Print Assumptions C16_src_load_fills.
