(** C17 — personalization returns one aligned, finite, non-worsening estimate per subject.
    Property theorems only; each is closed by a lemma proved in Api/PersonalizeProofs.v / PersonalizeTie.v.
    Finiteness of the float results and the optimiser itself are outside the model (see docs/C17.md). *)
From Coq Require Import String ZArith QArith List Bool Reals.
From Leaspy Require Import Base.QAux Api.Personalize Api.PersonalizeProofs Api.PersonalizeTie.
From LeaspyGen Require Import GenC17.
Import ListNotations.

(** The draws kept are exactly the iterations after burn-in: nb+1 .. n_iter, once each, in order; none from
    burn-in; their number is n_iter - n_burn_in_iter. *)
Theorem C17_kept_draws : forall n nb : Z,
  kept_iterations n nb = zrange (Z.max 1 (nb + 1)) (n + 1) /\
  (forall k, In k (kept_iterations n nb) <-> (1 <= k <= n /\ nb < k)%Z) /\
  NoDup (kept_iterations n nb) /\
  ((0 <= nb <= n)%Z -> length (kept_iterations n nb) = Z.to_nat (n - nb)).
Proof.
  intros n nb. split; [apply kept_iterations_eq|]. split; [apply kept_iterations_spec|].
  split; [rewrite kept_iterations_eq; apply zrange_NoDup | apply kept_iterations_count].
Qed.
Print Assumptions C17_kept_draws.

(** With no iteration after burn-in nothing is returned (torch.stack of an empty list raises). *)
Theorem C17_no_kept_draw : forall c n nb ids dim, (n <= nb)%Z ->
  personalize_mode c n nb ids = Err EmptyHistory /\ personalize_mean c n nb ids dim = Err EmptyHistory.
Proof. exact personalize_no_kept_draw. Qed.
Print Assumptions C17_no_kept_draw.

(** mode_posterior: output aligned with the input identifiers; row i is the draw of individual i at a kept
    iteration k of minimal attachment + regularity among the kept iterations, the FIRST such iteration. *)
Theorem C17_mode : forall c n nb ids out,
  personalize_mode c n nb ids = Ok out ->
  aligned ids out /\
  forall i, (i < length ids)%nat -> exists k cl,
     kept n nb k /\ nth_error (c k) i = Some cl /\ nth_error (map snd out) i = Some (vals cl) /\
     (forall k' cl', kept n nb k' -> nth_error (c k') i = Some cl' -> (mode_loss cl <= mode_loss cl')%Q) /\
     (forall k' cl', kept n nb k' -> (k' < k)%Z -> nth_error (c k') i = Some cl' -> (mode_loss cl < mode_loss cl')%Q).
Proof. intros c n nb ids out H. apply personalize_mode_spec in H. unfold aligned. tauto. Qed.
Print Assumptions C17_mode.

(** ... and it does return (rows of the declared shape) on every well-shaped chain with a kept iteration,
    string identifiers without repetition. *)
Theorem C17_mode_total : forall c n nb ids dim,
  chain_ok c n (length ids) dim -> (nb < n)%Z -> (1 <= n)%Z -> all_strings ids -> NoDup (map id_string ids) ->
  exists out, personalize_mode c n nb ids = Ok out /\ Forall (fun e => length (snd e) = dim) out.
Proof. exact personalize_mode_total. Qed.
Print Assumptions C17_mode_total.

(** mean_posterior: aligned, rows of the declared shape, coordinate (i, j) is exactly the arithmetic mean of that
    coordinate over the iterations max(1, nb+1) .. n. *)
Theorem C17_mean : forall c n nb ids dim out,
  personalize_mean c n nb ids dim = Ok out ->
  aligned ids out /\ Forall (fun e => length (snd e) = dim) out /\
  forall i j, (i < length ids)%nat -> (j < dim)%nat ->
    exists x, entry (map snd out) i j = Some x /\
      x = (sumQ (map (fun k => coord_at c k i j) (zrange (Z.max 1 (nb + 1)) (n + 1)))
           / inject_Z (Z.of_nat (Z.to_nat (n + 1 - Z.max 1 (nb + 1)))))%Q.
Proof. intros c n nb ids dim out H. apply personalize_mean_spec in H. unfold aligned. tauto. Qed.
Print Assumptions C17_mean.

Theorem C17_mean_total : forall c n nb ids dim,
  chain_ok c n (length ids) dim -> (nb < n)%Z -> (1 <= n)%Z -> all_strings ids -> NoDup (map id_string ids) ->
  exists out, personalize_mean c n nb ids dim = Ok out.
Proof. exact personalize_mean_total. Qed.
Print Assumptions C17_mean_total.

(** Alignment of the container for any rows (used by both sampling algorithms and by the scipy path):
    keys = identifiers as strings, same order, one entry each, rows untouched. *)
Theorem C17_aligned : forall (P : Type) (ids : list pid) (rows : list P) out,
  from_pytorch ids rows = Ok out -> aligned ids out /\ map snd out = rows.
Proof. intros P ids rows out H. apply from_pytorch_ok in H. unfold aligned. tauto. Qed.
Print Assumptions C17_aligned.

Theorem C17_aligned_total : forall (P : Type) (ids : list pid) (rows : list P),
  length rows = length ids -> all_strings ids -> NoDup (map id_string ids) -> exists out, from_pytorch ids rows = Ok out.
Proof. exact @from_pytorch_total. Qed.
Print Assumptions C17_aligned_total.

(** Integer identifiers, which the data reader accepts, are refused by every algorithm: the faithful model
    violates "one entry per input individual" there (finding personalize:integer-ids). *)
Theorem C17_aligned_integer_ids_refuted :
  (exists c n nb ids dim, chain_ok c n (length ids) dim /\ (0 <= nb < n)%Z /\ NoDup ids /\
     personalize_mode c n nb ids = Err IdNotAString /\ personalize_mean c n nb ids dim = Err IdNotAString) /\
  (forall minimise scal objs starts, personalize_scipy minimise scal [IntId 3; IntId 7] objs starts = Err IdNotAString).
Proof. split; [exact integer_ids_refused | exact integer_ids_refused_scipy]. Qed.
Print Assumptions C17_aligned_integer_ids_refuted.

(** The slice table is a partition of the stacked vector into adjacent intervals of the declared widths. *)
Theorem C17_slices_partition : forall dims : list nat,
  length (slices dims) = length dims /\
  forall i s e, nth_error (slices dims) i = Some (s, e) ->
    s = sumn (firstn i dims) /\ e = (s + nth i dims O)%nat /\
    (nth_error (slices dims) (S i) = None -> e = total dims) /\
    (forall s' e', nth_error (slices dims) (S i) = Some (s', e') -> s' = e).
Proof. exact slices_partition. Qed.
Print Assumptions C17_slices_partition.

Theorem C17_stack_unstack : forall (A : Type) (dims : list nat),
  (forall x : list A, length x = total dims -> stack (unstack dims x) = x /\ map (@length _) (unstack dims x) = dims) /\
  (forall xs : list (list A), map (@length _) xs = dims -> unstack dims (stack xs) = xs).
Proof. intros A dims. split; [intros x L; split; [now apply stack_unstack | now apply unstack_lengths] | apply unstack_stack]. Qed.
Print Assumptions C17_stack_unstack.

(** Affine scaling: one coordinate, and the whole stacked vector, both ways (scale <> 0 suffices). *)
Theorem C17_scaling_roundtrip : forall loc scale x : R, (0 < scale)%R ->
  gen_unscale_R loc scale (gen_scale_R loc scale x) = x /\ gen_scale_R loc scale (gen_unscale_R loc scale x) = x.
Proof.
  intros loc scale x H. rewrite !tie_unscale_R, !tie_scale_R.
  split; [apply unscale_scale_1 | apply scale_unscale_1]; simpl; apply Rgt_not_eq; exact H.
Qed.
Print Assumptions C17_scaling_roundtrip.

Theorem C17_scaling_roundtrip_vector : forall scal,
  scal_ok scal ->
  (forall ips, map (@length _) ips = dims_of _ scal -> unscalingR scal (scalingR scal ips) = ips) /\
  (forall z, length z = total (dims_of _ scal) -> scalingR scal (unscalingR scal z) = z /\ map (@length _) (unscalingR scal z) = dims_of _ scal).
Proof.
  intros scal Hs. split; [intros; now apply scaling_roundtrip|].
  intros z L. split; [now apply unscaling_roundtrip | now apply unscaling_shape].
Qed.
Print Assumptions C17_scaling_roundtrip_vector.

(** Non-worsening, in natural coordinates and relative to the state's own start point — UNDER the hypothesis
    [minimise_monotone] on the optimiser: the code adds no guard of its own. *)
Theorem C17_non_worsening : forall (minimise : (list R -> R) -> list R -> list R) scal obj start,
  minimise_monotone minimise -> scal_ok scal -> map (@length _) start = dims_of _ scal ->
  (obj (personalize_one minimise scal obj start) <= obj start)%R.
Proof. exact non_worsening. Qed.
Print Assumptions C17_non_worsening.

(** ... and without it the clause fails in the model. *)
Theorem C17_non_worsening_needs_hypothesis :
  exists (minimise : (list R -> R) -> list R -> list R) scal obj start,
    scal_ok scal /\ map (@length _) start = dims_of _ scal /\
    ~ (obj (personalize_one minimise scal obj start) <= obj start)%R.
Proof. exact non_worsening_needs_hypothesis. Qed.
Print Assumptions C17_non_worsening_needs_hypothesis.

(** The cohort: aligned; row i is the optimisation of individual i's own objective from its own start. *)
Theorem C17_scipy_cohort : forall (minimise : (list R -> R) -> list R -> list R) scal ids objs starts out,
  personalize_scipy minimise scal ids objs starts = Ok out ->
  aligned ids out /\
  forall i obj start, nth_error objs i = Some obj -> nth_error starts i = Some start ->
    nth_error (map snd out) i = Some (personalize_one minimise scal obj start) /\
    (minimise_keeps_length minimise -> map (@length _) start = dims_of _ scal ->
       map (@length _) (personalize_one minimise scal obj start) = dims_of _ scal).
Proof.
  intros minimise scal ids objs starts out H. apply personalize_scipy_spec in H as (H1 & H2 & H3 & H4 & H5).
  split; [unfold aligned; tauto|]. intros i obj start Ho Hs. split; [now apply H5 | intros; now apply personalize_one_shape].
Qed.
Print Assumptions C17_scipy_cohort.

Theorem C17_scipy_total : forall (minimise : (list R -> R) -> list R -> list R) scal ids objs starts,
  all_strings ids -> NoDup (map id_string ids) -> length objs = length ids -> length starts = length ids ->
  exists out, personalize_scipy minimise scal ids objs starts = Ok out.
Proof. exact personalize_scipy_total. Qed.
Print Assumptions C17_scipy_total.

(** Tie: the rules regenerated from the current source are the model's rules. *)
Theorem C17_tie_keep : forall k nb, gen_keep k nb = keep k nb.
Proof. exact tie_keep. Qed.
Print Assumptions C17_tie_keep.
Theorem C17_tie_iterations : forall n, zrange gen_iter_lo (gen_iter_hi n) = iterations n.
Proof. exact tie_iterations. Qed.
Print Assumptions C17_tie_iterations.
Theorem C17_tie_axes : gen_mean_dim = 0%Z /\ gen_argmin_dim = 0%Z.
Proof. exact tie_axes. Qed.
Print Assumptions C17_tie_axes.
Theorem C17_tie_mode_loss : forall c, (gen_mode_loss (att c) (reg c) == mode_loss c)%Q.
Proof. exact tie_mode_loss. Qed.
Print Assumptions C17_tie_mode_loss.
Theorem C17_tie_scaling : forall loc scale x : R,
  gen_unscale_R loc scale x = unscale1 R Rplus Rmult (loc, scale) x /\ gen_scale_R loc scale x = scale1 R Rminus Rdiv (loc, scale) x.
Proof. intros. split; [apply tie_unscale_R | apply tie_scale_R]. Qed.
Print Assumptions C17_tie_scaling.
Theorem C17_tie_scaling_Q : forall loc scale x : Q,
  (gen_unscale_Q loc scale x == unscale1 Q Qplus Qmult (loc, scale) x)%Q /\ (gen_scale_Q loc scale x == scale1 Q Qminus Qdiv (loc, scale) x)%Q.
Proof. intros. split; [apply tie_unscale_Q | apply tie_scale_Q]. Qed.
Print Assumptions C17_tie_scaling_Q.
Theorem C17_tie_objective : forall attach regul ips, gen_obj_R (attach ips) (regul ips) = objective attach regul ips.
Proof. exact tie_objective. Qed.
Print Assumptions C17_tie_objective.
Theorem C17_tie_ids : gen_ids_must_be_strings = true /\ gen_duplicate_ids_refused = true.
Proof. exact tie_ids. Qed.
Print Assumptions C17_tie_ids.

(** * Annealing.  The temperature schedule is a parameter of the modelled run (Api/PersonalizeAnneal.v); a scheme with
    `annealing.n_plateau = 1` or `oscillations` ENDS at a temperature different from 1.  [C17_mode] is about the
    UNTEMPERED loss attachment + regularity: stated here for an annealed run, for every schedule, together with the
    fact that replacing the schedule by any other one leaves the answer unchanged. *)
From Leaspy Require Import Api.PersonalizeAnneal Api.PersonalizeAnnealProofs.

Theorem C17_mode_ignores_temperature : forall (c : chain) (tinv : Z -> Q) n nb ids out,
  personalize_mode_annealed (mkRun c tinv) n nb ids = Ok out ->
  (aligned ids out /\
   forall i, (i < length ids)%nat -> exists k cl,
     kept n nb k /\ nth_error (c k) i = Some cl /\ nth_error (map snd out) i = Some (vals cl) /\
     (forall k' cl', kept n nb k' -> nth_error (c k') i = Some cl' -> (mode_loss cl <= mode_loss cl')%Q) /\
     (forall k' cl', kept n nb k' -> (k' < k)%Z -> nth_error (c k') i = Some cl' -> (mode_loss cl < mode_loss cl')%Q)) /\
  (forall tinv' : Z -> Q, personalize_mode_annealed (mkRun c tinv') n nb ids = Ok out).
Proof. exact mode_ignores_temperature. Qed.
Print Assumptions C17_mode_ignores_temperature.

(** The annealed run is the plain model on its chain (so every C17_mode* / C17_mean* theorem applies to it). *)
Theorem C17_annealed_is_plain : forall r n nb ids dim,
  personalize_mode_annealed r n nb ids = personalize_mode (run_chain r) n nb ids /\
  personalize_mean_annealed r n nb ids dim = personalize_mean (run_chain r) n nb ids dim.
Proof. intros. split; [apply annealed_is_plain | reflexivity]. Qed.
Print Assumptions C17_annealed_is_plain.

(** Why this is stated separately: selecting by the TEMPERED loss attachment + temperature_inv * regularity is
    invisible on every run that ends at temperature 1 (all default runs) ... *)
Theorem C17_mode_tempered_rule_agrees_at_T1 : forall r n nb ids,
  (run_tinv r (n + 1) == 1)%Q -> personalize_mode_tempered r n nb ids = personalize_mode_annealed r n nb ids.
Proof. exact tempered_agrees_at_T1. Qed.
Print Assumptions C17_mode_tempered_rule_agrees_at_T1.

(** ... and returns a kept draw of strictly higher loss on a run that ends elsewhere. *)
Theorem C17_mode_tempered_rule_differs :
  exists r n nb ids out out' k k' cl cl',
    (0 < run_tinv r (n + 1) /\ run_tinv r (n + 1) < 1)%Q /\
    personalize_mode_annealed r n nb ids = Ok out /\ personalize_mode_tempered r n nb ids = Ok out' /\
    kept n nb k /\ kept n nb k' /\ nth_error (run_chain r k) 0 = Some cl /\ nth_error (run_chain r k') 0 = Some cl' /\
    map snd out = [vals cl] /\ map snd out' = [vals cl'] /\ (mode_loss cl < mode_loss cl')%Q.
Proof. exact tempered_selection_differs. Qed.
Print Assumptions C17_mode_tempered_rule_differs.

(** * The chain is generated by the model (extension): sweep of C03 individual steps at the C19 temperature and proposal scale.
    Api/PersonalizeChain.v; [gen_*] of GenC17Chain.v are regenerated from mcmc.py / gibbs.py / algo_with_samplers.py on every run. *)
From Coq Require Import Permutation Qreals.
From Leaspy Require Import Sampler.SamplerModel Saem.Anneal Sampler.AdaptiveStd Api.PersonalizeChain Api.PersonalizeChainProofs Api.PersonalizeChainTie.
From LeaspyGen Require Import GenC17Chain.

(** (a) Refinement.  For every run of the composed model on rational inputs — whatever the decision rule, the oracles, the
    schedule, the tape — the chain it generates has one draw per iteration and [history] of the existing model applied to it is
    exactly what the run appended to the three histories.  [chain_q (o_all o)] is a DEFINED chain: C17_mode, C17_mean,
    C17_kept_draws, C17_mode_ignores_temperature ... apply to it without any hypothesis on the chain. *)
Theorem C17_chain_history :
  forall add mul ofQ decide att regv regsum scf acf nb random_order n_ind orders init scales tp o,
    personalize_run Q add mul ofQ decide att regv regsum scf acf nb random_order n_ind orders init scales tp = Done o ->
    length (o_all o) = length orders /\
    history (chain_q (o_all o)) (Z.of_nat (length orders)) nb = map (map cell_q) (o_hist o).
Proof. exact generated_history. Qed.
Print Assumptions C17_chain_history.

(** ... for instance mode_posterior end to end: the returned row of individual i is the state, after the sweep of a kept iteration k,
    that the composed run generated, of minimal untempered attachment + regularity among the kept iterations (first such). *)
Theorem C17_chain_mode :
  forall decide att regv regsum scf acf nb random_order orders init scales tp ids o out,
    runQ decide att regv regsum scf acf nb random_order ids orders init scales tp = Done o ->
    chain_mode decide att regv regsum scf acf nb random_order orders init scales tp ids = Done (Personalize.Ok out) ->
    let c := chain_q (o_all o) in let n := Z.of_nat (length orders) in
    history c n nb = map (map cell_q) (o_hist o) /\ aligned ids out /\
    forall i, (i < length ids)%nat -> exists k cl,
       kept n nb k /\ nth_error (c k) i = Some cl /\ nth_error (map snd out) i = Some (vals cl) /\
       (forall k' cl', kept n nb k' -> nth_error (c k') i = Some cl' -> (mode_loss cl <= mode_loss cl')%Q) /\
       (forall k' cl', kept n nb k' -> (k' < k)%Z -> nth_error (c k') i = Some cl' -> (mode_loss cl < mode_loss cl')%Q).
Proof.
  intros until out. intros Hr Hm. unfold chain_mode in Hm. rewrite Hr in Hm. simpl in Hm. inversion Hm as [Hm']; clear Hm.
  split; [exact (proj2 (generated_history _ _ _ _ _ _ _ _ _ _ _ _ _ _ _ _ _ Hr))|]. exact (C17_mode _ _ _ _ _ Hm').
Qed.
Print Assumptions C17_chain_mode.

(** (b) The run is a chain of sampler calls: the calls of iteration m+1 run at [temp_inv] of the C19 schedule after m updates
    ([state_at]), each is a step of the model ([step_ok]) at the scale it names, each starts where the previous one stopped, and
    the draw of the chain at iteration k is what the state reads as after the last call of iteration k ([trace_ok]). *)
Theorem C17_chain_steps :
  forall A add mul ofQ decide att regv regsum scf acf nb random_order n_ind orders init scales tp o,
    personalize_run A add mul ofQ decide att regv regsum scf acf nb random_order n_ind orders init scales tp = Done o ->
    exists a0, init_anneal acf = Anneal.Ok a0 /\
      map fst (o_trace o) = iterations (Z.of_nat (length orders)) /\
      trace_ok A add mul ofQ decide att regv regsum acf n_ind 1 a0 init tp (o_trace o) (o_all o) (r_vals (o_rs o)) (r_tape (o_rs o)) /\
      Forall (fun kl => exists m a, fst kl = Z.of_nat (S m) /\ state_at acf m = Anneal.Ok a /\
                          Forall (fun r => sr_tinv r = temp_inv a /\ step_ok A add mul ofQ decide att regv r) (snd kl)) (o_trace o).
Proof. exact run_steps. Qed.
Print Assumptions C17_chain_steps.

(** One call of a rational run: every row after the call is the previous row or the proposed one (previous + std * normal, by
    C03_rows_only on [add_noise_rows]); row j is the proposal exactly when u_j < exp(-D_j) with D_j the change of attachment plus
    the inverse-temperature-weighted change of the variable's own regularity; one uniform per individual and one normal per
    coordinate are consumed whatever the decisions. *)
Theorem C17_chain_decision :
  forall add mul att regv v tinv sds st tp st' tp' acc,
    gstep Q add mul decideQR att regv v tinv sds st tp = Some (st', tp', acc) ->
    exists rows rows',
      nth_error st v = Some (Nd rows) /\
      add_noise_rows add mul sds rows (normals tp) = Some (rows', normals tp') /\
      st' = set_nth v (Nd (gmix Q acc rows rows')) st /\
      length acc = length rows /\ length rows' = length rows /\
      uniforms tp' = skipn (length rows) (uniforms tp) /\ normals tp' = skipn (size (Nd rows)) (normals tp) /\
      (forall j o n b, nth_error rows j = Some o -> nth_error rows' j = Some n -> nth_error acc j = Some b ->
         nth_error (gmix Q acc rows rows') j = Some (if b then n else o)) /\
      (forall j u a b c d,
         nth_error (uniforms tp) j = Some u ->
         nth_error (att st) j = Some a -> nth_error (att (set_nth v (Nd rows') st)) j = Some b ->
         nth_error (regv v st) j = Some c -> nth_error (regv v (set_nth v (Nd rows') st)) j = Some d ->
         exists dj, nth_error acc j = Some dj /\
           (dj = true <-> (Q2R u < exp (- ((Q2R b - Q2R a) + Q2R tinv * (Q2R d - Q2R c))))%R)).
Proof. exact gstep_decision_Q. Qed.
Print Assumptions C17_chain_decision.

(** On the reals the call IS C03's [ind_step] for that variable (so C03_ind_decision, C03_own_row, C03_draws_ind apply). *)
Theorem C17_chain_step_is_C03 :
  forall att regv v tinv sds st tp x, nth_error st v = Some x ->
    gstep R Rplus Rmult decideR att regv v tinv sds st tp =
    match ind_step (fun y => att (set_nth v y st)) (fun y => regv v (set_nth v y st)) tinv sds x tp with
    | Some (y, tp', acc) => Some (set_nth v y st, tp', acc)
    | None => None
    end.
Proof. exact gstep_is_ind_step. Qed.
Print Assumptions C17_chain_step_is_C03.

(** (c) Draws: the whole personalisation consumes n_iter x (one uniform per individual and variable) uniforms and
    n_iter x (one normal per coordinate) normals, whatever the data, the parameters, the temperatures, the scales, the decisions
    and the order of the variables; shapes are kept.  Hence two runs on the same tape leave it in the same place. *)
Theorem C17_chain_draws :
  forall A add mul ofQ decide att regv regsum scf acf nb random_order n_ind orders init scales tp o,
    (random_order = true -> Forall (fun od => Permutation od (seq 0 (length init))) orders) ->
    personalize_run A add mul ofQ decide att regv regsum scf acf nb random_order n_ind orders init scales tp = Done o ->
    uniforms (r_tape (o_rs o)) = skipn (length orders * per_sweep_uniforms A init) (uniforms tp) /\
    normals (r_tape (o_rs o)) = skipn (length orders * per_sweep_normals A init) (normals tp) /\
    sig A (r_vals (o_rs o)) = sig A init.
Proof. exact run_draws. Qed.
Print Assumptions C17_chain_draws.

(** Tie: the statement list of the iteration loop, what is appended to which history, the temperature handed to the samplers, the
    order of the initialisation calls and of the effects of IndividualGibbsSampler.sample, the scale factor — regenerated from
    the source — are the model's; the run interpreting the regenerated list is the model's run; the shipped defaults of
    mean_/mode_posterior create no population sampler (the only `put` of a run is on the sampled individual variable). *)
Theorem C17_chain_tie :
  gen_iteration_body = iteration_body /\
  (gen_record_reads = record_reads /\ gen_sweep_temperature = sweep_temperature /\ gen_init_calls = init_calls /\
   gen_sample_effects = sample_effects /\ gen_ind_scale_factor = ind_scale_factor /\
   gen_no_population_sampler = ["mean_posterior"; "mode_posterior"]%string) /\
  (forall A add mul ofQ decide att regv regsum scf acf nb random_order n_ind,
     personalize_run_with A add mul ofQ decide att regv regsum scf acf nb random_order n_ind gen_iteration_body
     = personalize_run A add mul ofQ decide att regv regsum scf acf nb random_order n_ind).
Proof. split; [exact tie_iteration_body | split; [exact tie_skeleton | exact tie_run]]. Qed.
Print Assumptions C17_chain_tie.

(** Non-vacuity of the hypotheses above: a 3-iteration shuffled run of two variables under a 3-plateau annealing (1/3, 1/2, 1)
    whose proposal scales adapted, consuming the whole tape. *)
Theorem C17_chain_example :
  exists o, ex_run = Done o /\ length (o_all o) = 3%nat /\ length (o_hist o) = 2%nat /\
            normals (r_tape (o_rs o)) = [] /\ uniforms (r_tape (o_rs o)) = [] /\
            map (fun kl => map (fun r => Qred (sr_tinv r)) (snd kl)) (o_trace o) = [[1 # 3; 1 # 3]; [1 # 2; 1 # 2]; [1; 1]] /\
            map (fun s => map Qred (std s)) (r_samp (o_rs o)) = [[9 # 20; 11 # 20]; [11 # 10; 11 # 10]] /\
            Forall (fun od => Permutation od (seq 0 (length ex_init))) ex_orders.
Proof. exact ex_run_done. Qed.
Print Assumptions C17_chain_example.

(** * Extension 4 — the two links the chain extension left open *)
From Leaspy Require Api.PersonalizeChainExec Api.PersonalizeChainExecR.
From Leaspy Require Import Api.PersonalizeChainLink Api.PersonalizeChainLinkProofs Api.PersonalizeChainLinkQRProofs.

(** (b) The proposal scales of the generated chain ARE C19's.  For every variable [v] of a successful run (any carrier, decision
    rule, oracles, schedule, tape): [var_calls v (o_trace o)] = its sampler calls in the order they were made; the scales the run
    proposed with at these calls ([sr_sds]) are the [std] of the states [AdaptiveStd.run_sampler] goes through on the run's OWN
    acceptance history of that variable ([sr_acc] of the same calls), starting from [AdaptiveStd.init_sampler] at
    STD_SCALE_FACTOR = 1/2 of the variable's scale for every individual — so C19_std_positive, C19_std_factor, C19_std_monotone_*,
    C19_window_is_last_rows apply to the scales of the personalisation chain; the sampler left in the final state is the last one. *)
Theorem C17_chain_scales :
  forall A add mul ofQ decide att regv regsum scf acf nb random_order n_ind orders init scales tp o v sc,
    personalize_run A add mul ofQ decide att regv regsum scf acf nb random_order n_ind orders init scales tp = Done o ->
    nth_error scales v = Some sc ->
    exists s0 sts, init_sampler scf ind_scale_factor (repeat sc n_ind) = Anneal.Ok s0 /\
      run_sampler scf s0 (map sr_acc (var_calls v (o_trace o))) = Anneal.Ok sts /\
      map sr_sds (var_calls v (o_trace o)) = map std (removelast (s0 :: sts)) /\
      nth_error (r_samp (o_rs o)) v = Some (last sts s0).
Proof. exact run_scales. Qed.
Print Assumptions C17_chain_scales.

(** (a) Simulation between the instances of the generic run.  [f : A -> B] commutes with [add], [mul], [ofQ], the decisions (the
    same decision on the images: the same table) and the three oracles ([carrier_hom]) ==> the run over [B] on the mapped initial
    values and tape is the run over [A] mapped through [f] — final values, tape left, chain, histories, every sampler call of the
    trace with its scale, inverse temperature and decisions; a failing run fails with the same error. *)
Theorem C17_chain_simulation :
  forall (A B : Type) (f : A -> B) addA mulA ofQA decideA attA regvA regsumA addB mulB ofQB decideB attB regvB regsumB,
    carrier_hom A B f addA mulA ofQA decideA attA regvA regsumA addB mulB ofQB decideB attB regvB regsumB ->
  forall scf acf nb random_order n_ind orders init scales tp,
    personalize_run B addB mulB ofQB decideB attB regvB regsumB scf acf nb random_order n_ind orders (smap f init) scales (tape_map f tp)
    = outcome_map (out_map f) (personalize_run A addA mulA ofQA decideA attA regvA regsumA scf acf nb random_order n_ind orders init scales tp).
Proof. exact run_hom. Qed.
Print Assumptions C17_chain_simulation.

(** ... read on Q (what T2 executes on every recorded run) and R (where the decision theorems live), through [Q2R]: if the two
    decision rules agree on the images (by definition for [decideQR] / [decideR]; "the same table" when the rational run looks its
    decisions up) and the real oracles extend the rational ones, then a successful rational run IS, injected, the real run on the
    injected inputs, and each of its sampler calls, injected, is a call of the real model ([step_ok]; C03's [ind_step] by
    [C17_chain_step_is_C03]) at the scale and inverse temperature the rational trace names. *)
Theorem C17_chain_simulation_QR :
  forall addQ mulQ, (forall x y, Q2R (addQ x y) = (Q2R x + Q2R y)%R) -> (forall x y, Q2R (mulQ x y) = (Q2R x * Q2R y)%R) ->
  forall decQ decR attQ regvQ regsumQ attR regvR regsumR,
    (forall u a b c d t, decQ u a b c d t = decR (Q2R u) (Q2R a) (Q2R b) (Q2R c) (Q2R d) (Q2R t)) ->
    (forall st, attR (smap Q2R st) = map Q2R (attQ st)) ->
    (forall v st, regvR v (smap Q2R st) = map Q2R (regvQ v st)) ->
    (forall st, regsumR (smap Q2R st) = map Q2R (regsumQ st)) ->
  forall scf acf nb random_order n_ind orders init scales tp o,
    personalize_run Q addQ mulQ (fun q => q) decQ attQ regvQ regsumQ scf acf nb random_order n_ind orders init scales tp = Done o ->
    personalize_run R Rplus Rmult Q2R decR attR regvR regsumR scf acf nb random_order n_ind orders (smap Q2R init) scales (tape_map Q2R tp)
      = Done (out_map Q2R o) /\
    Forall (fun kl => Forall (fun r => step_ok R Rplus Rmult Q2R decR attR regvR (step_map Q2R r)) (snd kl)) (o_trace o).
Proof. exact run_QR_steps. Qed.
Print Assumptions C17_chain_simulation_QR.

(** ... and on the very term T2 evaluates for every recorded personalisation ([run_case]: normalising rational arithmetic, decisions
    and oracles looked up in the finite tables of what the implementation did): for any real decision rule taking the recorded
    decisions on the recorded uniforms and any real oracles extending the tables, the re-execution is, injected, the real run. *)
Theorem C17_chain_simulation_T2 :
  forall tol (c : PersonalizeChainExec.chain_case) decR attR regvR regsumR,
  (forall u a b cc d t, PersonalizeChainExec.decide_of (PersonalizeChainExec.cc_dec c) u a b cc d t = decR (Q2R u) (Q2R a) (Q2R b) (Q2R cc) (Q2R d) (Q2R t)) ->
  (forall st, attR (smap Q2R st) = map Q2R (PersonalizeChainExec.att_of tol (PersonalizeChainExec.cc_table c) st)) ->
  (forall v st, regvR v (smap Q2R st) = map Q2R (PersonalizeChainExec.regv_of tol (PersonalizeChainExec.cc_table c) v st)) ->
  (forall st, regsumR (smap Q2R st) = map Q2R (PersonalizeChainExec.regsum_of tol (PersonalizeChainExec.cc_table c) st)) ->
  forall o, PersonalizeChainExec.run_case tol c = Done o ->
    personalize_run R Rplus Rmult Q2R decR attR regvR regsumR (PersonalizeChainExec.cc_scf c) (PersonalizeChainExec.cc_acf c)
                    (PersonalizeChainExec.cc_nb c) (PersonalizeChainExec.cc_random c) (length (PersonalizeChainExec.cc_ids c))
                    (PersonalizeChainExec.cc_orders c) (smap Q2R (PersonalizeChainExec.cc_init c)) (PersonalizeChainExec.cc_scales c)
                    (tape_map Q2R (Build_tape (PersonalizeChainExec.cc_normals c) (PersonalizeChainExec.cc_uniforms c)))
      = Done (out_map Q2R o) /\
    Forall (fun kl => Forall (fun r => step_ok R Rplus Rmult Q2R decR attR regvR (step_map Q2R r)) (snd kl)) (o_trace o).
Proof. exact run_case_real. Qed.
Print Assumptions C17_chain_simulation_T2.

(** ... and these hypotheses are MET, for every case, by the tables themselves read over R ([PersonalizeChainExecR]: same closeness
    test and same uniform look-up, decided on R): whenever T2's re-execution of a recorded run succeeds, it is — injected — a run of the
    real instance whose every call is a real step.  No hypothesis left but the success of the rational run (which T2 checks). *)
Theorem C17_chain_simulation_T2_tables :
  forall tol (c : PersonalizeChainExec.chain_case) o, PersonalizeChainExec.run_case tol c = Done o ->
    personalize_run R Rplus Rmult Q2R (PersonalizeChainExecR.decide_ofR (PersonalizeChainExec.cc_dec c))
                    (PersonalizeChainExecR.att_ofR tol (PersonalizeChainExec.cc_table c))
                    (PersonalizeChainExecR.regv_ofR tol (PersonalizeChainExec.cc_table c))
                    (PersonalizeChainExecR.regsum_ofR tol (PersonalizeChainExec.cc_table c))
                    (PersonalizeChainExec.cc_scf c) (PersonalizeChainExec.cc_acf c)
                    (PersonalizeChainExec.cc_nb c) (PersonalizeChainExec.cc_random c) (length (PersonalizeChainExec.cc_ids c))
                    (PersonalizeChainExec.cc_orders c) (smap Q2R (PersonalizeChainExec.cc_init c)) (PersonalizeChainExec.cc_scales c)
                    (tape_map Q2R (Build_tape (PersonalizeChainExec.cc_normals c) (PersonalizeChainExec.cc_uniforms c)))
      = Done (out_map Q2R o) /\
    Forall (fun kl => Forall (fun r => step_ok R Rplus Rmult Q2R (PersonalizeChainExecR.decide_ofR (PersonalizeChainExec.cc_dec c))
                                               (PersonalizeChainExecR.att_ofR tol (PersonalizeChainExec.cc_table c))
                                               (PersonalizeChainExecR.regv_ofR tol (PersonalizeChainExec.cc_table c)) (step_map Q2R r)) (snd kl))
           (o_trace o).
Proof. exact run_case_real_tables. Qed.
Print Assumptions C17_chain_simulation_T2_tables.

(** Non-vacuity: the example run computed over Q, its real counterpart (real oracles = sums over R, real decision = the same
    inequality decided on R), all six calls are real steps; some proposals accepted, some refused; and the scales of variable 0 along
    its own acceptance history: initial for two calls, adapted ([9/20; 11/20]) for the third. *)
Theorem C17_chain_links_example :
  (exists o, personalize_run Q Qplus Qmult (fun q => q) ex_decide ex_att ex_regv ex_att ex_scf ex_acf 1 true 2 ex_orders ex_init [1; 2]%Q ex_tape = Done o /\
    personalize_run R Rplus Rmult Q2R exR_decide exR_att exR_regv exR_att ex_scf ex_acf 1 true 2 ex_orders
                    (smap Q2R ex_init) [1; 2]%Q (tape_map Q2R ex_tape) = Done (out_map Q2R o) /\
    Forall (fun kl => Forall (fun r => step_ok R Rplus Rmult Q2R exR_decide exR_att exR_regv (step_map Q2R r)) (snd kl)) (o_trace o) /\
    length (concat (map snd (o_trace o))) = 6%nat /\
    existsb (fun kl => existsb (fun r => existsb (fun b => b) (sr_acc r)) (snd kl)) (o_trace o) = true /\
    existsb (fun kl => existsb (fun r => existsb negb (sr_acc r)) (snd kl)) (o_trace o) = true) /\
  (exists o s0 sts,
    personalize_run Q Qplus Qmult (fun q => q) ex_decide ex_att ex_regv ex_att ex_scf ex_acf 1 true 2 ex_orders ex_init [1; 2]%Q ex_tape = Done o /\
    init_sampler ex_scf ind_scale_factor (repeat 1%Q 2) = Anneal.Ok s0 /\
    run_sampler ex_scf s0 (map sr_acc (var_calls 0 (o_trace o))) = Anneal.Ok sts /\
    map sr_sds (var_calls 0 (o_trace o)) = map std (removelast (s0 :: sts)) /\
    nth_error (r_samp (o_rs o)) 0 = Some (last sts s0) /\
    map (map Qred) (map sr_sds (var_calls 0 (o_trace o))) = [[1 # 2; 1 # 2]; [1 # 2; 1 # 2]; [9 # 20; 11 # 20]]%Q).
Proof. split; [exact run_QR_example | exact run_scales_example]. Qed.
Print Assumptions C17_chain_links_example.
