(** C19 — temperature and proposal-scale schedules stay within their documented envelopes.
    Property theorems only: statements in full, each closed by [exact] of a lemma proved elsewhere.

    [run_anneal c n = Ok l]: [l] has n+1 elements; element 0 is the temperature used by iteration 1,
    element k the temperature in force after iteration k.  [proper c]: annealing on, n_plateau >= 2,
    T0 > 1 and a plateau length n_ann / (n_plateau - 1) >= 1. *)
From Coq Require Import ZArith QArith Qround Bool List.
From Leaspy Require Import Base.QAux Saem.Anneal Saem.AnnealProofs Saem.AnnealTie.
From Leaspy Require Import Sampler.AdaptiveStd Sampler.AdaptiveStdProofs Sampler.AdaptiveStdTie.
From LeaspyGen Require Import GenC19.
Import ListNotations.

(** *** Annealing: proper configurations, any number of iterations *)

Theorem C19_runs : forall c, proper c -> forall n, exists l, run_anneal c n = Ok l /\ length l = S n.
Proof. exact proper_total. Qed.
Print Assumptions C19_runs.

Theorem C19_start : forall c, proper c -> forall n l, run_anneal c n = Ok l -> nth_error l 0 = Some (T0 c).
Proof. exact ra_start. Qed.
Print Assumptions C19_start.

Theorem C19_nonincreasing : forall c, proper c -> forall n l, run_anneal c n = Ok l ->
  forall k t t', nth_error l k = Some t -> nth_error l (S k) = Some t' -> t' <= t.
Proof. exact ra_nonincreasing. Qed.
Print Assumptions C19_nonincreasing.

Theorem C19_ge_one : forall c, proper c -> forall n l, run_anneal c n = Ok l ->
  forall k t, nth_error l k = Some t -> 1 <= t.
Proof. exact ra_ge_one. Qed.
Print Assumptions C19_ge_one.

(** the temperature differs between iteration k and k+1 only if k+1 is an annealing iteration and a
    multiple of the plateau length *)
Theorem C19_changes_only_at_boundaries : forall c, proper c -> forall n l, run_anneal c n = Ok l ->
  forall k t t', nth_error l k = Some t -> nth_error l (S k) = Some t' -> ~ t' == t ->
  (Z.of_nat (S k) <= n_ann c)%Z /\ (Z.of_nat (S k) mod (n_ann c / (n_plateau c - 1)) = 0)%Z.
Proof. exact ra_changes_only_at_boundaries. Qed.
Print Assumptions C19_changes_only_at_boundaries.

(** at such a boundary the temperature goes down by the decrement (T0-1)/(n_plateau-1), floored at 1,
    and strictly down as long as it is above 1 *)
Theorem C19_step_at_boundaries : forall c, proper c -> forall n l, run_anneal c n = Ok l ->
  forall k t t', nth_error l k = Some t -> nth_error l (S k) = Some t' ->
  (Z.of_nat (S k) <= n_ann c)%Z -> (Z.of_nat (S k) mod (n_ann c / (n_plateau c - 1)) = 0)%Z ->
  t' = Qmax (t - (T0 c - 1) / (inject_Z (n_plateau c) - 1)) 1 /\ (1 < t -> t' < t).
Proof. exact ra_step_at_boundary. Qed.
Print Assumptions C19_step_at_boundaries.

Theorem C19_closed_form : forall c, proper c -> forall n l, run_anneal c n = Ok l ->
  forall k t, nth_error l k = Some t ->
  t == Qmax (T0 c - inject_Z (Z.min (Z.of_nat k) (n_ann c) / (n_ann c / (n_plateau c - 1))) * ((T0 c - 1) / (inject_Z (n_plateau c) - 1))) 1.
Proof. exact ra_closed_form. Qed.
Print Assumptions C19_closed_form.

(** exactly 1 once the annealing iterations are over (over exact numbers) *)
Theorem C19_one_after_annealing : forall c, proper c -> forall n l, run_anneal c n = Ok l ->
  forall k t, nth_error l k = Some t -> (n_ann c <= Z.of_nat k)%Z -> t == 1.
Proof. exact ra_one_after_annealing. Qed.
Print Assumptions C19_one_after_annealing.

(** the inverse handed to the samplers is the inverse of the temperature, in ]0, 1] *)
Theorem C19_inverse : forall c n ls k st, proper c -> run_states c n = Ok ls -> nth_error ls k = Some st ->
  temp_inv st == / temp st /\ 0 < temp_inv st /\ temp_inv st <= 1.
Proof. exact rs_inverse. Qed.
Print Assumptions C19_inverse.

(** without annealing the temperature is always 1 and nothing can fail *)
Theorem C19_off : forall c n, a_on c = false ->
  exists l, run_anneal c n = Ok l /\ length l = S n /\ Forall (fun t => t = 1) l.
Proof. exact off_run. Qed.
Print Assumptions C19_off.

(** number of annealing iterations: the explicit count if given, else int(frac * n_iter) = floor for frac, n_iter >= 0;
    refused iff both are missing *)
Theorem C19_n_ann : forall e f n,
  (forall c, e = Some c -> resolve_n_ann e f n = Ok c) /\
  (forall fr, e = None -> f = Some fr -> 0 <= fr -> (0 <= n)%Z -> resolve_n_ann e f n = Ok (Qfloor (fr * inject_Z n))) /\
  (resolve_n_ann e f n = Err InputError <-> e = None /\ f = None).
Proof.
  intros e f n. split; [|split].
  - intros c ->. apply resolve_explicit.
  - intros fr -> ->. apply resolve_fraction_floor.
  - apply resolve_refused_iff.
Qed.
Print Assumptions C19_n_ann.

(** *** Every accepted configuration ([_initialize_annealing] returns) runs to completion *)

Theorem C19_total : forall c st, init_anneal c = Ok st ->
  forall n, exists l, run_anneal c n = Ok l /\ length l = S n.
Proof. exact accepted_total. Qed.
Print Assumptions C19_total.

(** the plateau length left behind by an accepted initialisation is at least 1: the modulo of
    [_update_temperature] never divides by zero *)
Theorem C19_period_positive : forall c st p, init_anneal c = Ok st -> period st = Some p -> (1 <= p)%Z.
Proof. exact init_period_pos. Qed.
Print Assumptions C19_period_positive.

(** fewer annealing iterations than temperature steps ([short]: on, n_plateau >= 2, n_ann < n_plateau - 1, no
    annealing iteration included) is refused with an input error (initial temperature 0 fails earlier, on its
    inverse), never accepted *)
Theorem C19_short_refused : forall c, short c ->
  (~ T0 c == 0 -> init_anneal c = Err InputError) /\ (forall st, init_anneal c <> Ok st).
Proof. exact short_refused. Qed.
Print Assumptions C19_short_refused.

(** the shipped defaults: n_iter = 10, 1 and 17 are refused at initialisation, 18 is the first proper one *)
Theorem C19_defaults_short_refused :
  (exists c, default_cfg 10 = Ok c /\ short c /\ init_anneal c = Err InputError) /\
  (exists c, default_cfg 1 = Ok c /\ short c /\ n_ann c = 0%Z /\ init_anneal c = Err InputError) /\
  (exists c, default_cfg 17 = Ok c /\ short c /\ init_anneal c = Err InputError) /\
  (exists c, default_cfg 18 = Ok c /\ proper c).
Proof. exact defaults_short_refused. Qed.
Print Assumptions C19_defaults_short_refused.

(** exact characterisation of the accepted configurations: off, proper, or a single plateau ([frozen]) with a
    non-zero initial temperature *)
Theorem C19_accepted_iff : forall c,
  (exists st, init_anneal c = Ok st) <-> a_on c = false \/ proper c \/ (frozen c /\ ~ T0 c == 0).
Proof. exact accepted_iff. Qed.
Print Assumptions C19_accepted_iff.

Theorem C19_accepted_cases : forall c st, init_anneal c = Ok st -> a_on c = false \/ proper c \/ frozen c.
Proof. exact accepted_cases. Qed.
Print Assumptions C19_accepted_cases.

(** hence every theorem above about proper configurations holds for every accepted annealing scheme with at
    least two plateaus *)
Theorem C19_accepted_proper : forall c st, init_anneal c = Ok st -> a_on c = true -> (2 <= n_plateau c)%Z -> proper c.
Proof. exact accepted_proper. Qed.
Print Assumptions C19_accepted_proper.

(** *** What remains false of the faithful model: a single plateau *)

(** frozen configurations (a single plateau) keep T0 for ever *)
Theorem C19_frozen : forall c st n, init_anneal c = Ok st -> frozen c ->
  exists l, run_anneal c n = Ok l /\ length l = S n /\ Forall (fun t => t = T0 c) l.
Proof. exact frozen_run. Qed.
Print Assumptions C19_frozen.

(** F11b: hence "exactly 1 once the annealing iterations are over" fails for an accepted configuration with n_plateau = 1 *)
Theorem C19_one_after_annealing_refuted : exists c st, init_anneal c = Ok st /\ frozen c /\ 1 < T0 c.
Proof. exact frozen_witness. Qed.
Print Assumptions C19_one_after_annealing_refuted.

(** and "never below 1" fails too: with a single plateau the guard on the initial temperature is skipped *)
Theorem C19_ge_one_refuted : exists c st, init_anneal c = Ok st /\ frozen c /\ T0 c < 1 /\ 0 < T0 c.
Proof. exact below_one_witness. Qed.
Print Assumptions C19_ge_one_refuted.

(** *** Tie: the rules regenerated from the current source are the model's rules *)

Theorem C19_tie_n_ann : forall e f n,
  resolve_n_ann e f n =
  match e, f with
  | Some c, _ => Ok (gen_n_ann_explicit c)
  | None, Some fr => Ok (gen_n_ann_from_frac fr n)
  | None, None => Err InputError
  end.
Proof. exact tie_n_ann. Qed.
Print Assumptions C19_tie_n_ann.

Theorem C19_tie_ctor :
  ctor_state = {| temp := gen_ctor_temperature; temp_inv := gen_ctor_temperature_inv; period := None; decr := None |}.
Proof. exact tie_ctor. Qed.
Print Assumptions C19_tie_ctor.

Theorem C19_tie_init : forall c,
  init_anneal c =
  if gen_init_crashes (a_on c) (T0 c) (n_plateau c) (n_ann c) then Err Crash
  else if gen_init_refuses (a_on c) (T0 c) (n_plateau c) (n_ann c) then Err InputError
  else Ok {| temp := gen_init_temp (a_on c) (T0 c) (n_plateau c) (n_ann c);
             temp_inv := gen_init_inv (a_on c) (T0 c) (n_plateau c) (n_ann c);
             period := gen_init_period (a_on c) (T0 c) (n_plateau c) (n_ann c);
             decr := gen_init_decr (a_on c) (T0 c) (n_plateau c) (n_ann c) |}.
Proof. exact tie_init. Qed.
Print Assumptions C19_tie_init.

Theorem C19_tie_update : forall c k st p d, period st = Some p -> decr st = Some d ->
  update_temperature c k st =
  if gen_update_crashes (a_on c) k (n_ann c) p (temp st) (temp_inv st) d then Err Crash
  else Ok {| temp := gen_update_temp (a_on c) k (n_ann c) p (temp st) (temp_inv st) d;
             temp_inv := gen_update_inv (a_on c) k (n_ann c) p (temp st) (temp_inv st) d;
             period := Some p; decr := Some d |}.
Proof. exact tie_update. Qed.
Print Assumptions C19_tie_update.

Theorem C19_tie_defaults :
  default_T0 = gen_default_T0 /\ default_n_plateau = gen_default_n_plateau /\ default_frac = gen_default_frac.
Proof. exact tie_defaults. Qed.
Print Assumptions C19_tie_defaults.

(** *** Adaptive proposal scale: any acceptance history, window length, band and factor accepted by the constructor.
    [st0 :: sts]: element k is the sampler state after k calls of [sample()]; [rows]: the acceptance decisions
    (one boolean per block) of each call. *)

(** scales stay positive (and finite: they are rationals) *)
Theorem C19_std_positive : forall c sf scale rows st0 sts,
  init_sampler c sf scale = Ok st0 -> 0 < sf -> run_sampler c st0 rows = Ok sts ->
  forall k s, nth_error (st0 :: sts) k = Some s -> Forall (fun x => 0 < x) (std s).
Proof. exact std_positive. Qed.
Print Assumptions C19_std_positive.

(** explicit envelope: after k steps a scale has been adapted at most k/L times, each time by a factor in [1-f, 1+f] *)
Theorem C19_std_envelope : forall c sf scale rows st0 sts,
  init_sampler c sf scale = Ok st0 -> 0 < sf -> run_sampler c st0 rows = Ok sts ->
  forall k s, nth_error (st0 :: sts) k = Some s ->
  forall j x0 x, nth_error (std st0) j = Some x0 -> nth_error (std s) j = Some x ->
  let a := Z.to_nat (Z.of_nat k / hist_len c) in
  x0 * Qpow (1 - fac c) a <= x /\ x <= x0 * Qpow (1 + fac c) a.
Proof. exact std_envelope. Qed.
Print Assumptions C19_std_envelope.

(** a scale changes only when the number of calls is a multiple of the window length *)
Theorem C19_std_changes_only_at_multiples_of_L : forall c sf scale rows st0 sts,
  init_sampler c sf scale = Ok st0 -> run_sampler c st0 rows = Ok sts ->
  forall k s s', nth_error (st0 :: sts) k = Some s -> nth_error (st0 :: sts) (S k) = Some s' -> std s' <> std s ->
  (Z.of_nat (S k) mod hist_len c = 0)%Z.
Proof. exact std_changes_only_at_multiples. Qed.
Print Assumptions C19_std_changes_only_at_multiples_of_L.

(** at a multiple of L each block is multiplied by exactly [factor_of] of its acceptance rate over exactly the
    last L calls (accepted / L); otherwise the scales are unchanged *)
Theorem C19_std_factor : forall c sf scale rows st0 sts,
  init_sampler c sf scale = Ok st0 -> run_sampler c st0 rows = Ok sts ->
  forall k s s', nth_error (st0 :: sts) k = Some s -> nth_error (st0 :: sts) (S k) = Some s' ->
  ((Z.of_nat (S k) mod hist_len c <> 0)%Z -> std s' = std s) /\
  ((Z.of_nat (S k) mod hist_len c = 0)%Z ->
     length (last_rows (Z.to_nat (hist_len c)) (S k) rows) = Z.to_nat (hist_len c) /\
     forall j x, nth_error (std s) j = Some x ->
       exists x', nth_error (std s') j = Some x' /\
                  x' == x * factor_of c (rate (last_rows (Z.to_nat (hist_len c)) (S k) rows) j)).
Proof. exact std_factor. Qed.
Print Assumptions C19_std_factor.

(** the factor is 1-f exactly below the band, 1+f exactly above it, 1 exactly inside it *)
Theorem C19_std_factor_iff : forall c, bounds_refused (lo c) (hi c) = false -> factor_refused (fac c) = false ->
  forall r,
  (factor_of c r == 1 - fac c <-> r < lo c) /\ (factor_of c r == 1 + fac c <-> hi c < r) /\
  (factor_of c r == 1 <-> lo c <= r /\ r <= hi c).
Proof. exact factor_of_iff. Qed.
Print Assumptions C19_std_factor_iff.

(** constructor guards: accepted iff 0 < lo < hi < 1, 0 < f < 1, every scale > 0 *)
Theorem C19_std_guards : forall c sf scale st0, init_sampler c sf scale = Ok st0 ->
  (0 < lo c /\ lo c < hi c /\ hi c < 1) /\ (0 < fac c /\ fac c < 1) /\ Forall (fun x => 0 < x) scale.
Proof.
  intros c sf scale st0 H. destruct (init_sampler_inv _ _ _ _ H) as [_ [Hs [Hb [Hf _]]]].
  split; [now apply bounds_facts | split; [now apply factor_facts | now apply scale_positive]].
Qed.
Print Assumptions C19_std_guards.

(** a well-shaped acceptance history never fails once the window length is >= 1 *)
Theorem C19_std_runs : forall c, (1 <= hist_len c)%Z -> forall rows st,
  Forall (fun row => length row = length (std st)) rows -> exists sts, run_sampler c st rows = Ok sts.
Proof. exact run_sampler_total. Qed.
Print Assumptions C19_std_runs.

Theorem C19_tie_update_std : forall c st row, length row = length (std st) ->
  sample_step c st row =
  if gen_std_crashes (counter st) (hist_len c) then Err Crash
  else Ok {| counter := gen_std_counter (counter st);
             window := gen_push (window st) row;
             std := if gen_std_due (counter st) (hist_len c) then adapt c (gen_push (window st) row) (std st) else std st |}.
Proof. exact tie_sample_step. Qed.
Print Assumptions C19_tie_update_std.

Theorem C19_tie_adapt : forall c r s, adapt1 c r s = gen_std_adapt r (lo c) (hi c) (fac c) s.
Proof. exact tie_adapt1. Qed.
Print Assumptions C19_tie_adapt.

Theorem C19_tie_sampler_guards : forall l h f,
  (bounds_refused l h = gen_bounds_refused l h /\ gen_bounds_lower l h = l /\ gen_bounds_upper l h = h) /\
  factor_refused f = gen_factor_refused f.
Proof. intros l h f. split; [apply tie_bounds | apply tie_factor]. Qed.
Print Assumptions C19_tie_sampler_guards.

Theorem C19_tie_sampler_init : forall c sf scale st0, init_sampler c sf scale = Ok st0 ->
  counter st0 = gen_counter_init /\ gen_bounds_refused (lo c) (hi c) = false /\ gen_factor_refused (fac c) = false.
Proof. exact tie_init_sampler. Qed.
Print Assumptions C19_tie_sampler_init.

(* ---------------------------------------------------------------------- where the annealing configuration comes from: the
   settings object (Api/Settings.v, tied to src/leaspy/algo/settings.py by harness/translate/settings.py and c13_settings.py) *)
From Coq Require Import String.
From Leaspy Require Api.Settings Api.SettingsProofs.

(** A partially given `annealing={...}` UPDATES the default annealing dictionary: an explicit `n_iter` is the count the
    algorithm finds, and the annealing keys not given (initial temperature, number of plateaus, fraction) keep their defaults. *)
Theorem C19_settings_explicit_annealing_count :
  forall (d kw p dd kk : Settings.dict) (v : Settings.jv),
    NoDup (Settings.keys kw) -> NoDup (Settings.keys kk) -> Settings.merge d kw = Settings.Done p ->
    In ("annealing"%string, Settings.JDict kk) kw -> Settings.dget d "annealing"%string = Some (Settings.JDict dd) ->
    In ("n_iter"%string, v) kk -> v <> Settings.JNull -> Settings.odict (Settings.dget dd "n_iter"%string) = false ->
    exists mm, Settings.dget p "annealing"%string = Some (Settings.JDict mm)
               /\ Settings.explicit_count mm "n_iter"%string = Some v
               /\ forall k, ~ In k (Settings.keys kk) -> Settings.dget mm k = Settings.dget dd k.
Proof. exact SettingsProofs.explicit_annealing_count. Qed.
Print Assumptions C19_settings_explicit_annealing_count.

(** The temperature in force after iteration k is a function of the resolved configuration and of k alone: two runs of
    different lengths under the same configuration agree on every iteration they share (no dependence on the history to come). *)
Theorem C19_run_length_irrelevant : forall c n n' l l',
  run_anneal c n = Ok l -> run_anneal c n' = Ok l' ->
  forall k, (k <= n)%nat -> (k <= n')%nat -> nth_error l k = nth_error l' k.
Proof. exact run_anneal_length_irrelevant. Qed.
Print Assumptions C19_run_length_irrelevant.
