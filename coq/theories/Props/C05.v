(** C05 — sufficient statistics follow the stochastic-approximation schedule.
    Property theorems only: statements in full, each closed by [exact] of a lemma proved elsewhere. *)
From Coq Require Import ZArith Reals QArith Qreals Qround Bool List.
From Leaspy Require Import Base.QAux Saem.Schedule Saem.ScheduleProofs Saem.ScheduleTie.
From LeaspyGen Require Import GenC05.
Import ListNotations.

(** During the memory-less phase (and at the first iteration after it) the statistics in force are
    exactly those of the current iteration — for every run length, burn-in length, power and sequence. *)
Theorem C05_memoryless : forall (nb : Z) (p : R) (s : nat -> R) (k : nat),
  (1 <= k)%nat -> (Z.of_nat k <= nb + 1)%Z -> stat nb p s k = s k.
Proof. exact stat_memoryless. Qed.
Print Assumptions C05_memoryless.

(** From the second iteration after it, S_k = (1-e_k) S_(k-1) + e_k s_k with e_k = (k - nb)^(-p). *)
Theorem C05_convex : forall (nb : Z) (p : R) (s : nat -> R) (k : nat),
  (nb + 2 <= Z.of_nat (S k))%Z ->
  stat nb p s (S k) =
    ((1 - Rpower (IZR (Z.of_nat (S k) - nb)) (- p)) * stat nb p s k
     + Rpower (IZR (Z.of_nat (S k) - nb)) (- p) * s (S k))%R.
Proof. exact stat_convex. Qed.
Print Assumptions C05_convex.

(** Iteration nb+1 takes the statistics as they are, which is the same formula with e = 1, and is
    already maximised with the post-burn-in rules. *)
Theorem C05_first_memory_iteration : forall nb : Z,
  memoryless (nb + 1) nb = true /\ burn_flag (nb + 1) nb = false /\ forall p, eps (nb + 1) nb p = 1%R.
Proof. intros nb. split; [|split]; [apply first_memory_iteration | apply first_memory_iteration | exact (eps_first nb)]. Qed.
Print Assumptions C05_first_memory_iteration.

Theorem C05_step_range : forall (k nb : Z) (p : R),
  (0 < p)%R -> (nb + 2 <= k)%Z -> (0 < eps k nb p < 1)%R.
Proof. intros k nb p Hp Hk. split; [apply eps_pos | now apply eps_lt_1]. Qed.
Print Assumptions C05_step_range.

(** Unrolled: after burn-in the statistics in force are an explicit combination of s_(nb+1) .. s_k ... *)
Theorem C05_unrolled : forall (nb : Z) (p : R) (s : nat -> R) (m : nat),
  Z.of_nat m = (nb + 1)%Z -> (1 <= m)%nat ->
  forall d, stat nb p s (m + d) = dot (weights nb p m d) (map s (seq m (S d))).
Proof. exact stat_unrolled. Qed.
Print Assumptions C05_unrolled.

(** ... whose weights are non-negative and sum to one (a convex combination). *)
Theorem C05_unrolled_weights : forall (nb : Z) (p : R) (m : nat),
  Z.of_nat m = (nb + 1)%Z -> (1 <= m)%nat -> (0 < p)%R ->
  forall d, sumR (weights nb p m d) = 1%R /\ Forall (fun w => (0 <= w)%R) (weights nb p m d).
Proof. intros nb p m Hm Hm1 Hp d. split; [apply weights_sum | now apply weights_nonneg]. Qed.
Print Assumptions C05_unrolled_weights.

Theorem C05_burn_in_flag : forall k nb : Z, burn_flag k nb = true <-> (k <= nb)%Z.
Proof. exact is_burn_in_iff. Qed.
Print Assumptions C05_burn_in_flag.

Theorem C05_power_guard : forall p : Q, power_ok p = true <-> (1 # 2 < p /\ p <= 1)%Q.
Proof. exact power_ok_iff. Qed.
Print Assumptions C05_power_guard.

Theorem C05_n_burn_explicit : forall c frac n, n_burn (Some c) frac n = c.
Proof. exact n_burn_explicit. Qed.
Print Assumptions C05_n_burn_explicit.

(** Without an explicit count the length is floor(frac * n_iter) (over exact numbers), within [0, n_iter]. *)
Theorem C05_n_burn_fraction : forall frac n, (0 <= frac)%Q -> (frac <= 1)%Q -> (0 <= n)%Z ->
  n_burn None frac n = Qfloor (frac * inject_Z n) /\ (0 <= n_burn None frac n <= n)%Z.
Proof. intros frac n H0 H1 Hn. split; [apply n_burn_fraction; assumption | now apply n_burn_le_n]. Qed.
Print Assumptions C05_n_burn_fraction.

(** Tie: the rules regenerated from the current source are the model's rules. *)
Theorem C05_tie_is_burn_in : forall k nb, gen_is_burn_in k nb = is_burn_in k nb.
Proof. exact tie_is_burn_in. Qed.
Print Assumptions C05_tie_is_burn_in.
Theorem C05_tie_memoryless : forall k nb, gen_memoryless k nb = memoryless k nb.
Proof. exact tie_memoryless. Qed.
Print Assumptions C05_tie_memoryless.
Theorem C05_tie_burn_flag : forall k nb, gen_burn_flag k nb = burn_flag k nb.
Proof. exact tie_burn_flag. Qed.
Print Assumptions C05_tie_burn_flag.
Theorem C05_tie_step : forall k nb p, gen_step k nb p = eps k nb (Q2R p).
Proof. exact tie_step. Qed.
Print Assumptions C05_tie_step.
Theorem C05_tie_convex : forall S s e, gen_convex_R S s e = convex S s e.
Proof. exact tie_convex. Qed.
Print Assumptions C05_tie_convex.
Theorem C05_tie_convexQ : forall S s e, (gen_convex_Q S s e == convexQ S s e)%Q.
Proof. exact tie_convexQ. Qed.
Print Assumptions C05_tie_convexQ.
Theorem C05_tie_power_guard : forall p, gen_power_refused p = negb (power_ok p).
Proof. exact tie_power_guard. Qed.
Print Assumptions C05_tie_power_guard.
Theorem C05_tie_n_burn : forall frac n c,
  gen_n_burn_from_frac frac n = n_burn None frac n /\ gen_n_burn_explicit c = n_burn (Some c) frac n.
Proof. exact tie_n_burn. Qed.
Print Assumptions C05_tie_n_burn.

(* ---------------------------------------------------------------------- where the explicit count comes from: the settings
   object (Api/Settings.v, tied to src/leaspy/algo/settings.py by harness/translate/settings.py and harness/props/c13_settings.py) *)
From Coq Require Import String.
From Leaspy Require Api.Settings Api.SettingsProofs.

(** "unless an explicit count is given": a `n_burn_in_iter` given in the keyword arguments of `AlgorithmSettings` is the value
    held by the resolved parameters, and the constructor of the sampling algorithms keeps it (the fraction does not overwrite it). *)
Theorem C05_settings_explicit_count :
  forall (d kw p : Settings.dict) (v : Settings.jv),
    NoDup (Settings.keys kw) -> Settings.merge d kw = Settings.Done p ->
    In ("n_burn_in_iter"%string, v) kw -> v <> Settings.JNull -> Settings.is_dict v = false ->
    Settings.is_some (Settings.dget p "n_burn_in_iter_frac"%string) = true ->
    Settings.burn_in_write p = Settings.Done p /\ Settings.explicit_count p "n_burn_in_iter"%string = Some v.
Proof. exact SettingsProofs.explicit_burn_in_kept. Qed.
Print Assumptions C05_settings_explicit_count.

(** "is the configured fraction": with neither key given, the count written by the constructor is int(fraction * n_iter) of the
    fraction of the default file (binary64 product, truncated). *)
Theorem C05_settings_default_fraction :
  forall (d kw p : Settings.dict) (fr n : Settings.jv),
    NoDup (Settings.keys kw) -> Settings.merge d kw = Settings.Done p ->
    ~ In "n_burn_in_iter"%string (Settings.keys kw) -> ~ In "n_burn_in_iter_frac"%string (Settings.keys kw) ->
    Settings.dget d "n_burn_in_iter"%string = Some Settings.JNull -> Settings.dget d "n_burn_in_iter_frac"%string = Some fr ->
    fr <> Settings.JNull -> Settings.dget p "n_iter"%string = Some n ->
    Settings.burn_in_write p
    = Settings.obind (Settings.int_of_frac fr n) (fun z => Settings.Done (Settings.dset p "n_burn_in_iter"%string (Settings.JInt z))).
Proof. exact SettingsProofs.default_burn_in_fraction. Qed.
Print Assumptions C05_settings_default_fraction.

(* ---------------------------------------------------------------------- the schedule ON THE RUN: the control flow of a fit
   regenerated from the source (coq/gen/GenC11.v, harness/translate/c11_run.py; semantics Api/RunProg.v) composed with the rules
   regenerated from `_maximization_step` (coq/gen/GenC05.v).  Model Compose/ScheduleOnRun.v, proofs ScheduleOnRunProofs.v,
   the statements over the generated values ScheduleOnRunTie.v. *)
From Leaspy Require Import Api.RunProg Compose.ScheduleOnRun Compose.ScheduleOnRunProofs Compose.ScheduleOnRunTie.
From LeaspyGen Require Import GenC11.
Local Open Scope nat_scope.

(** Decided on the generated program on every run: it is `seeds; init; loop(body); fin` (C11) and one iteration is
    `quiet; sampler loop; quiet; ASuffStats; AMStep; ATemperature; quiet`, nothing else mentioning these four events. *)
Theorem C05_src_shape : well_shaped fit_prog = true /\ sched_shaped fit_prog = true.
Proof. split; [exact src_well_shaped | exact src_sched_shaped]. Qed.
Print Assumptions C05_src_shape.

(** For every configuration (number of iterations, sampling orders, flags, logging): the counter takes the values
    1..n_iter in order; in each iteration every sampler event, then exactly one sufficient-statistics event, exactly one
    maximisation, then the temperature update — all at that counter value; no such event anywhere else in the run. *)
Theorem C05_src_run_events : forall e : env,
  filter is_key (unfold e fit_prog)
  = flat_map (fun i => map (fun k => IAlg ASample i k) (e_order e i)
                       ++ [IAlg ASuffStats i 0; IAlg AMStep i 0; IAlg ATemperature i 0]) (seq 1 (e_niter e)).
Proof. exact src_run_key_events. Qed.
Print Assumptions C05_src_run_events.

(** The log of the maximisations of the run, computed with the regenerated rules, is the documented schedule. *)
Theorem C05_src_run_log : forall (e : env) (nb : Z) (p : Q) (s : nat -> R),
  src_log nb p s (unfold e fit_prog)
  = Some (map (fun k => MRec k (stat nb (Q2R p) s k) (memoryless (Z.of_nat k) nb) (burn_flag (Z.of_nat k) nb)) (seq 1 (e_niter e))).
Proof. exact src_run_log. Qed.
Print Assumptions C05_src_run_log.

(** End to end, no "observed on real fits" clause: for the run program regenerated from today's source, every
    configuration, any n_burn_in, power and sequence of computed statistics, the k-th maximisation (k <= n_iter) runs at
    counter value k and is handed S_k: s_k while k <= nb + 1, (1 - e_k) S_(k-1) + e_k s_k with e_k = (k - nb)^(-p) from
    k = nb + 2 on, with burn_in = (k <= nb). *)
Theorem C05_src_run_schedule : forall (e : env) (nb : Z) (p : Q) (s : nat -> R),
  exists log,
    src_log nb p s (unfold e fit_prog) = Some log /\ List.length log = e_niter e /\
    forall k, 1 <= k <= e_niter e ->
      exists r, nth_error log (k - 1) = Some r
        /\ m_iter r = k
        /\ m_stat r = stat nb (Q2R p) s k
        /\ ((Z.of_nat k <= nb + 1)%Z -> m_stat r = s k /\ m_memoryless r = true)
        /\ ((nb + 2 <= Z.of_nat k)%Z ->
              m_memoryless r = false /\
              (2 <= k ->
               exists r', nth_error log (k - 2) = Some r' /\
                 m_stat r = ((1 - Rpower (IZR (Z.of_nat k - nb)) (- Q2R p)) * m_stat r'
                             + Rpower (IZR (Z.of_nat k - nb)) (- Q2R p) * s k)%R))
        /\ (m_flag r = true <-> (Z.of_nat k <= nb)%Z).
Proof. exact src_run_schedule. Qed.
Print Assumptions C05_src_run_schedule.

(** Non-vacuity: a 4-iteration run with logging on (47 named events), burn-in 1, power 0.8: counters 1 2 3 4, branches
    M M C C, flags T F F F, and the third maximisation is handed (1 - 2^-0.8) * 2 + 2^-0.8 * 3. *)
Theorem C05_src_run_schedule_example :
  exists log, src_log 1 (4 # 5) INR (unfold ScheduleDemo.e4 fit_prog) = Some log
    /\ map m_iter log = [1; 2; 3; 4]
    /\ map m_memoryless log = [true; true; false; false]
    /\ map m_flag log = [true; false; false; false]
    /\ (exists r2 r3, nth_error log 1 = Some r2 /\ nth_error log 2 = Some r3 /\ m_stat r2 = INR 2
          /\ m_stat r3 = ((1 - Rpower (IZR (3 - 1)) (- Q2R (4 # 5))) * INR 2 + Rpower (IZR (3 - 1)) (- Q2R (4 # 5)) * INR 3)%R).
Proof. exact ScheduleDemo.schedule_of_a_run. Qed.
Print Assumptions C05_src_run_schedule_example.

(** The executable projection the recorded fits are compared with (`check_msteps`, T2) is the projection of the same machine:
    counter, branch and flag of every logged maximisation. *)
Theorem C05_src_log_observed : forall (nb : Z) (p : Q) (s : nat -> R) (l : list item) (log : list mrec),
  src_log nb p s l = Some log ->
  map (fun r => (m_iter r, m_memoryless r, m_flag r)) log = mstep_obs nb l.
Proof. exact src_log_obs. Qed.
Print Assumptions C05_src_log_observed.

(** The unrolled form on the run: with m = nb + 1 the first iteration kept, the (m+d)-th maximisation of the run program is
    handed a convex combination (weights >= 0, sum 1) of the statistics computed at iterations m .. m+d. *)
Theorem C05_src_run_unrolled : forall (e : env) (nb : Z) (p : Q) (s : nat -> R) (m d : nat),
  Z.of_nat m = (nb + 1)%Z -> 1 <= m -> m + d <= e_niter e -> (0 < Q2R p)%R ->
  exists log r,
    src_log nb p s (unfold e fit_prog) = Some log /\ nth_error log (m + d - 1) = Some r /\ m_iter r = m + d
    /\ m_stat r = dot (weights nb (Q2R p) m d) (map s (seq m (S d)))
    /\ sumR (weights nb (Q2R p) m d) = 1%R /\ Forall (fun w => (0 <= w)%R) (weights nb (Q2R p) m d).
Proof. exact src_run_unrolled. Qed.
Print Assumptions C05_src_run_unrolled.

(** Whole-run consequences of the two clauses above, for every burn-in length nb >= 0, power and sequence.
    (i) The memory-less phase leaves no trace: two runs whose per-iteration statistics agree from iteration nb+1 on are handed
    the same statistics at every maximisation from iteration nb+1 on, whatever was sampled before. *)
Theorem C05_burn_in_leaves_no_trace : forall (nb : Z) (p : R), (0 <= nb)%Z -> forall (s s' : nat -> R),
  (forall j, (nb + 1 <= Z.of_nat j)%Z -> s j = s' j) ->
  forall k, (nb + 1 <= Z.of_nat k)%Z -> stat nb p s k = stat nb p s' k.
Proof. exact stat_forgets_burn_in. Qed.
Print Assumptions C05_burn_in_leaves_no_trace.

(** (ii) The statistics in force never leave the interval spanned by the per-iteration statistics (no overshoot), ... *)
Theorem C05_stat_in_hull : forall (nb : Z) (p : R), (0 <= nb)%Z -> forall (s : nat -> R) (a b : R), (0 < p)%R ->
  (forall j, (1 <= j)%nat -> (a <= s j <= b)%R) ->
  forall k, (1 <= k)%nat -> (a <= stat nb p s k <= b)%R.
Proof. exact stat_in_hull. Qed.
Print Assumptions C05_stat_in_hull.

(** ... (iii) and a constant sequence is reproduced exactly at every iteration, whatever the power. *)
Theorem C05_stat_constant : forall (nb : Z) (p : R), (0 <= nb)%Z -> forall (s : nat -> R) (c : R),
  (forall j, (1 <= j)%nat -> s j = c) -> forall k, (1 <= k)%nat -> stat nb p s k = c.
Proof. exact stat_constant. Qed.
Print Assumptions C05_stat_constant.

(** Non-vacuity of (i): burn-in 2, the sequences 7,9,3,4,4,... and 0,0,3,4,4,... differ during the memory-less phase only,
    and the hypothesis is met. *)
Theorem C05_burn_in_leaves_no_trace_example :
  let s  := fun j : nat => match j with 1%nat => 7%R | 2%nat => 9%R | 3%nat => 3%R | _ => 4%R end in
  let s' := fun j : nat => match j with 1%nat => 0%R | 2%nat => 0%R | 3%nat => 3%R | _ => 4%R end in
  (forall j, (2 + 1 <= Z.of_nat j)%Z -> s j = s' j) /\ s 1%nat <> s' 1%nat /\ stat 2 1 s 1 <> stat 2 1 s' 1
  /\ forall k, (2 + 1 <= Z.of_nat k)%Z -> stat 2 1 s k = stat 2 1 s' k.
Proof. exact no_trace_example. Qed.
Print Assumptions C05_burn_in_leaves_no_trace_example.
