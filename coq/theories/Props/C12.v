(** C12 — a fitted model is self-consistent and survives save/load unchanged.
    Property theorems only. *)
From Coq Require Import ZArith QArith List String Bool.
From Leaspy Require Import Io.SaveLoad Io.SaveLoadExec Io.SaveLoadProofs Io.SaveLoadIdem Io.EndOfFit Io.EndOfFitProofs.
From LeaspyGen Require Import GenC12.
Import ListNotations.
Open Scope string_scope.

(** After the end-of-fit script, for every store satisfying the read interface (hypotheses 1-5, to be discharged by the
    C01 state model) and every graph whose population priors only read non-population independent nodes:
    every population variable is the MODE of its prior under the final parameters, the parameters are untouched, and every
    read (velocities, mixing matrix, trajectories) is the from-scratch value for those parameters and modes. *)
Theorem C12_self_consistent :
  forall (V St : Type) (get : St -> string -> V) (set : string -> V -> St -> St) (clone : St -> St)
         (stat : prior_stat -> string -> (string -> V) -> V)
         (vals : St -> string -> V) (eval : (string -> V) -> string -> V) (indep : string -> bool)
         (prior_params : string -> list string),
    (forall s n, get s n = eval (vals s) n) ->
    (forall s n v m, indep n = true -> vals (set n v s) m = upd V (vals s) n v m) ->
    (forall s m, vals (clone s) m = vals s m) ->
    (forall a n, indep n = true -> eval a n = a n) ->
    (forall a a' n, (forall m, a m = a' m) -> eval a n = eval a' n) ->
    forall pops : list string,
    NoDup pops ->
    (forall pp, In pp pops -> indep pp = true) ->
    (forall k pp g g', (forall q, In q (prior_params pp) -> g q = g' q) -> stat k pp g = stat k pp g') ->
    (forall pp q, In pp pops -> In q (prior_params pp) -> indep q = true /\ ~ In q pops) ->
    forall s, exists s', end_of_fit V St get set clone stat pops s = Some s' /\
      (forall pp, In pp pops -> get s' pp = stat UseMode pp (get s)) /\
      (forall q, indep q = true -> ~ In q pops -> get s' q = get s q) /\
      (forall n, get s' n = eval (target V St get stat vals UseMode s pops) n).
Proof. exact self_consistent. Qed.
Print Assumptions C12_self_consistent.

(** Tie: the statements after the iteration loop and the PRIOR_MODE routing regenerated from the source are the model's. *)
Theorem C12_tie_end_of_fit : gen_end_of_fit = end_of_fit_ops /\ forall i, gen_init_route i = init_route i.
Proof. split; [reflexivity | intros []; reflexivity]. Qed.
Print Assumptions C12_tie_end_of_fit.

(** For every well-formed model whose instance name is its kind: save succeeds, load of the result succeeds, and the
    reloaded model has the same kind, name, features, dimension, sources, observation models, cluster / event counts and
    fit metrics; its parameters have the same names, their DECLARED shapes and the data cast to float32.
    Partial: the instance-name hypothesis cannot be dropped (C12_instance_name_refuted), nor d = 1 -> s = 0 inside [wf]
    (C12_univariate_default_refuted). *)
Theorem C12_roundtrip_partial :
  forall (cast32 : Q -> Q) (derive : mkind -> Z -> Z -> list (string * tensor) -> tensor) (ver : string) (m : model),
    wf m -> m_name m = kind_name (m_kind m) ->
    exists dct d s, save ver m = Ok dct /\ dimension m = Some d /\ m_sdim m = Some s /\
      load cast32 derive dct =
      Ok (mkM (m_kind m) (m_name m) (m_features m) (Some d) (Some s) (m_obs m) (m_nclusters m) (m_nb_events m) (m_fit_metrics m)
              (recast cast32 (decl_of m d s) (m_params m))
              (derive (m_kind m) d s (recast cast32 (decl_of m d s) (m_params m)))).
Proof. exact roundtrip. Qed.
Print Assumptions C12_roundtrip_partial.

(** If moreover the parameters have their declared shapes, are float32 values, and the state's mixing matrix is the one
    derived from them (C12_self_consistent), the reloaded model has identical parameters and hyper-parameters and
    saving it reproduces the dictionary: save (load (save m)) = save m. *)
Theorem C12_roundtrip_exact :
  forall (cast32 : Q -> Q) (derive : mkind -> Z -> Z -> list (string * tensor) -> tensor) (ver : string) (m : model),
    wf m -> default_named m ->
    (forall d s, dimension m = Some d -> m_sdim m = Some s -> declared_shapes (decl_of m d s) (m_params m)) ->
    single_precision cast32 m -> mixing_consistent derive m ->
    exists dct d, save ver m = Ok dct /\ dimension m = Some d /\
      exists m', load cast32 derive dct = Ok m' /\ m_params m' = m_params m /\ m_kind m' = m_kind m /\ m_name m' = m_name m /\
        m_features m' = m_features m /\ dimension m' = dimension m /\ m_sdim m' = m_sdim m /\ m_obs m' = m_obs m /\
        m_nclusters m' = m_nclusters m /\ m_nb_events m' = m_nb_events m /\ m_fit_metrics m' = m_fit_metrics m /\
        save ver m' = Ok dct.
Proof. exact roundtrip_exact. Qed.
Print Assumptions C12_roundtrip_exact.

Theorem C12_idempotent_partial :
  forall (cast32 : Q -> Q) (derive : mkind -> Z -> Z -> list (string * tensor) -> tensor) (ver : string) (m : model),
    wf m -> default_named m ->
    (forall d s, dimension m = Some d -> m_sdim m = Some s -> declared_shapes (decl_of m d s) (m_params m)) ->
    single_precision cast32 m -> mixing_consistent derive m ->
    exists dct m', save ver m = Ok dct /\ load cast32 derive dct = Ok m' /\ save ver m' = save ver m.
Proof.
  intros c dv ver m H1 H2 H3 H4 H5.
  destruct (roundtrip_exact c dv ver m H1 H2 H3 H4 H5) as (dct & d & Hs & _ & m' & Hl & Hrest).
  exists dct, m'. split; [exact Hs|]. split; [exact Hl|]. rewrite Hs. apply Hrest.
Qed.
Print Assumptions C12_idempotent_partial.

(** save∘load is a fixed point after ONE round, with NO hypothesis on the shapes, the precision or the mixing matrix the
    model holds: for every well-formed default-named model, the file written by the reloaded model reloads into a model
    that writes the same file, has the same parameters as the first reload and the same kind, name, features, dimension,
    sources, observation models, cluster / event counts and fit metrics as the original.  The hypothesis on the cast
    (casting twice = casting once, on the numbers the model holds) is a fact about rounding; for the executable float32
    rounding it is decided by computation on every value of every run (r32 fixed-point cases of the correspondence).
    With [C12_float64_refuted] / [C12_scalar_noise_shape_refuted] (the FIRST round may change the file) this is the exact
    extent of idempotence of the faithful model. *)
Theorem C12_idempotent_after_one :
  forall (cast32 : Q -> Q) (derive : mkind -> Z -> Z -> list (string * tensor) -> tensor) (ver : string) (m : model),
    wf m -> default_named m -> cast_idem_on cast32 m ->
    exists dct m1, save ver m = Ok dct /\ load cast32 derive dct = Ok m1 /\
      exists dct1 m2, save ver m1 = Ok dct1 /\ load cast32 derive dct1 = Ok m2 /\
        save ver m2 = Ok dct1 /\ m_params m2 = m_params m1 /\ m_kind m2 = m_kind m /\ m_name m2 = m_name m /\
        m_features m2 = m_features m /\ dimension m2 = dimension m /\ m_sdim m2 = m_sdim m /\ m_obs m2 = m_obs m /\
        m_nclusters m2 = m_nclusters m /\ m_nb_events m2 = m_nb_events m /\ m_fit_metrics m2 = m_fit_metrics m.
Proof. exact idempotent_after_one. Qed.
Print Assumptions C12_idempotent_after_one.

(** Rounding to binary32 twice is rounding once, for EVERY rational (round-to-nearest-even, subnormals included; the domain
    of [r32]: overflow is not modelled, values beyond the float32 range keep 24 significant bits).  [r32] is the function the
    correspondence compares with torch's float32 cast on sampled, edge and exact-tie values on every run. *)
From Leaspy Require Import Io.R32 Io.R32Proofs.
Theorem C12_r32_idempotent : forall q : Q, r32 (r32 q) = r32 q.
Proof. exact r32_idempotent. Qed.
Print Assumptions C12_r32_idempotent.

(** ... so [C12_idempotent_after_one] needs NO hypothesis on the cast when the cast is the executable float32 rounding:
    every well-formed default-named model, whatever shapes / precision / mixing matrix it holds, is a fixed point of
    save∘load after one round. *)
Theorem C12_idempotent_after_one_r32 :
  forall (derive : mkind -> Z -> Z -> list (string * tensor) -> tensor) (ver : string) (m : model),
    wf m -> default_named m ->
    exists dct m1, save ver m = Ok dct /\ load r32 derive dct = Ok m1 /\
      exists dct1 m2, save ver m1 = Ok dct1 /\ load r32 derive dct1 = Ok m2 /\
        save ver m2 = Ok dct1 /\ m_params m2 = m_params m1 /\ m_kind m2 = m_kind m /\ m_name m2 = m_name m /\
        m_features m2 = m_features m /\ dimension m2 = dimension m /\ m_sdim m2 = m_sdim m /\ m_obs m2 = m_obs m /\
        m_nclusters m2 = m_nclusters m /\ m_nb_events m2 = m_nb_events m /\ m_fit_metrics m2 = m_fit_metrics m.
Proof. intros derive ver m W N. exact (idempotent_after_one r32 derive ver m W N (cast_idem_on_r32 m)). Qed.
Print Assumptions C12_idempotent_after_one_r32.

(** The same facts for the parametric rounding [round_bin] of Io/F32.v ([f32] = round_bin 24 (-126) 127, [f64], and
    [store32] = float64 then float32: the cast of the ingestion model of C14 / C20), wherever the rounding is defined
    (normal range; outside it [round_bin] answers [None]): rounding twice is rounding once, rounding is monotone, the
    float32 store is monotone.  Stated here because they are the float side of this property; C14 / C20 use them by name. *)
From Leaspy Require Io.F32 Io.F32Proofs.
Theorem C12_round_bin_idempotent : forall (p emin emax : Z) (q x : Q), (1 <= p)%Z ->
  F32.round_bin p emin emax q = Some x -> F32.round_bin p emin emax x = Some x.
Proof. exact F32Proofs.round_bin_idempotent. Qed.
Print Assumptions C12_round_bin_idempotent.

Theorem C12_round_bin_monotone : forall (p emin emax : Z) (q1 q2 x1 x2 : Q), (1 <= p)%Z -> (q1 <= q2)%Q ->
  F32.round_bin p emin emax q1 = Some x1 -> F32.round_bin p emin emax q2 = Some x2 -> (x1 <= x2)%Q.
Proof. exact F32Proofs.round_bin_monotone. Qed.
Print Assumptions C12_round_bin_monotone.

Theorem C12_store32_monotone : forall q1 q2 : Q,
  (exists a b, F32.f64 q1 = Some a /\ F32.f32 a = Some b) -> (exists a b, F32.f64 q2 = Some a /\ F32.f32 a = Some b) ->
  (q1 <= q2)%Q -> (F32.store32 q1 <= F32.store32 q2)%Q.
Proof. exact F32Proofs.store32_monotone. Qed.
Print Assumptions C12_store32_monotone.

(** ... and both roundings are defined on [2^-126, 2^126) *)
Theorem C12_store32_defined : forall q : Q, (F32.pow2 (-126) <= q)%Q -> (q < F32.pow2 126)%Q ->
  exists a b, F32.f64 q = Some a /\ F32.f32 a = Some b.
Proof. exact F32Proofs.store32_defined. Qed.
Print Assumptions C12_store32_defined.

(** [F32.f32] and [r32] are the same function wherever [f32] is defined (normal range of binary32): the cast of the save/load
    model and the float32 store of the ingestion model are one rounding; hence [r32] is monotone there. *)
From Leaspy Require Io.F32R32Proofs.
Theorem C12_f32_is_r32 : forall q x : Q, F32.f32 q = Some x -> r32 q = x.
Proof. exact F32R32Proofs.f32_is_r32. Qed.
Print Assumptions C12_f32_is_r32.

Theorem C12_r32_monotone_normal : forall q1 q2 : Q,
  (F32.pow2 (-126) <= q1)%Q -> (q1 <= q2)%Q -> (q2 < F32.pow2 127)%Q -> (r32 q1 <= r32 q2)%Q.
Proof. exact F32R32Proofs.r32_monotone_normal. Qed.
Print Assumptions C12_r32_monotone_normal.

(** The age collision of C14 (finding F9b, C14_roundtrip_collision_refuted) is not one witness: EVERY two ages
    a <= b in [70, 70.000003] are stored as the single float32 age 70. *)
Theorem C12_store32_collision_interval : forall a b : Q, (70 <= a)%Q -> (a <= b)%Q -> (b <= 70000003 # 1000000)%Q ->
  (F32.store32 a == 70)%Q /\ (F32.store32 b == 70)%Q.
Proof. exact F32Proofs.store32_collision_interval. Qed.
Print Assumptions C12_store32_collision_interval.

(** The unrestricted statements are false of the code (each witness is replayed on the implementation by the check). *)
Theorem C12_instance_name_refuted :
  exists m, wf m /\ forall cast derive, exists d, save "2.0.2" m = Ok d /\ load cast derive d = Err ValueError.
Proof. exact instance_name_refuted. Qed.
Print Assumptions C12_instance_name_refuted.

Theorem C12_instance_name_case_refuted : exists m, wf m /\ forall derive, exists d m', save "2.0.2" m = Ok d /\
  load (fun q => q) derive d = Ok m' /\ m_name m = "LOGISTIC" /\ m_name m' = "logistic".
Proof. exact instance_name_case_refuted. Qed.
Print Assumptions C12_instance_name_case_refuted.

Theorem C12_univariate_default_refuted : forall cast derive, exists d,
  save "2.0.2" univariate_default = Ok d /\ load cast derive d = Err ModelInputError.
Proof. exact univariate_default_refuted. Qed.
Print Assumptions C12_univariate_default_refuted.

Theorem C12_scalar_noise_shape_refuted : exists m, wf m /\ default_named m /\ single_precision (fun q => q) m /\
  forall derive, exists d m', save "2.0.2" m = Ok d /\ load (fun q => q) derive d = Ok m' /\ save "2.0.2" m' <> Ok d.
Proof. exact scalar_noise_shape_refuted. Qed.
Print Assumptions C12_scalar_noise_shape_refuted.

Theorem C12_float64_refuted : exists m, wf m /\ default_named m /\
  (forall d s, dimension m = Some d -> m_sdim m = Some s -> declared_shapes (decl_of m d s) (m_params m)) /\
  forall derive, exists d m', save "2.0.2" m = Ok d /\ load r32 derive d = Ok m' /\ save "2.0.2" m' <> Ok d.
Proof. exact float64_refuted. Qed.
Print Assumptions C12_float64_refuted.

(* ====================================================================== on the REAL State model (Compose/)
   The five store-interface hypotheses of C12_self_consistent (the first being "reads are never stale":
   get s n = eval (vals s) n) are discharged: the store is a State object of State/StateModel.v satisfying the C01 invariant
   [Good] ([gstate]; every State object reachable from [init_store] does), variables are addressed by name through [names]
   (= sorted_variables_names: distinct, one per node), [s_get] / [s_set] / [s_clone] are State.__getitem__ / __setitem__ /
   clone of the model of the code as it is, [s_eval] is C01's from-scratch evaluation.  What is left: [WF g] (C15) and the
   four graph-shape conditions on the population variables and their priors (checked on every shipped DAG by the harness). *)
From Leaspy Require Import State.StateModel State.StateNow State.StateExec Compose.StateApi Compose.StateEndOfFit
                           Compose.StateEndOfFitProofs Compose.ComposeExamples.

(** The five hypotheses hold of the real State model. *)
Theorem C12_store_interface_discharged :
  forall (V : Type) (g : graph V) (W : WF g) (names : list string), NoDup names -> List.length names = gn g ->
    (forall s n, s_get V g names s n = s_eval V g names (s_vals V g names s) n) /\
    (forall s n v m, s_indep V g names n = true ->
       s_vals V g names (s_set V g W names n v s) m = EndOfFitProofs.upd (option V) (s_vals V g names s) n v m) /\
    (forall s m, s_vals V g names (s_clone V g s) m = s_vals V g names s m) /\
    (forall a n, s_indep V g names n = true -> s_eval V g names a n = a n) /\
    (forall a a' n, (forall m, a m = a' m) -> s_eval V g names a n = s_eval V g names a' n).
Proof. exact store_interface. Qed.
Print Assumptions C12_store_interface_discharged.

(** C12_self_consistent on the real State model: no store hypothesis left. *)
Theorem C12_self_consistent_state :
  forall (V : Type) (g : graph V) (W : WF g) (names : list string), NoDup names -> List.length names = gn g ->
  forall (stat : prior_stat -> string -> (string -> option V) -> option V) (prior_params : string -> list string) (pops : list string),
    NoDup pops ->
    (forall pp, In pp pops -> s_indep V g names pp = true) ->
    (forall k pp f f', (forall q, In q (prior_params pp) -> f q = f' q) -> stat k pp f = stat k pp f') ->
    (forall pp q, In pp pops -> In q (prior_params pp) -> s_indep V g names q = true /\ ~ In q pops) ->
    forall s : gstate V g,
      exists s', end_of_fit (option V) (gstate V g) (s_get V g names) (s_set V g W names) (s_clone V g) stat pops s = Some s' /\
        (forall pp, In pp pops -> s_get V g names s' pp = stat UseMode pp (s_get V g names s)) /\
        (forall q, s_indep V g names q = true -> ~ In q pops -> s_get V g names s' q = s_get V g names s q) /\
        (forall nm, s_get V g names s' nm =
                    s_eval V g names (target (option V) (gstate V g) (s_get V g names) stat (s_vals V g names) UseMode s pops) nm).
Proof. exact self_consistent_state. Qed.
Print Assumptions C12_self_consistent_state.

(** ... and for the script as the code runs it — every assignment is made on the State object left by the READS of the
    prior's parameters, which fill its cache (a read changes no non-derived value: C01_get_transparent) — on any State
    object [s] of any store reachable from [init_store]. *)
Theorem C12_self_consistent_reachable :
  forall (V M IX : Type) (g : graph V) (sm : sem V M IX) (W : WF g), F_mix g sm ->
  forall (names : list string), NoDup names -> List.length names = gn g ->
  forall (stat : prior_stat -> string -> (string -> option V) -> option V) (prior_params : string -> list string) (pops : list string),
    NoDup pops ->
    (forall pp, In pp pops -> s_indep V g names pp = true) ->
    (forall k pp f f', (forall q, In q (prior_params pp) -> f q = f' q) -> stat k pp f = stat k pp f') ->
    (forall pp q, In pp pops -> In q (prior_params pp) -> s_indep V g names q = true /\ ~ In q pops) ->
    forall (S : StateModel.store V) (k : nat) (s : state V),
      Reach V g M IX sm S -> nth_error S k = Some s ->
      exists gs : gstate V g, proj1_sig gs = s /\
        let s' := end_of_fit_cached V g W names stat prior_params pops gs in
        (forall pp, In pp pops -> s_get V g names s' pp = stat UseMode pp (s_get V g names gs)) /\
        (forall q, s_indep V g names q = true -> ~ In q pops -> s_get V g names s' q = s_get V g names gs q) /\
        (forall nm, s_get V g names s' nm =
                    s_eval V g names (target (option V) (gstate V g) (s_get V g names) stat (s_vals V g names) UseMode gs pops) nm).
Proof. exact self_consistent_reach. Qed.
Print Assumptions C12_self_consistent_reachable.

(** Non-vacuity on the 7-node graph of Compose/ComposeExamples.v, State object 0 of the store left by a 14-operation past:
    the hypotheses hold; before the script log_v0 = 3, v0 = 6, model = 114; after it log_v0 = mode = log_v0_mean = 7,
    v0 = 14, model = 122, the parameter untouched. *)
Theorem C12_state_example :
  WF Demo.g /\ (NoDup Demo.names /\ List.length Demo.names = gn Demo.g) /\
  (NoDup Demo.pops /\ (forall pp, In pp Demo.pops -> s_indep xval Demo.g Demo.names pp = true) /\
   (forall k pp f f', (forall q, In q (Demo.prior_params pp) -> f q = f' q) -> Demo.stat k pp f = Demo.stat k pp f') /\
   (forall pp q, In pp Demo.pops -> In q (Demo.prior_params pp) -> s_indep xval Demo.g Demo.names q = true /\ ~ In q Demo.pops)) /\
  (map (s_get xval Demo.g Demo.names Demo.gs0) ["log_v0_mean"; "log_v0"; "v0"; "model"]
     = [Some (XS (AFin 7)); Some (XS (AFin 3)); Some (XS (AFin 6)); Some (XS (AFin 114))]%Z /\
   map (s_get xval Demo.g Demo.names (end_of_fit_cached xval Demo.g Demo.g_wf Demo.names Demo.stat Demo.prior_params Demo.pops Demo.gs0))
       ["log_v0_mean"; "log_v0"; "v0"; "model"]
     = [Some (XS (AFin 7)); Some (XS (AFin 7)); Some (XS (AFin 14)); Some (XS (AFin 122))]%Z).
Proof. exact (conj Demo.g_wf (conj Demo.names_ok (conj Demo.c12_hypotheses Demo.end_of_fit_runs))). Qed.
Print Assumptions C12_state_example.

(* ====================================================================== HISTORIES on one model object
   The self-consistency clause for any sequence of load_parameters / fit on ONE model (Io/History.v): load_parameters =
   assign the provided parameters; reset EVERY population variable to the mode of its prior under the NEW parameters
   (unconditionally); read the derived values to compare.  A fit = what the iterations did to the State (any transformer)
   followed by the end-of-fit script. *)
From Leaspy Require Import Io.History Io.HistoryExec Io.HistoryProofs Compose.StateHistory Compose.StateHistoryProofs Compose.HistoryExamples.

(** Tie: the statements of StatefulModel.load_parameters regenerated from the source are the model's — in particular the
    reset of the population variables is NOT guarded (a guard is expressible: LpIfPopsUnset, and is another script). *)
Theorem C12_tie_load_parameters : gen_load_parameters = load_parameters_ops.
Proof. reflexivity. Qed.
Print Assumptions C12_tie_load_parameters.

(** One load_parameters on ANY state (whatever the model already holds), abstract store with the five interface hypotheses. *)
Theorem C12_load_parameters_self_consistent :
  forall (V St : Type) (get : St -> string -> V) (set : string -> V -> St -> St)
         (stat : prior_stat -> string -> (string -> V) -> V) (isset : St -> string -> bool)
         (vals : St -> string -> V) (eval : (string -> V) -> string -> V) (indep : string -> bool)
         (prior_params : string -> list string),
    (forall s n, get s n = eval (vals s) n) ->
    (forall s n v m, indep n = true -> vals (set n v s) m = EndOfFitProofs.upd V (vals s) n v m) ->
    (forall a n, indep n = true -> eval a n = a n) ->
    (forall a a' n, (forall m, a m = a' m) -> eval a n = eval a' n) ->
    forall pops : list string,
    NoDup pops ->
    (forall pp, In pp pops -> indep pp = true) ->
    (forall k pp g g', (forall q, In q (prior_params pp) -> g q = g' q) -> stat k pp g = stat k pp g') ->
    (forall pp q, In pp pops -> In q (prior_params pp) -> indep q = true /\ ~ In q pops) ->
    forall (a : list (string * V)) (s : St), params_ok V indep pops a ->
      let s' := load_parameters V St get set stat isset pops a s in
      at_mode V St get stat pops s' /\
      (NoDup (map fst a) -> forall p v, In (p, v) a -> get s' p = v) /\
      (forall q, indep q = true -> ~ In q pops -> ~ In q (map fst a) -> get s' q = get s q) /\
      (forall n, get s' n = eval (fresh_model V stat pops (updl V a (vals s))) n).
Proof. exact load_parameters_spec. Qed.
Print Assumptions C12_load_parameters_self_consistent.

(** After ANY sequence of load_parameters / fit / observer events whose last load_parameters-or-fit is [e], followed by any
    observers [rs] (to_dict, save: reads that fill the cache) (run by any runner that leaves the non-derived values
    of the scripts of Io/History.v): population variables = prior modes read in the final state, parameters = the LAST ones,
    every read = from-scratch value of a fresh model under them. *)
Theorem C12_history_self_consistent :
  forall (V St : Type) (get : St -> string -> V) (set : string -> V -> St -> St) (clone : St -> St)
         (stat : prior_stat -> string -> (string -> V) -> V) (isset : St -> string -> bool)
         (vals : St -> string -> V) (eval : (string -> V) -> string -> V) (indep : string -> bool)
         (prior_params : string -> list string),
    (forall s n, get s n = eval (vals s) n) ->
    (forall s n v m, indep n = true -> vals (set n v s) m = EndOfFitProofs.upd V (vals s) n v m) ->
    (forall s m, vals (clone s) m = vals s m) ->
    (forall a n, indep n = true -> eval a n = a n) ->
    (forall a a' n, (forall m, a m = a' m) -> eval a n = eval a' n) ->
    forall pops : list string,
    NoDup pops ->
    (forall pp, In pp pops -> indep pp = true) ->
    (forall k pp g g', (forall q, In q (prior_params pp) -> g q = g' q) -> stat k pp g = stat k pp g') ->
    (forall pp q, In pp pops -> In q (prior_params pp) -> indep q = true /\ ~ In q pops) ->
    forall rn : St -> event V St -> option St,
    (forall s e, event_ok V St indep pops e ->
       exists x y, rn s e = Some x /\ run_event V St get set clone stat isset pops s e = Some y /\ forall m, vals x m = vals y m) ->
    forall (h : list (event V St)) (e : event V St) (rs : list (list string)) (s : St),
      Forall (event_ok V St indep pops) (h ++ [e]) -> is_read e = false ->
      exists s1 s', run_hist V St rn h s = Some s1 /\ run_hist V St rn (h ++ e :: reads V St rs) s = Some s' /\
        at_mode V St get stat pops s' /\
        (forall q, indep q = true -> ~ In q pops -> get s' q = after V St vals e s1 q) /\
        (forall n, get s' n = eval (fresh_model V stat pops (after V St vals e s1)) n).
Proof. exact history_self_consistent. Qed.
Print Assumptions C12_history_self_consistent.

(** Two model objects with ANY two pasts: if the last parameters (and other non-population values) agree, all reads agree. *)
Theorem C12_history_independent :
  forall (V St : Type) (get : St -> string -> V) (set : string -> V -> St -> St) (clone : St -> St)
         (stat : prior_stat -> string -> (string -> V) -> V) (isset : St -> string -> bool)
         (vals : St -> string -> V) (eval : (string -> V) -> string -> V) (indep : string -> bool)
         (prior_params : string -> list string),
    (forall s n, get s n = eval (vals s) n) ->
    (forall s n v m, indep n = true -> vals (set n v s) m = EndOfFitProofs.upd V (vals s) n v m) ->
    (forall s m, vals (clone s) m = vals s m) ->
    (forall a n, indep n = true -> eval a n = a n) ->
    (forall a a' n, (forall m, a m = a' m) -> eval a n = eval a' n) ->
    forall pops : list string,
    NoDup pops ->
    (forall pp, In pp pops -> indep pp = true) ->
    (forall k pp g g', (forall q, In q (prior_params pp) -> g q = g' q) -> stat k pp g = stat k pp g') ->
    (forall pp q, In pp pops -> In q (prior_params pp) -> indep q = true /\ ~ In q pops) ->
    forall rn : St -> event V St -> option St,
    (forall s e, event_ok V St indep pops e ->
       exists x y, rn s e = Some x /\ run_event V St get set clone stat isset pops s e = Some y /\ forall m, vals x m = vals y m) ->
    forall (h1 : list (event V St)) (e1 : event V St) (r1 : list (list string)) (s1 : St)
           (h2 : list (event V St)) (e2 : event V St) (r2 : list (list string)) (s2 : St),
      Forall (event_ok V St indep pops) (h1 ++ [e1]) -> is_read e1 = false ->
      Forall (event_ok V St indep pops) (h2 ++ [e2]) -> is_read e2 = false ->
      exists m1 m2 f1 f2, run_hist V St rn h1 s1 = Some m1 /\ run_hist V St rn h2 s2 = Some m2 /\
        run_hist V St rn (h1 ++ e1 :: reads V St r1) s1 = Some f1 /\ run_hist V St rn (h2 ++ e2 :: reads V St r2) s2 = Some f2 /\
        ((forall q, ~ In q pops -> after V St vals e1 m1 q = after V St vals e2 m2 q) -> forall n, get f1 n = get f2 n).
Proof. exact history_independent. Qed.
Print Assumptions C12_history_independent.

(** On the REAL State model, scripts as the code runs them (caching reads before every assignment, reads of the compared
    derived values), from any State object of any store reachable from [init_store]: no store hypothesis left. *)
Theorem C12_history_self_consistent_reachable :
  forall (V M IX : Type) (g : graph V) (sm : sem V M IX) (W : WF g), F_mix g sm ->
  forall (names : list string), NoDup names -> List.length names = gn g ->
  forall (stat : prior_stat -> string -> (string -> option V) -> option V) (prior_params : string -> list string) (pops : list string),
    NoDup pops ->
    (forall pp, In pp pops -> s_indep V g names pp = true) ->
    (forall k pp f f', (forall q, In q (prior_params pp) -> f q = f' q) -> stat k pp f = stat k pp f') ->
    (forall pp q, In pp pops -> In q (prior_params pp) -> s_indep V g names q = true /\ ~ In q pops) ->
    forall (S : StateModel.store V) (k : nat) (s : state V)
           (h : list (event (option V) (gstate V g))) (e : event (option V) (gstate V g)) (rs : list (list string)),
      Reach V g M IX sm S -> nth_error S k = Some s ->
      Forall (event_ok (option V) (gstate V g) (s_indep V g names) pops) (h ++ [e]) -> is_read e = false ->
      exists gs : gstate V g, proj1_sig gs = s /\
      exists s1 s', run_history_cached V g W names stat prior_params pops h gs = Some s1 /\
        run_history_cached V g W names stat prior_params pops (h ++ e :: reads (option V) (gstate V g) rs) gs = Some s' /\
        at_mode (option V) (gstate V g) (s_get V g names) stat pops s' /\
        (forall q, s_indep V g names q = true -> ~ In q pops ->
           s_get V g names s' q = after (option V) (gstate V g) (s_vals V g names) e s1 q) /\
        (forall n, s_get V g names s' n =
           s_eval V g names (fresh_model (option V) stat pops (after (option V) (gstate V g) (s_vals V g names) e s1)) n).
Proof. exact history_self_consistent_reach. Qed.
Print Assumptions C12_history_self_consistent_reachable.

(** ... after a last load_parameters(a) the parameters read back are exactly the provided values *)
Theorem C12_history_last_load_params_state :
  forall (V : Type) (g : graph V) (W : WF g) (names : list string), NoDup names -> List.length names = gn g ->
  forall (stat : prior_stat -> string -> (string -> option V) -> option V) (prior_params : string -> list string) (pops : list string),
    NoDup pops ->
    (forall pp, In pp pops -> s_indep V g names pp = true) ->
    (forall k pp f f', (forall q, In q (prior_params pp) -> f q = f' q) -> stat k pp f = stat k pp f') ->
    (forall pp q, In pp pops -> In q (prior_params pp) -> s_indep V g names q = true /\ ~ In q pops) ->
    forall (h : list (event (option V) (gstate V g))) (a : list (string * option V)) (cmp : list string) (rs : list (list string))
           (s : gstate V g),
      Forall (event_ok (option V) (gstate V g) (s_indep V g names) pops) (h ++ [EvLoad a cmp]) -> NoDup (map fst a) ->
      exists s', run_history_cached V g W names stat prior_params pops (h ++ EvLoad a cmp :: reads (option V) (gstate V g) rs) s = Some s' /\
        at_mode (option V) (gstate V g) (s_get V g names) stat pops s' /\
        forall p v, In (p, v) a -> s_get V g names s' p = v.
Proof. exact history_last_load_params_cached. Qed.
Print Assumptions C12_history_last_load_params_state.

(** An OLD model object (any reachable State object, any history, then load_parameters(a)) reads exactly like a FRESH one
    (any other reachable State object, load_parameters(a) only) as soon as what [a] does not provide is the same in both. *)
Theorem C12_history_vs_fresh_reachable :
  forall (V M IX : Type) (g : graph V) (sm : sem V M IX) (W : WF g), F_mix g sm ->
  forall (names : list string), NoDup names -> List.length names = gn g ->
  forall (stat : prior_stat -> string -> (string -> option V) -> option V) (prior_params : string -> list string) (pops : list string),
    NoDup pops ->
    (forall pp, In pp pops -> s_indep V g names pp = true) ->
    (forall k pp f f', (forall q, In q (prior_params pp) -> f q = f' q) -> stat k pp f = stat k pp f') ->
    (forall pp q, In pp pops -> In q (prior_params pp) -> s_indep V g names q = true /\ ~ In q pops) ->
    forall (S S0 : StateModel.store V) (k k0 : nat) (s s0 : state V)
           (h : list (event (option V) (gstate V g))) (a : list (string * option V)) (cmp : list string) (rs : list (list string)),
      Reach V g M IX sm S -> nth_error S k = Some s -> Reach V g M IX sm S0 -> nth_error S0 k0 = Some s0 ->
      Forall (event_ok (option V) (gstate V g) (s_indep V g names) pops) (h ++ [EvLoad a cmp]) ->
      exists gs gs0 : gstate V g, proj1_sig gs = s /\ proj1_sig gs0 = s0 /\
      exists s1 s' f, run_history_cached V g W names stat prior_params pops h gs = Some s1 /\
        run_history_cached V g W names stat prior_params pops (h ++ EvLoad a cmp :: reads (option V) (gstate V g) rs) gs = Some s' /\
        run_history_cached V g W names stat prior_params pops [EvLoad a cmp] gs0 = Some f /\
        ((forall q, ~ In q pops -> ~ In q (map fst a) -> s_vals V g names s1 q = s_vals V g names gs0 q) ->
         forall n, s_get V g names s' n = s_get V g names f n).
Proof. exact history_vs_fresh_reach. Qed.
Print Assumptions C12_history_vs_fresh_reachable.

(** Why the reset must be unconditional: with the guard "only if the population variables are not all set" the faithful
    model leaves the OLD population variable and derived value after a second load_parameters (7 and 14, the mode being 9). *)
Theorem C12_guarded_reset_refuted :
  let s1 := ToyHistory.guarded_load [("log_v0_mean", 7%nat)] ToyHistory.blank in
  let s2 := ToyHistory.guarded_load [("log_v0_mean", 9%nat)] s1 in
  (Toy.get s1 "log_v0", Toy.get s1 "v0") = (7, 14)%nat /\
  Toy.get s2 "log_v0_mean" = 9%nat /\ Toy.stat UseMode "log_v0" (Toy.get s2) = 9%nat /\ (Toy.get s2 "log_v0", Toy.get s2 "v0") = (7, 14)%nat /\
  ToyHistory.guarded_ops <> load_parameters_ops.
Proof. exact ToyHistory.guarded_reset_refuted. Qed.
Print Assumptions C12_guarded_reset_refuted.

(** Non-vacuity on the 7-node graph, State object 0 of the store left by the 14-operation past, scripts with caching reads:
    load_parameters(9) -> observer -> fit (iterations leave 5 / 3) -> load_parameters(11) -> observer; the events satisfy the hypothesis. *)
Theorem C12_history_example :
  Forall (event_ok (option xval) DemoHistory.gst (s_indep xval Demo.g Demo.names) Demo.pops) DemoHistory.h3 /\
  DemoHistory.view (DemoHistory.run (firstn 1 DemoHistory.h3) Demo.gs0)
    = Some [DemoHistory.num 9; DemoHistory.num 9; DemoHistory.num 18; DemoHistory.num 126] /\
  DemoHistory.view (DemoHistory.run (firstn 3 DemoHistory.h3) Demo.gs0)
    = Some [DemoHistory.num 5; DemoHistory.num 5; DemoHistory.num 10; DemoHistory.num 118] /\
  DemoHistory.view (DemoHistory.run DemoHistory.h3 Demo.gs0)
    = Some [DemoHistory.num 11; DemoHistory.num 11; DemoHistory.num 22; DemoHistory.num 130].
Proof. exact (conj DemoHistory.history_events_ok DemoHistory.history_runs). Qed.
Print Assumptions C12_history_example.
