(** C02 — a rejected proposal leaves no trace in the state.
    Property theorems only, over the model of State/StateModel.v (C01's model, imported unchanged):
      [g]    any variable graph, [WF g] = what dag.py delivers (C15; recomputed by [wf_b] on every graph of the tie);
      [sm]   what torch does on values: [put_val] (index_put / +) and [mix m old cur] (the partial revert of one entry;
             the mask [m] marks the REJECTED individuals);  [xsem] = the code as it is (old*m + cur*~m),
             [xsem_where] = the proposed repair (torch.where) on the executable toy vocabulary;
      [fx], [chk] as in C01 (finding F1 and its extra discipline clause; the samplers run with auto-fork on, so they never meet it);
      [F_mix g sm] = node functions of per-individual nodes commute with [mix] (C07's locality; proved below for entry-wise
             toy functions and the selection, FALSE for the code's mix as soon as a value can be non-finite);
      a proposal = an assignment made while [mode st <> None] (auto-fork REF/COPY); [gets g st reads] = any sequence of reads;
      [sim g a b] = the two states are consistent, have the same independent values, fork mode and equivalent undo logs
             (their derived caches may hold more or fewer entries);  [forget_fork st] = [st] with its undo log consumed. *)
From Coq Require Import List Arith Bool ZArith.
From Leaspy Require Import State.StateModel State.StateProofs State.StateExec State.StateExecProofs
                           State.Revert State.RevertProofs State.RevertExec State.RevertExecProofs
                           Sampler.RevertScript Sampler.RevertScriptProofs.
Import ListNotations.

(** Full rejection.  After [x := o] (forked), ANY reads, and [revert()]: the revert succeeds; every value that was cached
    before the proposal — independent or derived, inside or outside the forked sub-graph — is exactly back; the
    independent values are those before the proposal; the undo log is consumed; the state is consistent; and every read of
    every variable returns what it returned before the proposal. *)
Theorem C02_full_revert :
  forall (V : Type) (g : graph V) (fx chk : bool), WF g -> fx = true \/ chk = true ->
  forall (st : state V) (i : nat) (o : option V) (reads : list nat),
    Good g st -> mode st <> None -> i < gn g -> settable g i = true ->
    let st1 := fst (set_state g fx st i o) in
    let st2 := gets g st1 reads in
    let st3 := fst (revert_state st2) in
    snd (revert_state st2) = Done /\
    (forall j w, values st j = Some w -> values st3 j = Some w) /\
    (forall j, In j (i :: desc g i) -> values st3 j = values st j) /\
    (forall j, linked g j = false -> values st3 j = values st j) /\
    fork st3 = None /\ mode st3 = mode st /\ Good g st3 /\
    (forall j, snd (get g (values st3) j) = snd (get g (values st) j)).
Proof. exact full_revert. Qed.
Print Assumptions C02_full_revert.

(** ... and every following history (any operations, on the state or on clones of it) returns, operation by operation, what
    it returns when run from the state before the proposal with its undo log consumed — "as if never proposed".  The only
    results exempted are those of [is_variable_set] on a DERIVED variable, which reports the cache content, not a value. *)
Theorem C02_full_revert_then_any_history :
  forall (V M IX : Type) (g : graph V) (sm : sem V M IX) (fx chk : bool), WF g -> fx = true \/ chk = true ->
  forall (st : state V) (i : nat) (o : option V) (reads : list nat) (later : list (op V M IX)),
    F_mix g sm -> Good g st -> mode st <> None -> i < gn g -> settable g i = true ->
    let s1 := fst (run g sm fx [st] (Set_ 0 i o :: map (Get 0) reads ++ [Revert 0])) in
    Disciplined g sm fx chk s1 later -> Disciplined g sm fx chk [forget_fork st] later ->
    outs_agree g later (snd (run g sm fx s1 later)) (snd (run g sm fx [forget_fork st] later)).
Proof. exact full_revert_history. Qed.
Print Assumptions C02_full_revert_then_any_history.

(** The general form of "every following history": two stores whose states are pairwise equivalent ([sim]) answer every
    disciplined history identically (same exemption) and stay equivalent; when no operation of the history inspects the
    cache the two result lists are equal. *)
Theorem C02_later_history :
  forall (V M IX : Type) (g : graph V) (sm : sem V M IX) (fx chk : bool), WF g -> fx = true \/ chk = true ->
  forall (ops : list (op V M IX)), F_mix g sm ->
  forall s1 s2 : store V, sim_store g s1 s2 ->
    Disciplined g sm fx chk s1 ops -> Disciplined g sm fx chk s2 ops ->
    sim_store g (fst (run g sm fx s1 ops)) (fst (run g sm fx s2 ops)) /\
    outs_agree g ops (snd (run g sm fx s1 ops)) (snd (run g sm fx s2 ops)).
Proof. exact sim_run. Qed.
Print Assumptions C02_later_history.

Theorem C02_later_history_equal :
  forall (V M IX : Type) (g : graph V) (ops : list (op V M IX)) (x y : list (out V)),
    forallb (cache_blind g) ops = true -> outs_agree g ops x y -> x = y.
Proof. exact outs_agree_eq. Qed.
Print Assumptions C02_later_history_equal.

(** Per-individual rejection, under the documented preconditions (the sampled variable carries the individual axis; the
    reads between proposal and decision only touch per-individual nodes below it — [axis_read_ok]; shapes consistent with
    the mask — [shapes_ok]): the revert succeeds; every node of the forked sub-graph cached on both sides holds the
    entry-wise [mix] of its pre-proposal value and of the value derived from the proposal, every other node below the
    variable — in particular every aggregated one — is unset (hence recomputed, fresh by C01); nothing outside the
    sub-graph changes and what was cached there before the proposal still is; the state is consistent ([Good]: each cached
    derived value is its definition applied to the cached parents, i.e. derived from the MIXED variable). *)
Theorem C02_partial_revert :
  forall (V M IX : Type) (g : graph V) (sm : sem V M IX) (fx chk : bool), WF g -> fx = true \/ chk = true ->
  forall (st : state V) (i : nat) (o : option V) (reads : list nat) (m : M),
    F_mix g sm -> Good g st -> mode st <> None -> i < gn g -> settable g i = true -> ind_axis g i = true ->
    (forall r, In r reads -> axis_read_ok g i r) ->
    let st1 := fst (set_state g fx st i o) in
    let st2 := gets g st1 reads in
    shapes_ok g sm m i (values st) (values st2) ->
    let st3 := fst (revert_mask_state sm st2 m) in
    snd (revert_mask_state sm st2 m) = Done /\
    (forall j, In j (i :: desc g i) ->
       values st3 j = match values st j, values st2 j with Some old, Some cur => mix sm m old cur | _, _ => None end) /\
    (forall j, ~ In j (i :: desc g i) -> values st3 j = values st2 j) /\
    (forall j w, ~ In j (i :: desc g i) -> values st j = Some w -> values st3 j = Some w) /\
    (forall j, In j (desc g i) -> ind_axis g j = false -> values st3 j = None) /\
    Good g st3 /\ fork st3 = None /\ mode st3 = mode st.
Proof. exact partial_revert. Qed.
Print Assumptions C02_partial_revert.

(** ... and the resulting state is equivalent to the one obtained by assigning the mixed value directly to the state
    before the proposal: with [C02_later_history], every later history reads as if only the accepted rows had been proposed. *)
Theorem C02_partial_revert_as_if :
  forall (V M IX : Type) (g : graph V) (sm : sem V M IX) (fx chk : bool), WF g -> fx = true \/ chk = true ->
  forall (st : state V) (i : nat) (o : option V) (reads : list nat) (m : M),
    F_mix g sm -> Good g st -> mode st <> None -> i < gn g -> settable g i = true -> ind_axis g i = true ->
    (forall r, In r reads -> axis_read_ok g i r) ->
    let st2 := gets g (fst (set_state g fx st i o)) reads in
    shapes_ok g sm m i (values st) (values st2) ->
    let st3 := fst (revert_mask_state sm st2 m) in
    sim g st3 (forget_fork (fst (set_state g fx st i (values st3 i)))).
Proof. exact partial_revert_sim. Qed.
Print Assumptions C02_partial_revert_as_if.

(** What [mix] is when it is [torch.where]: row j of the result is the pre-proposal row for a rejected individual and the
    proposed row for an accepted one; all rejected gives back the old value, all accepted the new one. *)
Theorem C02_where_is_row_selection :
  forall (m : list bool) (o c r : list atom), xwhere m (XP o) (XP c) = Some (XP r) ->
    length r = length m /\
    forall j b, nth_error m j = Some b -> nth_error r j = if b then nth_error o j else nth_error c j.
Proof. exact where_rows. Qed.
Print Assumptions C02_where_is_row_selection.

(** Entry-wise node functions commute with that selection: [F_mix] holds for every toy graph whose per-individual derived
    nodes have one parent (affine or log2), so the two theorems above apply to [xsem_where] on those graphs with no
    hypothesis left on values — finite, infinite or NaN. *)
Theorem C02_F_mix_entrywise :
  forall l : list nspec, unary_axis_b l = true -> F_mix (mk_graph l) xsem_where.
Proof. exact F_mix_unary. Qed.
Print Assumptions C02_F_mix_entrywise.

(** The code as it is (old*mask + cur*~mask): proved only where every doubly cached entry of the forked sub-graph is
    finite (and of the mask's length) — there the code's partial revert IS the selection-based one, so everything above
    applies.  What is missing w.r.t. the property text: non-finite discarded sides — see [C02_nonfinite_refuted]. *)
Theorem C02_partial_revert_finite_partial :
  forall (g : graph xval) (st : state xval) (m : list bool), WF g -> Good g st ->
    (forall fk c o cur, fork st = Some fk -> In (c, Some o) fk -> values st c = Some cur -> mixable m o cur) ->
    revert_mask_state xsem st m = revert_mask_state xsem_where st m.
Proof. exact code_revert_is_where_when_finite. Qed.
Print Assumptions C02_partial_revert_finite_partial.

(** The faithful model of the code violates the property (finding F2): y = log2 x per individual; x = [1,2]; read y;
    propose x = [-1,4]; read y = [NaN,2]; reject individual 0.  The history respects the documented contract
    ([Disciplined], shapes included); x is back to [1,4] but the read of y for the REJECTED individual is NaN, not the
    value 0 it had before the proposal and that the state's own independent values give; with the selection the same
    history reads [0,2]. *)
Theorem C02_nonfinite_refuted :
  exists (g : graph xval) (ops : list xop) (i : nat),
    WF g /\ F_mix g xsem_where /\
    Disciplined g xsem false true (init_store g) ops /\
    read_of g xsem false ops 0 0 = Ok (XP [AFin 1; AFin 4]) /\
    read_of g xsem false ops 0 i = Ok (XP [ANaN; AFin 2]) /\
    fresh_of g xsem false ops 0 i = Some (Some (XP [AFin 0; AFin 2])) /\
    read_of g xsem_where false ops 0 i = Ok (XP [AFin 0; AFin 2]).
Proof. exact nonfinite_refuted. Qed.
Print Assumptions C02_nonfinite_refuted.

(** Sampler scripts (Sampler/RevertScript.v).  One block of a population step whose proposal is REJECTED — whatever the
    decision rule and whatever the terms it read (finite or not): the state is equivalent to the state before the block
    with its undo log consumed, every value cached before the block is exactly back, every read returns what it returned
    before the block. *)
Theorem C02_pop_block_rejected :
  forall (V M IX : Type) (g : graph V) (sm : sem V M IX) (fx chk : bool), WF g -> fx = true \/ chk = true ->
  forall decide x reads (st st' : state V) blk,
    Good g st -> mode st <> None ->
    pop_block g sm fx decide x reads st blk = (st', Some false) ->
    sim g st' (forget_fork st) /\
    (forall j w, values st j = Some w -> values st' j = Some w) /\
    (forall j, snd (get g (values st') j) = snd (get g (values st) j)).
Proof. exact pop_block_rejected. Qed.
Print Assumptions C02_pop_block_rejected.

(** An ACCEPTED block holds exactly the proposed value, and the state is equivalent to the one where the proposal was
    simply assigned (so, by C01, every derived read is the value derived from the proposal). *)
Theorem C02_pop_block_accepted :
  forall (V M IX : Type) (g : graph V) (sm : sem V M IX) (fx chk : bool), WF g -> fx = true \/ chk = true ->
  forall decide x reads (st st' : state V) blk,
    Good g st -> mode st <> None ->
    pop_block g sm fx decide x reads st blk = (st', Some true) ->
    sim g st' (fst (put_state g sm fx st x (fst blk) (snd blk) true)) /\
    exists old new, snd (get g (values st) x) = Ok old /\ put_val sm (fst blk) (snd blk) true old = Some new /\
                    values st' x = Some new.
Proof. exact pop_block_accepted. Qed.
Print Assumptions C02_pop_block_accepted.

(** The whole population step (any number of blocks, any acceptance pattern): the final state is equivalent to the one
    reached by making ONLY the accepted proposals — no read, no revert. *)
Theorem C02_pop_step :
  forall (V M IX : Type) (g : graph V) (sm : sem V M IX) (fx chk : bool), WF g -> fx = true \/ chk = true ->
  forall decide x reads blks (st st' : state V), sim g st st' -> mode st <> None ->
    (forall a, In a (snd (pop_step g sm fx decide x reads st blks)) -> a <> None) ->
    sim g (fst (pop_step g sm fx decide x reads st blks))
          (pop_accepted g sm fx x st' blks (snd (pop_step g sm fx decide x reads st blks))).
Proof. exact pop_step_as_if. Qed.
Print Assumptions C02_pop_step.

(** The individual step that completes with mask [m] (True = rejected): the sampled variable is the entry-wise mix of its
    previous and proposed values, aggregated descendants are unset, nothing cached outside the sub-graph is lost, the
    state is consistent, and it is equivalent to the state before the step in which the mixed value was assigned directly. *)
Theorem C02_ind_step :
  forall (V M IX : Type) (g : graph V) (sm : sem V M IX) (fx chk : bool), WF g -> fx = true \/ chk = true ->
  forall decide x reads (st st' : state V) d (m : M),
    F_mix g sm -> Good g st -> mode st <> None -> ind_axis g x = true ->
    (forall r, In r reads -> axis_read_ok g x r) ->
    ind_step g sm fx decide x reads st d = (st', Some m) ->
    exists old new,
      snd (get g (values st) x) = Ok old /\ put_val sm None d true old = Some new /\
      values st' x = mix sm m old new /\
      (forall j, In j (desc g x) -> ind_axis g j = false -> values st' j = None) /\
      (forall j w, ~ In j (x :: desc g x) -> values st j = Some w -> values st' j = Some w) /\
      Good g st' /\ fork st' = None /\ mode st' = mode st /\
      sim g st' (forget_fork (fst (set_state g fx st x (values st' x)))).
Proof. exact ind_step_spec. Qed.
Print Assumptions C02_ind_step.

(** Non-vacuity: the graphs of the witnesses are well-formed and satisfy [F_mix] for the selection; a reachable state meets
    every hypothesis of the theorems above (consistent, auto-fork on, per-individual settable variable, a read allowed
    before a per-individual decision and one that is not); the second witness (proposal evaluating to -inf, aggregated
    descendant read only afterwards) is inside the contract and reads NaN instead of 13 with the code's mix. *)
Theorem C02_examples :
  WF (mk_graph f2_nodes) /\ WF (mk_graph f2b_nodes) /\ F_mix (mk_graph f2b_nodes) xsem_where /\
  (exists st, ex_state pre_ops (mk_graph f2b_nodes) xsem_where = Some st /\
     Good (mk_graph f2b_nodes) st /\ mode st <> None /\ settable (mk_graph f2b_nodes) 0 = true /\
     ind_axis (mk_graph f2b_nodes) 0 = true /\ axis_read_ok (mk_graph f2b_nodes) 0 1 /\
     ~ axis_read_ok (mk_graph f2b_nodes) 0 2) /\
  (Disciplined (mk_graph f2b_nodes) xsem false true (init_store (mk_graph f2b_nodes)) f2b_ops /\
   read_of (mk_graph f2b_nodes) xsem false f2b_ops 0 0 = Ok (XP [AFin 4; AFin 8; AFin 1]) /\
   read_of (mk_graph f2b_nodes) xsem false f2b_ops 0 2 = Ok (XS ANaN) /\
   read_of (mk_graph f2b_nodes) xsem_where false f2b_ops 0 2 = Ok (XS (AFin 13)) /\
   fresh_of (mk_graph f2b_nodes) xsem false f2b_ops 0 2 = Some (Some (XS (AFin 13)))).
Proof. split; [exact f2_wf | split; [exact f2b_wf | split; [exact f2b_fmix | split; [exact hypotheses_met | exact nonfinite_refuted_aggregate]]]]. Qed.
Print Assumptions C02_examples.

(** * Composition with C15 and C07 (Compose/*.v; docs/Compose.md; notations as in the last section of Props/C01.v).

    [WF g] is discharged by C15 for every graph built by the modelled DAG constructor ([graph_of_build defs r v0] with
    [DagModel.build (dag_of_defs defs) = Ok r]); [F_mix g sm] is discharged by C07's op-kind semantics for every graph of the
    individual-axis type system, with any number of parents per node; and for graphs accepted by the [well_typed] checker
    the closure condition [axis_read_ok] on the reads between a per-individual proposal and its decision follows from the
    contract AS DOCUMENTED: "only variables carrying the individual axis". *)
From Leaspy Require Dag.DagModel Locality.AxisTypes.
From Leaspy Require Import Compose.DagState Compose.DagStateProofs Compose.RevertBuilt
                           Compose.AxisState Compose.AxisStateProofs Compose.AxisStateExamples.

(** [C02_full_revert] on every graph the constructor builds: no hypothesis on the graph. *)
Theorem C02_full_revert_built :
  forall (V : Type) (defs : list (vdef V)) (r : DagModel.dag) (v0 : V) (fx chk : bool),
    DagModel.build (dag_of_defs defs) = DagModel.Ok r -> fx = true \/ chk = true ->
  forall (st : state V) (i : nat) (o : option V) (reads : list nat),
    Good (graph_of_build defs r v0) st -> mode st <> None -> i < gn (graph_of_build defs r v0) ->
    settable (graph_of_build defs r v0) i = true ->
    let st1 := fst (set_state (graph_of_build defs r v0) fx st i o) in
    let st2 := gets (graph_of_build defs r v0) st1 reads in
    let st3 := fst (revert_state st2) in
    snd (revert_state st2) = Done /\
    (forall j w, values st j = Some w -> values st3 j = Some w) /\
    (forall j, In j (i :: desc (graph_of_build defs r v0) i) -> values st3 j = values st j) /\
    (forall j, linked (graph_of_build defs r v0) j = false -> values st3 j = values st j) /\
    fork st3 = None /\ mode st3 = mode st /\ Good (graph_of_build defs r v0) st3 /\
    (forall j, snd (get (graph_of_build defs r v0) (values st3) j) = snd (get (graph_of_build defs r v0) (values st) j)).
Proof. exact full_revert_built. Qed.
Print Assumptions C02_full_revert_built.

(** [C02_pop_step] likewise: the whole population step of the sampler on any built graph. *)
Theorem C02_pop_step_built :
  forall (V M IX : Type) (defs : list (vdef V)) (r : DagModel.dag) (v0 : V) (sm : sem V M IX) (fx chk : bool),
    DagModel.build (dag_of_defs defs) = DagModel.Ok r -> fx = true \/ chk = true ->
  forall decide x reads blks (st st' : state V), sim (graph_of_build defs r v0) st st' -> mode st <> None ->
    (forall a, In a (snd (pop_step (graph_of_build defs r v0) sm fx decide x reads st blks)) -> a <> None) ->
    sim (graph_of_build defs r v0) (fst (pop_step (graph_of_build defs r v0) sm fx decide x reads st blks))
        (pop_accepted (graph_of_build defs r v0) sm fx x st' blks (snd (pop_step (graph_of_build defs r v0) sm fx decide x reads st blks))).
Proof. exact pop_step_built. Qed.
Print Assumptions C02_pop_step_built.

(** The same two theorems with the graph obtained from the definitions WITH THEIR FUNCTION SIGNATURES (Compose/FromDictState.v,
    notations in Props/C01.v): the only hypothesis on the graph side is that the modelled [from_dict] (C15) accepted them. *)
From Leaspy Require Dag.FromDict.
From Leaspy Require Import Compose.FromDictState Compose.FromDictRevert.

Theorem C02_full_revert_from_definitions :
  forall (V : Type) (hv : nat -> V) (ax : nat -> bool) (fs : nat -> list V -> V) (ds : list FromDict.vdef)
         (r : DagModel.dag) (v0 : V) (fx chk : bool),
    FromDict.from_dict ds = FromDict.FOk r -> fx = true \/ chk = true ->
  forall (st : state V) (i : nat) (o : option V) (reads : list nat),
    Good (graph_from_definitions V hv ax fs ds r v0) st -> mode st <> None ->
    i < gn (graph_from_definitions V hv ax fs ds r v0) ->
    settable (graph_from_definitions V hv ax fs ds r v0) i = true ->
    let st1 := fst (set_state (graph_from_definitions V hv ax fs ds r v0) fx st i o) in
    let st2 := gets (graph_from_definitions V hv ax fs ds r v0) st1 reads in
    let st3 := fst (revert_state st2) in
    snd (revert_state st2) = Done /\
    (forall j w, values st j = Some w -> values st3 j = Some w) /\
    (forall j, In j (i :: desc (graph_from_definitions V hv ax fs ds r v0) i) -> values st3 j = values st j) /\
    (forall j, linked (graph_from_definitions V hv ax fs ds r v0) j = false -> values st3 j = values st j) /\
    fork st3 = None /\ mode st3 = mode st /\ Good (graph_from_definitions V hv ax fs ds r v0) st3 /\
    (forall j, snd (get (graph_from_definitions V hv ax fs ds r v0) (values st3) j) =
               snd (get (graph_from_definitions V hv ax fs ds r v0) (values st) j)).
Proof. exact full_revert_from_definitions. Qed.
Print Assumptions C02_full_revert_from_definitions.

Theorem C02_pop_step_from_definitions :
  forall (V M IX : Type) (hv : nat -> V) (ax : nat -> bool) (fs : nat -> list V -> V) (ds : list FromDict.vdef)
         (r : DagModel.dag) (v0 : V) (sm : sem V M IX) (fx chk : bool),
    FromDict.from_dict ds = FromDict.FOk r -> fx = true \/ chk = true ->
  forall decide x reads blks (st st' : state V),
    sim (graph_from_definitions V hv ax fs ds r v0) st st' -> mode st <> None ->
    (forall a, In a (snd (pop_step (graph_from_definitions V hv ax fs ds r v0) sm fx decide x reads st blks)) -> a <> None) ->
    sim (graph_from_definitions V hv ax fs ds r v0)
        (fst (pop_step (graph_from_definitions V hv ax fs ds r v0) sm fx decide x reads st blks))
        (pop_accepted (graph_from_definitions V hv ax fs ds r v0) sm fx x st' blks
           (snd (pop_step (graph_from_definitions V hv ax fs ds r v0) sm fx decide x reads st blks))).
Proof. exact pop_step_from_definitions. Qed.
Print Assumptions C02_pop_step_from_definitions.

(** [F_mix] from the op-kind semantics, node function by node function: for ANY op-kind, any number of parents, any
    selection pattern — the row-local kinds because row j of the result depends on row j of the per-individual arguments
    only, the others because they deliver a population value, which the selection refuses. *)
Theorem C02_opkind_functions_commute_with_selection :
  forall (A : Type) (add : A -> A -> A) (IX : Type) (put : option IX -> aval A -> bool -> aval A -> option (aval A))
         (k : AxisTypes.opkind) (f : AxisTypes.nodefun A) (n : nat) m sel ps olds curs news x,
    mixed_args (axis_sem A IX put) m sel ps olds curs news ->
    axis_mix A m (axis_fun A add k f n olds) (axis_fun A add k f n curs) = Some x ->
    axis_fun A add k f n news = x.
Proof. exact axis_fun_mix. Qed.
Print Assumptions C02_opkind_functions_commute_with_selection.

(** Hence [F_mix] for the State graph of every graph of the type system (no typing needed for this part). *)
Theorem C02_F_mix_opkinds :
  forall (A : Type) (add : A -> A -> A) (IX : Type) (put : option IX -> aval A -> bool -> aval A -> option (aval A))
         (G : AxisTypes.graph) (fs : nat -> AxisTypes.nodefun A) (n : nat) (r : DagModel.dag) (v0 : aval A),
    F_mix (graph_of_build (defs_of_axis A add G fs n) r v0) (axis_sem A IX put).
Proof. exact F_mix_axis. Qed.
Print Assumptions C02_F_mix_opkinds.

(** What the checker adds: in a well-typed graph a per-individual node has no ancestor below a per-individual variable
    that lacks the individual axis (DESIGN.md section 4 C01: AxisClosed) — so reading a per-individual term never caches
    an aggregate of the forked sub-graph as a side effect. *)
Theorem C02_axis_closed_well_typed :
  forall (A : Type) (add : A -> A -> A) (G : AxisTypes.graph) (fs : nat -> AxisTypes.nodefun A) (n : nat)
         (r : DagModel.dag) (v0 : aval A),
    AxisTypes.well_typed G = true ->
    DagModel.build (dag_of_defs (defs_of_axis A add G fs n)) = DagModel.Ok r ->
    forall i q, i < length (AxisTypes.g_nodes G) -> q < length (AxisTypes.g_nodes G) ->
      ind_axis (graph_of_build (defs_of_axis A add G fs n) r v0) i = true ->
      ind_axis (graph_of_build (defs_of_axis A add G fs n) r v0) q = true ->
      axis_read_ok (graph_of_build (defs_of_axis A add G fs n) r v0) i q.
Proof. exact well_typed_axis_closed. Qed.
Print Assumptions C02_axis_closed_well_typed.

(** [C02_partial_revert] with [WF], [F_mix] and [axis_read_ok] discharged: well-typed graph, accepted by the constructor;
    the reads between the proposal and the decision are reads of variables carrying the individual axis. *)
Theorem C02_partial_revert_well_typed :
  forall (A : Type) (add : A -> A -> A) (IX : Type) (put : option IX -> aval A -> bool -> aval A -> option (aval A))
         (G : AxisTypes.graph) (fs : nat -> AxisTypes.nodefun A) (n : nat) (r : DagModel.dag) (v0 : aval A),
    DagModel.build (dag_of_defs (defs_of_axis A add G fs n)) = DagModel.Ok r ->
    AxisTypes.well_typed G = true ->
  forall (fx chk : bool), fx = true \/ chk = true ->
  forall (st : state (aval A)) (i : nat) (o : option (aval A)) (reads : list nat) (m : list bool),
    Good (graph_of_build (defs_of_axis A add G fs n) r v0) st -> mode st <> None ->
    i < gn (graph_of_build (defs_of_axis A add G fs n) r v0) ->
    settable (graph_of_build (defs_of_axis A add G fs n) r v0) i = true ->
    ind_axis (graph_of_build (defs_of_axis A add G fs n) r v0) i = true ->
    (forall q, In q reads -> q < gn (graph_of_build (defs_of_axis A add G fs n) r v0) /\
                             ind_axis (graph_of_build (defs_of_axis A add G fs n) r v0) q = true) ->
    let st1 := fst (set_state (graph_of_build (defs_of_axis A add G fs n) r v0) fx st i o) in
    let st2 := gets (graph_of_build (defs_of_axis A add G fs n) r v0) st1 reads in
    shapes_ok (graph_of_build (defs_of_axis A add G fs n) r v0) (axis_sem A IX put) m i (values st) (values st2) ->
    let st3 := fst (revert_mask_state (axis_sem A IX put) st2 m) in
    snd (revert_mask_state (axis_sem A IX put) st2 m) = Done /\
    (forall j, In j (i :: desc (graph_of_build (defs_of_axis A add G fs n) r v0) i) ->
       values st3 j = match values st j, values st2 j with Some old, Some cur => mix (axis_sem A IX put) m old cur | _, _ => None end) /\
    (forall j, ~ In j (i :: desc (graph_of_build (defs_of_axis A add G fs n) r v0) i) -> values st3 j = values st2 j) /\
    (forall j w, ~ In j (i :: desc (graph_of_build (defs_of_axis A add G fs n) r v0) i) -> values st j = Some w -> values st3 j = Some w) /\
    (forall j, In j (desc (graph_of_build (defs_of_axis A add G fs n) r v0) i) ->
       ind_axis (graph_of_build (defs_of_axis A add G fs n) r v0) j = false -> values st3 j = None) /\
    Good (graph_of_build (defs_of_axis A add G fs n) r v0) st3 /\ fork st3 = None /\ mode st3 = mode st.
Proof. exact partial_revert_axis. Qed.
Print Assumptions C02_partial_revert_well_typed.

Theorem C02_partial_revert_as_if_well_typed :
  forall (A : Type) (add : A -> A -> A) (IX : Type) (put : option IX -> aval A -> bool -> aval A -> option (aval A))
         (G : AxisTypes.graph) (fs : nat -> AxisTypes.nodefun A) (n : nat) (r : DagModel.dag) (v0 : aval A),
    DagModel.build (dag_of_defs (defs_of_axis A add G fs n)) = DagModel.Ok r ->
    AxisTypes.well_typed G = true ->
  forall (fx chk : bool), fx = true \/ chk = true ->
  forall (st : state (aval A)) (i : nat) (o : option (aval A)) (reads : list nat) (m : list bool),
    Good (graph_of_build (defs_of_axis A add G fs n) r v0) st -> mode st <> None ->
    i < gn (graph_of_build (defs_of_axis A add G fs n) r v0) ->
    settable (graph_of_build (defs_of_axis A add G fs n) r v0) i = true ->
    ind_axis (graph_of_build (defs_of_axis A add G fs n) r v0) i = true ->
    (forall q, In q reads -> q < gn (graph_of_build (defs_of_axis A add G fs n) r v0) /\
                             ind_axis (graph_of_build (defs_of_axis A add G fs n) r v0) q = true) ->
    let st2 := gets (graph_of_build (defs_of_axis A add G fs n) r v0)
                 (fst (set_state (graph_of_build (defs_of_axis A add G fs n) r v0) fx st i o)) reads in
    shapes_ok (graph_of_build (defs_of_axis A add G fs n) r v0) (axis_sem A IX put) m i (values st) (values st2) ->
    let st3 := fst (revert_mask_state (axis_sem A IX put) st2 m) in
    sim (graph_of_build (defs_of_axis A add G fs n) r v0) st3
        (forget_fork (fst (set_state (graph_of_build (defs_of_axis A add G fs n) r v0) fx st i (values st3 i)))).
Proof. exact partial_revert_as_if_axis. Qed.
Print Assumptions C02_partial_revert_as_if_well_typed.

(** [C02_ind_step] likewise: the individual sampler step on a well-typed graph. *)
Theorem C02_ind_step_well_typed :
  forall (A : Type) (add : A -> A -> A) (IX : Type) (put : option IX -> aval A -> bool -> aval A -> option (aval A))
         (G : AxisTypes.graph) (fs : nat -> AxisTypes.nodefun A) (n : nat) (r : DagModel.dag) (v0 : aval A),
    DagModel.build (dag_of_defs (defs_of_axis A add G fs n)) = DagModel.Ok r ->
    AxisTypes.well_typed G = true ->
  forall (fx chk : bool), fx = true \/ chk = true ->
  forall decide x reads (st st' : state (aval A)) d (m : list bool),
    Good (graph_of_build (defs_of_axis A add G fs n) r v0) st -> mode st <> None ->
    x < gn (graph_of_build (defs_of_axis A add G fs n) r v0) ->
    ind_axis (graph_of_build (defs_of_axis A add G fs n) r v0) x = true ->
    (forall q, In q reads -> q < gn (graph_of_build (defs_of_axis A add G fs n) r v0) /\
                             ind_axis (graph_of_build (defs_of_axis A add G fs n) r v0) q = true) ->
    ind_step (graph_of_build (defs_of_axis A add G fs n) r v0) (axis_sem A IX put) fx decide x reads st d = (st', Some m) ->
    exists old new,
      snd (get (graph_of_build (defs_of_axis A add G fs n) r v0) (values st) x) = Ok old /\
      put_val (axis_sem A IX put) None d true old = Some new /\
      values st' x = mix (axis_sem A IX put) m old new /\
      (forall j, In j (desc (graph_of_build (defs_of_axis A add G fs n) r v0) x) ->
         ind_axis (graph_of_build (defs_of_axis A add G fs n) r v0) j = false -> values st' j = None) /\
      (forall j w, ~ In j (x :: desc (graph_of_build (defs_of_axis A add G fs n) r v0) x) -> values st j = Some w -> values st' j = Some w) /\
      Good (graph_of_build (defs_of_axis A add G fs n) r v0) st' /\ fork st' = None /\ mode st' = mode st /\
      sim (graph_of_build (defs_of_axis A add G fs n) r v0) st'
          (forget_fork (fst (set_state (graph_of_build (defs_of_axis A add G fs n) r v0) fx st x (values st' x)))).
Proof. exact ind_step_axis. Qed.
Print Assumptions C02_ind_step_well_typed.

(** [C02_later_history] ("every following history") with [WF] and [F_mix] discharged. *)
Theorem C02_later_history_opkinds :
  forall (A : Type) (add : A -> A -> A) (IX : Type) (put : option IX -> aval A -> bool -> aval A -> option (aval A))
         (G : AxisTypes.graph) (fs : nat -> AxisTypes.nodefun A) (n : nat) (r : DagModel.dag) (v0 : aval A),
    DagModel.build (dag_of_defs (defs_of_axis A add G fs n)) = DagModel.Ok r ->
  forall (fx chk : bool), fx = true \/ chk = true ->
  forall (ops : list (op (aval A) (list bool) IX)) (s1 s2 : store (aval A)),
    sim_store (graph_of_build (defs_of_axis A add G fs n) r v0) s1 s2 ->
    Disciplined (graph_of_build (defs_of_axis A add G fs n) r v0) (axis_sem A IX put) fx chk s1 ops ->
    Disciplined (graph_of_build (defs_of_axis A add G fs n) r v0) (axis_sem A IX put) fx chk s2 ops ->
    sim_store (graph_of_build (defs_of_axis A add G fs n) r v0)
      (fst (run (graph_of_build (defs_of_axis A add G fs n) r v0) (axis_sem A IX put) fx s1 ops))
      (fst (run (graph_of_build (defs_of_axis A add G fs n) r v0) (axis_sem A IX put) fx s2 ops)) /\
    outs_agree (graph_of_build (defs_of_axis A add G fs n) r v0) ops
      (snd (run (graph_of_build (defs_of_axis A add G fs n) r v0) (axis_sem A IX put) fx s1 ops))
      (snd (run (graph_of_build (defs_of_axis A add G fs n) r v0) (axis_sem A IX put) fx s2 ops)).
Proof. exact later_history_axis. Qed.
Print Assumptions C02_later_history_opkinds.

(** Non-vacuity: a well-typed graph (two-parent Pointwise and ReduceOther nodes, an aggregate; name order not topological)
    accepted by the constructor; a history with a per-individual proposal, a read of a per-individual term and the rejection
    of individuals 0 and 2 meets the precondition; the hypotheses of [C02_partial_revert_well_typed] hold for the sampled
    variable and the term read — and the closure condition FAILS for the aggregate, as it must. *)
Theorem C02_compose_examples :
  (AxisTypes.well_typed toy2 = true /\ DagModel.build (dag_of_defs toy2_defs) = DagModel.Ok toy2_r /\
   DagModel.order toy2_r = AxisTypes.g_order toy2) /\
  (settable toy2_g (p2 4) = true /\ ind_axis toy2_g (p2 4) = true /\ ind_axis toy2_g (p2 1) = true /\
   axis_read_ok toy2_g (p2 4) (p2 1) /\ ~ axis_read_ok toy2_g (p2 4) (p2 0)) /\
  (exists st, nth_error (fst (StateNow.run_now toy2_g toy2_sem (init_store toy2_g) toy2_ops)) 0 = Some st /\
              scratch toy2_g (values st) (p2 1) = Some (Some (AxisTypes.VInd [[1]; [4]; [58]]%Z))).
Proof. split; [exact toy2_accepted | split; [exact toy2_contract | exact toy2_fresh]]. Qed.
Print Assumptions C02_compose_examples.

(** * Weighted values (State/StateWExec.v; added after a seeded defect was missed: [_select] keeping one side's weight)

    The partial-revert theorem on the value domain with [WeightedTensor] values whose weight is computed by the node function,
    [mix] = [wwhere] = what [_select] does (row-wise selection of value AND weight), for the code as it is ([fx = true]): on every
    weighted toy graph whose per-individual derived nodes are one-parent entry-wise functions, [F_mix] is proved
    ([C01_F_mix_weighted]) and nothing is assumed about node functions. *)
From Leaspy Require Import State.StateWExec State.StateWExecProofs.

Theorem C02_partial_revert_weighted :
  forall l : list wspec,
  wwf_b (mk_wgraph l) = true -> wunary_axis_b l = true ->
  let g := mk_wgraph l in
  forall (st : state wval) (i : nat) (o : option wval) (reads : list nat) (m : list bool),
    Good g st -> mode st <> None -> i < gn g -> settable g i = true -> ind_axis g i = true ->
    (forall r, In r reads -> axis_read_ok g i r) ->
    let st1 := fst (set_state g true st i o) in
    let st2 := gets g st1 reads in
    shapes_ok g wsem_where m i (values st) (values st2) ->
    let st3 := fst (revert_mask_state wsem_where st2 m) in
    snd (revert_mask_state wsem_where st2 m) = Done /\
    (forall j, In j (i :: desc g i) ->
       values st3 j = match values st j, values st2 j with Some old, Some cur => wwhere m old cur | _, _ => None end) /\
    (forall j, ~ In j (i :: desc g i) -> values st3 j = values st2 j) /\
    (forall j w, ~ In j (i :: desc g i) -> values st j = Some w -> values st3 j = Some w) /\
    (forall j, In j (desc g i) -> ind_axis g j = false -> values st3 j = None) /\
    Good g st3 /\ fork st3 = None /\ mode st3 = mode st.
Proof. exact partial_revert_weighted. Qed.
Print Assumptions C02_partial_revert_weighted.

(** the value and the weight of every row of a doubly cached weighted node come from the same side *)
Theorem C02_weighted_select_rows :
  forall m ov ow cv cw rv rw, wwhere m (WWt ov ow) (WWt cv cw) = Some (WWt rv rw) ->
    length rv = length m /\ length rw = length m /\
    forall j b, nth_error m j = Some b ->
      nth_error rv j = (if b then nth_error ov j else nth_error cv j) /\
      nth_error rw j = (if b then nth_error ow j else nth_error cw j).
Proof. exact wwhere_rows. Qed.
Print Assumptions C02_weighted_select_rows.

(** * n-dimensional values: per-individual values with a TRAILING shape, [right_broadcasting] both ways (State/StateNdExec.v)

    [tens] = nested lists of exact atoms (row [i] of a per-individual value is an element of a list whatever its trailing shape);
    [twhere (rb, m) old cur] = [torch.where] with the 1-d [subset] aligned on the first axis ([rb = true], the default of
    [State.revert]) or on the last one ([right_broadcasting=False]), restricted to the documented contract (same shapes, one mask
    entry per index of that axis); [twhere_torch] / [nselect_torch] = what torch does, broadcasting and refusals included.
    Tie: directed [State.revert] calls on real states compared with both inside Coq on every run ([check_nselect]). *)
From Leaspy Require Import State.StateNdExec State.StateNdExecProofs.

(** right-broadcasting: row [j] of the result is the FORKED row where [m j] holds and the CURRENT row elsewhere, the rows being
    tensors of ANY shape *)
Theorem C02_nd_select_rows :
  forall m o c r, twhere (true, m) o c = Some r ->
    length (rows r) = length m /\
    forall j b, nth_error m j = Some b ->
      nth_error (rows r) j = (if b then nth_error (rows o) j else nth_error (rows c) j).
Proof. exact twhere_rows. Qed.
Print Assumptions C02_nd_select_rows.

(** ... values and weights alike (any non-negative weights): row [j] of the value and row [j] of the weight come from the same side *)
Theorem C02_nd_weighted_select_rows :
  forall m ov ow cv cw r, nselect (true, m) (NW ov (Some ow)) (NW cv (Some cw)) = Some r ->
    exists rv rw, r = NW rv (Some rw) /\ length (rows rv) = length m /\ length (rows rw) = length m /\
    forall j b, nth_error m j = Some b ->
      nth_error (rows rv) j = (if b then nth_error (rows ov) j else nth_error (rows cv) j) /\
      nth_error (rows rw) j = (if b then nth_error (rows ow) j else nth_error (rows cw) j).
Proof. exact nselect_rows. Qed.
Print Assumptions C02_nd_weighted_select_rows.

(** [right_broadcasting=False]: the mask is aligned on the LAST axis — every innermost vector of the result (index path [p] over
    all the axes but the last) is the entry-by-entry selection of the two innermost vectors at the same path *)
Theorem C02_nd_last_axis :
  forall m o c r s, twhere (false, m) o c = Some r -> shape o = Some s ->
    forall p o' c', length p = length s - 1 -> tsub p o = Some o' -> tsub p c = Some c' ->
      tsub p r = Some (TL (selp m (rows o') (rows c'))).
Proof. exact twhere_last_axis. Qed.
Print Assumptions C02_nd_last_axis.

(** refusals: (1) the assertion [old_v.shape == cur_v.shape] of [revert] *)
Theorem C02_nd_refused_bad_shapes :
  forall mk o c, shape o <> shape c -> twhere_torch mk o c = None /\ twhere mk o c = None.
Proof. exact twhere_torch_bad_shapes. Qed.
Print Assumptions C02_nd_refused_bad_shapes.

(** (2) torch's broadcasting error: the axis the mask is aligned on has length [k], the mask has neither length [k] nor 1, [k <> 1] *)
Theorem C02_nd_refused_by_torch :
  forall rb m o c s k, shape o = Some s -> shape c = Some s ->
    nth_error s (mdepth rb s) = Some k -> Forall (fun n => 0 < n) (firstn (mdepth rb s) s) ->
    k <> length m -> length m <> 1 -> k <> 1 -> twhere_torch (rb, m) o c = None.
Proof. exact twhere_torch_refuses. Qed.
Print Assumptions C02_nd_refused_by_torch.

(** (3) the contract: whatever torch accepts by changing the shape (a mask of another length than its axis, a 0-d value) is outside *)
Theorem C02_nd_contract_needs_fit :
  forall rb m o c s, shape o = Some s -> nth_error s (mdepth rb s) <> Some (length m) -> twhere (rb, m) o c = None.
Proof. exact twhere_needs_fit. Qed.
Print Assumptions C02_nd_contract_needs_fit.

(** inside the contract the selection IS what torch does, and it keeps the shape of the two sides *)
Theorem C02_nd_contract_is_torch :
  forall mk old cur r, nselect mk old cur = Some r -> nselect_torch mk old cur = Some r.
Proof. exact nselect_sub_torch. Qed.
Print Assumptions C02_nd_contract_is_torch.

Theorem C02_nd_contract_keeps_shape :
  forall mk o c r, twhere mk o c = Some r -> shape r = shape o /\ shape r = shape c.
Proof. exact twhere_keeps_shape. Qed.
Print Assumptions C02_nd_contract_keeps_shape.

(** non-vacuity: a (3, 2) value under both alignments, each refusal, the shape-changing calls torch accepts, a (2, 2) weighted value
    with non-boolean weights, the two rules that are NOT the code (weight of one side for all rows; mask aligned on the wrong
    side) giving something else on the same input, a value weighted on one side only *)
Local Open Scope Z_scope.
Theorem C02_nd_select_examples :
  (* right-broadcasting: rows 0 and 2 forked, row 1 current *)
  twhere (true, [true; false; true]) (mat [[1;2];[3;4];[5;6]]) (mat [[10;20];[30;40];[50;60]]) = Some (mat [[1;2];[30;40];[5;6]]) /\
  (* right_broadcasting=False: the mask (length 2) is aligned on the LAST axis: column 0 forked, column 1 current *)
  twhere (false, [true; false]) (mat [[1;2];[3;4];[5;6]]) (mat [[10;20];[30;40];[50;60]]) = Some (mat [[1;20];[3;40];[5;60]]) /\
  (* refused by torch: the per-individual mask (length 3) against the last axis (length 2), and conversely *)
  twhere_torch (false, [true; false; true]) (mat [[1;2];[3;4];[5;6]]) (mat [[10;20];[30;40];[50;60]]) = None /\
  twhere_torch (true, [true; false]) (mat [[1;2];[3;4];[5;6]]) (mat [[10;20];[30;40];[50;60]]) = None /\
  (* refused by the assertion of [revert]: the two sides have different shapes *)
  twhere_torch (true, [true; false]) (mat [[1;2];[3;4]]) (vec [1;2]) = None /\
  (* accepted by torch, outside the contract (the shape changes): a (3, 1) value with [right_broadcasting=False] becomes (3, 2);
     a value with one row is expanded to the length of the mask; a 0-d value becomes 1-d *)
  twhere_torch (false, [true; false]) (mat [[1];[3];[5]]) (mat [[10];[30];[50]]) = Some (mat [[1;10];[3;30];[5;50]]) /\
  twhere (false, [true; false]) (mat [[1];[3];[5]]) (mat [[10];[30];[50]]) = None /\
  twhere_torch (true, [true; false; true]) (mat [[1;2]]) (mat [[10;20]]) = Some (mat [[1;2];[10;20];[1;2]]) /\
  twhere (true, [true; false; true]) (mat [[1;2]]) (mat [[10;20]]) = None /\
  twhere_torch (true, [true; false]) (T0 (AFin 1)) (T0 (AFin 10)) = Some (vec [1; 10]) /\
  (* a weighted (2, 2) value with NON-boolean weights: value and weight of row 1 forked, of row 0 current *)
  nselect (true, [false; true]) (NW (mat [[1;2];[3;4]]) (Some (mat [[2;0];[0;5]]))) (NW (mat [[10;20];[30;40]]) (Some (mat [[0;3];[1;1]])))
    = Some (NW (mat [[10;20];[3;4]]) (Some (mat [[0;3];[0;5]]))) /\
  (* the two rules that are NOT the code give something else on the same input *)
  nselect_old_weight (true, [false; true]) (NW (mat [[1;2];[3;4]]) (Some (mat [[2;0];[0;5]]))) (NW (mat [[10;20];[30;40]]) (Some (mat [[0;3];[1;1]])))
    = Some (NW (mat [[10;20];[3;4]]) (Some (mat [[2;0];[0;5]]))) /\
  nselect_wrong_side (true, [false; true]) (NW (mat [[1;2];[3;4]]) (Some (mat [[2;0];[0;5]]))) (NW (mat [[10;20];[30;40]]) (Some (mat [[0;3];[1;1]])))
    = Some (NW (mat [[10;2];[30;4]]) (Some (mat [[0;0];[1;5]]))) /\
  (* a value weighted on ONE side only: the rows of the side without weight are fully weighted (1); before the repair they took the OTHER
     side's weight, and the contract had to exclude such pairs *)
  nselect_torch (true, [true; false]) (NW (vec [5;7]) None) (NW (vec [1;2]) (Some (vec [0;1]))) = Some (NW (vec [5;2]) (Some (vec [1;1]))) /\
  nselect (true, [true; false]) (NW (vec [5;7]) None) (NW (vec [1;2]) (Some (vec [0;1]))) = Some (NW (vec [5;2]) (Some (vec [1;1]))) /\
  nselect (true, [false; true]) (NP (vec [5;7])) (NW (vec [1;2]) (Some (vec [0;3]))) = Some (NW (vec [1;7]) (Some (vec [0;1]))) /\
  nselect_torch_old (true, [true; false]) (NW (vec [5;7]) None) (NW (vec [1;2]) (Some (vec [0;1]))) = Some (NW (vec [5;2]) (Some (vec [0;1]))) /\
  nselect_old (true, [true; false]) (NW (vec [5;7]) None) (NW (vec [1;2]) (Some (vec [0;1]))) = None.
Proof. exact nd_select_examples. Qed.
Local Close Scope Z_scope.
Print Assumptions C02_nd_select_examples.

(** the partial-revert theorem on every n-d toy graph whose per-individual derived nodes are entry-wise (any number of parents,
    weighted parents included): [F_mix] is PROVED there (StateNdFmixProofs.v), no hypothesis on node functions is left *)
From Leaspy Require Import State.StateNow State.StateNdFmixProofs.

Theorem C02_partial_revert_nd :
  forall l : list dspec,
  gwf_b (mk_ngraph l) = true -> entrywise_axis_b l = true ->
  let g := mk_ngraph l in
  forall (st : state nval) (i : nat) (o : option nval) (reads : list nat) (m : nmask),
    Good g st -> mode st <> None -> i < gn g -> settable g i = true -> ind_axis g i = true ->
    (forall r, In r reads -> axis_read_ok g i r) ->
    let st1 := fst (set_state g true st i o) in
    let st2 := gets g st1 reads in
    shapes_ok g nsem m i (values st) (values st2) ->
    let st3 := fst (revert_mask_state nsem st2 m) in
    snd (revert_mask_state nsem st2 m) = Done /\
    (forall j, In j (i :: desc g i) ->
       values st3 j = match values st j, values st2 j with Some old, Some cur => nselect m old cur | _, _ => None end) /\
    (forall j, ~ In j (i :: desc g i) -> values st3 j = values st2 j) /\
    (forall j w, ~ In j (i :: desc g i) -> values st j = Some w -> values st3 j = Some w) /\
    (forall j, In j (desc g i) -> ind_axis g j = false -> values st3 j = None) /\
    Good g st3 /\ fork st3 = None /\ mode st3 = mode st.
Proof. exact partial_revert_nd. Qed.
Print Assumptions C02_partial_revert_nd.

(** a value weighted on ONE side only.  BEFORE the repair of [_select] (model instance [nsem_torch_old]: the rows of the side without weight
    take the OTHER side's weight) the history meets the precondition, the rejected row of the variable itself carries the weight of the
    rejected proposal and a cached derived value is stale — the former finding, replayed on a tree that still has the old rule *)
Theorem C02_one_sided_weight_old_refuted :
  gwf_b (mk_ngraph one_sided_nodes) = true /\
  MaskDisciplined (mk_ngraph one_sided_nodes) nsem_torch_old (init_store (mk_ngraph one_sided_nodes)) one_sided_ops /\
  nread_of (mk_ngraph one_sided_nodes) nsem_torch_old true one_sided_ops 0 0 = Ok (NW (vec [5; 2]%Z) (Some (vec [0; 1]%Z))) /\
  nread_of (mk_ngraph one_sided_nodes) nsem_torch_old true one_sided_ops 0 1 = Ok (NP (vec [5; 2]%Z)) /\
  nfresh_of (mk_ngraph one_sided_nodes) nsem_torch_old true one_sided_ops 0 1 = Some (Some (NP (vec [0; 2]%Z))).
Proof. exact one_sided_weight_old_refuted. Qed.
Print Assumptions C02_one_sided_weight_old_refuted.

(** the code as it is ("a side that carries no weights is fully weighted"): the same history is inside the class of [C02_partial_revert_nd],
    x is [5, 2] with weights [1, 1] (the contract-restricted [nsem] and what torch does, [nsem_torch], agree) and every read is fresh *)
Theorem C02_one_sided_weight_now :
  entrywise_axis_b one_sided_nodes = true /\
  MaskDisciplined (mk_ngraph one_sided_nodes) nsem (init_store (mk_ngraph one_sided_nodes)) one_sided_ops /\
  nread_of (mk_ngraph one_sided_nodes) nsem true one_sided_ops 0 0 = Ok (NW (vec [5; 2]%Z) (Some (vec [1; 1]%Z))) /\
  nread_of (mk_ngraph one_sided_nodes) nsem true one_sided_ops 0 1 = Ok (NP (vec [5; 2]%Z)) /\
  nfresh_of (mk_ngraph one_sided_nodes) nsem true one_sided_ops 0 1 = Some (Some (NP (vec [5; 2]%Z))) /\
  nread_of (mk_ngraph one_sided_nodes) nsem_torch true one_sided_ops 0 0 = Ok (NW (vec [5; 2]%Z) (Some (vec [1; 1]%Z))).
Proof. exact one_sided_weight_now. Qed.
Print Assumptions C02_one_sided_weight_now.

(** the repair changes nothing where the old contract was defined (two sides of the same kind), and the old contract was a restriction of
    what the old code did *)
Theorem C02_nd_repair_same_kind_unchanged :
  forall mk old cur, nselect_old mk old cur <> None -> nselect mk old cur = nselect_old mk old cur.
Proof. exact nselect_same_kind_unchanged. Qed.
Print Assumptions C02_nd_repair_same_kind_unchanged.

Theorem C02_nd_old_contract_is_old_torch :
  forall mk old cur r, nselect_old mk old cur = Some r -> nselect_torch_old mk old cur = Some r.
Proof. exact nselect_old_sub_torch. Qed.
Print Assumptions C02_nd_old_contract_is_old_torch.

(** the headline on n-d values: after a forked assignment, reads allowed by the contract and [revert(mask)] (right-broadcasting), row [j]
    of EVERY doubly cached node of the forked sub-graph — plain or weighted, whatever its trailing shape — is the forked row where
    [mask j] holds and the current row elsewhere, the value and the weight of a row coming from the same side ([rows_selected]) *)
Theorem C02_partial_revert_nd_rows :
  forall l : list dspec,
  gwf_b (mk_ngraph l) = true -> entrywise_axis_b l = true ->
  let g := mk_ngraph l in
  forall (st : state nval) (i : nat) (o : option nval) (reads : list nat) (m : list bool),
    Good g st -> mode st <> None -> i < gn g -> settable g i = true -> ind_axis g i = true ->
    (forall r, In r reads -> axis_read_ok g i r) ->
    let st1 := fst (set_state g true st i o) in
    let st2 := gets g st1 reads in
    shapes_ok g nsem (true, m) i (values st) (values st2) ->
    let st3 := fst (revert_mask_state nsem st2 (true, m)) in
    forall j old cur r, In j (i :: desc g i) -> values st j = Some old -> values st2 j = Some cur -> values st3 j = Some r ->
      rows_selected m old cur r.
Proof. exact partial_revert_nd_rows. Qed.
Print Assumptions C02_partial_revert_nd_rows.
