(** C20 — benchmark models implement their documented estimators.
    Property theorems only; models in Api/Bench.v, proofs in Api/BenchProofs.v, non-vacuity in Api/BenchExamples.v. *)
From Coq Require Import String QArith List Bool Arith Permutation Sorted.
From Leaspy Require Import Base.QAux Api.Bench Api.BenchProofs Api.BenchExamples Api.BenchTie Api.BenchNumpy Api.BenchFit Api.BenchFitProofs Api.BenchSrcTie.
From LeaspyGen Require Import GenC20.
Import ListNotations.

(** 'last': the row of a visit whose age is >= every age; determined by that, hence independent of the row
    order, when no two visits share an age *)
Theorem C20_last : forall d t,
  t <> [] ->
  (exists row, predict Last d t = Ok row /\ is_last t row /\ forall j, is_last (col j t) (nth j row None)) /\
  (forall row, distinct_times t -> is_last t row -> predict Last d t = Ok row) /\
  (forall t', Permutation t t' -> distinct_times t -> predict Last d t = predict Last d t').
Proof.
  intros d t H. split; [|split].
  - destruct (predict_last d t H) as [row [E L]]. exists row. split; [exact E|]. split; [exact L|].
    intros j. now apply is_last_col.
  - intros row D L. now apply last_row_complete.
  - intros t' P D. now apply predict_last_perm.
Qed.
Print Assumptions C20_last.

(** 'last-known': per feature the value at the greatest age where it is present, NaN iff it is missing at every visit *)
Theorem C20_last_known : forall d t,
  wf d t -> t <> [] ->
  (exists vs, predict LastKnown d t = Ok vs /\ length vs = d /\
     forall j, (j < d)%nat -> exists v, nth_error vs j = Some v /\ is_last_known (col j t) v /\
                                        (v = None <-> all_missing (col j t))) /\
  (forall t', distinct_times t -> Permutation t t' -> predict LastKnown d t = predict LastKnown d t').
Proof.
  intros d t W H. split.
  - destruct (predict_last_known d t W H) as [vs [E [L N]]]. exists vs. split; [exact E|]. split; [exact L|].
    intros j Hj. destruct (N j Hj) as [v [Ev Pv]]. exists v. split; [exact Ev|]. split; [exact Pv|].
    now apply is_last_known_none_iff.
  - intros t' D P. now apply predict_last_known_perm.
Qed.
Print Assumptions C20_last_known.

(** the specification determines the value when ages are distinct (so the theorem above pins the result down) *)
Theorem C20_last_known_unique : forall h v v',
  distinct_times h -> is_last_known h v -> is_last_known h v' -> v = v'.
Proof. exact is_last_known_unique. Qed.
Print Assumptions C20_last_known_unique.

(** 'max': per feature the greatest present value, NaN iff missing at every visit; any row order *)
Theorem C20_max : forall d t,
  wf d t -> t <> [] ->
  (exists vs, predict Max d t = Ok vs /\ length vs = d /\
     forall j, (j < d)%nat -> exists v, nth_error vs j = Some v /\ is_max (col j t) v /\
                                        (v = None <-> all_missing (col j t))) /\
  (forall t' vs vs', Permutation t t' -> predict Max d t = Ok vs -> predict Max d t' = Ok vs' -> Forall2 veq vs vs').
Proof.
  intros d t W H. split.
  - destruct (predict_max d t W H) as [vs [E [L N]]]. exists vs. split; [exact E|]. split; [exact L|].
    intros j Hj. destruct (N j Hj) as [v [Ev Pv]]. exists v. split; [exact Ev|]. split; [exact Pv|].
    now apply is_max_none_iff.
  - intros t' vs vs' P. now apply predict_max_perm.
Qed.
Print Assumptions C20_max.

(** 'mean': per feature (sum of present values) / (their number), NaN iff missing at every visit; any row order;
    between the extreme present values *)
Theorem C20_mean : forall d t,
  wf d t -> t <> [] ->
  (exists vs, predict Mean d t = Ok vs /\ length vs = d /\
     forall j, (j < d)%nat -> exists v, nth_error vs j = Some v /\ is_mean (col j t) v /\
                                        (v = None <-> all_missing (col j t))) /\
  (forall t' vs vs', Permutation t t' -> predict Mean d t = Ok vs -> predict Mean d t' = Ok vs' -> Forall2 veq vs vs').
Proof.
  intros d t W H. split.
  - destruct (predict_mean d t W H) as [vs [E [L N]]]. exists vs. split; [exact E|]. split; [exact L|].
    intros j Hj. destruct (N j Hj) as [v [Ev Pv]]. exists v. split; [exact Ev|]. split; [exact Pv|].
    now apply is_mean_none_iff.
  - intros t' vs vs' P. now apply predict_mean_perm.
Qed.
Print Assumptions C20_mean.

Theorem C20_mean_bounds : forall h m lo hi,
  is_mean h (Some m) -> (forall t x, In (t, Some x) h -> lo <= x /\ x <= hi) -> lo <= m /\ m <= hi.
Proof. exact is_mean_bounds. Qed.
Print Assumptions C20_mean_bounds.

(** the prediction at every requested age is that value, whatever the ages *)
Theorem C20_repeat : forall k d t ages traj,
  constant_estimate k d t ages = Ok traj ->
  exists vals, predict k d t = Ok vals /\ length traj = length ages /\
               forall i, (i < length ages)%nat -> nth_error traj i = Some vals.
Proof. exact constant_estimate_repeat. Qed.
Print Assumptions C20_repeat.

(** ages stored through a monotone rounding: harmless as long as it keeps the ages of the history distinct ... *)
Theorem C20_last_rounded_ok : forall (A : Type) (rnd : Q -> Q) (l : list (Q * A)),
  (forall x y, x <= y -> rnd x <= rnd y) ->
  (forall r r', In r l -> In r' l -> rnd (fst r) == rnd (fst r') -> r = r') ->
  l <> [] -> exists a, last_row (round_times rnd l) = Ok a /\ is_last l a.
Proof. exact @last_rounded_ok. Qed.
Print Assumptions C20_last_rounded_ok.

(** ... and NOT otherwise: two distinct ages that collide make 'last' return the earlier visit
    (finding constant:last-ages-collide-in-float32, replayed on the implementation) *)
Theorem C20_last_rounded_refuted :
  exists (rnd : Q -> Q) (l : list (Q * Q)),
    (forall x y, x <= y -> rnd x <= rnd y) /\ distinct_times l /\
    StronglySorted (fun a b => fst a <= fst b) l /\
    exists a, last_row (round_times rnd l) = Ok a /\ ~ is_last l a.
Proof. exact last_rounded_refuted. Qed.
Print Assumptions C20_last_rounded_refuted.

(** LME: the personalised random effects solve (Z'Z + Psi^-1) b = Z'r, exist whenever that matrix is regular, and
    are the only solution: the conditional mean of the random effects given the variance components *)
Theorem C20_blup_normal_eq : forall Z r Pinv,
  length Z = length r -> ~ det2 (madd (ZtZ Z) Pinv) == 0 ->
  exists b, blup2 Z r Pinv = Ok b /\ mat_apply_eq (madd (ZtZ Z) Pinv) b (Ztr Z r) /\
            forall b', mat_apply_eq (madd (ZtZ Z) Pinv) b' (Ztr Z r) -> fst b' == fst b /\ snd b' == snd b.
Proof.
  intros Z r P L D. destruct (blup2_defined Z r P L D) as [b E]. exists b. split; [exact E|]. split.
  - now apply blup2_normal_eq.
  - intros b'. now apply blup2_unique.
Qed.
Print Assumptions C20_blup_normal_eq.

Theorem C20_blup_sound : forall Z r Pinv b,
  blup2 Z r Pinv = Ok b -> mat_apply_eq (madd (ZtZ Z) Pinv) b (Ztr Z r).
Proof. exact blup2_normal_eq. Qed.
Print Assumptions C20_blup_sound.

(** the solution of the normal equations is the minimiser of  ||r - Z b||^2 + b' Psi^-1 b  (Psi^-1 symmetric,
    positive semi-definite): the mode, hence the mean, of the Gaussian conditional law of b given r *)
Theorem C20_penalised_ls_optimal : forall Z r P bh,
  length Z = length r -> m12 P == m21 P -> (forall v, 0 <= quad P v) ->
  mat_apply_eq (madd (ZtZ Z) P) bh (Ztr Z r) ->
  forall b, objective Z r P bh <= objective Z r P b.
Proof. exact penalised_ls_optimal. Qed.
Print Assumptions C20_penalised_ls_optimal.

(** the shortcut of the random-intercept model is the same formula with the single column Z = (1,...,1)' ... *)
Theorem C20_intercept_special_case : forall r pinv,
  res_Qeq (intercept_re r pinv) (blup1 (repeat 1 (length r)) r pinv) /\
  (forall b, blup1 (repeat 1 (length r)) r pinv = Ok b -> (dotQ (repeat 1 (length r)) (repeat 1 (length r)) + pinv) * b == dotQ (repeat 1 (length r)) r).
Proof. intros r pinv. split; [apply intercept_special_case|intros b; apply blup1_normal_eq]. Qed.
Print Assumptions C20_intercept_special_case.

(** ... i.e. the Gaussian conditional mean tau2 * sum r / (sigma2 + n tau2) *)
Theorem C20_intercept_conditional_mean : forall r sigma2 tau2 b,
  0 < sigma2 -> 0 < tau2 -> intercept_re r (sigma2 / tau2) = Ok b ->
  b == tau2 * sumQ r / (sigma2 + Qnat (length r) * tau2).
Proof. exact intercept_conditional_mean. Qed.
Print Assumptions C20_intercept_conditional_mean.

(** what personalisation feeds to those formulas: present observations only, ages normalised with the stored
    mean / std, residuals w.r.t. the fixed effects *)
Theorem C20_personalize : forall p obs b,
  (lme_personalize true p obs = Ok b ->
     let o := remove_nans obs in let Z := design p (map fst o) in
     mat_apply_eq (madd (ZtZ Z) (cov_inv p)) b (Ztr Z (residuals p o))) /\
  (lme_personalize false p obs = Ok b ->
     let r := residuals p (remove_nans obs) in
     (Qnat (length r) + m11 (cov_inv p)) * fst b == sumQ r /\ snd b = 0) /\
  (forall t y, In (t, y) (remove_nans obs) <-> In (t, Some y) obs).
Proof.
  intros p obs b. split; [apply lme_personalize_slope|]. split; [apply lme_personalize_intercept|].
  intros t y. apply remove_nans_In.
Qed.
Print Assumptions C20_personalize.

Theorem C20_personalize_defined : forall p obs,
  ~ ages_std p == 0 -> remove_nans obs <> [] ->
  (~ det2 (madd (ZtZ (design p (map fst (remove_nans obs)))) (cov_inv p)) == 0 ->
     exists b, lme_personalize true p obs = Ok b) /\
  (0 <= m11 (cov_inv p) -> exists b, lme_personalize false p obs = Ok b).
Proof. exact lme_personalize_defined. Qed.
Print Assumptions C20_personalize_defined.

(** the trajectory is the straight line  intercept + slope * age  with
    slope = (fe1 + re1)/ages_std  and  intercept = fe0 + re0 - ages_mean * slope *)
Theorem C20_line : forall p re ages,
  ~ ages_std p == 0 ->
  exists ys, lme_trajectory p re ages = Ok ys /\ length ys = length ages /\
    forall i t, nth_error ages i = Some t ->
      exists y, nth_error ys i = Some y /\ y == lme_intercept p re + lme_slope p re * t.
Proof.
  intros p re ages H. destruct (lme_trajectory_defined p re ages H) as [ys E]. exists ys. split; [exact E|].
  now apply lme_trajectory_line.
Qed.
Print Assumptions C20_line.

(* ==================================================================================== *)
(** * Source-level tie (extension): the definitions REGENERATED from the python source on every run
      (coq/gen/GenC20.v, by harness/translate/c20_bench.py) are the model the theorems above speak about *)

(** [_get_feature_values] as written in the code (which reduction per prediction type, index sort by age with
    [reverse=True], first non-NaN by argmax, fancy indexing) is [predict], for every rectangular table ... *)
Theorem C20_src_feature_values : forall k d t, wf d t -> gen_feature_values k d t = predict k d t.
Proof. exact gen_feature_values_eq. Qed.
Print Assumptions C20_src_feature_values.

(** ... and for every table whatsoever for 'last', 'max', 'mean' *)
Theorem C20_src_feature_values_any : forall k d t, k <> LastKnown -> gen_feature_values k d t = predict k d t.
Proof. exact gen_feature_values_eq_any. Qed.
Print Assumptions C20_src_feature_values_any.

(** hence the regenerated code itself meets the order-free specifications *)
Theorem C20_src_estimators : forall d t, wf d t -> t <> [] ->
  (exists row, gen_feature_values Last d t = Ok row /\ is_last t row) /\
  (forall k P, (k = LastKnown /\ P = is_last_known) \/ (k = Max /\ P = is_max) \/ (k = Mean /\ P = is_mean) ->
     exists vs, gen_feature_values k d t = Ok vs /\ length vs = d /\
       forall j, (j < d)%nat -> exists v, nth_error vs j = Some v /\ P (col j t) v /\ (v = None <-> all_missing (col j t))).
Proof. exact gen_estimators. Qed.
Print Assumptions C20_src_estimators.

(** [ConstantModel.compute_individual_trajectory]: one individual, the value vector at every requested age *)
Theorem C20_src_constant_trajectory : forall vals ages,
  gen_constant_trajectory vals ages = [trajectory vals ages].
Proof. exact gen_constant_trajectory_eq. Qed.
Print Assumptions C20_src_constant_trajectory.

(** [_get_individual_random_effects_and_residuals] as written in the code (NaN removal, normalisation of the ages with the
    stored mean / std, design [1, age], residual w.r.t. the fixed effects, closed form or generic formula) returns the dict of
    the model's [lme_personalize], error for error, for every parameter set and every history *)
Theorem C20_src_lme_personalize : forall s p obs,
  gen_lme_personalize s p obs = rmap (re_dict s) (lme_personalize s p obs).
Proof. exact gen_lme_personalize_eq. Qed.
Print Assumptions C20_src_lme_personalize.

(** [_generic_get_random_effects] as written: [inv(Z'Z + cov_inv) (Z' resid)], with two columns and with one *)
Theorem C20_src_generic : forall r c,
  (forall Z, length Z = length r -> gen_generic_re_2 r Z c = blup2 Z r c) /\
  (forall z c1, length z = length r -> res_Qeq (gen_generic_re_1 r z c1) (blup1 z r c1)).
Proof. intros r c. split; [intros Z; apply gen_generic_re_2_eq|intros z c1; apply gen_generic_re_1_eq]. Qed.
Print Assumptions C20_src_generic.

(** the two code paths agree: the closed form [sum(r) / (n + cov_inv)] written for the random-intercept model IS the generic
    formula of the code specialised to Z = (1,...,1)' (same value, same error) *)
Theorem C20_src_paths_agree : forall r c,
  gen_intercept_re r (length r) c = intercept_re r c /\
  res_Qeq (gen_intercept_re r (length r) c) (gen_generic_re_1 r (repeat 1 (length r)) c).
Proof. intros r c. split; [apply gen_intercept_re_eq|apply gen_paths_agree]. Qed.
Print Assumptions C20_src_paths_agree.

(** [LMEModel.compute_individual_trajectory] as written is [lme_trajectory] (hence the straight line of [C20_line]) *)
Theorem C20_src_lme_trajectory : forall s p ip a b ages,
  py_dict_get ip "random_intercept" = Ok a -> (s = true -> py_dict_get ip "random_slope_age" = Ok b) -> ages <> [] ->
  gen_lme_trajectory s p ip ages = lme_trajectory p (a, if s then b else 0) ages.
Proof. exact gen_lme_trajectory_eq. Qed.
Print Assumptions C20_src_lme_trajectory.

(** [LMEFitAlgorithm._run] as written stores what the model of the storing step says, under the keys of [fit_table] *)
Theorem C20_src_fit_store :
  (forall ages f, gen_fit_store_2 ages f = lme_fit_store_2 ages f) /\
  (forall ages f, gen_fit_store_1 ages f = lme_fit_store_1 ages f) /\ gen_fit_table = fit_table.
Proof. split; [exact gen_fit_store_2_eq|split; [exact gen_fit_store_1_eq|exact gen_fit_table_eq]]. Qed.
Print Assumptions C20_src_fit_store.

(** an accepted fit stores a TWO-SIDED inverse of [cov_re / noise^2] (and the fixed effects, covariance, noise variance and
    normalisation it was given) ... *)
Theorem C20_src_fit_inverse : forall ages f s,
  gen_fit_store_2 ages f = Accepted s ->
  let U := mscale2 (/ st_noise_var s) (st_cov_re s) in
  meq2 (mmul2 (st_cov_inv s) U) mid2 /\ meq2 (mmul2 U (st_cov_inv s)) mid2 /\
  st_fe s = sm_fe f /\ st_cov_re s = sm_cov_re f /\ st_noise_var s = sm_scale f /\
  st_ages_mean s = np_mean ages /\ st_ages_var s = np_var ages.
Proof. exact gen_fit_2_inverse. Qed.
Print Assumptions C20_src_fit_inverse.

Theorem C20_src_fit_inverse_1 : forall ages f s,
  gen_fit_store_1 ages f = Accepted s ->
  let u := / st_noise_var s * st_cov_re s in
  st_cov_inv s * u == 1 /\ u * st_cov_inv s == 1 /\
  st_fe s = sm_fe f /\ st_cov_re s = sm_cov_re f /\ st_noise_var s = sm_scale f.
Proof. exact gen_fit_1_inverse. Qed.
Print Assumptions C20_src_fit_inverse_1.

(** ... and a singular covariance is REFUSED ([inv], not [pinv]); a regular one is accepted *)
Theorem C20_src_fit_refuses_singular : forall ages,
  (forall f, (det2 (sm_cov_re_unscaled_2 f) == 0 -> gen_fit_store_2 ages f = Refused) /\
             (~ sm_scale f == 0 -> det2 (sm_cov_re f) == 0 -> gen_fit_store_2 ages f = Refused) /\
             (~ det2 (sm_cov_re_unscaled_2 f) == 0 -> exists s, gen_fit_store_2 ages f = Accepted s)) /\
  (forall f, (sm_cov_re f == 0 -> gen_fit_store_1 ages f = Refused) /\
             (~ sm_cov_re_unscaled_1 f == 0 -> exists s, gen_fit_store_1 ages f = Accepted s)).
Proof. intros ages. split; intros f; [apply gen_fit_2_refuses|apply gen_fit_1_refuses]. Qed.
Print Assumptions C20_src_fit_refuses_singular.

(** precision form = covariance form: for an invertible D the n x n system [(Z D Z' + I) w = r] HAS a solution whenever the code's
    formula is defined, and for EVERY solution [w] the covariance form [D Z' w] (= [D Z'(Z D Z' + I)^-1 r]) is what the code
    computes, [(Z'Z + D^-1)^-1 Z' r]; two random effects and one *)
Theorem C20_cov_form :
  (forall Z r D Dinv b, inv2 D = Ok Dinv -> blup2 Z r Dinv = Ok b ->
     (exists w, cov_system2 Z D w r) /\
     (forall w, cov_system2 Z D w r -> fst (cov_form2 Z D w) == fst b /\ snd (cov_form2 Z D w) == snd b)) /\
  (forall z r d b, ~ d == 0 -> blup1 z r (/ d) = Ok b ->
     (exists w, cov_system1 z d w r) /\ (forall w, cov_system1 z d w r -> cov_form1 z d w == b)).
Proof.
  split.
  - intros Z r D Dinv b HD Hb. split; [eexists; eapply cov_system2_solvable; eassumption|].
    intros w. now apply cov_form2_eq_precision with (Dinv := Dinv).
  - intros z r d b Hd Hb. split; [eexists; eapply cov_system1_solvable; eassumption|].
    intros w. now apply cov_form1_eq_precision.
Qed.
Print Assumptions C20_cov_form.

(** on the boundary D = 0 (an effect of zero variance) the covariance form gives 0 — there is no precision form there,
    and the fit refuses such a covariance (theorem above) *)
Theorem C20_cov_form_zero : forall Z z w,
  (fst (cov_form2 Z (Mat2 0 0 0 0) w) == 0 /\ snd (cov_form2 Z (Mat2 0 0 0 0) w) == 0) /\ cov_form1 z 0 w == 0.
Proof. intros Z z w. split; [apply cov_form2_zero|apply cov_form1_zero]. Qed.
Print Assumptions C20_cov_form_zero.

(** composition over the regenerated code: fit accepted, then the generic formula with the stored inverse = the conditional
    mean in covariance form with D = cov_re / noise^2 *)
Theorem C20_src_fit_then_personalize : forall ages f s Z r b w,
  gen_fit_store_2 ages f = Accepted s -> gen_generic_re_2 r Z (st_cov_inv s) = Ok b -> length Z = length r ->
  let D := mscale2 (/ st_noise_var s) (st_cov_re s) in
  cov_system2 Z D w r -> fst (cov_form2 Z D w) == fst b /\ snd (cov_form2 Z D w) == snd b.
Proof. exact gen_fit_then_generic. Qed.
Print Assumptions C20_src_fit_then_personalize.
