(** C14 — data ingestion yields one canonical tensor form and rejects malformed input.
    Property theorems only: statements in full, each closed by a lemma proved in Io/IngestProofs.v (or by
    evaluation of the model on a witness).  [P] holds the constants of the readers and what float32 storage does to a
    rational ([store P]); nothing is assumed about it.  "Accepted" is [ingest P t = Ok d]. *)
From Coq Require Import ZArith QArith List Bool Permutation Sorted.
From Coq Require String.
From Leaspy Require Import Base.QAux Io.Ingest Io.F32 Io.IngestTie Io.IngestProofs Io.IngestExamples Io.IngestSrc Io.IngestSrcProofs Io.IngestSrcTie.
From LeaspyGen Require Import GenC14.
Import ListNotations.
Open Scope Z_scope.

(** Every individual's ages (after rounding to the reader's precision) are strictly increasing, and its visits are exactly
    its retained rows — none lost, none invented, whatever their order in the table. *)
Theorem C14_sorted : forall P t inds rows nb,
  ingest_data P t = Ok inds -> clean P t = Ok (rows, nb) ->
  Forall (fun ind => StronglySorted Z.lt (map fst (i_visits ind)) /\
                     (has_time (t_layout t) = true ->
                      Permutation (i_visits ind) (map (fun r => (c_time r, c_vals r)) (rows_of (i_id ind) rows)))) inds.
Proof. exact ingest_data_sorted. Qed.
Print Assumptions C14_sorted.

(** Ages and values tensors: row k of an individual is its k-th visit in age order, for both tensors; the padding is 0. *)
Theorem C14_aligned : forall P nmax nfeat i,
  ind_times P nmax i = map (fun v => store P (micro P (fst v))) (i_visits i) ++ repeat 0%Q (nmax - List.length (i_visits i))
  /\ ind_values P nmax nfeat i =
     map (fun v => map (fun c => match c with Some q => store P q | None => 0%Q end) (snd v)) (i_visits i)
     ++ repeat (repeat 0%Q nfeat) (nmax - List.length (i_visits i)).
Proof. intros. split; [apply ind_times_closed | apply ind_values_closed]. Qed.
Print Assumptions C14_aligned.

(** Mask (computed as the code does: padding mask times not-NaN mask) = 1 exactly on (real visit, value present),
    in the same visit order; rows beyond the individual's visits are 0. *)
Theorem C14_mask_exact : forall P nmax nfeat i,
  (List.length (i_visits i) <= nmax)%nat -> rectangular_ind nfeat i ->
  ind_mask P nmax nfeat i =
  map (fun v => map is_some (snd v)) (i_visits i) ++ repeat (repeat false nfeat) (nmax - List.length (i_visits i)).
Proof. exact ind_mask_closed. Qed.
Print Assumptions C14_mask_exact.

(** The dataset is made of these blocks, one per individual of the Data object, padded to the longest individual;
    the counters are the lengths / column counts of those blocks and their sums.
    (partial: the link "n_visits = number of retained rows" is [C14_sorted]'s permutation, not restated as a number.) *)
Theorem C14_counts_partial : forall P L nfeat inds,
  has_time L = true ->
  let d := construct P L nfeat inds in
  let nmax := list_max_nat (map (fun i => List.length (i_visits i)) inds) in
  built_from P nmax nfeat inds d
  /\ Forall (fun i => (List.length (i_visits i) <= nmax)%nat) inds
  /\ d_nvis_total d = sum_nat (d_nvis d)
  /\ d_nobs_ft d = col_sums nfeat (d_nobs_ind_ft d)
  /\ d_nobs d = sum_nat (d_nobs_ft d).
Proof.
  intros P L nfeat inds Ht. simpl. split; [now apply construct_built|]. split.
  - apply Forall_forall. intros i Hi. apply list_max_nat_ge. exact (in_map (fun i => List.length (i_visits i)) inds i Hi).
  - unfold construct; simpl. rewrite Ht. repeat split.
Qed.
Print Assumptions C14_counts_partial.

(** One row per individual, in order of first appearance among the retained rows (visit, joint, covariate layouts). *)
Theorem C14_order : forall P t inds rows nb,
  has_time (t_layout t) = true -> ingest_data P t = Ok inds -> clean P t = Ok (rows, nb) ->
  map i_id inds = firsts (map c_id rows) /\ NoDup (map i_id inds).
Proof. intros. split; [eapply ingest_data_order; eauto | eapply ingest_data_ids_nodup; eauto]. Qed.
Print Assumptions C14_order.

(** Row-order invariance, Data level, every layout: the individuals (ages, observations, event, covariates) are the same. *)
Theorem C14_row_order_invariant_data : forall P t rows' inds inds',
  Permutation (t_rows t) rows' ->
  ingest_data P t = Ok inds -> ingest_data P (with_rows t rows') = Ok inds' -> Permutation inds inds'.
Proof. intros P t rows' inds inds' Hp H H'. exact (proj1 (ingest_data_perm P t rows' inds inds' Hp H H')). Qed.
Print Assumptions C14_row_order_invariant_data.

(** Row-order invariance, tensors: both datasets are built from the same individuals (distinct IDs) by the same
    block functions with the same padding length; totals are equal. *)
Theorem C14_row_order_invariant : forall P t rows' d d',
  has_time (t_layout t) = true -> Permutation (t_rows t) rows' ->
  ingest P t = Ok d -> ingest P (with_rows t rows') = Ok d' ->
  exists inds inds', ingest_data P t = Ok inds /\ ingest_data P (with_rows t rows') = Ok inds' /\
    Permutation inds inds' /\ NoDup (map i_id inds) /\
    built_from P (d_nvis_max d) (t_nfeat t) inds d /\ built_from P (d_nvis_max d) (t_nfeat t) inds' d' /\
    d_nvis_total d = d_nvis_total d' /\ d_nobs_ft d = d_nobs_ft d' /\ d_nobs d = d_nobs d'.
Proof. exact ingest_perm. Qed.
Print Assumptions C14_row_order_invariant.

(** ... and the whole dataset is identical when the permutation keeps the order of first appearance of the IDs. *)
Theorem C14_row_order_invariant_whole : forall P t rows' d d',
  has_time (t_layout t) = true -> Permutation (t_rows t) rows' ->
  (forall cr nb cr' nb', clean P t = Ok (cr, nb) -> clean P (with_rows t rows') = Ok (cr', nb') -> firsts (map c_id cr) = firsts (map c_id cr')) ->
  ingest P t = Ok d -> ingest P (with_rows t rows') = Ok d' -> d = d'.
Proof. exact ingest_perm_whole. Qed.
Print Assumptions C14_row_order_invariant_whole.

(** Malformed input: invalid identifiers, missing / infinite / non-numeric ages, duplicate visits after rounding,
    non-numeric or infinite values are refused with a data-input error, whatever else the table contains. *)
Theorem C14_rejects : forall P t, malformed_front P t -> ingest P t = Err DataError.
Proof. exact rejects_front. Qed.
Print Assumptions C14_rejects.

(** Inconsistent events / covariates (two event times or indicators for one ID, a covariate that varies within an ID)
    are never accepted.  The error class is a data-input error on every generated table (correspondence), but not
    always: see [C14_event_indicator_nan_refuted]. *)
Theorem C14_rejects_never_accepted : forall P t, inconsistent P t -> forall d, ingest P t <> Ok d.
Proof. exact rejects_inconsistent. Qed.
Print Assumptions C14_rejects_never_accepted.

(** Round trip, one individual (partial): ages read back from the tensor that are still strictly increasing are
    re-inserted in place by to_pandas, so the individual's frame is its block, unchanged.  Missing: the composition with
    the re-ingestion of the whole table (proved false in general, next three theorems). *)
Theorem C14_roundtrip_partial : forall vs : list qvisit,
  qsorted (map fst vs) -> add_qobservations [] vs = Ok vs.
Proof. intros vs H. exact (add_qobservations_sorted vs [] H). Qed.
Print Assumptions C14_roundtrip_partial.

(** F9a: to_pandas sorts by ID, so IDs first seen as b, a come back as a, b. *)
Theorem C14_roundtrip_order_refuted : exists t d t' d',
  ingest P32 t = Ok d /\ to_table P32 true None d = Ok t' /\ ingest P32 t' = Ok d' /\ d_indices d <> d_indices d'.
Proof.
  pose proof w_order_fact as H.
  destruct (ingest P32 w_order) as [d|] eqn:E1; [|discriminate].
  destruct (to_table P32 true None d) as [t'|] eqn:E2; [|discriminate].
  destruct (ingest P32 t') as [d'|] eqn:E3; [|discriminate].
  exists w_order, d, t', d'. repeat split; auto. intros C. rewrite C, ids_eqb_refl in H. discriminate.
Qed.
Print Assumptions C14_roundtrip_order_refuted.

(** F9b: two valid visits 2e-6 apart are one float32 age (70.0); to_pandas refuses to rebuild the individual. *)
Theorem C14_roundtrip_collision_refuted : exists t d a b,
  ingest P32 t = Ok d /\ d_times d = [[a; b]] /\ (a == b)%Q /\ to_table P32 true None d = Err DataError.
Proof.
  pose proof w_collision_fact as H.
  destruct (ingest P32 w_collision) as [d|] eqn:E1; [|discriminate].
  destruct (d_times d) as [|[|a [|b [|? ?]]] [|? ?]] eqn:E2; try discriminate.
  apply andb_true_iff in H. destruct H as [H H4]. apply andb_true_iff in H. destruct H as [H H3].
  exists w_collision, d, a, b. repeat split; auto; [now apply Qeq_bool_iff | now apply is_err_eq].
Qed.
Print Assumptions C14_roundtrip_collision_refuted.

(** to_pandas labels the covariate columns by 1-tuples; the covariate reader then fails with a KeyError. *)
Theorem C14_roundtrip_covariate_refuted : exists t d t',
  ingest P32 t = Ok d /\ to_table P32 true None d = Ok t' /\ ingest P32 t' = Err OtherError.
Proof.
  pose proof w_cov_fact as H.
  destruct (ingest P32 w_cov) as [d|] eqn:E1; [|discriminate].
  destruct (to_table P32 true None d) as [t'|] eqn:E2; [|discriminate].
  exists w_cov, d, t'. repeat split; auto. now apply is_err_eq.
Qed.
Print Assumptions C14_roundtrip_covariate_refuted.

(** Categorical ID column + an individual whose visits are all missing: accepted with string IDs, TypeError with categories. *)
Theorem C14_categorical_lost_individual_refuted : exists rows d,
  ingest P32 (vtable KString 1 rows) = Ok d /\ ingest P32 (vtable KCategorical 1 rows) = Err OtherError.
Proof.
  pose proof w_cat_fact as H.
  destruct (ingest P32 (vtable KString 1 w_cat_rows)) as [d|] eqn:E1; [|discriminate].
  exists w_cat_rows, d. split; [exact E1 | now apply is_err_eq].
Qed.
Print Assumptions C14_categorical_lost_individual_refuted.

(** A missing event indicator is refused, but not with a data-input error. *)
Theorem C14_event_indicator_nan_refuted : ingest P32 w_nan_indicator = Err OtherError.
Proof. vm_compute. reflexivity. Qed.
Print Assumptions C14_event_indicator_nan_refuted.

(** An empty identifier is refused in a string column ([C14_rejects]) and accepted in a categorical one. *)
Theorem C14_categorical_id_refuted : exists d, ingest P32 w_cat_empty_id = Ok d /\ In (IdS String.EmptyString) (d_indices d).
Proof.
  pose proof w_cat_empty_fact as H.
  destruct (ingest P32 w_cat_empty_id) as [d|] eqn:E1; [|discriminate].
  exists d. split; [reflexivity|]. apply existsb_exists in H. destruct H as [x [Hx E]]. apply ident_eqb_eq in E. now subst.
Qed.
Print Assumptions C14_categorical_id_refuted.

(* ------------------------------------------------------------------ source-level tie (T1): the readers' decision table *)
(** The ordered decision table REGENERATED from the source of the four dataframe readers (checks in execution order, each with the
    comparison operator, constant, quantifier, aggregate and exception class read from the code, and the two class constants) is
    the table the hand-written model implements. *)
Theorem C14_src_table : gen_readers = model_readers.
Proof. exact gen_readers_is_model. Qed.
Print Assumptions C14_src_table.

(** Running that table with the generic meaning of its vocabulary ([cmpZ], [cmpQ], [quantb], [aggZ]) IS the hand-written model:
    every theorem above about [ingest_data] / [ingest] is a theorem about the regenerated table, at the constants it carries. *)
Theorem C14_src_is_model : forall st t,
  src_ingest_data gen_readers st t = ingest_data (P_of gen_readers st) t /\ src_ingest gen_readers st t = ingest (P_of gen_readers st) t.
Proof. intros. split; [apply gen_ingest_data_is_model | apply gen_ingest_is_model]. Qed.
Print Assumptions C14_src_is_model.

(** [C14_rejects] over the regenerated table. *)
Theorem C14_src_rejects : forall st t, malformed_front (P_of gen_readers st) t -> src_ingest gen_readers st t = Err DataError.
Proof. exact gen_rejects_front. Qed.
Print Assumptions C14_src_rejects.

(** [C14_rejects_never_accepted] over the regenerated table. *)
Theorem C14_src_rejects_never_accepted : forall st t, inconsistent (P_of gen_readers st) t -> forall d, src_ingest gen_readers st t <> Ok d.
Proof. exact gen_rejects_inconsistent. Qed.
Print Assumptions C14_src_rejects_never_accepted.

(** Joint layout: an OBSERVED event earlier than ANY age of its individual minus the tolerance of the regenerated table (i.e. earlier
    than the MAXIMAL age minus tol) is refused with a data-input error — the row [y] may stand anywhere in the table.
    Visible hypotheses: the earlier checks pass (otherwise they refuse, possibly with another class: [C14_event_indicator_nan_refuted])
    and no indicator is negative (a negative indicator of another offender can cancel the sum the readers test). *)
Theorem C14_src_rejects_event_before_max_age : forall st t xs0 xs nb x y q,
  let P := P_of gen_readers st in
  t_layout t = LJoint ->
  clean_index P t = Ok xs0 -> clean_numeric t xs0 = Ok xs -> clean_visits t xs = Ok tt ->
  clean_events P t (match t_idkind t with
                    | KCategorical => existsb (fun i => negb (existsb (ident_eqb i) (ids_of xs))) (ids_of xs0)
                    | _ => false end) xs = Ok nb ->
  (forall z, In z xs -> 0 <= evb_z z) ->
  In x xs -> In y xs -> x_id y = x_id x -> x_evt x = Fin q -> 0 < evb_z x ->
  (micro P (round_time P q) - micro P (x_time y) < - tol P)%Q ->
  src_ingest gen_readers st t = Err DataError.
Proof. exact gen_rejects_event_before_any_age. Qed.
Print Assumptions C14_src_rejects_event_before_max_age.

(** Row-order invariance (Data level, every layout) of the regenerated table. *)
Theorem C14_src_row_order_invariant_data : forall st t rows' inds inds',
  Permutation (t_rows t) rows' ->
  src_ingest_data gen_readers st t = Ok inds -> src_ingest_data gen_readers st (with_rows t rows') = Ok inds' -> Permutation inds inds'.
Proof. exact gen_row_order_invariant_data. Qed.
Print Assumptions C14_src_row_order_invariant_data.
