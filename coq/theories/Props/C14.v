From Leaspy Require Import Io.Ingest.
