(** C08 — likelihood terms are the negative log-densities of the documented distributions.
    Property theorems only: statements in full, each closed by [exact] of a lemma proved elsewhere.
    Every [gen_*] is a definition of LeaspyGen.GenC08, REGENERATED on every run by tracing the running code of
    variables/distributions.py (class methods, the SymbolicDistribution route, a real joint model's state);
    [normal_pdf], [bernoulli_pmf], [weibull_hazard], [weibull_survival], [weibull_pdf], [nu_tilde], [nu_tilde_src],
    [doc_hazard], [doc_survival] are the textbook / documented formulas written by hand in Formulas/Density.v. *)
From Coq Require Import Reals List.
From Coquelicot Require Import Coquelicot.
From Leaspy Require Import Base.RAux Formulas.TorchDist Formulas.Density Formulas.LikelihoodCode Formulas.DensityProofs Formulas.DensityTie Formulas.DensityConst
  Formulas.Ortho Formulas.DensityMulti Formulas.DensityMultiProofs Formulas.DensityMultiTie.
From LeaspyGen Require Import GenC08.
Import ListNotations.
Local Open Scope R_scope.

(** ** Gaussian (noise of continuous outcomes, priors of the latent variables) *)

(** NormalFamily._nll is the negative log-density of N(mu, sigma^2), up to the rounding of the float32 constant it adds. *)
Theorem C08_normal : forall x mu sigma : R,
  0 < sigma -> gen_normal_nll x mu sigma = - ln (normal_pdf x mu sigma) + (c32 - ln (sqrt (2 * PI))).
Proof. exact normal_nll. Qed.
Print Assumptions C08_normal.

(** ... and that constant is 1/2 ln(2 pi) = ln sqrt(2 pi) to within 2^-25 (the only lemma proved with Coq-Interval). *)
Theorem C08_const : Rabs (c32 - ln (sqrt (2 * PI))) <= / 2 ^ 25 /\ ln (sqrt (2 * PI)) = / 2 * ln (2 * PI).
Proof. split; [exact c32_is_half_ln_2pi | exact ln_sqrt_2pi]. Qed.
Print Assumptions C08_const.

(** the logarithm above is taken of a positive number *)
Theorem C08_normal_pdf_pos : forall x mu sigma : R, 0 < sigma -> 0 < normal_pdf x mu sigma.
Proof. exact normal_pdf_pos. Qed.
Print Assumptions C08_normal_pdf_pos.

(** NormalFamily._nll_jacobian is the derivative of NormalFamily._nll with respect to the value. *)
Theorem C08_normal_jacobian : forall x mu sigma : R,
  0 < sigma -> is_derive (fun x0 => gen_normal_nll x0 mu sigma) x (gen_normal_nll_jac x mu sigma).
Proof. exact normal_jacobian. Qed.
Print Assumptions C08_normal_jacobian.

(** NormalFamily._nll_and_jacobian (a second hard-coded copy) returns the same two functions. *)
Theorem C08_normal_and_jacobian : forall x mu sigma : R,
  0 < sigma ->
  gen_normal_aj_nll x mu sigma = gen_normal_nll x mu sigma /\ gen_normal_aj_jac x mu sigma = gen_normal_nll_jac x mu sigma.
Proof. exact normal_and_jacobian. Qed.
Print Assumptions C08_normal_and_jacobian.

(** ** Right-censored Weibull on the reparametrised time t = x - tau, scale nu~ = nu e^{-xi} *)

(** observed event (event_bool <> 0) after the reference time: -ln (h(t) S(t)), the negative log-density. *)
Theorem C08_weibull_event : forall x delta nu rho xi tau : R,
  0 < nu -> 0 < rho -> 0 < x - tau -> delta <> 0 ->
  gen_weibull_nll x delta nu rho xi tau
  = - ln (weibull_hazard (nu_tilde nu xi) rho (x - tau) * weibull_survival (nu_tilde nu xi) rho (x - tau)).
Proof. exact weibull_event. Qed.
Print Assumptions C08_weibull_event.

(** censored individual (event_bool = 0): the survival term only — whatever the sign of x - tau (S = 1 before the origin). *)
Theorem C08_weibull_censored : forall x delta nu rho xi tau : R,
  0 < nu -> 0 < rho -> delta = 0 ->
  gen_weibull_nll x delta nu rho xi tau = - ln (weibull_survival (nu_tilde nu xi) rho (x - tau)).
Proof. exact weibull_censored. Qed.
Print Assumptions C08_weibull_censored.

(** observed event at or before the reference time: exactly the penalty INFINITY (the survival term at the clamped time 0 is 0). *)
Theorem C08_event_before_ref : forall x delta nu rho xi tau : R,
  0 < rho -> x - tau <= 0 -> delta <> 0 -> gen_weibull_nll x delta nu rho xi tau = INFINITY_c.
Proof. exact event_before_ref. Qed.
Print Assumptions C08_event_before_ref.

(** the logarithms above are taken of positive numbers, and 0 < S <= 1 *)
Theorem C08_weibull_density_pos : forall lam rho t : R,
  0 < lam -> 0 < rho ->
  (0 < t -> 0 < weibull_hazard lam rho t * weibull_survival lam rho t) /\ 0 < weibull_survival lam rho t <= 1.
Proof. exact weibull_density_pos. Qed.
Print Assumptions C08_weibull_density_pos.

(** ** ... with sources (survival shift s of the individual for the event): scale nu~ = nu exp(-(xi + s/rho)) *)

Theorem C08_weibull_src_event : forall x delta nu rho xi tau s : R,
  0 < nu -> 0 < rho -> 0 < x - tau -> delta <> 0 ->
  gen_weibull_src_nll x delta nu rho xi tau s
  = - ln (weibull_hazard (nu_tilde_src nu rho xi s) rho (x - tau) * weibull_survival (nu_tilde_src nu rho xi s) rho (x - tau)).
Proof. exact weibull_src_event. Qed.
Print Assumptions C08_weibull_src_event.

Theorem C08_weibull_src_censored : forall x delta nu rho xi tau s : R,
  0 < nu -> 0 < rho -> delta = 0 ->
  gen_weibull_src_nll x delta nu rho xi tau s = - ln (weibull_survival (nu_tilde_src nu rho xi s) rho (x - tau)).
Proof. exact weibull_src_censored. Qed.
Print Assumptions C08_weibull_src_censored.

Theorem C08_src_event_before_ref : forall x delta nu rho xi tau s : R,
  0 < rho -> x - tau <= 0 -> delta <> 0 -> gen_weibull_src_nll x delta nu rho xi tau s = INFINITY_c.
Proof. exact src_event_before_ref. Qed.
Print Assumptions C08_src_event_before_ref.

(** the penalty read from constants.py is positive, prohibitive and a finite binary64 number with room to spare
    (2^1023 < max double): "finite, never NaN or infinity" as far as the real-valued model can say it; the float side
    is the directed sweep of the check. *)
Theorem C08_penalty_finite : 0 < INFINITY_c /\ IZR (10 ^ 306) <= INFINITY_c < IZR (2 ^ 1023).
Proof. split; [exact INFINITY_c_pos | exact INFINITY_c_bounds]. Qed.
Print Assumptions C08_penalty_finite.

(** the hand-written hazard and survival function describe one distribution: h = -(ln S)' on t > 0 *)
Theorem C08_hazard_is_minus_dlog_survival : forall lam rho t : R,
  0 < lam -> 0 < rho -> 0 < t ->
  is_derive (fun s => - ln (exp (- Rpower (s / lam) rho))) t (weibull_hazard lam rho t).
Proof. exact hazard_is_minus_dlog_survival. Qed.
Print Assumptions C08_hazard_is_minus_dlog_survival.

(** ** Reparametrisation: the Weibull with the code's individual scale is the documented formula (docs/models.md)
       h(x) = (rho e^xi / nu) (e^xi (x - tau) / nu)^(rho-1) exp(u),   S(x) = exp(-(e^xi (x - tau) / nu)^rho exp(u)) *)

Theorem C08_reparam : forall nu rho xi tau u x : R,
  0 < nu -> 0 < rho -> 0 < x - tau ->
  weibull_hazard (gen_nu_rep_sources nu rho xi tau u) rho (gen_event_rep x tau) = doc_hazard nu rho xi tau u x.
Proof. exact reparam. Qed.
Print Assumptions C08_reparam.

Theorem C08_reparam_survival : forall nu rho xi tau u x : R,
  0 < nu -> 0 < rho -> 0 < x - tau ->
  weibull_survival (gen_nu_rep_sources nu rho xi tau u) rho (gen_event_rep x tau) = doc_survival nu rho xi tau u x.
Proof. exact reparam_surv. Qed.
Print Assumptions C08_reparam_survival.

Theorem C08_reparam_no_sources : forall nu rho xi tau x : R,
  0 < nu -> 0 < rho -> 0 < x - tau ->
  weibull_hazard (gen_nu_rep nu rho xi tau) rho (gen_event_rep x tau) = doc_hazard nu rho xi tau 0 x /\
  weibull_survival (gen_nu_rep nu rho xi tau) rho (gen_event_rep x tau) = doc_survival nu rho xi tau 0 x.
Proof. exact reparam_no_sources. Qed.
Print Assumptions C08_reparam_no_sources.

(** the code's reparametrised scale and time are the documented ones *)
Theorem C08_nu_rep : forall nu rho xi tau x : R,
  gen_nu_rep nu rho xi tau = nu_tilde nu xi /\ gen_event_rep x tau = x - tau.
Proof. intros. split; [apply gen_nu_rep_eq | apply gen_event_rep_eq]. Qed.
Print Assumptions C08_nu_rep.

Theorem C08_nu_rep_sources : forall nu rho xi tau s : R, gen_nu_rep_sources nu rho xi tau s = nu_tilde_src nu rho xi s.
Proof. exact gen_nu_rep_sources_eq. Qed.
Print Assumptions C08_nu_rep_sources.

(** ** Bernoulli (binary outcomes).  [gen_bernoulli_nll] / [gen_bernoulli_nll64] are traced from the REAL call path
       StatelessDistributionFamilyFromTorchDistribution._nll -> torch.distributions.Bernoulli(p).log_prob(y), followed into torch's
       python code on float32 / float64 symbols: clamp of p to [eps, 1 - eps], logit, then the one compiled kernel, modelled by
       [torch_bce_with_logits] (Formulas/TorchDist.v; tied to the running torch by T3). *)

(** probabilities the clamp leaves alone (all of [2^-23, 1 - 2^-23] in float32): the negative log-pmf *)
Theorem C08_bernoulli : forall y p : R,
  1 / 8388608 <= p <= 8388607 / 8388608 -> y = 0 \/ y = 1 -> gen_bernoulli_nll y p = - ln (bernoulli_pmf y p).
Proof. exact bernoulli. Qed.
Print Assumptions C08_bernoulli.

Theorem C08_bernoulli_f64 : forall y p : R,
  1 / 4503599627370496 <= p <= 4503599627370495 / 4503599627370496 -> y = 0 \/ y = 1 ->
  gen_bernoulli_nll64 y p = - ln (bernoulli_pmf y p).
Proof. exact bernoulli_f64. Qed.
Print Assumptions C08_bernoulli_f64.

(** EVERY probability argument, saturated (exactly 0 or 1) included: the negative log-pmf at the clamped probability, hence finite *)
Theorem C08_bernoulli_every_p : forall y p : R,
  y = 0 \/ y = 1 ->
  gen_bernoulli_nll y p = - ln (bernoulli_pmf y (clamp_prob (1 / 8388608) (8388607 / 8388608) p)) /\
  0 <= gen_bernoulli_nll y p <= - ln (1 / 8388608) /\
  gen_bernoulli_nll64 y p = - ln (bernoulli_pmf y (clamp_prob (1 / 4503599627370496) (4503599627370495 / 4503599627370496) p)) /\
  0 <= gen_bernoulli_nll64 y p <= - ln (1 / 4503599627370496).
Proof. exact bernoulli_every_p. Qed.
Print Assumptions C08_bernoulli_every_p.

(** a saturated probability with the matching outcome (a logistic value rounded to 1.0 with y = 1, or to 0.0 with y = 0)
    costs -ln(1 - 2^-23) <= 1/8388607: the true value 0 up to one rounding unit *)
Theorem C08_bernoulli_saturated : forall p : R,
  (8388607 / 8388608 <= p -> gen_bernoulli_nll 1 p = - ln (8388607 / 8388608)) /\
  (p <= 1 / 8388608 -> gen_bernoulli_nll 0 p = - ln (8388607 / 8388608)) /\
  0 <= - ln (8388607 / 8388608) <= 1 / 8388607.
Proof. exact bernoulli_saturated. Qed.
Print Assumptions C08_bernoulli_saturated.

(** the hand-written kernel model is the documented loss of torch.nn.BCEWithLogitsLoss *)
Theorem C08_torch_bce_doc_form : forall x y : R,
  torch_bce_with_logits x y = - (y * ln (sigmoid x) + (1 - y) * ln (1 - sigmoid x)).
Proof. exact bce_doc_form. Qed.
Print Assumptions C08_torch_bce_doc_form.

(** ** Wiring: what the models read is these functions *)

(** SymbolicDistribution.get_func_nll / get_func_regularization of Normal are NormalFamily._nll *)
Theorem C08_route_normal : forall x mu sigma : R, gen_route_normal_nll x mu sigma = gen_normal_nll x mu sigma.
Proof. exact route_normal. Qed.
Print Assumptions C08_route_normal.

Theorem C08_route_regularization : forall x mu sigma : R, gen_route_normal_regul x mu sigma = gen_normal_nll x mu sigma.
Proof. exact route_regularization. Qed.
Print Assumptions C08_route_regularization.

(** the "weibull-right-censored" observation model (getter = (event_time, event_bool)) evaluates WeibullRightCensoredFamily._nll *)
Theorem C08_route_weibull : forall x delta nu rho xi tau : R,
  gen_route_weibull_nll x delta nu rho xi tau = gen_weibull_nll x delta nu rho xi tau.
Proof. exact route_weibull. Qed.
Print Assumptions C08_route_weibull.

(** the event observation model of a joint model with sources evaluates the with-sources family on (nu, rho, xi, tau, survival_shifts) *)
Theorem C08_route_weibull_src : forall x delta nu rho xi tau s : R,
  gen_route_weibull_src_nll x delta nu rho xi tau s = gen_weibull_src_nll x delta nu rho xi tau s.
Proof. exact route_weibull_src. Qed.
Print Assumptions C08_route_weibull_src.

Theorem C08_route_bernoulli : forall y p : R, gen_route_bernoulli_nll y p = gen_bernoulli_nll y p.
Proof. exact route_bernoulli. Qed.
Print Assumptions C08_route_bernoulli.

(** state["nll_attach_event_ind"] of a real (univariate) joint model, as composed by the code's own dependency graph from
    (event, event_bool, n_log_nu, log_rho, xi, tau): nu = exp(-n_log_nu) and rho = exp(log_rho) are admissible by construction,
    so no hypothesis on them is left. *)
Theorem C08_joint_event : forall event delta n_log_nu log_rho xi tau : R,
  0 < event - tau -> delta <> 0 ->
  gen_joint_event_nll_ind event delta n_log_nu log_rho xi tau
  = - ln (weibull_pdf (nu_tilde (exp (- n_log_nu)) xi) (exp log_rho) (event - tau)).
Proof. exact joint_event. Qed.
Print Assumptions C08_joint_event.

Theorem C08_joint_censored : forall event delta n_log_nu log_rho xi tau : R,
  delta = 0 ->
  gen_joint_event_nll_ind event delta n_log_nu log_rho xi tau
  = - ln (weibull_survival (nu_tilde (exp (- n_log_nu)) xi) (exp log_rho) (event - tau)).
Proof. exact joint_censored. Qed.
Print Assumptions C08_joint_censored.

Theorem C08_joint_event_before_ref : forall event delta n_log_nu log_rho xi tau : R,
  event - tau <= 0 -> delta <> 0 ->
  gen_joint_event_nll_ind event delta n_log_nu log_rho xi tau = INFINITY_c
  /\ gen_joint_event_nll event delta n_log_nu log_rho xi tau = INFINITY_c.
Proof. exact joint_event_before_ref. Qed.
Print Assumptions C08_joint_event_before_ref.

(** state["nll_attach_event_ind"] of a real joint model WITH sources (one source, one event), composed by the code's own graph from
    (event, event_bool, n_log_nu, log_rho, xi, tau, sources, zeta): survival shift = sources * zeta *)
Theorem C08_joint_src_event : forall event delta n_log_nu log_rho xi tau sources zeta : R,
  0 < event - tau -> delta <> 0 ->
  gen_joint_src_event_nll_ind event delta n_log_nu log_rho xi tau sources zeta
  = - ln (weibull_pdf (nu_tilde_src (exp (- n_log_nu)) (exp log_rho) xi (sources * zeta)) (exp log_rho) (event - tau)).
Proof. exact joint_src_event. Qed.
Print Assumptions C08_joint_src_event.

Theorem C08_joint_src_censored : forall event delta n_log_nu log_rho xi tau sources zeta : R,
  delta = 0 ->
  gen_joint_src_event_nll_ind event delta n_log_nu log_rho xi tau sources zeta
  = - ln (weibull_survival (nu_tilde_src (exp (- n_log_nu)) (exp log_rho) xi (sources * zeta)) (exp log_rho) (event - tau)).
Proof. exact joint_src_censored. Qed.
Print Assumptions C08_joint_src_censored.

Theorem C08_joint_src_event_before_ref : forall event delta n_log_nu log_rho xi tau sources zeta : R,
  event - tau <= 0 -> delta <> 0 ->
  gen_joint_src_event_nll_ind event delta n_log_nu log_rho xi tau sources zeta = INFINITY_c.
Proof. exact joint_src_event_before_ref. Qed.
Print Assumptions C08_joint_src_event_before_ref.

(** state["nll_regul_xi_ind"], ["nll_regul_tau_ind"], the population priors and the Gaussian attachment of the same model *)
Theorem C08_prior_xi : forall xi xi_mean xi_std : R,
  0 < xi_std -> gen_prior_xi xi xi_mean xi_std = - ln (normal_pdf xi xi_mean xi_std) + (c32 - ln (sqrt (2 * PI))).
Proof. exact prior_xi. Qed.
Print Assumptions C08_prior_xi.

Theorem C08_prior_tau : forall tau tau_mean tau_std : R,
  0 < tau_std -> gen_prior_tau tau tau_mean tau_std = - ln (normal_pdf tau tau_mean tau_std) + (c32 - ln (sqrt (2 * PI))).
Proof. exact prior_tau. Qed.
Print Assumptions C08_prior_tau.

Theorem C08_prior_population : forall v m s : R,
  0 < s ->
  gen_prior_log_g v m s = - ln (normal_pdf v m s) + (c32 - ln (sqrt (2 * PI))) /\
  gen_prior_n_log_nu v m s = - ln (normal_pdf v m s) + (c32 - ln (sqrt (2 * PI))) /\
  gen_prior_log_rho v m s = - ln (normal_pdf v m s) + (c32 - ln (sqrt (2 * PI))).
Proof. exact prior_population. Qed.
Print Assumptions C08_prior_population.

(** EVERY latent variable with a Normal prior of EVERY shipped model kind (logistic, linear, shared-speed logistic, joint with and
    without sources, mixture logistic): [gen_regul_list] is regenerated on every run by introspection of the models' graphs
    (population and individual latent variables; the inventory is written to the evidence), each entry is the regularity term read
    through the real graph as a function of (value, prior mean, prior std). *)
Theorem C08_prior_all_latents : forall v m s : R,
  0 < s -> List.Forall (fun f : R -> R -> R -> R => f v m s = - ln (normal_pdf v m s) + (c32 - ln (sqrt (2 * PI)))) gen_regul_list.
Proof. exact prior_all_latents. Qed.
Print Assumptions C08_prior_all_latents.

(** mixture model: one cluster coordinate of MixtureNormalFamily._nll (individual priors of xi, tau, sources) is the Gaussian nll
    with that cluster's mean and std *)
Theorem C08_mixture_cluster : forall x loc scale : R,
  0 < scale -> gen_mixture_cluster_nll x loc scale = - ln (normal_pdf x loc scale) + (c32 - ln (sqrt (2 * PI))).
Proof. exact mixture_cluster. Qed.
Print Assumptions C08_mixture_cluster.

Theorem C08_attach_gaussian : forall y model noise_std : R,
  0 < noise_std ->
  gen_attach_gaussian y model noise_std = - ln (normal_pdf y model noise_std) + (c32 - ln (sqrt (2 * PI))).
Proof. exact attach_gaussian. Qed.
Print Assumptions C08_attach_gaussian.

(** ** ANY number of sources and competing events (extension 3).
    [gen_joint_srcs_event_entry event delta n_log_nu log_rho xi tau sources zeta i e]: entry (individual i, event e) of the event
    attachment of a joint model whose [survival_shifts] node is [MatMul(sources, zeta)] (introspection, generated as
    [Ortho.matmul]); the rest of the path is state["nll_attach_event_ind"] traced through the model's own graph.
    [survival_shift sources zeta i e] = [dot (row i of sources) (column e of zeta)] = sum_s sources_{i,s} zeta_{s,e}. *)
Theorem C08_survival_shift_is_sum : forall (sources zeta : matrix) (i e : nat),
  survival_shift sources zeta i e = sum_products (nth i sources []) (map (fun r => nth e r 0) zeta).
Proof. exact survival_shift_sum. Qed.
Print Assumptions C08_survival_shift_is_sum.

Theorem C08_joint_srcs_event : forall (event delta n_log_nu log_rho xi tau : R) (sources zeta : matrix) (i e : nat),
  shift_shapes_ok sources zeta i e -> 0 < event - tau -> delta <> 0 ->
  gen_joint_srcs_event_entry event delta n_log_nu log_rho xi tau sources zeta i e
  = - ln (weibull_pdf (nu_tilde_src (exp (- n_log_nu)) (exp log_rho) xi (survival_shift sources zeta i e)) (exp log_rho) (event - tau)).
Proof. exact joint_srcs_event. Qed.
Print Assumptions C08_joint_srcs_event.

Theorem C08_joint_srcs_censored : forall (event delta n_log_nu log_rho xi tau : R) (sources zeta : matrix) (i e : nat),
  shift_shapes_ok sources zeta i e -> delta = 0 ->
  gen_joint_srcs_event_entry event delta n_log_nu log_rho xi tau sources zeta i e
  = - ln (weibull_survival (nu_tilde_src (exp (- n_log_nu)) (exp log_rho) xi (survival_shift sources zeta i e)) (exp log_rho) (event - tau)).
Proof. exact joint_srcs_censored. Qed.
Print Assumptions C08_joint_srcs_censored.

(** an observed event at or before the reference time costs exactly the finite prohibitive penalty - never NaN, never infinity -
    whatever the sources and their coefficients *)
Theorem C08_joint_srcs_event_before_ref : forall (event delta n_log_nu log_rho xi tau : R) (sources zeta : matrix) (i e : nat),
  shift_shapes_ok sources zeta i e -> event - tau <= 0 -> delta <> 0 ->
  gen_joint_srcs_event_entry event delta n_log_nu log_rho xi tau sources zeta i e = INFINITY_c
  /\ IZR (10 ^ 306) <= INFINITY_c < IZR (2 ^ 1023).
Proof. exact joint_srcs_event_before_ref. Qed.
Print Assumptions C08_joint_srcs_event_before_ref.

(** hazard and survival of entry (i, e) = the formulas printed in docs/models.md with u = sum_s sources_{i,s} zeta_{s,e} *)
Theorem C08_joint_srcs_documented : forall (event n_log_nu log_rho xi tau : R) (sources zeta : matrix) (i e : nat),
  0 < event - tau ->
  weibull_hazard (nu_tilde_src (exp (- n_log_nu)) (exp log_rho) xi (survival_shift sources zeta i e)) (exp log_rho) (event - tau)
  = doc_hazard (exp (- n_log_nu)) (exp log_rho) xi tau (sum_products (nth i sources []) (map (fun r => nth e r 0) zeta)) event
  /\ weibull_survival (nu_tilde_src (exp (- n_log_nu)) (exp log_rho) xi (survival_shift sources zeta i e)) (exp log_rho) (event - tau)
  = doc_survival (exp (- n_log_nu)) (exp log_rho) xi tau (sum_products (nth i sources []) (map (fun r => nth e r 0) zeta)) event.
Proof. exact joint_srcs_documented. Qed.
Print Assumptions C08_joint_srcs_documented.

(** the SAME graph traced with array symbols (the product executed on the symbols, nothing cut): 2 and 3 sources, one event *)
Theorem C08_joint_src2_is_list : forall event delta n_log_nu log_rho xi tau s0 s1 z0 z1 : R,
  gen_joint_src2_event_nll_ind event delta n_log_nu log_rho xi tau s0 s1 z0 z1
  = gen_joint_srcs_event_entry event delta n_log_nu log_rho xi tau [[s0; s1]] [[z0]; [z1]] 0 0.
Proof. exact joint_src2_is_list. Qed.
Print Assumptions C08_joint_src2_is_list.

Theorem C08_joint_src3_is_list : forall event delta n_log_nu log_rho xi tau s0 s1 s2 z0 z1 z2 : R,
  gen_joint_src3_event_nll_ind event delta n_log_nu log_rho xi tau s0 s1 s2 z0 z1 z2
  = gen_joint_srcs_event_entry event delta n_log_nu log_rho xi tau [[s0; s1; s2]] [[z0]; [z1]; [z2]] 0 0.
Proof. exact joint_src3_is_list. Qed.
Print Assumptions C08_joint_src3_is_list.

(** two competing events, all per-event quantities traced as arrays: entry e reads event e's time / indicator / nu / rho and
    COLUMN e of zeta - nothing of the other event; state["nll_attach_event_ind"] is the sum of the two entries *)
Theorem C08_joint_src2e2_entrywise : forall ev0 ev1 d0 d1 n0 n1 r0 r1 xi tau s0 s1 z00 z01 z10 z11 : R,
  gen_joint_src2e2_entry_0 ev0 ev1 d0 d1 n0 n1 r0 r1 xi tau s0 s1 z00 z01 z10 z11
  = gen_joint_srcs_event_entry ev0 d0 n0 r0 xi tau [[s0; s1]] [[z00; z01]; [z10; z11]] 0 0
  /\ gen_joint_src2e2_entry_1 ev0 ev1 d0 d1 n0 n1 r0 r1 xi tau s0 s1 z00 z01 z10 z11
  = gen_joint_srcs_event_entry ev1 d1 n1 r1 xi tau [[s0; s1]] [[z00; z01]; [z10; z11]] 0 1
  /\ gen_joint_src2e2_event_nll_ind ev0 ev1 d0 d1 n0 n1 r0 r1 xi tau s0 s1 z00 z01 z10 z11
  = gen_joint_src2e2_entry_0 ev0 ev1 d0 d1 n0 n1 r0 r1 xi tau s0 s1 z00 z01 z10 z11
    + gen_joint_src2e2_entry_1 ev0 ev1 d0 d1 n0 n1 r0 r1 xi tau s0 s1 z00 z01 z10 z11.
Proof. exact joint_src2e2_entrywise. Qed.
Print Assumptions C08_joint_src2e2_entrywise.

Theorem C08_joint_src3e2_entrywise : forall ev0 ev1 d0 d1 n0 n1 r0 r1 xi tau s0 s1 s2 z00 z01 z10 z11 z20 z21 : R,
  gen_joint_src3e2_entry_0 ev0 ev1 d0 d1 n0 n1 r0 r1 xi tau s0 s1 s2 z00 z01 z10 z11 z20 z21
  = gen_joint_srcs_event_entry ev0 d0 n0 r0 xi tau [[s0; s1; s2]] [[z00; z01]; [z10; z11]; [z20; z21]] 0 0
  /\ gen_joint_src3e2_entry_1 ev0 ev1 d0 d1 n0 n1 r0 r1 xi tau s0 s1 s2 z00 z01 z10 z11 z20 z21
  = gen_joint_srcs_event_entry ev1 d1 n1 r1 xi tau [[s0; s1; s2]] [[z00; z01]; [z10; z11]; [z20; z21]] 0 1
  /\ gen_joint_src3e2_event_nll_ind ev0 ev1 d0 d1 n0 n1 r0 r1 xi tau s0 s1 s2 z00 z01 z10 z11 z20 z21
  = gen_joint_src3e2_entry_0 ev0 ev1 d0 d1 n0 n1 r0 r1 xi tau s0 s1 s2 z00 z01 z10 z11 z20 z21
    + gen_joint_src3e2_entry_1 ev0 ev1 d0 d1 n0 n1 r0 r1 xi tau s0 s1 s2 z00 z01 z10 z11 z20 z21.
Proof. exact joint_src3e2_entrywise. Qed.
Print Assumptions C08_joint_src3e2_entrywise.

(** ** Mixture-normal family with several clusters: the result is entry-wise.
    [gen_mixtureK_nll_kJ]: entry (i, J) of MixtureNormalFamily._nll traced on K-cluster parameter arrays (x = value i);
    [mixture_row f x locs scales] = [f x loc_0 scale_0; ...; f x loc_{K-1} scale_{K-1}]: entry k mentions cluster k only. *)
Theorem C08_mixture2_entrywise : forall x l0 l1 s0 s1 : R,
  [gen_mixture2_nll_k0 x l0 l1 s0 s1; gen_mixture2_nll_k1 x l0 l1 s0 s1] = mixture_row gen_normal_nll x [l0; l1] [s0; s1].
Proof. exact mixture2_entrywise. Qed.
Print Assumptions C08_mixture2_entrywise.

Theorem C08_mixture3_entrywise : forall x l0 l1 l2 s0 s1 s2 : R,
  [gen_mixture3_nll_k0 x l0 l1 l2 s0 s1 s2; gen_mixture3_nll_k1 x l0 l1 l2 s0 s1 s2; gen_mixture3_nll_k2 x l0 l1 l2 s0 s1 s2]
  = mixture_row gen_normal_nll x [l0; l1; l2] [s0; s1; s2].
Proof. exact mixture3_entrywise. Qed.
Print Assumptions C08_mixture3_entrywise.

(** the layout of the `sources` prior of the mixture model: value (i, s), mean (s, k), one common std: entry (i, s, k) reads value
    (i, s) and the mean of (source s, cluster k) only *)
Theorem C08_mixture_src2x2_entrywise : forall x0 x1 l00 l01 l10 l11 sc : R,
  [gen_mixture_src2x2_nll_s0_k0 x0 x1 l00 l01 l10 l11 sc; gen_mixture_src2x2_nll_s0_k1 x0 x1 l00 l01 l10 l11 sc]
  = mixture_row gen_normal_nll x0 [l00; l01] [sc; sc]
  /\ [gen_mixture_src2x2_nll_s1_k0 x0 x1 l00 l01 l10 l11 sc; gen_mixture_src2x2_nll_s1_k1 x0 x1 l00 l01 l10 l11 sc]
  = mixture_row gen_normal_nll x1 [l10; l11] [sc; sc].
Proof. exact mixture_src2x2_entrywise. Qed.
Print Assumptions C08_mixture_src2x2_entrywise.

Theorem C08_mixture_src2x3_entrywise : forall x0 x1 l00 l01 l02 l10 l11 l12 sc : R,
  [gen_mixture_src2x3_nll_s0_k0 x0 x1 l00 l01 l02 l10 l11 l12 sc; gen_mixture_src2x3_nll_s0_k1 x0 x1 l00 l01 l02 l10 l11 l12 sc;
   gen_mixture_src2x3_nll_s0_k2 x0 x1 l00 l01 l02 l10 l11 l12 sc]
  = mixture_row gen_normal_nll x0 [l00; l01; l02] [sc; sc; sc]
  /\ [gen_mixture_src2x3_nll_s1_k0 x0 x1 l00 l01 l02 l10 l11 l12 sc; gen_mixture_src2x3_nll_s1_k1 x0 x1 l00 l01 l02 l10 l11 l12 sc;
      gen_mixture_src2x3_nll_s1_k2 x0 x1 l00 l01 l02 l10 l11 l12 sc]
  = mixture_row gen_normal_nll x1 [l10; l11; l12] [sc; sc; sc].
Proof. exact mixture_src2x3_entrywise. Qed.
Print Assumptions C08_mixture_src2x3_entrywise.

(** any number of clusters: entry k of the row is the negative log-density of N(loc_k, scale_k^2) at x (up to the float32 constant) *)
Theorem C08_mixture_row_entry : forall (x : R) (locs scales : list R) (k : nat),
  length locs = length scales -> (k < length locs)%nat -> 0 < nth k scales 0 ->
  nth k (mixture_row gen_normal_nll x locs scales) 0
  = - ln (normal_pdf x (nth k locs 0) (nth k scales 0)) + (c32 - ln (sqrt (2 * PI))).
Proof. exact mixture_row_entry. Qed.
Print Assumptions C08_mixture_row_entry.

(** ** The attachment of the mixture model: [gen_attach_mixture] is the public route of the observation model of a real mixture
    model (the ordinary Gaussian family, evaluated on the individual's ONE trajectory state["model"]; the clusters enter the
    likelihood through the priors of xi, tau, sources only - the C08_mixture theorems). *)
Theorem C08_attach_mixture : forall y model noise_std : R,
  0 < noise_std ->
  gen_attach_mixture y model noise_std = - ln (normal_pdf y model noise_std) + (c32 - ln (sqrt (2 * PI))).
Proof. exact attach_mixture. Qed.
Print Assumptions C08_attach_mixture.
