(** C08 — likelihood terms are the negative log-densities of the documented distributions.
    Property theorems only: statements in full, each closed by [exact] of a lemma proved elsewhere.
    Every [gen_*] is a definition of LeaspyGen.GenC08, REGENERATED on every run by tracing the running code of
    variables/distributions.py (class methods, the SymbolicDistribution route, a real joint model's state);
    [normal_pdf], [bernoulli_pmf], [weibull_hazard], [weibull_survival], [weibull_pdf], [nu_tilde], [nu_tilde_src],
    [doc_hazard], [doc_survival] are the textbook / documented formulas written by hand in Formulas/Density.v. *)
From Coq Require Import Reals List.
From Coquelicot Require Import Coquelicot.
From Leaspy Require Import Base.RAux Formulas.TorchDist Formulas.Density Formulas.LikelihoodCode Formulas.DensityProofs Formulas.DensityTie Formulas.DensityConst.
From LeaspyGen Require Import GenC08.
Local Open Scope R_scope.

(** ** Gaussian (noise of continuous outcomes, priors of the latent variables) *)

(** NormalFamily._nll is the negative log-density of N(mu, sigma^2), up to the rounding of the float32 constant it adds. *)
Theorem C08_normal : forall x mu sigma : R,
  0 < sigma -> gen_normal_nll x mu sigma = - ln (normal_pdf x mu sigma) + (c32 - ln (sqrt (2 * PI))).
Proof. exact normal_nll. Qed.
Print Assumptions C08_normal.

(** ... and that constant is 1/2 ln(2 pi) = ln sqrt(2 pi) to within 2^-25 (the only lemma proved with Coq-Interval). *)
Theorem C08_const : Rabs (c32 - ln (sqrt (2 * PI))) <= / 2 ^ 25 /\ ln (sqrt (2 * PI)) = / 2 * ln (2 * PI).
Proof. split; [exact c32_is_half_ln_2pi | exact ln_sqrt_2pi]. Qed.
Print Assumptions C08_const.

(** the logarithm above is taken of a positive number *)
Theorem C08_normal_pdf_pos : forall x mu sigma : R, 0 < sigma -> 0 < normal_pdf x mu sigma.
Proof. exact normal_pdf_pos. Qed.
Print Assumptions C08_normal_pdf_pos.

(** NormalFamily._nll_jacobian is the derivative of NormalFamily._nll with respect to the value. *)
Theorem C08_normal_jacobian : forall x mu sigma : R,
  0 < sigma -> is_derive (fun x0 => gen_normal_nll x0 mu sigma) x (gen_normal_nll_jac x mu sigma).
Proof. exact normal_jacobian. Qed.
Print Assumptions C08_normal_jacobian.

(** NormalFamily._nll_and_jacobian (a second hard-coded copy) returns the same two functions. *)
Theorem C08_normal_and_jacobian : forall x mu sigma : R,
  0 < sigma ->
  gen_normal_aj_nll x mu sigma = gen_normal_nll x mu sigma /\ gen_normal_aj_jac x mu sigma = gen_normal_nll_jac x mu sigma.
Proof. exact normal_and_jacobian. Qed.
Print Assumptions C08_normal_and_jacobian.

(** ** Right-censored Weibull on the reparametrised time t = x - tau, scale nu~ = nu e^{-xi} *)

(** observed event (event_bool <> 0) after the reference time: -ln (h(t) S(t)), the negative log-density. *)
Theorem C08_weibull_event : forall x delta nu rho xi tau : R,
  0 < nu -> 0 < rho -> 0 < x - tau -> delta <> 0 ->
  gen_weibull_nll x delta nu rho xi tau
  = - ln (weibull_hazard (nu_tilde nu xi) rho (x - tau) * weibull_survival (nu_tilde nu xi) rho (x - tau)).
Proof. exact weibull_event. Qed.
Print Assumptions C08_weibull_event.

(** censored individual (event_bool = 0): the survival term only — whatever the sign of x - tau (S = 1 before the origin). *)
Theorem C08_weibull_censored : forall x delta nu rho xi tau : R,
  0 < nu -> 0 < rho -> delta = 0 ->
  gen_weibull_nll x delta nu rho xi tau = - ln (weibull_survival (nu_tilde nu xi) rho (x - tau)).
Proof. exact weibull_censored. Qed.
Print Assumptions C08_weibull_censored.

(** observed event at or before the reference time: exactly the penalty INFINITY (the survival term at the clamped time 0 is 0). *)
Theorem C08_event_before_ref : forall x delta nu rho xi tau : R,
  0 < rho -> x - tau <= 0 -> delta <> 0 -> gen_weibull_nll x delta nu rho xi tau = INFINITY_c.
Proof. exact event_before_ref. Qed.
Print Assumptions C08_event_before_ref.

(** the logarithms above are taken of positive numbers, and 0 < S <= 1 *)
Theorem C08_weibull_density_pos : forall lam rho t : R,
  0 < lam -> 0 < rho ->
  (0 < t -> 0 < weibull_hazard lam rho t * weibull_survival lam rho t) /\ 0 < weibull_survival lam rho t <= 1.
Proof. exact weibull_density_pos. Qed.
Print Assumptions C08_weibull_density_pos.

(** ** ... with sources (survival shift s of the individual for the event): scale nu~ = nu exp(-(xi + s/rho)) *)

Theorem C08_weibull_src_event : forall x delta nu rho xi tau s : R,
  0 < nu -> 0 < rho -> 0 < x - tau -> delta <> 0 ->
  gen_weibull_src_nll x delta nu rho xi tau s
  = - ln (weibull_hazard (nu_tilde_src nu rho xi s) rho (x - tau) * weibull_survival (nu_tilde_src nu rho xi s) rho (x - tau)).
Proof. exact weibull_src_event. Qed.
Print Assumptions C08_weibull_src_event.

Theorem C08_weibull_src_censored : forall x delta nu rho xi tau s : R,
  0 < nu -> 0 < rho -> delta = 0 ->
  gen_weibull_src_nll x delta nu rho xi tau s = - ln (weibull_survival (nu_tilde_src nu rho xi s) rho (x - tau)).
Proof. exact weibull_src_censored. Qed.
Print Assumptions C08_weibull_src_censored.

Theorem C08_src_event_before_ref : forall x delta nu rho xi tau s : R,
  0 < rho -> x - tau <= 0 -> delta <> 0 -> gen_weibull_src_nll x delta nu rho xi tau s = INFINITY_c.
Proof. exact src_event_before_ref. Qed.
Print Assumptions C08_src_event_before_ref.

(** the penalty read from constants.py is positive, prohibitive and a finite binary64 number with room to spare
    (2^1023 < max double): "finite, never NaN or infinity" as far as the real-valued model can say it; the float side
    is the directed sweep of the check. *)
Theorem C08_penalty_finite : 0 < INFINITY_c /\ IZR (10 ^ 306) <= INFINITY_c < IZR (2 ^ 1023).
Proof. split; [exact INFINITY_c_pos | exact INFINITY_c_bounds]. Qed.
Print Assumptions C08_penalty_finite.

(** the hand-written hazard and survival function describe one distribution: h = -(ln S)' on t > 0 *)
Theorem C08_hazard_is_minus_dlog_survival : forall lam rho t : R,
  0 < lam -> 0 < rho -> 0 < t ->
  is_derive (fun s => - ln (exp (- Rpower (s / lam) rho))) t (weibull_hazard lam rho t).
Proof. exact hazard_is_minus_dlog_survival. Qed.
Print Assumptions C08_hazard_is_minus_dlog_survival.

(** ** Reparametrisation: the Weibull with the code's individual scale is the documented formula (docs/models.md)
       h(x) = (rho e^xi / nu) (e^xi (x - tau) / nu)^(rho-1) exp(u),   S(x) = exp(-(e^xi (x - tau) / nu)^rho exp(u)) *)

Theorem C08_reparam : forall nu rho xi tau u x : R,
  0 < nu -> 0 < rho -> 0 < x - tau ->
  weibull_hazard (gen_nu_rep_sources nu rho xi tau u) rho (gen_event_rep x tau) = doc_hazard nu rho xi tau u x.
Proof. exact reparam. Qed.
Print Assumptions C08_reparam.

Theorem C08_reparam_survival : forall nu rho xi tau u x : R,
  0 < nu -> 0 < rho -> 0 < x - tau ->
  weibull_survival (gen_nu_rep_sources nu rho xi tau u) rho (gen_event_rep x tau) = doc_survival nu rho xi tau u x.
Proof. exact reparam_surv. Qed.
Print Assumptions C08_reparam_survival.

Theorem C08_reparam_no_sources : forall nu rho xi tau x : R,
  0 < nu -> 0 < rho -> 0 < x - tau ->
  weibull_hazard (gen_nu_rep nu rho xi tau) rho (gen_event_rep x tau) = doc_hazard nu rho xi tau 0 x /\
  weibull_survival (gen_nu_rep nu rho xi tau) rho (gen_event_rep x tau) = doc_survival nu rho xi tau 0 x.
Proof. exact reparam_no_sources. Qed.
Print Assumptions C08_reparam_no_sources.

(** the code's reparametrised scale and time are the documented ones *)
Theorem C08_nu_rep : forall nu rho xi tau x : R,
  gen_nu_rep nu rho xi tau = nu_tilde nu xi /\ gen_event_rep x tau = x - tau.
Proof. intros. split; [apply gen_nu_rep_eq | apply gen_event_rep_eq]. Qed.
Print Assumptions C08_nu_rep.

Theorem C08_nu_rep_sources : forall nu rho xi tau s : R, gen_nu_rep_sources nu rho xi tau s = nu_tilde_src nu rho xi s.
Proof. exact gen_nu_rep_sources_eq. Qed.
Print Assumptions C08_nu_rep_sources.

(** ** Bernoulli (binary outcomes).  [gen_bernoulli_nll] / [gen_bernoulli_nll64] are traced from the REAL call path
       StatelessDistributionFamilyFromTorchDistribution._nll -> torch.distributions.Bernoulli(p).log_prob(y), followed into torch's
       python code on float32 / float64 symbols: clamp of p to [eps, 1 - eps], logit, then the one compiled kernel, modelled by
       [torch_bce_with_logits] (Formulas/TorchDist.v; tied to the running torch by T3). *)

(** probabilities the clamp leaves alone (all of [2^-23, 1 - 2^-23] in float32): the negative log-pmf *)
Theorem C08_bernoulli : forall y p : R,
  1 / 8388608 <= p <= 8388607 / 8388608 -> y = 0 \/ y = 1 -> gen_bernoulli_nll y p = - ln (bernoulli_pmf y p).
Proof. exact bernoulli. Qed.
Print Assumptions C08_bernoulli.

Theorem C08_bernoulli_f64 : forall y p : R,
  1 / 4503599627370496 <= p <= 4503599627370495 / 4503599627370496 -> y = 0 \/ y = 1 ->
  gen_bernoulli_nll64 y p = - ln (bernoulli_pmf y p).
Proof. exact bernoulli_f64. Qed.
Print Assumptions C08_bernoulli_f64.

(** EVERY probability argument, saturated (exactly 0 or 1) included: the negative log-pmf at the clamped probability, hence finite *)
Theorem C08_bernoulli_every_p : forall y p : R,
  y = 0 \/ y = 1 ->
  gen_bernoulli_nll y p = - ln (bernoulli_pmf y (clamp_prob (1 / 8388608) (8388607 / 8388608) p)) /\
  0 <= gen_bernoulli_nll y p <= - ln (1 / 8388608) /\
  gen_bernoulli_nll64 y p = - ln (bernoulli_pmf y (clamp_prob (1 / 4503599627370496) (4503599627370495 / 4503599627370496) p)) /\
  0 <= gen_bernoulli_nll64 y p <= - ln (1 / 4503599627370496).
Proof. exact bernoulli_every_p. Qed.
Print Assumptions C08_bernoulli_every_p.

(** a saturated probability with the matching outcome (a logistic value rounded to 1.0 with y = 1, or to 0.0 with y = 0)
    costs -ln(1 - 2^-23) <= 1/8388607: the true value 0 up to one rounding unit *)
Theorem C08_bernoulli_saturated : forall p : R,
  (8388607 / 8388608 <= p -> gen_bernoulli_nll 1 p = - ln (8388607 / 8388608)) /\
  (p <= 1 / 8388608 -> gen_bernoulli_nll 0 p = - ln (8388607 / 8388608)) /\
  0 <= - ln (8388607 / 8388608) <= 1 / 8388607.
Proof. exact bernoulli_saturated. Qed.
Print Assumptions C08_bernoulli_saturated.

(** the hand-written kernel model is the documented loss of torch.nn.BCEWithLogitsLoss *)
Theorem C08_torch_bce_doc_form : forall x y : R,
  torch_bce_with_logits x y = - (y * ln (sigmoid x) + (1 - y) * ln (1 - sigmoid x)).
Proof. exact bce_doc_form. Qed.
Print Assumptions C08_torch_bce_doc_form.

(** ** Wiring: what the models read is these functions *)

(** SymbolicDistribution.get_func_nll / get_func_regularization of Normal are NormalFamily._nll *)
Theorem C08_route_normal : forall x mu sigma : R, gen_route_normal_nll x mu sigma = gen_normal_nll x mu sigma.
Proof. exact route_normal. Qed.
Print Assumptions C08_route_normal.

Theorem C08_route_regularization : forall x mu sigma : R, gen_route_normal_regul x mu sigma = gen_normal_nll x mu sigma.
Proof. exact route_regularization. Qed.
Print Assumptions C08_route_regularization.

(** the "weibull-right-censored" observation model (getter = (event_time, event_bool)) evaluates WeibullRightCensoredFamily._nll *)
Theorem C08_route_weibull : forall x delta nu rho xi tau : R,
  gen_route_weibull_nll x delta nu rho xi tau = gen_weibull_nll x delta nu rho xi tau.
Proof. exact route_weibull. Qed.
Print Assumptions C08_route_weibull.

(** the event observation model of a joint model with sources evaluates the with-sources family on (nu, rho, xi, tau, survival_shifts) *)
Theorem C08_route_weibull_src : forall x delta nu rho xi tau s : R,
  gen_route_weibull_src_nll x delta nu rho xi tau s = gen_weibull_src_nll x delta nu rho xi tau s.
Proof. exact route_weibull_src. Qed.
Print Assumptions C08_route_weibull_src.

Theorem C08_route_bernoulli : forall y p : R, gen_route_bernoulli_nll y p = gen_bernoulli_nll y p.
Proof. exact route_bernoulli. Qed.
Print Assumptions C08_route_bernoulli.

(** state["nll_attach_event_ind"] of a real (univariate) joint model, as composed by the code's own dependency graph from
    (event, event_bool, n_log_nu, log_rho, xi, tau): nu = exp(-n_log_nu) and rho = exp(log_rho) are admissible by construction,
    so no hypothesis on them is left. *)
Theorem C08_joint_event : forall event delta n_log_nu log_rho xi tau : R,
  0 < event - tau -> delta <> 0 ->
  gen_joint_event_nll_ind event delta n_log_nu log_rho xi tau
  = - ln (weibull_pdf (nu_tilde (exp (- n_log_nu)) xi) (exp log_rho) (event - tau)).
Proof. exact joint_event. Qed.
Print Assumptions C08_joint_event.

Theorem C08_joint_censored : forall event delta n_log_nu log_rho xi tau : R,
  delta = 0 ->
  gen_joint_event_nll_ind event delta n_log_nu log_rho xi tau
  = - ln (weibull_survival (nu_tilde (exp (- n_log_nu)) xi) (exp log_rho) (event - tau)).
Proof. exact joint_censored. Qed.
Print Assumptions C08_joint_censored.

Theorem C08_joint_event_before_ref : forall event delta n_log_nu log_rho xi tau : R,
  event - tau <= 0 -> delta <> 0 ->
  gen_joint_event_nll_ind event delta n_log_nu log_rho xi tau = INFINITY_c
  /\ gen_joint_event_nll event delta n_log_nu log_rho xi tau = INFINITY_c.
Proof. exact joint_event_before_ref. Qed.
Print Assumptions C08_joint_event_before_ref.

(** state["nll_attach_event_ind"] of a real joint model WITH sources (one source, one event), composed by the code's own graph from
    (event, event_bool, n_log_nu, log_rho, xi, tau, sources, zeta): survival shift = sources * zeta *)
Theorem C08_joint_src_event : forall event delta n_log_nu log_rho xi tau sources zeta : R,
  0 < event - tau -> delta <> 0 ->
  gen_joint_src_event_nll_ind event delta n_log_nu log_rho xi tau sources zeta
  = - ln (weibull_pdf (nu_tilde_src (exp (- n_log_nu)) (exp log_rho) xi (sources * zeta)) (exp log_rho) (event - tau)).
Proof. exact joint_src_event. Qed.
Print Assumptions C08_joint_src_event.

Theorem C08_joint_src_censored : forall event delta n_log_nu log_rho xi tau sources zeta : R,
  delta = 0 ->
  gen_joint_src_event_nll_ind event delta n_log_nu log_rho xi tau sources zeta
  = - ln (weibull_survival (nu_tilde_src (exp (- n_log_nu)) (exp log_rho) xi (sources * zeta)) (exp log_rho) (event - tau)).
Proof. exact joint_src_censored. Qed.
Print Assumptions C08_joint_src_censored.

Theorem C08_joint_src_event_before_ref : forall event delta n_log_nu log_rho xi tau sources zeta : R,
  event - tau <= 0 -> delta <> 0 ->
  gen_joint_src_event_nll_ind event delta n_log_nu log_rho xi tau sources zeta = INFINITY_c.
Proof. exact joint_src_event_before_ref. Qed.
Print Assumptions C08_joint_src_event_before_ref.

(** state["nll_regul_xi_ind"], ["nll_regul_tau_ind"], the population priors and the Gaussian attachment of the same model *)
Theorem C08_prior_xi : forall xi xi_mean xi_std : R,
  0 < xi_std -> gen_prior_xi xi xi_mean xi_std = - ln (normal_pdf xi xi_mean xi_std) + (c32 - ln (sqrt (2 * PI))).
Proof. exact prior_xi. Qed.
Print Assumptions C08_prior_xi.

Theorem C08_prior_tau : forall tau tau_mean tau_std : R,
  0 < tau_std -> gen_prior_tau tau tau_mean tau_std = - ln (normal_pdf tau tau_mean tau_std) + (c32 - ln (sqrt (2 * PI))).
Proof. exact prior_tau. Qed.
Print Assumptions C08_prior_tau.

Theorem C08_prior_population : forall v m s : R,
  0 < s ->
  gen_prior_log_g v m s = - ln (normal_pdf v m s) + (c32 - ln (sqrt (2 * PI))) /\
  gen_prior_n_log_nu v m s = - ln (normal_pdf v m s) + (c32 - ln (sqrt (2 * PI))) /\
  gen_prior_log_rho v m s = - ln (normal_pdf v m s) + (c32 - ln (sqrt (2 * PI))).
Proof. exact prior_population. Qed.
Print Assumptions C08_prior_population.

(** EVERY latent variable with a Normal prior of EVERY shipped model kind (logistic, linear, shared-speed logistic, joint with and
    without sources, mixture logistic): [gen_regul_list] is regenerated on every run by introspection of the models' graphs
    (population and individual latent variables; the inventory is written to the evidence), each entry is the regularity term read
    through the real graph as a function of (value, prior mean, prior std). *)
Theorem C08_prior_all_latents : forall v m s : R,
  0 < s -> List.Forall (fun f : R -> R -> R -> R => f v m s = - ln (normal_pdf v m s) + (c32 - ln (sqrt (2 * PI)))) gen_regul_list.
Proof. exact prior_all_latents. Qed.
Print Assumptions C08_prior_all_latents.

(** mixture model: one cluster coordinate of MixtureNormalFamily._nll (individual priors of xi, tau, sources) is the Gaussian nll
    with that cluster's mean and std *)
Theorem C08_mixture_cluster : forall x loc scale : R,
  0 < scale -> gen_mixture_cluster_nll x loc scale = - ln (normal_pdf x loc scale) + (c32 - ln (sqrt (2 * PI))).
Proof. exact mixture_cluster. Qed.
Print Assumptions C08_mixture_cluster.

Theorem C08_attach_gaussian : forall y model noise_std : R,
  0 < noise_std ->
  gen_attach_gaussian y model noise_std = - ln (normal_pdf y model noise_std) + (c32 - ln (sqrt (2 * PI))).
Proof. exact attach_gaussian. Qed.
Print Assumptions C08_attach_gaussian.
