(** C18 — simulation honours the requested design.
    Property theorems only: statements in full, each closed by [exact]/[apply] of a lemma proved elsewhere.
    [gen_*] are the definitions regenerated from simulate.py / base.py on every run (gen/GenC18.v). *)
From Coq Require Import ZArith QArith Qround Qabs Bool List String Sorted Permutation.
From Leaspy Require Import Base.QAux Api.Simulate Api.SimulateProofs Api.SimulateTie Api.SimulateGen Api.SimulateGenProofs Api.SimulateGenTie
  Api.SimulateGenWf Api.SimulateGenWfProofs Api.SimulateGenWfTie.
From LeaspyGen Require Import GenC18.
Import ListNotations.

(* ---------------------------------------------------------------- values *)

(** 0 < mu < 1 and 0 < var: after the clamp [min(var, factor * mu(1-mu))] (factor of the current source) both beta
    parameters are defined (no division by zero) and positive, so [beta.rvs] is always defined. *)
Theorem C18_beta_params_positive : forall mu var : Q,
  0 < mu -> mu < 1 -> 0 < var ->
  exists a b, beta_params mu (adj_var gen_clamp_factor mu var) = Some (a, b) /\ 0 < a /\ 0 < b.
Proof.
  intros mu var H0 H1 Hv. destruct tie_constants as (_ & _ & _ & F0 & F1 & _).
  now apply beta_params_positive.
Qed.
Print Assumptions C18_beta_params_positive.

(** ... and the noise is centred on the clipped model value: a / (a + b) = mu. *)
Theorem C18_beta_mean : forall mu v a b : Q,
  0 < mu -> mu < 1 -> 0 < v -> v < max_var mu -> beta_params mu v = Some (a, b) -> a == mu * (a + b).
Proof. exact beta_params_mean. Qed.
Print Assumptions C18_beta_mean.

(** The factor must be < 1: with factor 1 and a large noise both parameters are 0 (beta.rvs undefined). *)
Theorem C18_clamp_factor_needed : exists mu var a b,
  0 < mu /\ mu < 1 /\ 0 < var /\ beta_params mu (adj_var 1 mu var) = Some (a, b) /\ a == 0 /\ b == 0.
Proof. exact clamp_factor_needed. Qed.
Print Assumptions C18_clamp_factor_needed.

(** Whatever [estimate] returns, the clipped value lies within the bounds of the source, strictly inside (0,1),
    and is unchanged when it already lies within them. *)
Theorem C18_clip_range : forall x : Q,
  (gen_clip_lo <= clip gen_clip_lo gen_clip_hi x /\ clip gen_clip_lo gen_clip_hi x <= gen_clip_hi) /\
  (0 < clip gen_clip_lo gen_clip_hi x /\ clip gen_clip_lo gen_clip_hi x < 1) /\
  (gen_clip_lo <= x -> x <= gen_clip_hi -> clip gen_clip_lo gen_clip_hi x = x).
Proof.
  intros x. destruct tie_constants as (L0 & LH & H1 & _).
  split; [now apply clip_range|]. split; [now apply clip_open_unit | apply clip_id].
Qed.
Print Assumptions C18_clip_range.

(** Every simulated value is defined and within [0,1], for every model value, every positive noise variance and
    every draw — given only that beta.rvs is defined and within [0,1] for positive parameters. *)
Theorem C18_values_in_unit : forall beta_rvs : Q -> Q -> nat -> option Q,
  (forall a b i, 0 < a -> 0 < b -> exists y, beta_rvs a b i = Some y /\ 0 <= y /\ y <= 1) ->
  forall (x var : Q) (i : nat), 0 < var ->
  exists y, noisy gen_clip_lo gen_clip_hi gen_clamp_factor beta_rvs x var i = Some y /\ 0 <= y /\ y <= 1.
Proof.
  intros rvs Hr x var i Hv. destruct tie_constants as (L0 & LH & H1 & F0 & F1 & _).
  now apply noisy_in_unit.
Qed.
Print Assumptions C18_values_in_unit.

(* ---------------------------------------------------------------- ages *)

(** After rounding to [p] decimals, keep-first de-duplication and ingestion, each individual's ages (in units of
    10^-p) are strictly increasing — for every list of requested visits, any precision, any individual. *)
Theorem C18_ages_unique_increasing : forall (p : Z) (id : string) (l : list (string * Q * list Q)),
  StronglySorted Z.lt (ages_of p id l).
Proof. exact ages_unique_increasing. Qed.
Print Assumptions C18_ages_unique_increasing.

(** Every requested visit is present at its rounded age, which is the nearest multiple of 10^-p. *)
Theorem C18_ages_complete_rounded : forall (p : Z) (id : string) (l : list (string * Q * list Q)) (t : Q) (v : list Q),
  In (id, t, v) l ->
  In (age_key p t) (ages_of p id l) /\ Qabs (inject_Z (age_key p t) - t * pow10 p) <= 1 # 2 /\
  ((0 <= p)%Z -> age_of p (age_key p t) * pow10 p == inject_Z (age_key p t)).
Proof.
  intros p id l t v H. split; [now apply (ages_complete p id l t v)|]. split; [apply age_key_near | apply age_of_scaled].
Qed.
Print Assumptions C18_ages_complete_rounded.

(** Every returned visit is a requested visit of that individual; its values are those of the FIRST requested
    visit (in generation order) that rounds to this age. *)
Theorem C18_first_visit_kept : forall (p : Z) (id : string) (l : list (string * Q * list Q)) (r : srow),
  In r (visits_of p id l) ->
  exists l1 l2 t, round_rows p l = (l1 ++ r :: l2)%list /\ ~ In (rkey r) (map rkey l1) /\
                  In (id, t, snd r) l /\ rkey r = (id, age_key p t).
Proof. exact visits_sound. Qed.
Print Assumptions C18_first_visit_kept.

Theorem C18_round_half_even_tie : forall n : Z,
  round_half_even (inject_Z n + (1 # 2)) = if Z.even n then n else (n + 1)%Z.
Proof. exact round_half_even_tie. Qed.
Print Assumptions C18_round_half_even_tie.

(* ---------------------------------------------------------------- individuals *)

(** Random design: the parameter table has exactly [n] rows, labelled by the distinct strings "0".."n-1". *)
Theorem C18_individuals_random : forall n : nat,
  List.length (ids_random n) = n /\ NoDup (ids_random n) /\ ids_random n = map string_of_nat (seq 0 n).
Proof. intros n. destruct (ids_random_spec n). repeat split; assumption. Qed.
Print Assumptions C18_individuals_random.

(** Table design: one row per distinct ID of the table, and no other. *)
Theorem C18_individuals_table : forall ids : list string,
  NoDup (ids_table ids) /\ forall x, In x (ids_table ids) <-> In x ids.
Proof. exact ids_table_spec. Qed.
Print Assumptions C18_individuals_table.

(** The individuals of the returned data are exactly those of the parameter table, each once: de-duplication never
    removes an individual ([individuals_spec]) — provided each was given at least one visit, which the random
    generator guarantees ([visit_ages] starts with the baseline age) and a table does by construction. *)
Theorem C18_individuals_exact : forall (p : Z) (l : list (string * Q * list Q)) (ids : list string),
  NoDup ids -> (forall id, In id ids <-> exists t v, In (id, t, v) l) ->
  Permutation (individuals p l) ids /\
  (forall t0 f steps ages, visit_ages t0 f steps = Some ages -> exists r, ages = t0 :: r).
Proof. intros p l ids Hn H. split; [now apply individuals_exact | exact visit_ages_first]. Qed.
Print Assumptions C18_individuals_exact.

(* ---------------------------------------------------------------- refusal / completion *)

(** A LeaspyAlgoInputError can only come from the constructor, i.e. before anything has been drawn. *)
Theorem C18_refuses_before_generation : forall (m : model_shape) (d : design),
  simulate_outcome gen_rounding_options gen_precision_init gen_default_spacing m d = Refuse <-> construct d = Refuse.
Proof. exact (refusal_is_constructor gen_rounding_options gen_precision_init gen_default_spacing). Qed.
Print Assumptions C18_refuses_before_generation.

(** The precision choice is TOTAL (leaspy 6d6bb6f: the value before the loop is [max(rounding_options)] = 3): every
    spacing gets a precision in 0..3 — the first p whose threshold (10^-p as a float) is <= the spacing, and 3 (the
    finest) exactly when the spacing is below the last threshold, 0 and negative numbers included. *)
Theorem C18_precision_total : forall ms : Q, exists p, gen_precision ms = Some p /\ (0 <= p <= 3)%Z.
Proof. intros ms. rewrite tie_precision. apply precision_total_gen. Qed.
Print Assumptions C18_precision_total.

Theorem C18_precision_finest : forall ms : Q,
  ms < (1152921504606847 # 1152921504606846976) -> gen_precision ms = Some 3%Z.
Proof. intros ms. rewrite tie_precision. apply precision_finest_gen. Qed.
Print Assumptions C18_precision_finest.

Theorem C18_precision_some : forall (ms : Q) (p : Z),
  gen_precision ms = Some p ->
  (exists l1 v l2, gen_rounding_options = (l1 ++ (p, v) :: l2)%list /\ v <= ms /\ Forall (fun pv => ms < snd pv) l1) \/
  (p = 3%Z /\ ms < (1152921504606847 # 1152921504606846976)).
Proof. intros ms p. rewrite tie_precision. apply precision_some_gen. Qed.
Print Assumptions C18_precision_some.

(** Table designs (and random designs without an explicit spacing) are rounded to 3 decimals. *)
Theorem C18_default_precision : gen_precision gen_default_spacing = Some 3%Z.
Proof. exact default_precision. Qed.
Print Assumptions C18_default_precision.

(** The former F10 family, repaired by leaspy 6d6bb6f (was [C18_min_spacing_refuted]): EVERY spacing >= 0 — in particular
    those in [0, 0.001[, for which no option fits — is accepted by the constructor and the run completes, the ages being
    rounded to 3 decimals. *)
Theorem C18_min_spacing_runs : forall ms : Q, 0 <= ms ->
  accepted (random_design (VInt 5) [("min_spacing_between_visits"%string, VFloat ms)]) /\
  sim shape21 (random_design (VInt 5) [("min_spacing_between_visits"%string, VFloat ms)]) = Ok tt /\
  (ms < (1152921504606847 # 1152921504606846976) -> gen_precision ms = Some 3%Z).
Proof. exact min_spacing_runs. Qed.
Print Assumptions C18_min_spacing_runs.

(** Ages are rounded to the documented precision for every spacing, also below 0.001: see [ages_rounded_every_spacing]. *)
Theorem C18_ages_rounded_every_spacing : forall ms : Q,
  exists p, gen_precision ms = Some p /\ (0 <= p <= 3)%Z /\
    (ms < (1152921504606847 # 1152921504606846976) -> p = 3%Z) /\
    forall (id : string) (l : list (string * Q * list Q)),
      StronglySorted Z.lt (ages_of p id l) /\
      forall t v, In (id, t, v) l ->
        In (age_key p t) (ages_of p id l) /\ Qabs (inject_Z (age_key p t) - t * pow10 p) <= 1 # 2 /\
        age_of p (age_key p t) * pow10 p == inject_Z (age_key p t).
Proof. exact ages_rounded_every_spacing. Qed.
Print Assumptions C18_ages_rounded_every_spacing.

(** "Every accepted design runs to completion" is still FALSE of the faithful model, but no longer because of the spacing.
    The accepted designs on which the run raises: model without sources, a single individual, bool
    patient_number, feature count / duplicate names, integer or null IDs, empty table. *)
Theorem C18_accepted_crash_families_refuted :
  (accepted (random_design (VInt 5) []) /\ sim {| dimension := 2; source_dimension := 0 |} (random_design (VInt 5) []) = Crash) /\
  (accepted (random_design (VInt 1) []) /\ sim shape21 (random_design (VInt 1) []) = Crash) /\
  (accepted (random_design (VBool true) []) /\ sim shape21 (random_design (VBool true) []) = Crash) /\
  (accepted (random_design (VInt 5) []) /\ sim {| dimension := 3; source_dimension := 1 |} (random_design (VInt 5) []) = Crash) /\
  (let d := {| d_features := FsList [FStr "Y0"; FStr "Y0"]; d_visit_type := Some VtRandom; d_params := good_params (VInt 5) [] |} in
   accepted d /\ sim shape21 d = Crash) /\
  (let d := table_design {| has_id := true; has_time := true; rows := [(IdInt 1, Some 50); (IdInt 2, Some 51)] |} in
   accepted d /\ sim shape21 d = Crash) /\
  (let d := table_design {| has_id := true; has_time := true;
                            rows := [(IdStr "a", Some 50); (IdNull, Some 51); (IdStr "b", Some 51)] |} in
   accepted d /\ sim shape21 d = Crash) /\
  (let d := table_design {| has_id := true; has_time := true; rows := [] |} in accepted d /\ sim shape21 d = Crash).
Proof. exact accepted_crash_families. Qed.
Print Assumptions C18_accepted_crash_families_refuted.

(** "Violations are refused with an algorithm-input error" is FALSE of the faithful model: uncomparable values,
    missing keys and malformed tables escape as other exceptions (first six), others are refused properly. *)
Theorem C18_refusal_class_refuted :
  construct (random_design VStr []) = Crash /\
  construct (random_design (VInt 5) [("min_spacing_between_visits"%string, VNone)]) = Crash /\
  construct {| d_features := two_features; d_visit_type := Some VtRandom;
               d_params := [("patient_number"%string, VInt 5)] |} = Crash /\
  construct {| d_features := two_features; d_visit_type := None; d_params := [] |} = Crash /\
  construct {| d_features := two_features; d_visit_type := Some VtDataframe; d_params := [("df_visits"%string, VStr)] |} = Crash /\
  construct (table_design {| has_id := false; has_time := true; rows := [] |}) = Crash /\
  construct (random_design (VFloat (5 # 2)) []) = Refuse /\
  construct (random_design (VInt 0) []) = Refuse /\
  construct (table_design {| has_id := true; has_time := false; rows := [] |}) = Refuse /\
  construct (table_design {| has_id := true; has_time := true; rows := [(IdStr "a", None)] |}) = Refuse.
Proof. exact refusal_class_refuted. Qed.
Print Assumptions C18_refusal_class_refuted.

(** What does hold.  On arbitrary stored parameters [_run] completes exactly when they are [runnable]: a genuine integer
    number >= 2 of individuals, string non-null IDs, a model with sources, as many distinct feature names as the model has
    features ([runnable_core]) and a numeric spacing ([spacing_ok]; no condition on its VALUE is left). *)
Theorem C18_run_ok_iff : forall (m : model_shape) (vt : vtype) (feats : featsv) (ps : dict),
  run_outcome gen_rounding_options gen_precision_init gen_default_spacing m vt feats ps = Ok tt <->
  runnable gen_default_spacing m vt feats ps.
Proof. exact run_ok_iff_gen. Qed.
Print Assumptions C18_run_ok_iff.

(** The constructor guarantees the spacing clause: every accepted design stores a numeric spacing or none. *)
Theorem C18_accepted_spacing_ok : forall (d : design) (ps : dict) (vt : vtype),
  construct d = Ok ps -> d_visit_type d = Some vt -> spacing_ok gen_default_spacing vt ps.
Proof. exact (accepted_spacing_ok gen_default_spacing). Qed.
Print Assumptions C18_accepted_spacing_ok.

(** Hence the exact characterisation of the calls that complete: the accepted designs whose stored parameters are
    [runnable_core]. *)
Theorem C18_completes_iff : forall (m : model_shape) (d : design),
  sim m d = Ok tt <-> exists ps, construct d = Ok ps /\ runnable_core m (d_features d) ps.
Proof. exact sim_ok_iff. Qed.
Print Assumptions C18_completes_iff.

(** [_partial]: "accepted -> completes" needs [runnable_core]; the families of [C18_accepted_crash_families_refuted] are
    exactly its negation.  The spacing clause that used to be needed here is gone. *)
Theorem C18_accepted_runs_partial : forall (m : model_shape) (d : design) (ps : dict),
  construct d = Ok ps -> runnable_core m (d_features d) ps -> sim m d = Ok tt.
Proof. intros m d ps Hc Hr. apply sim_ok_iff. exists ps. split; assumption. Qed.
Print Assumptions C18_accepted_runs_partial.

(* ---------------------------------------------------------------- the random visit loop *)

Theorem C18_visits_increasing : forall (steps : list Q) (t f : Q) (l : list Q),
  Forall (fun s => 0 < s) steps -> visit_loop t f steps = Some l -> StronglySorted Qlt (t :: l).
Proof. exact visit_loop_increasing. Qed.
Print Assumptions C18_visits_increasing.

(** steps bounded below by delta > 0: the loop ends within (f - t) / delta draws *)
Theorem C18_visits_terminate : forall (delta : Q) (steps : list Q) (t f : Q),
  0 < delta -> Forall (fun s => delta <= s) steps ->
  f - t <= delta * inject_Z (Z.of_nat (List.length steps)) ->
  exists l, visit_loop t f steps = Some l.
Proof. exact visit_loop_terminates. Qed.
Print Assumptions C18_visits_terminate.

(** A negative mean step with a positive std is accepted by the constructor; while the steps drawn are <= 0 the loop
    has not ended, however many draws are made. *)
Theorem C18_visits_diverge_refuted :
  accepted {| d_features := two_features; d_visit_type := Some VtRandom;
              d_params := [ ("patient_number", VInt 5); ("first_visit_mean", VFloat 0); ("first_visit_std", VFloat (2 # 5));
                            ("time_follow_up_mean", VInt 4); ("time_follow_up_std", VFloat (1 # 2));
                            ("distance_visit_mean", VFloat (-1)); ("distance_visit_std", VFloat (1 # 10)) ]%string |} /\
  forall (steps : list Q) (t f : Q), t < f -> Forall (fun s => s <= 0) steps -> visit_loop t f steps = None.
Proof. split; [exact negative_step_accepted | exact visit_loop_diverges]. Qed.
Print Assumptions C18_visits_diverge_refuted.

(* ---------------------------------------------------------------- tie to the source *)

Theorem C18_tie_rows : gen_rows_random = random_rows /\ gen_rows_frame = frame_rows.
Proof. exact tie_rows. Qed.
Print Assumptions C18_tie_rows.

Theorem C18_tie_keys : gen_random_required = random_required /\ gen_random_optional = random_optional.
Proof. exact tie_keys. Qed.
Print Assumptions C18_tie_keys.

Theorem C18_tie_final : gen_random_final = random_final.
Proof. exact tie_final. Qed.
Print Assumptions C18_tie_final.

Theorem C18_tie_precision : forall ms, gen_precision ms = precision_of gen_rounding_options gen_precision_init ms.
Proof. exact tie_precision. Qed.
Print Assumptions C18_tie_precision.

(** the value of [rounding_precision] before the loop is the largest key of the options, 3 (it was [None] before 6d6bb6f) *)
Theorem C18_tie_precision_init : gen_precision_init = max_key gen_rounding_options /\ gen_precision_init = Some 3%Z.
Proof. exact tie_precision_init. Qed.
Print Assumptions C18_tie_precision_init.

Theorem C18_tie_beta : forall mu v,
  beta_params mu v = if Qeq_bool v 0 then None else Some (gen_alpha mu v, gen_beta mu v).
Proof. exact tie_beta. Qed.
Print Assumptions C18_tie_beta.

Theorem C18_tie_adj_var : forall mu var, gen_adj_var var (gen_max_var mu) = adj_var gen_clamp_factor mu var.
Proof. exact tie_adj_var. Qed.
Print Assumptions C18_tie_adj_var.

Theorem C18_tie_constants :
  0 < gen_clip_lo /\ gen_clip_lo <= gen_clip_hi /\ gen_clip_hi < 1 /\ 0 < gen_clamp_factor /\ gen_clamp_factor < 1 /\
  Qabs (gen_clip_lo - (1 # 100000000)) <= 1 # 10 ^ 20 /\ Qabs (gen_clip_hi - (9999999 # 10000000)) <= 1 # 10 ^ 15 /\
  Qabs (gen_clamp_factor - (99 # 100)) <= 1 # 10 ^ 15.
Proof. exact tie_constants. Qed.
Print Assumptions C18_tie_constants.

Theorem C18_tie_options :
  map fst gen_rounding_options = [0; 1; 2; 3]%Z /\
  forallb (fun pv => Qle_bool (Qabs (snd pv - 1 / pow10 (fst pv))) (1 # 10 ^ 17)) gen_rounding_options = true /\
  Qabs (gen_default_spacing - (1 # 365)) <= 1 # 10 ^ 18.
Proof. exact tie_options. Qed.
Print Assumptions C18_tie_options.

Theorem C18_tie_order : gen_round_before_dedup = true /\ gen_keep_first = true.
Proof. exact tie_order. Qed.
Print Assumptions C18_tie_order.

(* ---------------------------------------------------------------- the generation loop inside the model *)

(** [gen_generate T add absT ltb key ofQ nsrc vt ps tape]: the generation of the current source ([gen_prog_src], regenerated from
    simulate.py: which draws with which parameters and size, the columns, the per-individual visit loop; rounding options,
    precision bound before the loop, default spacing) run on the stored parameters [ps] of a design and a TAPE of the values
    returned by the successive [numpy.random.normal] calls — for EVERY arithmetic [T, add, absT, ltb], every rounding [key]
    (age -> integer in units of 10^-p) and every tape.  [SimulateGenTie.ex_random_generation] / [ex_table_generation]: non-vacuity. *)

(** what [ages_wellformed] says of a generated cohort, in full *)
Theorem C18_ages_wellformed_meaning : forall (T : Type) (key : Z -> T -> Z) (o : gen_out T),
  ages_wellformed T key o <->
  (map fst (go_ages o) = map fst (go_requested o) /\
   forall id ks, In (id, ks) (go_ages o) ->
     ks = final_ages T key (go_precision o) (go_requested o) id /\ ks <> [] /\ StronglySorted Z.lt ks /\
     (forall l1 a b l2, ks = (l1 ++ a :: b :: l2)%list -> (a + 1 <= b)%Z) /\
     (forall k, In k ks <-> exists l t, In (id, l) (go_requested o) /\ In t l /\ k = key (go_precision o) t)).
Proof. intros T key o. reflexivity. Qed.
Print Assumptions C18_ages_wellformed_meaning.

(** Random design, every tape on which the generation ends: exactly the requested number of individuals "0".."n-1"; the
    precision is the one of the decision table for the stored spacing; every individual has at least one age, its ages are
    integers (in units of 10^-p, i.e. multiples of the precision) strictly increasing — unique — consecutive ones at least one
    unit apart, and they are exactly the rounded generated ages of that individual; the draws consumed are (4 + sources) per
    individual plus one per generated age after the first; the calls made are those of [calls_random]. *)
Theorem C18_generation_random :
  forall (T : Type) (add : T -> T -> T) (absT : T -> T) (ltb : T -> T -> bool) (key : Z -> T -> Z) (ofQ : Q -> T)
         (nsrc : nat) (ps : dict) (tp : tape T) (o : gen_out T),
  gen_generate T add absT ltb key ofQ nsrc VtRandom ps tp = GOk o ->
  exists n ms, lookup "patient_number" ps = Some (VInt n) /\ (0 <= n)%Z /\ min_spacing_of gen_default_spacing ps = Some ms /\
    gen_precision ms = Some (go_precision o) /\
    map fst (go_ages o) = ids_random (Z.to_nat n) /\ List.length (go_ages o) = Z.to_nat n /\
    ages_wellformed T key o /\
    consumed T tp o = ((4 + nsrc) * Z.to_nat n + later_visits (go_requested o))%nat /\
    go_calls o = calls_random nsrc (later_visits (go_requested o)).
Proof. exact gen_random. Qed.
Print Assumptions C18_generation_random.

(** Table design (no null TIME: validated by the constructor): exactly the individuals of the table, once each, as many as the
    constructor counted; ages rounded to 3 decimals, well-formed as above, and EXACTLY the table's ages of that ID (the model has
    no row labels: the ages are a function of the ID and TIME columns); the draws consumed are a function of the design and the
    model only: (2 + sources) per individual. *)
Theorem C18_generation_table :
  forall (T : Type) (add : T -> T -> T) (absT : T -> T) (ltb : T -> T -> bool) (key : Z -> T -> Z) (ofQ : Q -> T)
         (nsrc : nat) (ps : dict) (tp : tape T) (o : gen_out T),
  gen_generate T add absT ltb key ofQ nsrc VtDataframe ps tp = GOk o ->
  existsb (fun r => match snd r with None => true | Some _ => false end)
          (match lookup "df_visits" ps with Some (VFrame f) => rows f | _ => [] end) = false ->
  exists f, lookup "df_visits" ps = Some (VFrame f) /\ all_string_ids f = true /\
    gen_precision gen_default_spacing = Some (go_precision o) /\ go_precision o = 3%Z /\
    map fst (go_ages o) = table_ids f /\ NoDup (map fst (go_ages o)) /\ List.length (go_ages o) = n_groups f /\
    ages_wellformed T key o /\
    (forall id ks, In (id, ks) (go_ages o) ->
       forall k, In k ks <-> exists q, In (IdStr id, Some q) (rows f) /\ k = key (go_precision o) (ofQ q)) /\
    consumed T tp o = ((2 + nsrc) * n_groups f)%nat /\
    go_calls o = calls_ip nsrc.
Proof. exact gen_table. Qed.
Print Assumptions C18_generation_table.

(** for EVERY accepted table design (no hypothesis left but acceptance): the number of simulated individuals is the stored
    [patient_number] = number of distinct IDs, the ages are exactly the table's per ID at 3 decimals, the draws are design-only *)
Theorem C18_generation_table_accepted :
  forall (T : Type) (add : T -> T -> T) (absT : T -> T) (ltb : T -> T -> bool) (key : Z -> T -> Z) (ofQ : Q -> T)
         (nsrc : nat) (d : design) (ps : dict) (tp : tape T) (o : gen_out T),
  construct d = Ok ps -> d_visit_type d = Some VtDataframe ->
  gen_generate T add absT ltb key ofQ nsrc VtDataframe ps tp = GOk o ->
  exists f, ps = [("patient_number", VInt (Z.of_nat (n_groups f))); ("df_visits", VFrame f)]%string /\
    List.length (go_ages o) = n_groups f /\ map fst (go_ages o) = table_ids f /\ ages_wellformed T key o /\
    (forall id ks, In (id, ks) (go_ages o) ->
       forall k, In k ks <-> exists q, In (IdStr id, Some q) (rows f) /\ k = key 3%Z (ofQ q)) /\
    consumed T tp o = ((2 + nsrc) * n_groups f)%nat.
Proof. exact gen_table_accepted. Qed.
Print Assumptions C18_generation_table_accepted.

(** ... whatever the order of the table's rows *)
Theorem C18_table_row_order_irrelevant :
  forall (T : Type) (key : Z -> T -> Z) (ofQ : Q -> T) (f f' : frame) (p : Z) (id : string),
  Permutation (rows f) (rows f') ->
  final_ages T key p (map (fun id => (id, table_times T ofQ f id)) (table_ids f)) id =
  final_ages T key p (map (fun id => (id, table_times T ofQ f' id)) (table_ids f')) id.
Proof. exact table_ages_permutation. Qed.
Print Assumptions C18_table_row_order_irrelevant.

(** the precision of a generated cohort is one of 0..3, so the integer ages are multiples of the precision 10^-p and two
    consecutive ages of an individual differ by at least 10^-p *)
Theorem C18_generation_age_units :
  forall (T : Type) (add : T -> T -> T) (absT : T -> T) (ltb : T -> T -> bool) (key : Z -> T -> Z) (ofQ : Q -> T)
         (nsrc : nat) (vt : vtype) (ps : dict) (tp : tape T) (o : gen_out T),
  gen_generate T add absT ltb key ofQ nsrc vt ps tp = GOk o ->
  (0 <= go_precision o <= 3)%Z /\
  (forall k, age_of (go_precision o) k * pow10 (go_precision o) == inject_Z k) /\
  (forall a b, (a + 1 <= b)%Z -> age_of (go_precision o) a + 1 / pow10 (go_precision o) <= age_of (go_precision o) b).
Proof.
  intros T add absT ltb key ofQ nsrc vt ps tp o H. pose proof (gen_precision_range T add absT ltb key ofQ nsrc vt ps tp o H) as R.
  split; [exact R|]. split; [intros k; apply age_of_scaled; apply R | intros a b; apply age_of_gap; apply R].
Qed.
Print Assumptions C18_generation_age_units.

(** "the number of draws consumed is a function of the design only" holds for a table design ([C18_generation_table]) and is FALSE
    for a random design: the visit loop draws until the follow-up age is passed (same design, two tapes, 14 and 12 draws). *)
Theorem C18_draws_random_design_only_refuted :
  exists ps tp1 tp2 o1 o2,
    gen_generate_Q 1%nat VtRandom ps tp1 = GOk o1 /\ gen_generate_Q 1%nat VtRandom ps tp2 = GOk o2 /\
    go_rest o1 = [] /\ go_rest o2 = [] /\ consumed Q tp1 o1 <> consumed Q tp2 o2.
Proof. exact draws_random_not_design_only. Qed.
Print Assumptions C18_draws_random_design_only_refuted.

(** the program is the one of the source: which distribution, parameters, size and order of every draw; the columns; the loop;
    the order of the pipeline in [_run] (ages are rounded and de-duplicated before [Data.from_dataframe] sorts them) *)
Theorem C18_tie_generation :
  gen_prog_src = model_prog /\
  gen_run_order = ["self._sample_individual_parameters_from_model_parameters"; "self._get_leaspy_model";
                   "self._generate_visit_ages"; "self._generate_dataset"; "Data.from_dataframe"]%string.
Proof. split; [exact tie_gen_prog | exact tie_run_order]. Qed.
Print Assumptions C18_tie_generation.

(* ---------------------------------------------------------------- the generation never takes a crash branch *)

(** The program regenerated from the source is statically well-formed ([prog_wf]: every column expression names columns assigned
    before it and uses sized draws only; the loop step uses [time] and scalar draws only; the loop's two columns are assigned) —
    decided by computation on [gen_prog_src] itself on every run. *)
Theorem C18_tie_generation_wf :
  prog_wf gen_prog_src = true /\ ip_draws_only gen_prog_src = true /\ List.length (gp_ip gen_prog_src) = 2%nat.
Proof. exact tie_prog_wf. Qed.
Print Assumptions C18_tie_generation_wf.

(** Every design ACCEPTED by the constructor, every arithmetic, every number of sources, every tape: the generation of the current
    source returns [GCrash] exactly on the two listed families — a [bool] count (random design, F10d `run:bool-patient-number`)
    and a visit table with a non-string ID (F10g/h) — and otherwise the generated table, [GExhausted] (the tape ends before the
    visit loop does) or [GMismatch] (the tape's next element is not of the kind / size asked for).  No missing column, no
    length mismatch, no missing precision, no negative count.  [SimulateGenWfTie.ex_never_crashes]: every outcome occurs. *)
Theorem C18_generation_never_crashes :
  forall (T : Type) (add : T -> T -> T) (absT : T -> T) (ltb : T -> T -> bool) (key : Z -> T -> Z) (ofQ : Q -> T)
         (nsrc : nat) (d : design) (ps : dict) (vt : vtype) (tp : tape T),
  construct d = Ok ps -> d_visit_type d = Some vt ->
  (gen_generate T add absT ltb key ofQ nsrc vt ps tp = GCrash <->
     match vt with
     | VtRandom => exists b, lookup "patient_number" ps = Some (VBool b)
     | VtDataframe => exists f, lookup "df_visits" ps = Some (VFrame f) /\ all_string_ids f = false
     | VtOther => False
     end) /\
  (gen_generate T add absT ltb key ofQ nsrc vt ps tp = GCrash \/ gen_generate T add absT ltb key ofQ nsrc vt ps tp = GExhausted \/
   gen_generate T add absT ltb key ofQ nsrc vt ps tp = GMismatch \/ exists o, gen_generate T add absT ltb key ofQ nsrc vt ps tp = GOk o).
Proof. exact gen_never_crashes. Qed.
Print Assumptions C18_generation_never_crashes.

(** ... in particular with a genuine integer count (the side condition of [C18_generation_random] is never a crash) *)
Theorem C18_generation_random_no_crash :
  forall (T : Type) (add : T -> T -> T) (absT : T -> T) (ltb : T -> T -> bool) (key : Z -> T -> Z) (ofQ : Q -> T)
         (nsrc : nat) (d : design) (ps : dict) (n : Z) (tp : tape T),
  construct d = Ok ps -> d_visit_type d = Some VtRandom -> lookup "patient_number" ps = Some (VInt n) ->
  gen_generate T add absT ltb key ofQ nsrc VtRandom ps tp <> GCrash.
Proof. exact gen_random_no_crash. Qed.
Print Assumptions C18_generation_random_no_crash.

(** Table design with string IDs, tape = one vector of [n_groups] values per parameter column ((2 + sources) vectors) followed
    by anything: the generation COMPLETES ([GOk], neither [GExhausted] nor [GMismatch]), leaves the rest of the tape untouched,
    returns the table's individuals and has consumed (2 + sources)·n_groups draws. *)
Theorem C18_generation_table_total :
  forall (T : Type) (add : T -> T -> T) (absT : T -> T) (ltb : T -> T -> bool) (key : Z -> T -> Z) (ofQ : Q -> T)
         (nsrc : nat) (d : design) (ps : dict) (f : frame) (vs : list (list T)) (rest : tape T),
  construct d = Ok ps -> d_visit_type d = Some VtDataframe ->
  lookup "df_visits" ps = Some (VFrame f) -> all_string_ids f = true ->
  List.length vs = (2 + nsrc)%nat -> Forall (fun v : list T => List.length v = n_groups f) vs ->
  exists o, gen_generate T add absT ltb key ofQ nsrc VtDataframe ps (vec_tape vs rest) = GOk o /\ go_rest o = rest /\
            map fst (go_requested o) = table_ids f /\
            consumed T (vec_tape vs rest) o = ((2 + nsrc) * n_groups f)%nat.
Proof. exact gen_table_total. Qed.
Print Assumptions C18_generation_table_total.
