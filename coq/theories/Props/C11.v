(** C11 — seeded runs are reproducible and independent of logging and process history.
    Property theorems only (model: Api/ApiModel.v, proofs: Api/ApiProofs.v, concrete instances: Api/ApiInst.v).

    A run is a fold of an event script over (store of State objects, positions of the three generators, registers, log).
    The facts about a single `State` object enter as the record [state_interface] (to be discharged by the cache theorems
    of C01; proved for the concrete memo table [Memo] in ApiInst.v). *)
From Coq Require Import List Arith Bool ZArith.
From Leaspy Require Import Api.ApiModel Api.ApiProofs Api.ApiInst.
Import ListNotations.

(** For EVERY observer schedule — any lists of read-only scripts (reads, saves, clones and anything on the clones; no
    assignment to the model's state, no draw, no re-seeding) attached to any iterations — and every iteration script, seed,
    initialisation and finalisation: if the logged fit finishes, so does the fit without observers, and every read of every
    state, the model's state pointer, the three generator positions, the registers and the operation log coincide. *)
Theorem C11_logging_transparent :
  forall (V : Type) sread swrite sclone tracked tape seed_pos anc indep simOn,
    state_interface V sread swrite sclone anc indep simOn ->
    forall (base seed : nat) (init : list (ev V)) (iters : list (list (ev V))) (fin : list (ev V))
           (sched : nat -> list (list (ev V))) (c c1 : cfg V),
      wf_cfg V simOn c ->
      (forall i o, In o (sched i) -> read_only V o = true) ->
      fit_run V sread swrite sclone tracked tape seed_pos base seed init iters fin sched c = Some c1 ->
      exists c2,
        fit_run V sread swrite sclone tracked tape seed_pos base seed init iters fin (no_observers V) c = Some c2
        /\ same_results V sread c1 c2.
Proof. intros ? ? ? ? ? ? ? ? ? ? I. destruct I. eapply logging_transparent; eauto. Qed.
Print Assumptions C11_logging_transparent.

(** Non-vacuity: on the memo table an observer does mutate the model's State object (it fills the derived slot), the
    hypotheses hold, the logged run finishes and equals the plain one; an observer that draws is refused by [read_only]
    and does change the outcome. *)
Theorem C11_logging_transparent_example :
  state_interface Memo.V Memo.sread Memo.swrite Memo.sclone Memo.anc Memo.indep Memo.simOn
  /\ wf_cfg Memo.V Memo.simOn Memo.c0
  /\ (option_map (fun c => cS c) (run_obs Memo.V Memo.sread Memo.swrite Memo.sclone Memo.tracked Memo.tape Memo.seed_pos Memo.obs1 Memo.c0)
      = Some [[Some 1; Some 10; Some 11]]%Z /\ read_only Memo.V Memo.obs1 = true)
  /\ (Memo.final_view (Memo.fit_run 1 3 [] [Memo.iter1; Memo.iter1; Memo.iter1] Memo.fin1 Memo.sched1 Memo.c0)
      = Memo.final_view (Memo.fit_run 1 3 [] [Memo.iter1; Memo.iter1; Memo.iter1] Memo.fin1 (no_observers Memo.V) Memo.c0)
      /\ Memo.final_view (Memo.fit_run 1 3 [] [Memo.iter1; Memo.iter1; Memo.iter1] Memo.fin1 Memo.sched1 Memo.c0) <> None).
Proof. exact (conj Memo.interface (conj Memo.wf_c0 (conj Memo.observers_fill_the_cache Memo.logged_equals_plain))). Qed.
Print Assumptions C11_logging_transparent_example.

(** The condition is needed: a logging hook that draws a random number changes the outcome in the model. *)
Theorem C11_drawing_observer_refuted :
  let bad := [EDraw GTorch (fun _ : regs Memo.V => true)] in
  read_only Memo.V bad = false /\
  Memo.final_view (Memo.fit_run 1 3 [] [Memo.iter1; Memo.iter1] Memo.fin1 (fun _ => [bad]) Memo.c0)
  <> Memo.final_view (Memo.fit_run 1 3 [] [Memo.iter1; Memo.iter1] Memo.fin1 (no_observers Memo.V) Memo.c0).
Proof. exact Memo.drawing_observer_is_visible. Qed.
Print Assumptions C11_drawing_observer_refuted.

(** The run is a function of the seed, not of the generator positions before it: whatever the three positions were
    (whatever was drawn or fitted earlier in the process), the outcome — logged or not — is literally the same. *)
Theorem C11_reseed :
  forall (V : Type) sread swrite sclone tracked tape seed_pos
         (base seed : nat) (init : list (ev V)) (iters : list (list (ev V))) (fin : list (ev V))
         (sched : nat -> list (list (ev V))) (c : cfg V) (p' : gpos),
    fit_run V sread swrite sclone tracked tape seed_pos base seed init iters fin sched c
    = fit_run V sread swrite sclone tracked tape seed_pos base seed init iters fin sched
              (Cfg (cS c) (cCur c) p' (cRegs c) (cLog c)).
Proof. exact reseed. Qed.
Print Assumptions C11_reseed.

(** Same for any other public call (personalize, simulate): `seed_all s ++ script`. *)
Theorem C11_reseed_call :
  forall (V : Type) sread swrite sclone tracked tape seed_pos (base seed : nat) (script : list (ev V)) (c : cfg V) (p' : gpos),
    exec V sread swrite sclone tracked tape seed_pos base (seed_all V seed ++ script) c
    = exec V sread swrite sclone tracked tape seed_pos base (seed_all V seed ++ script)
           (Cfg (cS c) (cCur c) p' (cRegs c) (cLog c)).
Proof. exact reseed_call. Qed.
Print Assumptions C11_reseed_call.

(** The algorithm mutates its own deep copy of the parameters: whatever it writes (top-level keys such as
    `n_burn_in_iter`, nested ones such as `annealing.n_iter`), the caller's settings dictionary — nested dictionaries
    resolved — is unchanged. *)
Theorem C11_settings_copied :
  forall (h : heap) (a : nat) (ws : list pwrite),
    caller_ok h a ->
    view_dict (do_writes (snd (deep_copy h a)) (fst (deep_copy h a)) ws) a = view_dict h a.
Proof. exact settings_copied. Qed.
Print Assumptions C11_settings_copied.

(** Without the copy, or with a one-level copy (`dict(parameters)`), the caller's settings do change. *)
Theorem C11_settings_alias_refuted :
  view_dict (do_writes (snd (alias demo_heap 0)) (fst (alias demo_heap 0)) [WTop 0 5%Z]) 0 <> view_dict demo_heap 0
  /\ view_dict (do_writes (snd (shallow_copy demo_heap 0)) (fst (shallow_copy demo_heap 0)) [WSub 1 0 5%Z]) 0
     <> view_dict demo_heap 0.
Proof. exact (conj alias_refuted shallow_copy_refuted). Qed.
Print Assumptions C11_settings_alias_refuted.

(* ====================================================================== on the program REGENERATED from the source
   `fit_prog` (coq/gen/GenC11.v) is read off today's `BaseAlgorithm.run`, `TensorMcmcSaemAlgorithm._run / _initialize_algo /
   _iteration / _maximization_step`, `_update_temperature` and `FitOutputManager.iteration` by harness/translate/c11_run.py: a
   structured program (sequence / iteration loop / per-variable loop / branch on a named test) over named events
   (Api/RunProg.v).  `run_prog` unfolds it for EVERY configuration [e : env] (number of iterations, order in which the variables
   are sampled at each iteration, seed set or not, progress bar, random order, output manager or not, output folder or not, the four
   periodicities) and every meaning of the named events ([interp], [oi]: arbitrary event scripts; the three seeds are fixed). *)
From Leaspy Require Import Api.RunProg Api.RunProgProofs Api.RunProgTie.
From LeaspyGen Require Import GenC11.

(** The regenerated program denotes EXACTLY the hand-written script [fit_run] — seeds, initialisation, per iteration the
    algorithm's events then the observer scripts the guards let through, finalisation — for every configuration with a seed. *)
Theorem C11_src_program_is_fit_run :
  forall (V : Type) sread swrite sclone tracked tape seed_pos (seed : nat)
         (interp : aname -> nat -> nat -> list (ev V)) (oi : oname -> nat -> list (ev V)) (base : nat) (e : env) (c : cfg V),
    e_aflag e FSeedSet = true ->
    run_prog V sread swrite sclone tracked tape seed_pos seed interp oi base e fit_prog c
    = fit_run V sread swrite sclone tracked tape seed_pos base seed
              (d_init V seed interp e fit_prog) (d_iters V seed interp e fit_prog) (d_fin V seed interp e fit_prog)
              (d_sched V oi e fit_prog) c.
Proof. exact gen_is_fit_run. Qed.
Print Assumptions C11_src_program_is_fit_run.

(** In any configuration [e'] with the same algorithm part and no output manager, the SAME program is that script without
    observers: the state / generator events of the run do not depend on the logging configuration. *)
Theorem C11_src_program_without_logging :
  forall (V : Type) sread swrite sclone tracked tape seed_pos (seed : nat)
         (interp : aname -> nat -> nat -> list (ev V)) (oi' : oname -> nat -> list (ev V)) (base : nat) (e e' : env) (c : cfg V),
    e_aflag e FSeedSet = true -> same_algorithm e e' -> e_lflag e' LHasManager = false ->
    run_prog V sread swrite sclone tracked tape seed_pos seed interp oi' base e' fit_prog c
    = fit_run V sread swrite sclone tracked tape seed_pos base seed
              (d_init V seed interp e fit_prog) (d_iters V seed interp e fit_prog) (d_fin V seed interp e fit_prog)
              (no_observers V) c.
Proof. exact gen_without_logging. Qed.
Print Assumptions C11_src_program_without_logging.

(** [C11_logging_transparent] over the regenerated program: whatever the logging configuration of [e], if the observers'
    methods are read-only scripts and the run finishes, the run without an output manager finishes with the same results. *)
Theorem C11_src_logging_transparent :
  forall (V : Type) sread swrite sclone tracked tape seed_pos anc indep simOn,
    state_interface V sread swrite sclone anc indep simOn ->
    forall (seed : nat) (interp : aname -> nat -> nat -> list (ev V)) (oi oi' : oname -> nat -> list (ev V))
           (base : nat) (e e' : env) (c c1 : cfg V),
      e_aflag e FSeedSet = true -> same_algorithm e e' -> e_lflag e' LHasManager = false ->
      wf_cfg V simOn c -> (forall o i, read_only V (oi o i) = true) ->
      run_prog V sread swrite sclone tracked tape seed_pos seed interp oi base e fit_prog c = Some c1 ->
      exists c2, run_prog V sread swrite sclone tracked tape seed_pos seed interp oi' base e' fit_prog c = Some c2
                 /\ same_results V sread c1 c2.
Proof. exact gen_logging_transparent. Qed.
Print Assumptions C11_src_logging_transparent.

(** Observer calls occur only at guarded positions: inside the iteration loop, with an output manager, and under the
    periodicity test of that very method ([obs_guard]: print / save / plot-patients at multiples of their periodicity, the
    convergence plot likewise, the last three only with an output folder). *)
Theorem C11_src_observers_guarded :
  forall (e : env) (o : oname) (i : nat),
    In (IObs o i) (unfold e fit_prog) -> 1 <= i <= e_niter e /\ geval e i (obs_guard o) = true.
Proof. exact gen_observers_guarded. Qed.
Print Assumptions C11_src_observers_guarded.

(** Removing the observer calls from the unfolded run leaves, event for event, the run without an output manager. *)
Theorem C11_src_observers_erased :
  forall (e e' : env), same_algorithm e e' -> e_lflag e' LHasManager = false ->
    filter is_alg (unfold e fit_prog) = unfold e' fit_prog.
Proof. exact gen_observers_erased. Qed.
Print Assumptions C11_src_observers_erased.

(** What one read-only observer call leaves behind: the three generator positions (no draw, no re-seeding), the model's state
    pointer, the algorithm's registers and operation log and the number of State objects are unchanged. *)
Theorem C11_src_observer_frame :
  forall (V : Type) sread swrite sclone tracked tape seed_pos (o : list (ev V)) (c c' : cfg V),
    read_only V o = true -> run_obs V sread swrite sclone tracked tape seed_pos o c = Some c' ->
    cPos c' = cPos c /\ cCur c' = cCur c /\ cRegs c' = cRegs c /\ cLog c' = cLog c /\ length (cS c') = length (cS c).
Proof. exact observer_frame. Qed.
Print Assumptions C11_src_observer_frame.

(** Non-vacuity on the memo table: a configuration with printing every 2 and saving every iteration meets the hypotheses,
    6 observer calls are reached among 40 named events, the logged run finishes and equals the run with logging off; and the
    shape check does refuse the mutations it is there for (temperature update / a seed under the output-manager test, a
    shuffle that tests the output manager, an unguarded observer call, a print under the save periodicity). *)
Theorem C11_src_example :
  (e_aflag GenDemo.e1 FSeedSet = true /\ same_algorithm GenDemo.e1 (logging_off GenDemo.e1)
   /\ e_lflag (logging_off GenDemo.e1) LHasManager = false /\ (forall o i, read_only Memo.V (GenDemo.oi1 o i) = true))
  /\ (filter is_obs (unfold GenDemo.e1 fit_prog)
      = [IObs OSave 1; IObs OPrintAlgo 2; IObs OPrintModel 2; IObs OPrintTime 2; IObs OSave 2; IObs OSave 3]
      /\ length (unfold GenDemo.e1 fit_prog) = 40 /\ length (unfold (logging_off GenDemo.e1) fit_prog) = 34)
  /\ (Memo.final_view (GenDemo.run GenDemo.e1) = Memo.final_view (GenDemo.run (logging_off GenDemo.e1))
      /\ Memo.final_view (GenDemo.run GenDemo.e1) <> None)
  /\ (well_shaped GenDemo.temperature_under_guard = false /\ well_shaped GenDemo.seed_in_observer_branch = false
      /\ well_shaped GenDemo.order_depends_on_logging = false /\ well_shaped GenDemo.unguarded_observer = false
      /\ (well_shaped GenDemo.wrong_period = true /\ guards_ok GenDemo.wrong_period = false)).
Proof. exact (conj GenDemo.hypotheses_hold (conj GenDemo.observers_run (conj GenDemo.logged_equals_plain GenDemo.mutants_refused))). Qed.
Print Assumptions C11_src_example.

(* ====================================================================== the observers' methods, read from the source
   (extension ext5-c11-observers; Api/ObserverSrc*.v, coq/gen/GenC11Obs.v regenerated by harness/translate/c11_observers.py).
   [gen_observer_ops o] = the abstract operations the method [o] of the output manager performs, every statement of the method
   and of what it reaches classified from the source.  The hypothesis "every observer script is [read_only]" becomes
   "every observer script consists of events of the kinds of those operations" ([realises]); [read_only] itself is PROVED, by
   [vm_compute] on the regenerated lists ([ops_allowed]). *)
From Leaspy Require Import Api.ObserverSrc Api.ObserverSrcProofs Api.ObserverSrcTie.
From LeaspyGen Require Import GenC11Obs.

(** Every script made of events of the kinds read from the source (reads of the model's State, [State.save], clones and
    anything on the clones; an own-register write is no event) is [read_only]. *)
Theorem C11_src_observers_read_only_from_source :
  forall (V : Type) (oi : oname -> nat -> list (ev V)),
    (forall o i, realises V (gen_observer_ops o) (oi o i) = true) -> forall o i, read_only V (oi o i) = true.
Proof. exact gen_observers_read_only. Qed.
Print Assumptions C11_src_observers_read_only_from_source.

(** [C11_src_logging_transparent] with its [read_only] hypothesis discharged from the source. *)
Theorem C11_src_logging_transparent_observers_from_source :
  forall (V : Type) sread swrite sclone tracked tape seed_pos anc indep simOn,
    state_interface V sread swrite sclone anc indep simOn ->
    forall (seed : nat) (interp : aname -> nat -> nat -> list (ev V)) (oi oi' : oname -> nat -> list (ev V))
           (base : nat) (e e' : env) (c c1 : cfg V),
      e_aflag e FSeedSet = true -> same_algorithm e e' -> e_lflag e' LHasManager = false ->
      wf_cfg V simOn c -> (forall o i, realises V (gen_observer_ops o) (oi o i) = true) ->
      run_prog V sread swrite sclone tracked tape seed_pos seed interp oi base e fit_prog c = Some c1 ->
      exists c2, run_prog V sread swrite sclone tracked tape seed_pos seed interp oi' base e' fit_prog c = Some c2
                 /\ same_results V sread c1 c2.
Proof. exact gen_logging_transparent_observers_from_source. Qed.
Print Assumptions C11_src_logging_transparent_observers_from_source.

(** No hypothesis on the observers left: for EVERY reading of the names (which variables a name denotes at each call, which
    variables a model-level reader reads, what is assigned on a clone) the scripts [src_observers] built from the generated
    operation lists are transparent. *)
Theorem C11_src_logging_transparent_canonical_observers :
  forall (V : Type) sread swrite sclone tracked tape seed_pos anc indep simOn,
    state_interface V sread swrite sclone anc indep simOn ->
    forall vars mv w (seed : nat) (interp : aname -> nat -> nat -> list (ev V)) (oi' : oname -> nat -> list (ev V))
           (base : nat) (e e' : env) (c c1 : cfg V),
      e_aflag e FSeedSet = true -> same_algorithm e e' -> e_lflag e' LHasManager = false ->
      wf_cfg V simOn c ->
      run_prog V sread swrite sclone tracked tape seed_pos seed interp (src_observers V vars mv w) base e fit_prog c = Some c1 ->
      exists c2, run_prog V sread swrite sclone tracked tape seed_pos seed interp oi' base e' fit_prog c = Some c2
                 /\ same_results V sread c1 c2.
Proof. exact gen_logging_transparent_canonical_observers. Qed.
Print Assumptions C11_src_logging_transparent_canonical_observers.

(** What one observer call read from the source leaves behind (C11_src_observer_frame without its [read_only] hypothesis). *)
Theorem C11_src_observer_frame_from_source :
  forall (V : Type) sread swrite sclone tracked tape seed_pos (o : oname) (s : list (ev V)) (c c' : cfg V),
    realises V (gen_observer_ops o) s = true -> run_obs V sread swrite sclone tracked tape seed_pos s c = Some c' ->
    cPos c' = cPos c /\ cCur c' = cCur c /\ cRegs c' = cRegs c /\ cLog c' = cLog c /\ length (cS c') = length (cS c).
Proof. exact gen_observer_frame_from_source. Qed.
Print Assumptions C11_src_observer_frame_from_source.

(** The classification is not vacuous: every forbidden operation kind the event model can express (assignment on the model's
    State, replacement of the model's State, draw, re-seeding) has a realisation that [read_only] rejects. *)
Theorem C11_src_forbidden_observer_op_refuted :
  forall (V : Type) (op : obs_op), op_allowed op = false -> op <> OWriteAlgo ->
    exists e : ev V, ev_of_op V op e = true /\ read_only_ev V e = false.
Proof. exact forbidden_op_not_read_only. Qed.
Print Assumptions C11_src_forbidden_observer_op_refuted.

(** Non-vacuity: a plot-patient-like list is allowed, its realisation reads the model's State, clones and assigns on the
    clone; the three mutations (algorithm register, State assignment, draw) are refused; on [Memo] the scripts built from
    the GENERATED lists contain events, and the logged run equals the plain one. *)
Theorem C11_src_observer_ops_example :
  (ops_allowed ObsDemo.plot_patient = true
   /\ read_only nat (den nat ObsDemo.vars [2] (fun _ => Some 7) ObsDemo.plot_patient) = true)
  /\ (ops_allowed ObsDemo.mut_algo = false /\ ops_allowed ObsDemo.mut_state = false /\ ops_allowed ObsDemo.mut_draw = false
      /\ read_only nat (den nat ObsDemo.vars [2] (fun _ => Some 7) ObsDemo.mut_state) = false
      /\ read_only nat (den nat ObsDemo.vars [2] (fun _ => Some 7) ObsDemo.mut_draw) = false)
  /\ negb (Nat.eqb (length (flat_map (fun o => GenObsDemo.oi_src o 1) all_onames)) 0) = true
  /\ (Memo.final_view (GenObsDemo.run GenDemo.e1) = Memo.final_view (GenObsDemo.run (logging_off GenDemo.e1))
      /\ Memo.final_view (GenObsDemo.run GenDemo.e1) <> None).
Proof.
  exact (conj (conj ObsDemo.allowed ObsDemo.read_only_holds)
              (conj ObsDemo.mutants_refused (conj GenObsDemo.observers_do_something GenObsDemo.logged_equals_plain))).
Qed.
Print Assumptions C11_src_observer_ops_example.

(* ====================================================================== on the REAL State model (Compose/)
   The hypothesis [state_interface] of C11_logging_transparent is discharged: the store cell of Api/ApiModel.v is instantiated
   with the `_values` dictionary of a State object of State/StateModel.v ([abs]), its operations with State.__getitem__ /
   __setitem__ / clone of the model of the code as it is ([r_read] / [r_write] / [r_clone] = [get_state] / [set_now] /
   [clone_state], C11_cell_is_state_object), and the ten interface facts are PROVED from the C01 lemmas for every graph with
   [WF g] (C15 delivers [WF] for every input graph).  "The configuration is well-formed" becomes "its cells are State
   objects of a store reachable from [init_store] by any history meeting the documented precondition of partial reverts"
   ([RealCfg c] := exists S ix, [Reach S] /\ [RepI S ix (cS c)]; [Reach] is the hypothesis of C01_never_stale).
   [F_mix g sm] (C07's locality; C02_F_mix_entrywise) is only used because that PAST history may contain partial reverts. *)
From Leaspy Require Import State.StateModel State.StateNow Compose.StateApi Compose.StateApiProofs Compose.StateApiRunProofs
                           Compose.ApiOnStateProofs Compose.ComposeExamples State.StateExec Compose.RunProgOnState
                           Compose.ObserverSrcOnState.

(** The interface every C11 / C13 theorem assumes holds of the real State model, for every well-formed graph. *)
Theorem C11_state_interface_discharged :
  forall (V : Type) (g : graph V), WF g ->
    state_interface V (r_read V g) (r_write V g) (r_clone V g) (r_anc V g) (r_indep V g) (r_simOn V g).
Proof. exact real_state_interface. Qed.
Print Assumptions C11_state_interface_discharged.

(** An API store cell IS a State object seen through its `_values`: the three operations commute with [abs], whatever the
    undo log and the fork mode of the object. *)
Theorem C11_cell_is_state_object :
  forall (V : Type) (g : graph V) (s : state V), Bounded g (values s) ->
    (forall i, r_read V g (abs V g s) i = (abs V g (fst (get_state g s i)), out_opt V (snd (get_state g s i)))) /\
    (forall i o, r_write V g (abs V g s) i o = abs V g (fst (set_now g s i o))) /\
    (forall d kp, r_clone V g (abs V g s) = abs V g (clone_state s d kp)).
Proof. exact cell_is_state_object. Qed.
Print Assumptions C11_cell_is_state_object.

(** Every State object of every reachable store is a consistent cache (C01 invariant + hyper-parameters in place). *)
Theorem C11_reachable_states_consistent :
  forall (V M IX : Type) (g : graph V) (sm : sem V M IX), WF g -> F_mix g sm ->
  forall (S : StateModel.store V) (k : nat) (s : state V),
    Reach V g M IX sm S -> nth_error S k = Some s ->
    Good g s /\ Cache V g (abs V g s) /\ r_simOn V g top (abs V g s) (abs V g s).
Proof. exact reach_cache. Qed.
Print Assumptions C11_reachable_states_consistent.

(** Logging is transparent on the real State model: no interface hypothesis left.  Both outcomes again consist of
    reachable State objects. *)
Theorem C11_logging_transparent_state :
  forall (V M IX : Type) (g : graph V) (sm : sem V M IX), WF g -> F_mix g sm ->
  forall tracked tape seed_pos (base seed : nat) (init : list (ev V)) (iters : list (list (ev V))) (fin : list (ev V))
         (sched : nat -> list (list (ev V))) (c c1 : cfg V),
    RealCfg V M IX g sm c ->
    (forall i o, In o (sched i) -> read_only V o = true) ->
    fit_run V (r_read V g) (r_write V g) (r_clone V g) tracked tape seed_pos base seed init iters fin sched c = Some c1 ->
    exists c2,
      fit_run V (r_read V g) (r_write V g) (r_clone V g) tracked tape seed_pos base seed init iters fin (no_observers V) c = Some c2
      /\ same_results V (r_read V g) c1 c2 /\ RealCfg V M IX g sm c1 /\ RealCfg V M IX g sm c2.
Proof. exact logging_transparent_state. Qed.
Print Assumptions C11_logging_transparent_state.

(** [C11_src_logging_transparent] on the real State model: for the program regenerated from the source, over State objects
    reachable from [init_store]; no interface hypothesis left. *)
Theorem C11_src_logging_transparent_state :
  forall (V M IX : Type) (g : graph V) (sm : sem V M IX), WF g -> F_mix g sm ->
  forall tracked tape seed_pos (seed : nat) (interp : aname -> nat -> nat -> list (ev V)) (oi oi' : oname -> nat -> list (ev V))
         (base : nat) (e e' : env) (c c1 : cfg V),
    e_aflag e FSeedSet = true -> same_algorithm e e' -> e_lflag e' LHasManager = false ->
    RealCfg V M IX g sm c -> (forall o i, read_only V (oi o i) = true) ->
    run_prog V (r_read V g) (r_write V g) (r_clone V g) tracked tape seed_pos seed interp oi base e fit_prog c = Some c1 ->
    exists c2,
      run_prog V (r_read V g) (r_write V g) (r_clone V g) tracked tape seed_pos seed interp oi' base e' fit_prog c = Some c2
      /\ same_results V (r_read V g) c1 c2 /\ RealCfg V M IX g sm c1 /\ RealCfg V M IX g sm c2.
Proof. exact gen_logging_transparent_state. Qed.
Print Assumptions C11_src_logging_transparent_state.

(** The same with the observers' [read_only] hypothesis discharged from the source (coq/gen/GenC11Obs.v): the only thing still
    assumed of the observer scripts is that their events are of the kinds of the operations read from the methods. *)
Theorem C11_src_logging_transparent_state_observers_from_source :
  forall (V M IX : Type) (g : graph V) (sm : sem V M IX), WF g -> F_mix g sm ->
  forall tracked tape seed_pos (seed : nat) (interp : aname -> nat -> nat -> list (ev V)) (oi oi' : oname -> nat -> list (ev V))
         (base : nat) (e e' : env) (c c1 : cfg V),
    e_aflag e FSeedSet = true -> same_algorithm e e' -> e_lflag e' LHasManager = false ->
    RealCfg V M IX g sm c -> (forall o i, realises V (gen_observer_ops o) (oi o i) = true) ->
    run_prog V (r_read V g) (r_write V g) (r_clone V g) tracked tape seed_pos seed interp oi base e fit_prog c = Some c1 ->
    exists c2,
      run_prog V (r_read V g) (r_write V g) (r_clone V g) tracked tape seed_pos seed interp oi' base e' fit_prog c = Some c2
      /\ same_results V (r_read V g) c1 c2 /\ RealCfg V M IX g sm c1 /\ RealCfg V M IX g sm c2.
Proof. exact gen_logging_transparent_state_observers_from_source. Qed.
Print Assumptions C11_src_logging_transparent_state_observers_from_source.

(** A whole fit (logged or not) on the API model IS one history of State-model operations — without any partial revert —
    on the store of State objects, and the API store keeps representing that store (the clones observers made stay behind
    as unreachable objects). *)
Theorem C11_fit_is_state_history :
  forall (V M IX : Type) (g : graph V) (sm : sem V M IX), WF g -> F_mix g sm ->
  forall tracked tape seed_pos (d : bool) (base seed : nat) init iters fin sched (c c' : cfg V) (S : StateModel.store V) (ix : list nat),
    RepI V g S ix (cS c) -> StateProofs.AllGood V g S ->
    fit_run V (r_read V g) (r_write V g) (r_clone V g) tracked tape seed_pos base seed init iters fin sched c = Some c' ->
    exists ops ix', forallb (@no_partial_revert V M IX) ops = true /\
      RepI V g (fst (run_now g sm S ops)) ix' (cS c') /\ (exists new, ix' = ix ++ new).
Proof. exact fit_run_refines. Qed.
Print Assumptions C11_fit_is_state_history.

(** Non-vacuity on a 7-node graph (hyper-parameter, parameter, population variable, individual variable, three derived
    nodes) after a 14-operation past with a partial revert and a clone: hypotheses hold; an observer refills the cache an
    assignment emptied (None -> 116); the logged fit finishes and equals the plain one. *)
Theorem C11_state_example :
  WF Demo.g /\ F_mix Demo.g Demo.sm /\ RealCfg xval (list bool) nat Demo.g Demo.sm Demo.c0 /\
  (forall i o, In o (Demo.sched1 i) -> read_only xval o = true) /\
  (Demo.final_view (Demo.a_fit_run 2 3 [] [Demo.iter1; Demo.iter1; Demo.iter1] Demo.fin1 Demo.sched1 Demo.c0)
   = Demo.final_view (Demo.a_fit_run 2 3 [] [Demo.iter1; Demo.iter1; Demo.iter1] Demo.fin1 (no_observers xval) Demo.c0)
   /\ Demo.final_view (Demo.a_fit_run 2 3 [] [Demo.iter1; Demo.iter1; Demo.iter1] Demo.fin1 Demo.sched1 Demo.c0) <> None).
Proof. exact (conj Demo.g_wf (conj Demo.g_fmix (conj Demo.c0_real (conj Demo.observers_are_read_only Demo.logged_equals_plain)))). Qed.
Print Assumptions C11_state_example.
